#!/venv/bin/python
"""Build pipeline shared by setup.sh and ./check.

  build.py --all          regenerate tables, build every .vo, extract, link
  (as a library)          prepare(); make([...]); link(); props(pid)
"""
import fcntl, glob, os, re, subprocess, sys, time

HERE = os.path.dirname(os.path.abspath(__file__))
ROOT = os.path.dirname(HERE)
COQ = os.path.join(ROOT, 'coq')
sys.path.insert(0, HERE)
import gen_tables  # noqa: E402

JOBS = str(os.cpu_count() or 8)
FORBIDDEN = re.compile(r'\b(Admitted|admit|Axiom|Axioms|Parameter|Parameters|Conjecture|Conjectures|'
                       r'Admit\s+Obligations|bypass_check|native_compute)\b|Unset\s+Guard|'
                       r'Unset\s+Positivity|Unset\s+Universe|type-in-type|impredicative-set')
# axioms of the standard library that a property theorem may depend on (named in DESIGN.md §4)
AXIOM_WHITELIST = {
    'functional_extensionality_dep', 'Coq.Logic.FunctionalExtensionality.functional_extensionality_dep',
    'classic', 'Coq.Logic.Classical_Prop.classic', 'proof_irrelevance', 'Eqdep.Eq_rect_eq.eq_rect_eq',
    'JMeq_eq',
}


class Lock:
    def __enter__(self):
        self.f = open(os.path.join(ROOT, '.build.lock'), 'w')
        fcntl.flock(self.f, fcntl.LOCK_EX)
        return self

    def __exit__(self, *a):
        fcntl.flock(self.f, fcntl.LOCK_UN)
        self.f.close()


def pids():
    return sorted(os.path.basename(os.path.dirname(p)) for p in glob.glob(os.path.join(COQ, 'C[0-9][0-9]', 'Model.v')))


def strip_comments(text):
    out, depth, i = [], 0, 0
    while i < len(text):
        if text.startswith('(*', i):
            depth += 1; i += 2
        elif text.startswith('*)', i) and depth:
            depth -= 1; i += 2
        else:
            if not depth:
                out.append(text[i])
            i += 1
    return ''.join(out)


def grep_gate(files=None):
    """returns list of 'file:line: text' hits of forbidden vernacular"""
    hits = []
    for p in files or glob.glob(os.path.join(COQ, '**', '*.v'), recursive=True):
        if os.sep + 'gen' + os.sep in p and False:
            continue
        text = strip_comments(open(p, encoding='utf-8').read())
        sections = []
        for n, line in enumerate(text.split('\n'), 1):
            if FORBIDDEN.search(line):
                hits.append('%s:%d: %s' % (os.path.relpath(p, ROOT), n, line.strip()))
            # a Variable / Hypothesis / Context outside a Section declares an axiom
            for m in re.finditer(r'\b(Section|End)\s+(\w+)\s*\.|\b(Variables?|Hypothes[ie]s|Context)\b', line):
                if m.group(1) == 'Section':
                    sections.append(m.group(2))
                elif m.group(1) == 'End':
                    if sections and sections[-1] == m.group(2):
                        sections.pop()
                elif not sections:
                    hits.append('%s:%d: %s outside a Section: %s' % (os.path.relpath(p, ROOT), n, m.group(3), line.strip()))
    return hits


def write_if_changed(path, content):
    return gen_tables.write_if_changed(path, content)


def prepare(table_ids=None):
    """tables + project files.  Requested tables (None = all) are regenerated fail-closed
    (Shape propagates); the others are only created when missing, so that one property's
    source change never disturbs another property's build.  returns the gen_tables dict."""
    tables = gen_tables.generate(table_ids)
    if table_ids is not None:
        gen_tables._load_tables()
        for tid in sorted(gen_tables.GENERATORS):
            if tid not in tables and not os.path.exists(os.path.join(COQ, 'gen', tid + '.v')):
                try:
                    gen_tables.generate([tid])
                except gen_tables.Shape:
                    pass
    dirs = ['Base', 'gen'] + pids()
    proj = ''.join('-Q %s %s\n' % (d, d) for d in dirs + ['Ext'])
    vfiles = []
    for d in dirs:
        vfiles += sorted(os.path.relpath(p, COQ) for p in glob.glob(os.path.join(COQ, d, '*.v')))
    os.makedirs(os.path.join(COQ, 'Ext'), exist_ok=True)
    for p in pids():
        ext = ('Require Import ExtrOcamlBasic.\nRequire %s.Model.\nDefinition run_%s := %s.Model.run.\n'
               'Extraction "modelrun_%s.ml" run_%s.\n' % (p, p, p, p, p))
        write_if_changed(os.path.join(COQ, 'Ext', 'Extract_%s.v' % p), ext)
        vfiles.append('Ext/Extract_%s.v' % p)
    for f in glob.glob(os.path.join(COQ, 'Ext', '*.v')):
        if os.path.relpath(f, COQ) not in vfiles:
            os.remove(f)
    proj += ''.join(f + '\n' for f in vfiles)
    if write_if_changed(os.path.join(COQ, '_CoqProject'), proj) or not os.path.exists(os.path.join(COQ, 'Makefile')):
        subprocess.run(['coq_makefile', '-f', '_CoqProject', '-o', 'Makefile'], cwd=COQ, check=True,
                       stdout=subprocess.DEVNULL, stderr=subprocess.DEVNULL)
    return tables


def make(targets, timeout=1500):
    """returns (ok, log).  Full .vo build, never -vos."""
    cmd = ['timeout', str(timeout), 'make', '-j' + JOBS, '-k'] + list(targets)
    p = subprocess.run(cmd, cwd=COQ, stdout=subprocess.PIPE, stderr=subprocess.STDOUT, text=True)
    return p.returncode == 0, p.stdout


def exe(pid):
    return os.path.join(COQ, 'bin', 'modelrun_' + pid)


def link(pid):
    """one binary per property: coq/bin/modelrun_Cnn"""
    ml = os.path.join(COQ, 'modelrun_%s.ml' % pid)
    out = exe(pid)
    main = os.path.join(COQ, 'driver', 'main.ml')
    if not os.path.exists(ml):
        return False, 'no extracted file ' + ml
    if os.path.exists(out) and all(os.path.getmtime(out) >= os.path.getmtime(x) for x in (ml, main)):
        return True, ''
    bdir = os.path.join(COQ, '_ocaml', pid)
    os.makedirs(bdir, exist_ok=True)
    os.makedirs(os.path.dirname(out), exist_ok=True)
    import shutil
    shutil.copy(ml, os.path.join(bdir, 'modelrun_gen.ml'))
    shutil.copy(ml + 'i', os.path.join(bdir, 'modelrun_gen.mli'))
    shutil.copy(main, bdir)
    with open(os.path.join(bdir, 'dispatch.ml'), 'w') as f:
        f.write('open Modelrun_gen\nlet table = [("%s", run_%s)]\n' % (pid, pid))
    p = subprocess.run(['ocamlfind', 'ocamlopt', '-w', '-a', 'modelrun_gen.mli', 'modelrun_gen.ml',
                        'dispatch.ml', 'main.ml', '-o', out], cwd=bdir,
                       stdout=subprocess.PIPE, stderr=subprocess.STDOUT, text=True)
    return p.returncode == 0, p.stdout


def coq_flags():
    return [w for line in open(os.path.join(COQ, '_CoqProject')) if line.startswith('-Q') for w in line.split()]


def props(pid, timeout=600):
    """(re)compile Cnn/Props.v, parse Print Assumptions.
    returns dict(ok, theorems=[{name, closed, axioms}], log)"""
    path = os.path.join(COQ, pid, 'Props.v')
    text = strip_comments(open(path, encoding='utf-8').read())
    names = re.findall(r'^\s*Theorem\s+(\w+)', text, re.M)
    printed = re.findall(r'Print\s+Assumptions\s+(\w+)\s*\.', text)
    p = subprocess.run(['timeout', str(timeout), 'coqc'] + coq_flags() + [os.path.join(pid, 'Props.v')], cwd=COQ,
                       stdout=subprocess.PIPE, stderr=subprocess.STDOUT, text=True)
    log = p.stdout
    res = {'ok': p.returncode == 0, 'log': log, 'theorems': [], 'declared': names}
    if p.returncode != 0:
        return res
    if set(names) != set(printed):
        res['ok'] = False
        res['log'] += '\nProps.v: every Theorem needs its Print Assumptions (missing: %s)' % (set(names) ^ set(printed))
        return res
    blocks = re.split(r'(?=^Closed under the global context|^Axioms:)', log, flags=re.M)
    blocks = [b for b in blocks if b.startswith('Closed under') or b.startswith('Axioms:')]
    if len(blocks) != len(printed):
        res['ok'] = False
        res['log'] += '\nexpected %d Print Assumptions blocks, got %d' % (len(printed), len(blocks))
        return res
    for name, b in zip(printed, blocks):
        if b.startswith('Closed'):
            res['theorems'].append({'name': name, 'closed': True, 'axioms': []})
        else:
            ax = re.findall(r'^([\w.]+)\s*:', b, re.M)
            bad = [a for a in ax if a not in AXIOM_WHITELIST and a.split('.')[-1] not in AXIOM_WHITELIST]
            res['theorems'].append({'name': name, 'closed': False, 'axioms': ax})
            if bad:
                res['ok'] = False
                res['log'] += '\n%s depends on non-whitelisted axioms %s' % (name, bad)
    return res


def table_closure(pid, table_ids=None):
    """the tables a property's Coq files depend on, directly or through another property's files they import
    (C02 imports C04.Model, which computes on gen.T04): all of them must be regenerated from the current source"""
    want, seen, todo = set(table_ids or []), set(), [pid]
    while todo:
        q = todo.pop()
        if q in seen:
            continue
        seen.add(q)
        for f in glob.glob(os.path.join(COQ, q, '*.v')):
            text = strip_comments(open(f, encoding='utf-8').read())
            want.update(re.findall(r'\bgen\.(T\d\d)\b', text))
            for m in re.finditer(r'\b(C\d\d)\.[A-Z]\w*', text):
                if m.group(1) not in seen:
                    todo.append(m.group(1))
    gen_tables._load_tables()
    return sorted(t for t in want if t in gen_tables.GENERATORS)


def build_for(pid, table_ids=None):
    """everything ./check needs for one property.
    returns dict(tables, coq_ok, model_ok, props, log, gate)"""
    out = {'tables': None, 'shape_error': None, 'model_ok': False, 'lemmas_ok': False, 'props': None, 'log': '', 'gate': []}
    with Lock():
        try:
            out['tables'] = prepare(table_closure(pid, table_ids) if table_ids is not None else None)
        except gen_tables.Shape as e:
            out['shape_error'] = str(e)
            out['log'] = 'gen_tables shape error: %s' % e
            # the stale tables stay; model may still build from them
        ext = 'Ext/Extract_%s.vo' % pid
        ok, log = make([ext])
        if not ok:      # a stale dependency file after new .v files appeared: regenerate and retry once
            subprocess.run(['coq_makefile', '-f', '_CoqProject', '-o', 'Makefile'], cwd=COQ,
                           stdout=subprocess.DEVNULL, stderr=subprocess.DEVNULL)
            ok, log2 = make([ext])
            log += log2
        out['log'] += log[-4000:]
        out['model_log'] = log[-3000:]
        if ok:
            ok2, log2 = link(pid)
            out['model_ok'] = ok2
            out['log'] += log2[-2000:]
            out['model_log'] = out.get('model_log', '') + log2[-2000:]
        deps = [pid + '/Props.vo'] if os.path.exists(os.path.join(COQ, pid, 'Props.v')) else []
        ok3, log3 = make(deps) if deps else (True, '')
        out['lemmas_ok'] = ok3
        out['log'] += log3[-6000:]
        out['gate'] = grep_gate()
        if ok3 and os.path.exists(os.path.join(COQ, pid, 'Props.v')):
            out['props'] = props(pid)
        else:
            out['props'] = {'ok': False, 'log': log3[-6000:], 'theorems': [], 'declared': []}
    return out


def main():
    t0 = time.time()
    bad = []
    with Lock():
        gen_tables._load_tables()
        for tid in sorted(gen_tables.GENERATORS):
            try:
                r = gen_tables.generate([tid])
                print('table', tid, r[tid]['sha'], 'changed' if r[tid]['changed'] else 'same')
            except gen_tables.Shape as e:
                print('SHAPE ERROR', tid, e)
                bad.append(tid)
        prepare([])
        ok, log = make(['all'])
        print(log[-3000:])
        if not ok:
            print('make failed (some targets)')
        from concurrent.futures import ThreadPoolExecutor
        with ThreadPoolExecutor(8) as ex:
            res = list(ex.map(lambda p: (p,) + link(p), pids()))
        for p, ok2, log2 in res:
            if not ok2:
                print('link failed', p, log2[-500:])
                bad.append(p)
        hits = grep_gate()
        for h in hits:
            print('GATE', h)
    good = ok and not bad and not hits
    print('setup %s in %.1fs' % ('ok' if good else 'FAILED', time.time() - t0))
    return 0 if good else 1


if __name__ == '__main__':
    sys.exit(main())
