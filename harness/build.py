#!/venv/bin/python
"""Build pipeline shared by setup.sh and ./check.

  build.py --all          regenerate tables, build every .vo, extract, link
  (as a library)          prepare(); make([...]); link(); props(pid)
"""
import fcntl, glob, os, re, subprocess, sys, time

HERE = os.path.dirname(os.path.abspath(__file__))
ROOT = os.path.dirname(HERE)
COQ = os.path.join(ROOT, 'coq')
sys.path.insert(0, HERE)
import gen_tables  # noqa: E402

JOBS = str(os.cpu_count() or 8)
FORBIDDEN = re.compile(r'\b(Admitted|admit|Axiom|Axioms|Parameter|Parameters|Conjecture|Conjectures|'
                       r'Admit\s+Obligations|bypass_check|native_compute)\b|Unset\s+Guard|'
                       r'Unset\s+Positivity|Unset\s+Universe|type-in-type|impredicative-set')
# axioms of the standard library that a property theorem may depend on (named in DESIGN.md §4)
AXIOM_WHITELIST = {
    'functional_extensionality_dep', 'Coq.Logic.FunctionalExtensionality.functional_extensionality_dep',
    'classic', 'Coq.Logic.Classical_Prop.classic', 'proof_irrelevance', 'Eqdep.Eq_rect_eq.eq_rect_eq',
    'JMeq_eq',
}


class Lock:
    def __enter__(self):
        self.f = open(os.path.join(ROOT, '.build.lock'), 'w')
        fcntl.flock(self.f, fcntl.LOCK_EX)
        return self

    def __exit__(self, *a):
        fcntl.flock(self.f, fcntl.LOCK_UN)
        self.f.close()


def pids():
    return sorted(os.path.basename(os.path.dirname(p)) for p in glob.glob(os.path.join(COQ, 'C[0-9][0-9]', 'Model.v')))


def strip_comments(text):
    out, depth, i = [], 0, 0
    while i < len(text):
        if text.startswith('(*', i):
            depth += 1; i += 2
        elif text.startswith('*)', i) and depth:
            depth -= 1; i += 2
        else:
            if not depth:
                out.append(text[i])
            i += 1
    return ''.join(out)


def grep_gate(files=None):
    """returns list of 'file:line: text' hits of forbidden vernacular"""
    hits = []
    for p in files or glob.glob(os.path.join(COQ, '**', '*.v'), recursive=True):
        if os.sep + 'gen' + os.sep in p and False:
            continue
        text = strip_comments(open(p, encoding='utf-8').read())
        for n, line in enumerate(text.split('\n'), 1):
            if FORBIDDEN.search(line):
                hits.append('%s:%d: %s' % (os.path.relpath(p, ROOT), n, line.strip()))
    return hits


def write_if_changed(path, content):
    return gen_tables.write_if_changed(path, content)


def prepare(table_ids=None):
    """tables + project files.  returns the gen_tables result dict (or raises Shape)."""
    tables = gen_tables.generate(table_ids)
    dirs = ['Base', 'gen'] + pids()
    proj = ''.join('-Q %s %s\n' % (d, d) for d in dirs + ['Ext'])
    vfiles = []
    for d in dirs:
        vfiles += sorted(os.path.relpath(p, COQ) for p in glob.glob(os.path.join(COQ, d, '*.v')))
    vfiles.append('Ext/Extract.v')
    proj += ''.join(f + '\n' for f in vfiles)
    os.makedirs(os.path.join(COQ, 'Ext'), exist_ok=True)
    ext = 'Require Import ExtrOcamlBasic.\n'
    for p in pids():
        ext += 'Require %s.Model.\nDefinition run_%s := %s.Model.run.\n' % (p, p, p)
    ext += 'Extraction "modelrun_gen.ml" %s.\n' % ' '.join('run_' + p for p in pids())
    write_if_changed(os.path.join(COQ, 'Ext', 'Extract.v'), ext)
    disp = 'open Modelrun_gen\nlet table = [%s]\n' % '; '.join('("%s", run_%s)' % (p, p) for p in pids())
    write_if_changed(os.path.join(COQ, 'driver', 'dispatch.ml'), disp)
    if write_if_changed(os.path.join(COQ, '_CoqProject'), proj) or not os.path.exists(os.path.join(COQ, 'Makefile')):
        subprocess.run(['coq_makefile', '-f', '_CoqProject', '-o', 'Makefile'], cwd=COQ, check=True,
                       stdout=subprocess.DEVNULL)
    return tables


def make(targets, timeout=1500):
    """returns (ok, log).  Full .vo build, never -vos."""
    cmd = ['timeout', str(timeout), 'make', '-j' + JOBS, '-k'] + list(targets)
    p = subprocess.run(cmd, cwd=COQ, stdout=subprocess.PIPE, stderr=subprocess.STDOUT, text=True)
    return p.returncode == 0, p.stdout


def link():
    ml = os.path.join(COQ, 'modelrun_gen.ml')
    exe = os.path.join(COQ, 'modelrun')
    srcs = [ml, os.path.join(COQ, 'driver', 'dispatch.ml'), os.path.join(COQ, 'driver', 'main.ml')]
    if os.path.exists(exe) and all(os.path.getmtime(exe) >= os.path.getmtime(s) for s in srcs):
        return True, ''
    bdir = os.path.join(COQ, '_ocaml')
    os.makedirs(bdir, exist_ok=True)
    for s in srcs + [ml + 'i']:
        subprocess.run(['cp', s, bdir], check=True)
    p = subprocess.run(['ocamlfind', 'ocamlopt', '-O3', '-w', '-a', '-package', 'str', 'modelrun_gen.mli', 'modelrun_gen.ml',
                        'dispatch.ml', 'main.ml', '-o', exe], cwd=bdir,
                       stdout=subprocess.PIPE, stderr=subprocess.STDOUT, text=True)
    if p.returncode != 0:  # -O3 needs flambda; retry without
        p = subprocess.run(['ocamlfind', 'ocamlopt', '-w', '-a', 'modelrun_gen.mli', 'modelrun_gen.ml',
                            'dispatch.ml', 'main.ml', '-o', exe], cwd=bdir,
                           stdout=subprocess.PIPE, stderr=subprocess.STDOUT, text=True)
    return p.returncode == 0, p.stdout


def coq_flags():
    return [w for line in open(os.path.join(COQ, '_CoqProject')) if line.startswith('-Q') for w in line.split()]


def props(pid, timeout=600):
    """(re)compile Cnn/Props.v, parse Print Assumptions.
    returns dict(ok, theorems=[{name, closed, axioms}], log)"""
    path = os.path.join(COQ, pid, 'Props.v')
    text = strip_comments(open(path, encoding='utf-8').read())
    names = re.findall(r'^\s*Theorem\s+(\w+)', text, re.M)
    printed = re.findall(r'Print\s+Assumptions\s+(\w+)\s*\.', text)
    p = subprocess.run(['timeout', str(timeout), 'coqc'] + coq_flags() + [os.path.join(pid, 'Props.v')], cwd=COQ,
                       stdout=subprocess.PIPE, stderr=subprocess.STDOUT, text=True)
    log = p.stdout
    res = {'ok': p.returncode == 0, 'log': log, 'theorems': [], 'declared': names}
    if p.returncode != 0:
        return res
    if set(names) != set(printed):
        res['ok'] = False
        res['log'] += '\nProps.v: every Theorem needs its Print Assumptions (missing: %s)' % (set(names) ^ set(printed))
        return res
    blocks = re.split(r'(?=^Closed under the global context|^Axioms:)', log, flags=re.M)
    blocks = [b for b in blocks if b.startswith('Closed under') or b.startswith('Axioms:')]
    if len(blocks) != len(printed):
        res['ok'] = False
        res['log'] += '\nexpected %d Print Assumptions blocks, got %d' % (len(printed), len(blocks))
        return res
    for name, b in zip(printed, blocks):
        if b.startswith('Closed'):
            res['theorems'].append({'name': name, 'closed': True, 'axioms': []})
        else:
            ax = re.findall(r'^([\w.]+)\s*:', b, re.M)
            bad = [a for a in ax if a not in AXIOM_WHITELIST and a.split('.')[-1] not in AXIOM_WHITELIST]
            res['theorems'].append({'name': name, 'closed': False, 'axioms': ax})
            if bad:
                res['ok'] = False
                res['log'] += '\n%s depends on non-whitelisted axioms %s' % (name, bad)
    return res


def build_for(pid, table_ids=None):
    """everything ./check needs for one property.
    returns dict(tables, coq_ok, model_ok, props, log, gate)"""
    out = {'tables': None, 'shape_error': None, 'model_ok': False, 'lemmas_ok': False, 'props': None, 'log': '', 'gate': []}
    with Lock():
        try:
            out['tables'] = prepare(table_ids)
        except gen_tables.Shape as e:
            out['shape_error'] = str(e)
            out['log'] = 'gen_tables shape error: %s' % e
            # the stale tables stay; model may still build from them
        ok, log = make(['Ext/Extract.vo'])
        if not ok:      # a stale dependency file after new .v files appeared: regenerate and retry once
            subprocess.run(['coq_makefile', '-f', '_CoqProject', '-o', 'Makefile'], cwd=COQ, stdout=subprocess.DEVNULL)
            ok, log2 = make(['Ext/Extract.vo'])
            log += log2
        out['log'] += log[-4000:]
        out['model_log'] = log[-3000:]
        if ok:
            ok2, log2 = link()
            out['model_ok'] = ok2
            out['log'] += log2[-2000:]
            out['model_log'] = out.get('model_log', '') + log2[-2000:]
        deps = [pid + '/Props.vo'] if os.path.exists(os.path.join(COQ, pid, 'Props.v')) else []
        ok3, log3 = make(deps) if deps else (True, '')
        out['lemmas_ok'] = ok3
        out['log'] += log3[-6000:]
        out['gate'] = grep_gate()
        if ok3 and os.path.exists(os.path.join(COQ, pid, 'Props.v')):
            out['props'] = props(pid)
        else:
            out['props'] = {'ok': False, 'log': log3[-6000:], 'theorems': [], 'declared': []}
    return out


def main():
    t0 = time.time()
    with Lock():
        try:
            tables = prepare()
        except gen_tables.Shape as e:
            print('SHAPE ERROR', e)
            return 3
        for k, v in tables.items():
            print('table', k, v['sha'], 'changed' if v['changed'] else 'same')
        ok, log = make(['all'])
        print(log[-3000:])
        if not ok:
            print('make failed')
        ok2, log2 = link()
        print(log2)
        hits = grep_gate()
        for h in hits:
            print('GATE', h)
    print('setup %s in %.1fs' % ('ok' if ok and ok2 and not hits else 'FAILED', time.time() - t0))
    return 0 if ok and ok2 and not hits else 1


if __name__ == '__main__':
    sys.exit(main())
