"""C06 — every message handed to the network driver is exactly one well-formed line."""
import json, os, sys, threading, time
import re
import boot
from lib import wire

TABLES = ['T05', 'T06']
RULE = ('(a) correspondence: safeArgument/repr on strings over a hostile alphabet (CR LF NUL quotes backslash TAB DEL C1 soft-hyphen, '
        'unassigned, astral, lone surrogate) exhaustive to length 3 + generated; keyword IrcMsg constructor on generated (tags, prefix, command, '
        'args) incl. invalid arguments; callbacks._makeReply on generated (text, to, notice, private, prefixNick, action, error, stripCtcp, six '
        'reply.* configuration values, channel/private/statusmsg origin, msgid tag); message makers with msg=; Irc._truncateMsg on generated '
        'lines (tags, long, multi-byte, malformed); Irc.takeMsg with a label -- each compared with the extracted model.  (b) live bot: every '
        'command of every loadable bundled plugin invoked by an unregistered caller and by a registered non-owner caller holding every other '
        'capability, in channel and in private, with hostile argument lists (quoted \\n \\r \\0 \\x.. escapes, raw CR/NUL, formatting codes, CTCP '
        'delimiters, 600-character ASCII and multi-byte text, nesting, long nick) under rotating reply configurations; plus a harness plugin that '
        'calls irc.reply/irc.error with every keyword combination.  Direct oracle on every message returned by Irc.takeMsg(): str(m) ends with '
        'CR LF, contains no other CR/LF/NUL, encodes to UTF-8, and is at most 512 bytes without its tag section.  non-trivial = distinct input')
TRUSTED = ['_() translation of the two _makeReply literals is the identity (default language); theorems hold for any literal without CR/LF/NUL',
           'irc.isChannel/stripChannelPrefix answers and the reply.* configuration values enter the model as inputs read from the real objects',
           'protocols.irc.strictRfc is off in the model (it only adds asserts); the live run also explores it switched on',
           'the outFilter chain is modelled as arbitrary functions preserving the constructor invariant; plugin outFilters are covered by the inventory and the live run only',
           'harness environment: network (socket.connect/getaddrinfo), subprocess.Popen and the HTTP server thread are disabled so that the run is deterministic']
ASSUMPTIONS = ['world.testing/log.testing off; Python asserts enabled (no -O)', 'owner-only commands are reached only as refusals (callers are not owner)',
               'messages built by plugins with their own IrcMsg(...) calls are covered by the constructor theorem + inventory + live exploration, not by a per-plugin model']
LEVEL_TEXT = ('Coq theorems over an executable Gallina model of isValidArgument/safeArgument (with CPython repr), both keyword branches of IrcMsg.__init__, '
              'privmsg/notice/action, callbacks._makeReply, label insertion + outFilter chain + Irc._truncateMsg in takeMsg and IrcMsg.__str__ (reused from C05): '
              'every message the keyword constructor accepts serialises to exactly one CR LF terminated line without inner CR/LF/NUL, for any reply text and any '
              'reply configuration _makeReply either raises AssertionError or yields such a line, truncation preserves it and bounds the untagged part to 512 '
              'BYTES of UTF-8 for every line, multi-byte text included (full statement since the repair of C06.F19; a line with a lone surrogate now fails inside the firewalled takeMsg and is dropped, which closed C06.F22), the msg= constructor branch is proved unchecked '
              '(witness) and its call sites are pinned by a regenerated inventory.  Tie: regenerated tables (forbidden characters, truncation constants, reply '
              'literals, maker shapes, isprintable ranges, msg= site inventory) + differential run of the extracted model + live exploration of all plugin commands.')
LEVEL_NOTE = ('Trusted: Coq kernel, gen_tables.py, extraction + driver, harness.  Plugin-built messages (own IrcMsg/maker calls) and plugin outFilters other than '
              'Filter.outFilter are covered by the constructor theorem, the inventories and the live exploration only (partial, stated).  NOT modelled / left open: '
              '(1) the keyword constructor checks args only -- line-safe prefix, command and tag keys are hypotheses of C06_ctor_line, discharged by the regenerated '
              'site inventory C06_ctor_sites, not by the code; (2) tag VALUES: escaping removes CR/LF but not NUL, so a server-supplied msgid with NUL reaches the line '
              '(finding C06.F47, refuted theorem); the tag section itself has no length bound (_truncateMsg: "TODO: truncate tags"); (3) IrcMsg.__str__ is modelled without '
              'its _str cache: a message parsed from a raw line (Owner.ircquote, Debug.sendquote: owner only) is sent as typed, LF-terminated, outside the quantifier; (4) CTCP/ACTION '
              'recognition in Filter.outFilter is modelled for the canonical form only; (5) the messages of event handlers (CTCP replies, JOIN/NICK/KICK/INVITE/numerics, SedRegex/'
              'MessageParser/Karma triggers) and of channel-operator commands with the bot opped are explored live, not modelled; (6) the live bot has ONE network, ONE '
              'channel, three callers, default registry except the rotated reply.* values, commands.process forks as in production (in-process only in the SedRegex/trigger section), no network, no '
              'subprocess; owner-only configuration (most `config` variables) is set only where a section says so; (7) strictRfc asserts, Python -O, drivers other than '
              'Socket, and safeArgument on non-str input are outside the model.')
TECHNIQUE = 'Coq proof (induction over strings / invariant over the filter chain) + regenerated tables and inventory + extracted-model differential correspondence + live-bot exploration'
EXPLANATION = 'C06: model of the reply/constructor/truncate pipeline; theorems in coq/C06/Props.v'

MAXB = 512

# ---------------------------------------------------------------- live bot
_BOT = {}


class _Driver:
    def reconnect(self, *a, **k):
        pass

    def die(self):
        pass


def _deny(*a, **k):
    raise OSError(101, 'Network is unreachable (verification harness)')


def bot():
    """one live bot per process: real Irc object, every loadable bundled plugin, harness plugin Vreply"""
    if _BOT:
        return _BOT
    boot.boot()
    import socket, subprocess
    socket.getaddrinfo = _deny
    socket.create_connection = _deny
    socket.socket.connect = _deny
    socket.gethostbyname = _deny
    _orig_popen = subprocess.Popen.__init__

    def _popen(self, *a, **k):
        if _BOT.get('deny_exec'):
            _deny()
        return _orig_popen(self, *a, **k)
    subprocess.Popen.__init__ = _popen
    import warnings
    warnings.simplefilter('ignore')
    import supybot.httpserver as httpserver
    httpserver.startServer = lambda: None
    import supybot.conf as conf, supybot.irclib as irclib, supybot.ircmsgs as ircmsgs, supybot.plugin as plugin
    import supybot.ircdb as ircdb, supybot.ircutils as ircutils, supybot.callbacks as callbacks, supybot.world as world
    import supybot.utils as utils
    utils.web.getUrl = _deny
    utils.web.getUrlFd = _deny
    for name in ('supybot.abuse.flood.command', 'supybot.abuse.flood.command.invalid'):
        _setv(conf, name, False)      # the exploration sends thousands of commands per minute from three hostmasks
    irc = irclib.Irc('test')
    irc.driver = _Driver()
    B = _BOT
    # scripts/supybot sets this attribute at start-up; without it every commands.process user (regexp commands, SedRegex, Math) dies with AttributeError
    world.disableMultiprocessing = False      # production default: a forked child with a timeout
    B.update(irc=irc, conf=conf, ircmsgs=ircmsgs, ircdb=ircdb, ircutils=ircutils, callbacks=callbacks, irclib=irclib, world=world)
    _drain(B)
    names = sorted(n for n in os.listdir(os.path.join(boot.REPO, 'plugins'))
                   if os.path.isdir(os.path.join(boot.REPO, 'plugins', n)) and n[0].isupper())
    first = ['Owner', 'Misc', 'Config', 'User', 'Channel', 'Admin']
    loaded, failed = [], []
    for n in first + [x for x in names if x not in first]:
        try:
            plugin.loadPluginClass(irc, plugin.loadPluginModule(n))
            loaded.append(n)
        except Exception as e:  # not loadable here (missing optional dependency)
            failed.append('%s: %s' % (n, type(e).__name__))
    B['loaded'], B['unloadable'] = loaded, failed

    class Vreply(callbacks.Plugin):
        """harness plugin: replies with its argument using the keyword arguments in Vreply.kw"""
        kw = {}
        how = 'reply'

        def go(self, irc, msg, args):
            """<text>

            replies"""
            text = ' '.join(args)
            getattr(irc, Vreply.how)(text, **Vreply.kw)
    Vreply.__module__ = 'Vreply'
    B['Vreply'] = Vreply
    irc.addCallback(Vreply(irc))
    for l in (':server 001 test :Welcome', ':server 005 test CHANTYPES=#& PREFIX=(ov)@+ STATUSMSG=@+ NICKLEN=30 :are supported',
              ':server 376 test :End of MOTD', ':test!bot@bothost JOIN #test', ':server 353 test = #test :test @alice bob',
              ':server 366 test #test :End of names', ':alice!a@ahost PRIVMSG #test :hello there', ':bob!u@h PRIVMSG #test :hi'):
        irc.feedMsg(ircmsgs.IrcMsg(l))
    u = ircdb.users.newUser()
    u.name = 'alice'
    u.addHostmask('alice!a@ahost')
    for c in ('admin', 'trusted', 'channel', '#test,op', '#test,halfop', '#test,voice', 'scheduler', 'httpserver'):
        u.addCapability(c)
    ircdb.users.setUser(u)
    _drain(B)
    B['conf0'] = {}
    B['snap'] = {n: str(v) for n, v in conf.supybot.getValues(getChildren=True, fullNames=True)}
    return B


HC = {'caller': 'bob', 'where': 'chan', 'text': 'utilities echo hc', 'conf': {}}


def healthy(B):
    return any('hc' in str(m) for m in live_feed(B, HC) if not isinstance(m, Exception))


def restore_registry(B):
    """put back every registry value a command changed (admin callers can run `config`)"""
    conf = B['conf']
    changed = []
    for n, v in conf.supybot.getValues(getChildren=True, fullNames=True):
        old = B['snap'].get(n)
        if old is not None and str(v) != old:
            try:
                v.set(old)
                changed.append(n)
            except Exception:
                pass
    B['conf0'] = {}
    return changed


def _wait_threads(timeout=3.0):
    end = time.time() + timeout
    for t in threading.enumerate():
        if t is threading.current_thread() or t.name == 'MainThread' or t.name.startswith('HTTP'):
            continue
        t.join(max(0.0, end - time.time()))


def _drain(B):
    out = []
    irc = B['irc']
    for _ in range(10000):
        try:
            m = irc.takeMsg()
        except Exception as e:
            out.append(e)
            continue
        if m is None:
            break
        out.append(m)
    return out


def check_out(m):
    """the property text on one message returned by takeMsg(): list of (clause, detail)"""
    if isinstance(m, UnicodeEncodeError):
        # _truncateMsg encodes the line: the message never gets a wire form, takeMsg() raises into the driver instead
        return [('encode', 'takeMsg() raised for a line that cannot be encoded for the socket: %s' % m)]
    if isinstance(m, Exception):
        return []
    bad = []
    try:
        s = str(m)
    except Exception as e:
        return [('line', 'str(msg) raised %r' % e)]
    if not s.endswith('\r\n'):
        bad.append(('line', 'not terminated by CR LF: %r' % s[-40:]))
    body = s[:-2] if s.endswith('\r\n') else s
    for ch, nm in (('\r', 'CR'), ('\n', 'LF'), ('\0', 'NUL')):
        if ch in body:
            bad.append(('line', 'inner %s: %r' % (nm, s[:300])))
            break
    rest = s
    if s.startswith('@') and ' ' in s:
        rest = s.split(' ', 1)[1]
    try:
        nb = len(rest.encode('utf-8'))
    except UnicodeEncodeError as e:
        bad.append(('encode', 'line cannot be encoded for the socket: %s' % e))
        nb = len(rest.encode('utf-8', 'surrogatepass'))
    if nb > MAXB:
        bad.append(('bytes', '%d bytes without tags (%d characters): %r...' % (nb, len(rest), rest[:60])))
    return bad


CONF_KEYS = {'notice': 'supybot.reply.withNotice', 'private': 'supybot.reply.inPrivate', 'prefixNick': 'supybot.reply.withNickPrefix',
             'errNotice': 'supybot.reply.error.withNotice', 'errPrivate': 'supybot.reply.error.inPrivate',
             'noticeWhenPrivate': 'supybot.reply.withNoticeWhenPrivate', 'mores': 'supybot.reply.mores',
             'moresInstant': 'supybot.reply.mores.instant', 'moresLength': 'supybot.reply.mores.length',
             'strictRfc': 'supybot.protocols.irc.strictRfc', 'detailedErrors': 'supybot.reply.error.detailed',
             'noCapability': 'supybot.reply.error.noCapability', 'whenNotCommand': 'supybot.reply.whenNotCommand',
             'experimental': 'supybot.protocols.irc.experimentalExtensions'}
CONF_DEFAULT = {'notice': False, 'private': False, 'prefixNick': True, 'errNotice': False, 'errPrivate': False, 'noticeWhenPrivate': True,
                'mores': True, 'moresInstant': 1, 'moresLength': 0, 'strictRfc': False, 'detailedErrors': False, 'noCapability': False,
                'whenNotCommand': True, 'experimental': False}


def set_conf(B, cfg):
    conf = B['conf']
    full = dict(CONF_DEFAULT)
    full.update(cfg or {})
    for k, v in full.items():
        if B['conf0'].get(k) != v:
            _setv(conf, CONF_KEYS[k], v)
            B['conf0'][k] = v


def _setv(conf, name, v):
    g = conf.supybot
    for part in name.split('.')[1:]:
        g = g.get(part)
    g.setValue(v)


CALLERS = {'bob': 'bob!u@h', 'alice': 'alice!a@ahost',
           'longnick': 'n' * 30 + '!u@' + 'h' * 60}


def heal(B):
    """undo what a previous command may have done to the callers' ability to be answered"""
    ircdb, irc = B['ircdb'], B['irc']
    try:
        ircdb.ignores.hostmasks.clear()
        for ch in list(ircdb.channels.values()) if hasattr(ircdb.channels, 'values') else []:
            ch.lobotomized = False
            ch.ignores.clear()
            ch.bans.clear()
    except Exception:
        pass
    try:
        u = ircdb.users.getUser('alice')
        changed = False
        if 'alice!a@ahost' not in u.hostmasks:
            u.hostmasks.add('alice!a@ahost'); changed = True
        for c in ('admin', 'trusted', '#test,op'):
            if c not in u.capabilities:
                u.capabilities.add(c); changed = True
        if changed:
            ircdb.users.setUser(u)
    except Exception:
        u = ircdb.users.newUser()
        u.name = 'alice'
        u.addHostmask('alice!a@ahost')
        for c in ('admin', 'trusted', 'channel', '#test,op'):
            u.addCapability(c)
        ircdb.users.setUser(u)
    if irc.nick != 'test' or '#test' not in irc.state.channels:
        im = B['ircmsgs']
        irc.feedMsg(im.IrcMsg(':%s NICK test' % irc.prefix)) if irc.nick != 'test' else None
        irc.feedMsg(im.IrcMsg(':test!bot@bothost JOIN #test'))
        irc.feedMsg(im.IrcMsg(':server 353 test = #test :test @alice bob'))
        irc.feedMsg(im.IrcMsg(':server 366 test #test :End of names'))
    irc.zombie = False
    irc.state.capabilities_ack.discard('labeled-response')
    irc.state.capabilities_ack.discard('echo-message')
    irc.state.capabilities_ack.discard('message-tags')


def live_feed(B, inv):
    """feed one invocation {caller, where, text, conf, [vreply]} ; returns the messages the driver would get"""
    irc, ircmsgs = B['irc'], B['ircmsgs']
    set_conf(B, inv.get('conf'))
    if 'vreply' in inv:
        B['Vreply'].kw = dict(inv['vreply'].get('kw', {}))
        B['Vreply'].how = inv['vreply'].get('how', 'reply')
    if inv.get('caps'):
        for c in inv['caps']:
            irc.state.capabilities_ack.add(c)
    prefix = CALLERS[inv['caller']]
    where = inv['where']
    target = {'chan': '#test', 'priv': irc.nick, 'status': '@#test'}[where]
    text = inv['text'] if where == 'priv' else '@' + inv['text']
    line = '%s:%s PRIVMSG %s :%s' % (inv.get('tags', ''), prefix, target, text)
    try:
        m = ircmsgs.IrcMsg(line)
    except Exception:
        return []
    B['deny_exec'] = True
    try:
        irc.feedMsg(m)
    except Exception:
        pass
    _wait_threads()
    B['deny_exec'] = False
    out = _drain(B)
    if inv.get('caps'):
        for c in inv['caps']:
            irc.state.capabilities_ack.discard(c)
    return out


def live_check(B, inv):
    bad = []
    for m in live_feed(B, inv):
        for clause, detail in check_out(m):
            bad.append((clause, detail))
    return bad


HOSTILE = ['"a\\nQUIT :x"', '"a\\rQUIT :x"', '"a\\r\\nQUIT :x"', '"\\0"', '"x\\x0aQUIT"', '"x\\x0d\\x0aPRIVMSG #other :y"', 'a\rQUIT :x',
           'a\0b', '\rQUIT', '\x02bold\x0f \x0304,05col\x03 \x1funder\x16', '\x01ACTION waves\x01', '\x01', '\x01VERSION\x01',
           'A' * 600, 'é' * 300, 'é' * 600, '\U0001f600' * 200, '日本語' * 120, ('woérd ' * 150).strip(),
           '[echo "a\\nb"]', '"[echo \\n]"', '$nick', '$channel', '"\\x01"', '"\\n"', '\\n', '"', "'\\r'", 'x' * 250 + ' ' + 'é' * 250,
           '"' + 'z\\n' * 80 + '"', '#test', '@#test', 'alice', 'bob', 'test', '*!*@*', '1', '0', '-1', 'http://x/\ry', 'a b c', '',
           '--regexp "m/\\n/"', '"\\ud800"', '\ud800', '"\\u0085"', '"\\u2028"', 'on', 'off', 'list', 'add', 'supybot.nick']
BENIGN = ['foo', '#test', 'alice', '1', 'supybot.reply.withNotice', 'x y']


def arglists(rng, n):
    out = []
    for h in rng.sample(HOSTILE, min(n, len(HOSTILE))):
        k = rng.random()
        if k < 0.45:
            out.append(h)
        elif k < 0.75:
            out.append(rng.choice(BENIGN) + ' ' + h)
        elif k < 0.9:
            out.append(h + ' ' + rng.choice(HOSTILE))
        else:
            out.append(rng.choice(BENIGN) + ' ' + rng.choice(BENIGN) + ' ' + h)
    return out


def rand_conf(rng):
    if rng.random() < 0.35:
        return {}
    c = {}
    for k in ('notice', 'private', 'prefixNick', 'errNotice', 'errPrivate', 'noticeWhenPrivate', 'mores', 'detailedErrors', 'noCapability'):
        if rng.random() < 0.3:
            c[k] = not CONF_DEFAULT[k]
    if rng.random() < 0.2:
        c['moresInstant'] = 3
    if rng.random() < 0.15:
        c['moresLength'] = rng.choice([100, 450, 600])
    if rng.random() < 0.1:
        c['strictRfc'] = True
    return c


SKIP_COMMANDS = {('Owner', 'ircquote')}     # excluded by the property text (owner's raw line)


def commands(B):
    """[(plugin, 'command words')] of every loaded plugin"""
    res = []
    for cb in B['irc'].callbacks:
        if not hasattr(cb, 'listCommands'):
            continue
        try:
            names = cb.listCommands()
        except Exception:
            continue
        for c in names:
            if (cb.name(), c) in SKIP_COMMANDS:
                continue
            res.append((cb.name(), c))
    return sorted(set(res))


def _fail(ctx, B, inv, hist, clause, detail, seen, key):
    k = (key, clause)
    seen[k] = seen.get(k, 0) + 1
    if seen[k] > 2:
        return
    # the bot's state (stored topics, notes, aliases ...) may carry the offending text: keep the plugin's history for the replay
    inp = {'op': 'live', 'clause': clause, 'inv': inv, 'history': list(hist)[-400:]}
    mch = re.search(r'\((\d+) characters\)', detail)
    if mch:
        inp['chars'] = int(mch.group(1))      # length in characters of the offending line (without tags)
    ctx.fail(inp, '%s: %s' % (clause, detail))


class _WCtx:
    """what a live worker needs of the runner context"""
    def __init__(self, seed, scale):
        import random, collections
        self.rng = random.Random(seed)
        self.scale = scale
        self.dist = collections.Counter()
        self.hashes = set()
        self.samples = []
        self.failures = []
        self.notes = []

    def case(self, kind, inp, nontrivial=True):
        import hashlib
        self.dist[kind] += 1
        self.hashes.add(hashlib.blake2b(json.dumps(inp, sort_keys=True).encode(), digest_size=8).hexdigest())
        if self.dist[kind] <= 1:
            self.samples.append({'kind': kind, 'input': inp})

    def fail(self, inp, detail, cls=None, kind='direct'):
        self.failures.append({'input': inp, 'detail': detail})


FILTER_SETUPS = [
    ['badwords add foo', 'config plugins.BadWords.stripFormatting False'],
    ['badwords add foo', 'config plugins.BadWords.replaceMethod simple'],
    ['filter outfilter rot13'], ['filter outfilter colorize'], ['filter outfilter reverse'], ['filter outfilter hexlify'],
    ['filter outfilter supa1337'], ['filter outfilter uwu'], ['filter outfilter morse'],
    ['config plugins.ShrinkUrl.outFilter True'], ['config plugins.Google.colorfulFilter True'],
]


def live_plugins(ctx, B, plugins, budget):
    """explore every command of the given plugins on this process's bot"""
    rng = ctx.rng
    cmds = [pc for pc in commands(B) if pc[0] in plugins]
    per = 12 if ctx.scale == 1 else 48
    seen = {}
    silent = total_out = n = 0
    t0 = time.time()
    stop = False
    for p in sorted(plugins):
        hist = []
        for c in [c for pp, c in cmds if pp == p]:
            if time.time() - t0 > budget:
                stop = True
                break
            heal(B)
            ch = restore_registry(B)
            if not healthy(B):
                ctx.notes.append('bot stopped answering before %s %s (registry restored: %s); last: %r' % (p, c, ', '.join(ch[:6]), hist[-2:]))
            for a in arglists(rng, per):
                caller = rng.choice(['bob', 'alice', 'alice', 'longnick'])
                inv = {'caller': caller, 'where': rng.choice(['chan', 'chan', 'priv', 'status']),
                       'text': '%s %s %s' % (p.lower(), c, a), 'conf': rand_conf(rng)}
                ctx.case('live-%s' % caller, inv)
                outs = live_feed(B, inv)
                n += 1
                total_out += len(outs)
                if not outs:
                    silent += 1
                for m in outs:
                    for clause, detail in check_out(m):
                        _fail(ctx, B, inv, hist, clause, detail, seen, (p, c))
                hist.append(inv)
        if stop:
            ctx.notes.append('live exploration of %s stopped by the time budget' % p)
    return {'invocations': n, 'messages': total_out, 'silent': silent}


def live_extra(ctx, B):
    """harness plugin (irc.reply / irc.error with every keyword combination) and the plugin outFilters"""
    rng = ctx.rng
    seen = {}
    heal(B)
    restore_registry(B)
    for how in ('reply', 'error'):
        for kwbits in range(64):
            kw = {}
            if how == 'reply':
                if kwbits & 1: kw['action'] = True
                if kwbits & 2: kw['notice'] = True
                if kwbits & 4: kw['private'] = True
                if kwbits & 8: kw['prefixNick'] = bool(kwbits & 16)
                if kwbits & 32: kw['noLengthCheck'] = True
            else:
                if kwbits & 32: continue
                if kwbits & 1: kw['notice'] = True
                if kwbits & 2: kw['private'] = True
                if kwbits & 4: kw['prefixNick'] = True
                if kwbits & 8: kw['to'] = rng.choice(['bob', '#test', 'a\rb', 'x' * 40])
                if kwbits & 16: kw['action'] = True
            for a in rng.sample(HOSTILE, 8 if ctx.scale == 1 else 30):
                inv = {'caller': rng.choice(['bob', 'alice']), 'where': rng.choice(['chan', 'priv', 'status']),
                       'text': 'vreply go ' + a, 'conf': rand_conf(rng), 'vreply': {'how': how, 'kw': kw}}
                ctx.case('live-reply-api', inv)
                for m in live_feed(B, inv):
                    for clause, detail in check_out(m):
                        _fail(ctx, B, inv, [], clause, detail, seen, ('vreply', how + json.dumps(kw, sort_keys=True)))
    # `more <nick>`: another user takes over somebody's pending long reply (Misc.more hands out copies, IrcMsg(msg=m))
    relayed = 0
    longs = [('wo\u00e9rd ' * 400).strip(), ('\u65e5\u672c\u8a9e ' * 300).strip(), 'A' * 1500, ('\x02b\x0f \x0304,05c\x03 ' * 120).strip(),
             '"' + 'z\\n' * 400 + '"', ('\U0001f600 ' * 400).strip(), '\x01ACTION ' + 'x y ' * 300 + '\x01']
    for a in (longs if ctx.scale == 1 else longs + rng.sample(HOSTILE, 20)):
        for cfg in ({}, {'notice': True, 'prefixNick': False}, {'moresInstant': 3}):
            heal(B)
            hist = [{'caller': 'bob', 'where': 'chan', 'text': 'utilities echo ' + a, 'conf': cfg}]
            outs = live_feed(B, hist[0])
            for who, text in (('alice', 'more bob'), ('alice', 'more'), ('bob', 'more'), ('longnick', 'more bob'), ('longnick', 'more')):
                inv = {'caller': who, 'where': rng.choice(['chan', 'priv']), 'text': text, 'conf': cfg}
                ctx.case('live-more-nick', dict(inv, after=a[:40]))
                outs = live_feed(B, inv)
                relayed += sum(1 for m in outs if not isinstance(m, Exception) and 'Error' not in str(m))
                for m in outs:
                    for clause, detail in check_out(m):
                        k = ('more', clause)
                        seen[k] = seen.get(k, 0) + 1
                        if seen[k] <= 2:
                            ctx.fail({'op': 'live', 'clause': clause, 'inv': inv, 'history': list(hist)}, '%s: %s' % (clause, detail))
                hist.append(inv)
    ctx.notes.append('more <nick>: %d continuation lines relayed to other users' % relayed)
    # plugin outFilters rebuild the outgoing message through the unchecked msg= branch
    for setup in FILTER_SETUPS:
        hist = [{'caller': 'alice', 'where': 'chan', 'text': t, 'conf': {}} for t in setup]
        heal(B)
        restore_registry(B)
        for h in hist:
            live_feed(B, h)
        for a in rng.sample(HOSTILE, 14 if ctx.scale == 1 else 40):
            for text in ('utilities echo foo ' + a, 'reply action foo ' + a, 'vreply go http://example.org/foo ' + a):
                inv = {'caller': 'bob', 'where': 'chan', 'text': text, 'conf': {}, 'vreply': {'how': 'reply', 'kw': {}}}
                ctx.case('live-outfilter', inv)
                for m in live_feed(B, inv):
                    for clause, detail in check_out(m):
                        k = ('outfilter', setup[0], clause)
                        seen[k] = seen.get(k, 0) + 1
                        if seen[k] <= 2:
                            ctx.fail({'op': 'live', 'clause': clause, 'inv': inv, 'history': hist}, '%s: %s' % (clause, detail))
        for t in ('filter outfilter', 'badwords remove foo'):
            live_feed(B, {'caller': 'alice', 'where': 'chan', 'text': t, 'conf': {}})
        try:
            for cb in B['irc'].callbacks:
                if cb.name() == 'Filter':
                    cb.outFilters.clear()
        except Exception:
            pass
    restore_registry(B)


def run_steps(B, steps):
    """steps: ['raw', line] a line from the server | ['cmd', caller, text, where] a command | ['conf', name, value] owner-side configuration.
    returns the messages the driver would get for the LAST step"""
    irc, ircmsgs = B['irc'], B['ircmsgs']
    outs = []
    for st in steps:
        if st[0] == 'conf':
            _setv(B['conf'], st[1], st[2])
            B.setdefault('dirty_conf', True)
            continue
        if st[0] == 'cmd':
            outs = live_feed(B, {'caller': st[1], 'where': st[3] if len(st) > 3 else 'chan', 'text': st[2], 'conf': {}})
            continue
        try:
            m = ircmsgs.IrcMsg(st[1])
        except Exception:
            outs = []
            continue
        B['deny_exec'] = True
        try:
            irc.feedMsg(m)
        except Exception:
            pass
        _wait_threads()
        B['deny_exec'] = False
        outs = _drain(B)
    return outs


OP_BOT = [['raw', ':test!bot@bothost JOIN #test'], ['raw', ':server 353 test = #test :@test @alice bob'], ['raw', ':server 366 test #test :End of names'],
          ['raw', ':server MODE #test +o test']]
EV_TEXT = ['a\rQUIT :x', 'a\0b', '\u00e9' * 600, '\u65e5\u672c\u8a9e' * 200, 'A' * 900, '\x01', 'x\x01y', '\U0001f600' * 300, 'a b c', ':colon', '', '\\n', '"a\\nb"']


def live_events(ctx, B):
    """what reaches the bot WITHOUT being a command: CTCP requests, server PING/numerics, JOIN/NICK/TOPIC/KICK/INVITE/MODE/PART/QUIT events,
    channel text that triggers SedRegex / MessageParser / Karma / snarfers; and channel-operator commands while the bot IS opped"""
    rng = ctx.rng
    seen = {}

    def go(kind, pre, last):
        steps = pre + [last]
        ctx.case('live-' + kind, {'op': 'steps', 'steps': [last]})
        for m in run_steps(B, [last]):
            for clause, detail in check_out(m):
                k = (kind, clause)
                seen[k] = seen.get(k, 0) + 1
                if seen[k] <= 2:
                    ctx.fail({'op': 'steps', 'clause': clause, 'steps': steps}, '%s: %s' % (clause, detail))
    heal(B)
    restore_registry(B)
    pre = list(OP_BOT)
    run_steps(B, pre)
    texts = EV_TEXT if ctx.scale > 1 else EV_TEXT[:9] + rng.sample(EV_TEXT[9:], 2)
    for h in texts:
        u = h.replace(' ', '_')
        for c in ('PING', 'VERSION', 'TIME', 'FINGER', 'USERINFO', 'CLIENTINFO', 'SOURCE', 'ERRMSG', 'DCC CHAT', 'FOO'):
            go('ctcp', pre, ['raw', ':bob!u@h PRIVMSG %s :\x01%s %s\x01' % (rng.choice(['test', '#test']), c, h)])
        for line in ('PING :' + h, ':server 433 * test :' + h, ':server 437 * test :' + h, ':server 432 * ' + (u[:20] or 'x') + ' :' + h,
                     ':server 471 test #other :' + h, ':server ERROR :' + h, ':alice!a@ahost INVITE test :#inv' + u[:40], ':bob!u@h INVITE test :#inv' + u[:40],
                     ':carol' + u[:8] + '!u@h JOIN #test', ':bob!u@h NICK :' + (u[:30] or 'x'), ':' + (u[:30] or 'x') + '!u@h NICK bob',
                     ':bob!u@h TOPIC #test :' + h, ':bob!u@h PART #test :' + h, ':bob!u@h JOIN #test', ':bob!u@h QUIT :' + h, ':bob!u@h JOIN #test',
                     ':server MODE #test +b ' + u[:60] + '!*@*', ':bob!u@h KICK #test test :' + h):
            go('event', pre, ['raw', line])
        run_steps(B, OP_BOT)
    # channel text that is not a command
    trig = [['conf', 'supybot.plugins.SedRegex.enable', True], ['cmd', 'alice', 'messageparser add "trig (.*)" "echo $1"'],
            ['cmd', 'alice', 'messageparser add "act (.*)" "reply action $1"']]
    B['world'].disableMultiprocessing = True      # as `supybot --disable-multiprocessing`: the SedRegex substitution runs in-process
    run_steps(B, trig)
    pre2 = pre + trig
    for rep in ['\\n', '\\r\\nQUIT', '\\0', '\\g<0>' * 300, '\u00e9' * 500, '&' * 400, '\\t']:
        said = ['raw', ':bob!u@h PRIVMSG #test :hello world aaa \x01 \u00e9']
        run_steps(B, [said])
        go('trigger', pre2 + [said], ['raw', ':bob!u@h PRIVMSG #test :s/a/%s/g' % rep])
    for h in texts:
        for line in (':bob!u@h PRIVMSG #test :trig ' + h, ':bob!u@h PRIVMSG #test :act ' + h, ':bob!u@h PRIVMSG #test :' + h + '++',
                     ':bob!u@h PRIVMSG #test :http://example.org/' + h.replace(' ', '_'), ':bob!u@h PRIVMSG #test :test: ' + h, ':bob!u@h PRIVMSG test :' + h):
            go('trigger', pre2, ['raw', line])
    B['world'].disableMultiprocessing = False
    restore_registry(B)
    # channel-operator commands with the bot opped (otherwise they stop at "I need to be opped")
    opcmds = ['channel kick bob ', 'channel kick bob,alice ', 'channel kban bob ', 'channel iban bob ', 'channel ban add ', 'channel mode ', 'channel mode +k ',
              'channel key ', 'channel limit ', 'channel invite ', 'channel op ', 'channel voice ', 'channel unban ', 'channel cycle ', 'topic add ', 'topic set ',
              'topic replace 1 ', 'topic insert ', 'topic separator ', 'topic fit ', 'channel alert ', 'admin nick ', 'channel part ']
    for a in ['"a\\nQUIT :x"', '"\\0"', 'a\rb', '\u00e9' * 400, '\u65e5\u672c\u8a9e' * 200, 'x' * 600, '\x01', ':x', '[string chr 10]QUIT', '"\\ud800"']:
        for c in (opcmds if ctx.scale > 1 else rng.sample(opcmds, 12)):
            go('opped-command', pre, ['cmd', 'alice', c + a])
            if '#test' not in B['irc'].state.channels or 'test' not in B['irc'].state.channels['#test'].ops or B['irc'].nick != 'test':
                heal(B)
                run_steps(B, OP_BOT)
    heal(B)
    restore_registry(B)


def live_outfilter_each(ctx, B):
    """every command of the Filter plugin is offered to `outfilter` by a channel op; those it accepts run as live output filters
    on texts that spell CR LF / NUL in binary, hex, morse, ... (decoders!) and on hostile text"""
    rng = ctx.rng
    seen = {}
    # every command of the Filter plugin offered to `outfilter`: those it accepts are exercised as live output filters
    fcb = filter_cb(B)
    accepted = []
    targeted = decoder_inputs()
    for name in sorted(c for c in fcb.listCommands() if c != 'outfilter'):
        heal(B)
        restore_registry(B)
        fcb.outFilters.clear()
        install = {'caller': 'alice', 'where': 'chan', 'text': 'filter outfilter ' + name, 'conf': {}}
        live_feed(B, install)
        if not fcb.outFilters.get('#test'):
            continue
        accepted.append(name)
        pool = (targeted[:13] + targeted[-7:] if ctx.scale == 1 else targeted) + rng.sample(HOSTILE, 3 if ctx.scale == 1 else 25)
        for a in pool:
            for text, cfg in ((('reply action ' + a, {}), ('utilities echo ' + a, {'prefixNick': False})) if (ctx.scale > 1 or pool.index(a) % 2 == 0)
                              else (('reply action ' + a, {}),)):
                inv = {'caller': 'bob', 'where': 'chan', 'text': text, 'conf': cfg}
                ctx.case('live-outfilter-each', dict(inv, filter=name))
                for m in live_feed(B, inv):
                    for clause, detail in check_out(m):
                        k = ('outfilter-each', name, clause)
                        seen[k] = seen.get(k, 0) + 1
                        if seen[k] <= 1:
                            ctx.fail({'op': 'live', 'clause': clause, 'inv': inv, 'history': [install]},
                                     '%s: (output filter %r installed by a channel op) %s' % (clause, name, detail))
        fcb.outFilters.clear()
    ctx.notes.append('outfilter accepted %d Filter commands as live output filters: %s' % (len(accepted), ' '.join(accepted)))
    if sorted(accepted) != sorted(fcb._filterCommands):
        ctx.notes.append('note: accepted set differs from Filter._filterCommands %r' % sorted(fcb._filterCommands))
    restore_registry(B)


def worker_main(argv):
    """python c06.py worker I N SEED SCALE BUDGET : explore shard I of N, print one JSON object"""
    i, n, seed, scale, budget = int(argv[0]), int(argv[1]), int(argv[2]), int(argv[3]), float(argv[4])
    B = bot()
    w = _WCtx(seed * 1000 + i, scale)
    names = sorted({p for p, _ in commands(B)})
    sizes = {p: sum(1 for pp, _ in commands(B) if pp == p) for p in names}
    bins = [[0, []] for _ in range(n)]
    for p in sorted(names, key=lambda p: (-sizes[p], p)):
        b = min(bins, key=lambda b: b[0])
        b[0] += sizes[p]
        b[1].append(p)
    mine = bins[i][1]
    st = live_plugins(w, B, mine, budget)
    if i == 0:
        w.notes.append('live bot: %d plugins loaded (%s not loadable), %d commands' % (len(B['loaded']), ', '.join(B['unloadable']) or 'none', len(commands(B))))
    if i == n - 1:
        live_extra(w, B)
    if i == 0:
        live_outfilter_each(w, B)
    if i == 1 % n:
        live_events(w, B)
    sys.stdout.write('\nRESULT ' + json.dumps({'dist': dict(w.dist), 'hashes': sorted(w.hashes), 'samples': w.samples[:3], 'failures': w.failures,
                                               'notes': w.notes, 'stats': st, 'plugins': mine}) + '\n')
    sys.stdout.flush()
    import shutil
    shutil.rmtree(boot._booted.get('dir', ''), True)      # os._exit skips boot's atexit cleanup
    os._exit(0)


def run_live(ctx):
    import subprocess as sp
    n = min(12, max(2, (os.cpu_count() or 4) - 2))
    budget = 40 if ctx.scale == 1 else 600
    procs = []
    for i in range(n):
        procs.append(sp.Popen(['timeout', str(int(budget * 2 + 60)), sys.executable, os.path.abspath(__file__), 'worker', str(i), str(n),
                               str(ctx.seed + (0 if ctx.scale == 1 else 17)), str(ctx.scale), str(budget)],
                              stdout=sp.PIPE, stderr=sp.DEVNULL, text=True, env=dict(os.environ, PYTHONHASHSEED='0')))
    tot = {'invocations': 0, 'messages': 0, 'silent': 0}
    for i, p in enumerate(procs):
        out, _ = p.communicate()
        lines = [l for l in out.split('\n') if l.startswith('RESULT ')]
        if not lines:
            raise RuntimeError('live worker %d produced no result (rc=%s): %s' % (i, p.returncode, out[-300:]))
        r = json.loads(lines[-1][7:])
        for k, v in r['dist'].items():
            ctx.dist[k] += v
            ctx.evaluations += v
        ctx.nontrivial.update(bytes.fromhex(h) for h in r['hashes'])
        for s_ in r['samples']:
            if len(ctx.samples) < 12:
                ctx.samples.append(s_)
        for f in r['failures']:
            ctx.fail(f['input'], f['detail'])
        ctx.notes.extend(r['notes'])
        for k in tot:
            tot[k] += r['stats'][k]
    ctx.notes.append('live: %d worker processes, %d command invocations, %d messages taken from takeMsg(), %d invocations produced none'
                     % (n, tot['invocations'], tot['messages'], tot['silent']))


# ---------------------------------------------------------------- correspondence
ALPHA = ['\r', '\n', '\0', "'", '"', '\\', '\t', '\x7f', '\x01', 'a', ' ', ':', 'é', '\x85', '\xad', '͸', '\U0001f600',
         '\U000e0001', '\ud800', ' ', '\x1b', '\xa0']


def gen_text(rng):
    k = rng.random()
    if k < 0.15:
        return ''.join(rng.choice(ALPHA) for _ in range(rng.randint(0, 4)))
    if k < 0.3:
        return rng.choice(['', '\x01', '\x01\x01', '\x01ACTION x\x01', 'plain text', 'hello world', 'Error: x', ' ', 'x' * 600, 'é' * 600])
    if k < 0.5:
        return ''.join(rng.choice('abc xyz:') for _ in range(rng.randint(1, 30)))
    if k < 0.6:
        return ''.join(chr(rng.choice([rng.randrange(0, 0x300), rng.randrange(0, 0x110000)])) for _ in range(rng.randint(1, 12)))
    return ''.join(rng.choice(ALPHA + ['word', 'b'] * 6) for _ in range(rng.randint(1, 20)))


def dec_line(v):
    return {'line': wire.s(v[0]), 'one_line': bool(v[1]), 'chars': v[2], 'bytes': v[3]}


def impl_line(s):
    rest = s.split(' ', 1)[1] if s.startswith('@') and ' ' in s else s
    body = s[:-2]
    return {'line': s, 'one_line': s.endswith('\r\n') and not any(c in body for c in '\r\n\0'), 'chars': len(rest),
            'bytes': len(rest.encode('utf-8', 'surrogatepass'))}


def exn_name(e):
    n = type(e).__name__
    if isinstance(e, UnicodeError):
        return 'UnicodeError'          # str.encode() on a lone surrogate
    return n if n in wire.EXN.values() else 'OtherError'


def oracle_line(ctx, inp, s, is_take=False):
    """direct property check on a serialised line produced by the implementation"""
    class _M:
        def __str__(self):
            return s
    for clause, detail in check_out(_M()):
        if clause == 'encode' or (clause == 'bytes' and not is_take):
            continue        # length applies after takeMsg()'s truncation only; encodability is checked on the live bot
        ctx.fail(dict(inp, clause=clause), '%s: %s' % (clause, detail))


def case_safearg(ctx, B, s, mo, kind='safearg'):
    inp = {'op': 'safearg', 's': s}
    ctx.case(kind, inp)
    r = B['ircutils'].safeArgument(s)
    if mo is not None and wire.s(mo) != r:
        ctx.disagree(inp, wire.s(mo), r, 'safeArgument')
    if any(c in r for c in '\r\n\0'):
        ctx.fail(dict(inp, clause='line'), 'line: safeArgument result keeps CR/LF/NUL: %r' % r)


def gen_ctor(rng):
    tags = {}
    if rng.random() < 0.4:
        for _ in range(rng.randint(1, 3)):
            tags[rng.choice(['a', 'label', '+draft/reply', 'msgid'])] = rng.choice([None, '', 'v', 'a b', 'x\ny', 'x\ry', 'a;b\\', 'q\0'])
    nargs = rng.choice([0, 1, 2, 2, 3])
    args = [rng.choice(['#c', 'nick', 'a']) for _ in range(max(0, nargs - 1))]
    if nargs:
        args.append(gen_text(rng))
    if rng.random() < 0.1 and args:
        args[0] = gen_text(rng)
    return {'tags': tags, 'prefix': rng.choice(['', '', 'n!u@h', 'srv']), 'command': rng.choice(['PRIVMSG', 'NOTICE', 'MODE', '', 'X']),
            'args': args}


def wire_tags(tags):
    return [[k, wire.opt(v)] for k, v in tags.items()]


def case_ctor(ctx, B, g, mo):
    inp = {'op': 'ctor', 'msg': g}
    ctx.case('ctor', inp)
    try:
        m = B['ircmsgs'].IrcMsg(prefix=g['prefix'], command=g['command'], args=tuple(g['args']),
                                server_tags=dict(g['tags']) if g['tags'] else None)
        ir = ('ok', impl_line(str(m)))
    except Exception as e:
        ir = ('raise', exn_name(e))
    if mo is not None:
        mr = wire.r(mo, dec_line)
        if mr != ir:
            ctx.disagree(inp, mr, ir, 'IrcMsg(kw)')
    if ir[0] == 'ok' and not any(c in (g['prefix'] + g['command']) for c in '\r\n\0') \
            and not any('\0' in (v or '') or any(c in k for c in '\r\n\0 ') for k, v in g['tags'].items()):
        oracle_line(ctx, inp, ir[1]['line'])


def gen_reply(rng):
    origin = rng.choice(['chan', 'chan', 'priv', 'status'])
    ob = lambda: rng.choice([None, None, True, False])
    to = rng.choice([None, None, None, 'bob', '#test', '#other', '@#test', 'a\rb', 'x y', '', 'carol'])
    g = {'op': 'reply', 'origin': origin, 'nick': rng.choice(['bob', 'bob', 'al[i]ce', 'n' * 30]), 'text': gen_text(rng), 'to': to,
         'notice': ob(), 'private': ob(), 'prefixNick': ob(), 'action': rng.choice([None, None, True, False]),
         'error': rng.random() < 0.25, 'stripCtcp': rng.random() < 0.8,
         'conf': {k: rng.random() < 0.5 for k in ('notice', 'private', 'prefixNick', 'errNotice', 'errPrivate', 'noticeWhenPrivate')},
         'msgid': rng.choice([None, None, None, 'abc', '', 'a b;c', 'x\\', 0, 'a\0b']), 'tagcap': rng.random() < 0.7}
    return g


def reply_setup(B, g):
    """build the real (irc, msg) and the model's configuration record for one generated reply case"""
    irc, ircmsgs, ircutils, conf = B['irc'], B['ircmsgs'], B['ircutils'], B['conf']
    c = dict(g['conf'])
    c['experimental'] = True
    set_conf(B, c)
    target = {'chan': '#test', 'priv': 'test', 'status': '@#test'}[g['origin']]
    tagsec = ''
    if g['msgid'] is not None:
        tagsec = '@msgid ' if g['msgid'] == 0 else '@msgid=%s ' % ircmsgs.escape_server_tag_value(g['msgid'])
    msg = ircmsgs.IrcMsg('%s:%s!u@h PRIVMSG %s :whatever' % (tagsec, g['nick'], target))
    irc._setMsgChannel(msg)
    if g['tagcap']:
        irc.state.capabilities_ack.add('message-tags')
    else:
        irc.state.capabilities_ack.discard('message-tags')
    isPublic = lambda s: bool(irc.isChannel(irc.stripChannelPrefix(s)))
    replyto = ircutils.replyTo(msg)
    names = {replyto, msg.nick} | ({g['to']} if g['to'] is not None else set())
    publics = sorted(n for n in names if isPublic(n))
    tagv = None
    if 'msgid' in msg.server_tags and conf.supybot.protocols.irc.experimentalExtensions() and 'message-tags' in irc.state.capabilities_ack:
        tagv = [wire.opt(msg.server_tags['msgid'])]
    ob = wire.opt
    cfg = [replyto, msg.nick, wire.opt(g['to']), publics, ob(g['notice']), ob(g['private']), ob(g['prefixNick']), bool(g['action']),
           g['error'], g['stripCtcp'], c['notice'], c['private'], c['prefixNick'], c['errNotice'], c['errPrivate'], c['noticeWhenPrivate'],
           tagv if tagv is not None else []]
    return msg, cfg


def case_reply(ctx, B, g, mo, msg):
    inp = dict(g)
    ctx.case('reply-%s' % g['origin'], inp)
    try:
        m = B['callbacks']._makeReply(B['irc'], msg, g['text'], prefixNick=g['prefixNick'], private=g['private'], notice=g['notice'],
                                      to=g['to'], action=g['action'], error=g['error'], stripCtcp=g['stripCtcp'])
        ir = ('ok', impl_line(str(m)))
    except Exception as e:
        ir = ('raise', exn_name(e))
    B['irc'].state.capabilities_ack.discard('message-tags')
    if mo is not None:
        mr = wire.r(mo, dec_line)
        if mr != ir:
            ctx.disagree(inp, mr, ir, '_makeReply')
    if ir[0] == 'ok':
        oracle_line(ctx, inp, ir[1]['line'])
    elif ir[1] != 'AssertionError':
        ctx.fail(dict(inp, clause='exn'), 'exn: _makeReply raised %s' % ir[1])


def gen_line(rng):
    k = rng.random()
    body = rng.choice(['PRIVMSG #c :', ':n!u@h NOTICE bob :', 'X ', '', '@'])
    fill = rng.choice(['a', 'é', '\U0001f600', 'ab é', ' ', '@', 'x ', 'é\u65e5', 'a\ud800', '\u07ff\u0800\uffff\U00010000'])
    n = rng.choice([0, 1, 10, 120, 125, 126, 127, 128, 165, 166, 170, 248, 249, 250, 251, 255, 480, 495, 498, 499, 500, 501, 502, 503, 508, 509, 510, 511, 512, 513, 600, 1200])
    tags = rng.choice(['', '', '@a=b ', '@label=x;msgid=' + 'y' * 600 + ' ', '@nospace', '@ ', '@a  '])
    s = tags + body + (fill * n)[:n]
    if k < 0.85:
        s += '\r\n'
    elif k < 0.9:
        s += '\n'
    return s


def case_truncate(ctx, B, l, mo):
    inp = {'op': 'truncate', 'line': l}
    ctx.case('truncate', inp)
    if not l:
        return
    try:
        m = B['ircmsgs'].IrcMsg(l)
    except Exception:
        # not a parsable line: give _truncateMsg an object with that str()
        m = B['ircmsgs'].IrcMsg(command='X')
        m._str = l if l.endswith('\n') else l + '\n'
    want = l if l.endswith('\n') else l + '\n'
    try:
        B['irc']._truncateMsg(m)
        ir = ('ok', impl_line(str(m)))
    except Exception as e:
        ir = ('raise', exn_name(e))
    if mo is not None:
        mr = wire.r(mo, dec_line)
        if mr != ir:
            ctx.disagree(inp, mr, ir, '_truncateMsg')
    return want


def case_take(ctx, B, g, label, mo):
    """queueMsg + takeMsg on the live Irc (plugins loaded, their outFilters are no-ops by default)"""
    inp = {'op': 'take', 'msg': g, 'label': label}
    ctx.case('take', inp)
    irc, ircmsgs, ircutils = B['irc'], B['ircmsgs'], B['ircutils']
    try:
        m = ircmsgs.IrcMsg(prefix=g['prefix'], command=g['command'], args=tuple(g['args']),
                           server_tags=dict(g['tags']) if g['tags'] else None)
    except Exception:
        return
    old = ircutils.makeLabel
    if label is not None:
        ircutils.makeLabel = lambda: label
        irc.state.capabilities_ack.add('labeled-response')
    irc.state.capabilities_ack.add('echo-message')     # keep the emulated echo from re-entering the bot
    try:
        _drain(B)
        irc.queueMsg(m)
        try:
            got = irc.takeMsg()
            ir = ('ok', impl_line(str(got))) if got is not None else None
        except Exception as e:
            ir = ('raise', exn_name(e))
    finally:
        ircutils.makeLabel = old
        irc.state.capabilities_ack.discard('labeled-response')
        irc.state.capabilities_ack.discard('echo-message')
    irc.state.capabilities_ack.discard('message-tags')
    if mo is not None:
        mr = wire.r(mo, dec_line) if mo != [] else None
        if mr != ir:
            ctx.disagree(inp, mr, ir, 'takeMsg')
    if ir and ir[0] == 'ok' and not any(c in (g['prefix'] + g['command']) for c in '\r\n\0') \
            and not any('\0' in (v or '') or any(c in k for c in '\r\n\0 ') for k, v in g['tags'].items()):
        oracle_line(ctx, inp, ir[1]['line'], is_take=True)


def gen_take(rng):
    g = gen_ctor(rng)
    g['command'] = rng.choice(['PRIVMSG', 'NOTICE', 'MODE'])
    fill = rng.choice(['a', 'é', '\U0001f600', 'wé ', 'é\u65e5\U0001f600', 'a\udfff'])
    n = rng.choice([0, 5, 400, 495, 499, 500, 501, 505, 600, 900])
    g['args'] = ['#c', (fill * n)[:n]]
    return g


SMUGGLE = ['x\r\nQUIT :pwned', 'a\0b', '\nPRIVMSG #other :hi', '\r']


def decoder_inputs():
    """one-line texts that SPELL CR LF / NUL in the encodings text filters may know how to decode"""
    import base64, codecs, urllib.parse
    morse = {'\r': '', '\n': ''}
    out = []
    for p in SMUGGLE:
        b = p.encode()
        bits = ''.join('{:08b}'.format(c) for c in b)
        out += [bits, ' '.join(bits[i:i + 8] for i in range(0, len(bits), 8)), b.hex(), b.hex().upper(), ' '.join('%02x' % c for c in b),
                '0x' + b.hex(), base64.b64encode(b).decode(), urllib.parse.quote(p), p.encode('unicode_escape').decode(),
                ''.join('&#%d;' % c for c in b), ' '.join(str(c) for c in b), ' '.join('%03o' % c for c in b),
                codecs.encode(p.encode('unicode_escape').decode(), 'rot13')]
    out += ['-..- .-.-.- -.-. .-. .-.. ..-.', '.-.- .-.-', '....... ... --- ...', '00001101', '0d0a', '0D 0A', '00001010 00001101']
    return [x for x in dict.fromkeys(out) if x and not any(c in x for c in '\r\n\0')]


def filter_cb(B):
    for cb in B['irc'].callbacks:
        if cb.name() == 'Filter':
            return cb
    return None


class _FProxy(object):
    def reply(self, s):
        self.s = s


def filter_fn(B, name, text):
    """what Filter.outFilter gets from one installed filter command: the text it replies with, or None when it raises
    (outFilter is firewalled and then hands the message on unchanged)"""
    cb = filter_cb(B)
    msg = B['ircmsgs'].IrcMsg(':test!bot@bothost PRIVMSG #test :x')
    B['irc']._setMsgChannel(msg)
    px = _FProxy()
    try:
        getattr(cb, name)(px, msg, [text])
        return px.s
    except Exception:
        return None


def case_filter_fn(ctx, B, name, text, count=True):
    inp = {'op': 'filterfn', 'filter': name, 's': text, 'clause': 'line'}
    if count:
        ctx.case('outfilter-fn', inp)
    r = filter_fn(B, name, text)
    if isinstance(r, str) and any(c in r for c in '\r\n\0'):
        ctx.fail(inp, 'line: output filter %r (in Filter._filterCommands) turns the one-line text %r into %r; Filter.outFilter rebuilds the message '
                      'through the unchecked msg= branch' % (name, text[:80], r[:80]))


def gen_outfilter(rng):
    g = gen_ctor(rng)
    g['command'] = rng.choice(['PRIVMSG', 'PRIVMSG', 'NOTICE', 'MODE'])
    t = rng.choice(['hello world', 'abc', 'a b  c', '\u00e9t\u00e9 \U0001f600', 'x' * 40, '0111 1000', 'wo\x02rd\x0f', 'q\x01r', 'ACTION x', ':lead', 'tab\tx'])
    payload = rng.choice([t, t, '\x01ACTION ' + t + '\x01', '\x01ACTION ' + t + '\x01'])
    g['args'] = [rng.choice(['#test', '#test', '#test', 'bob', '@#test']), payload] + (['extra'] if rng.random() < 0.1 else [])
    g['tags'] = {k: v for k, v in g['tags'].items() if '\0' not in (v or '')}
    return {'msg': g, 'installed': rng.random() < 0.8, 'k': rng.choice([0, 1, 1, 2, 3])}


def case_outfilter(ctx, B, g, mo):
    inp = dict(g, op='outfilter')
    ctx.case('outfilter', inp)
    irc, ircmsgs = B['irc'], B['ircmsgs']
    cb = filter_cb(B)
    m0 = g['msg']
    m = ircmsgs.IrcMsg(prefix=m0['prefix'], command=m0['command'], args=tuple(m0['args']), server_tags=dict(m0['tags']) if m0['tags'] else None)
    irc._setMsgChannel(m)
    cb.outFilters.clear()
    if g['installed']:
        cb.outFilters['#test'] = [cb.reverse] * g['k']
    try:
        out = cb.outFilter(irc, m)
        ir = impl_line(str(out))
    finally:
        cb.outFilters.clear()
    if mo is not None:
        mr = dec_line(mo)
        if mr != ir:
            ctx.disagree(inp, mr, ir, 'Filter.outFilter')


def outfilter_wire(B, g):
    m0 = g['msg']
    m = B['ircmsgs'].IrcMsg(prefix=m0['prefix'], command=m0['command'], args=tuple(m0['args']))
    B['irc']._setMsgChannel(m)
    cb = filter_cb(B)
    active = g['installed'] and m.channel is not None and m.channel in {'#test': 1}
    return [7, [bool(active), g['k'], [wire_tags(m0['tags']), m0['prefix'], m0['command'], m0['args']]]]


def case_maker(ctx, B, g, mo):
    inp = {'op': 'maker', 'g': g}
    ctx.case('maker-msg', inp)
    ircmsgs = B['ircmsgs']
    b = g['base']
    try:
        base = ircmsgs.IrcMsg(prefix=b['prefix'], command=b['command'] or 'X', args=tuple(b['args']),
                              server_tags=dict(b['tags']) if b['tags'] else None)
    except Exception:
        return
    f = {'PRIVMSG': ircmsgs.privmsg, 'NOTICE': ircmsgs.notice}[g['cmd']]
    try:
        m = f(g['rcpt'], g['s'], prefix=g['prefix'], msg=base)
        ir = ('ok', impl_line(str(m)))
    except Exception as e:
        ir = ('raise', exn_name(e))
    if mo is not None:
        mr = wire.r(mo, dec_line)
        if mr != ir:
            ctx.disagree(inp, mr, ir, 'maker(msg=)')


CORPUS_TEXT = ['', 'a\nQUIT :x', 'a\rb', 'a\0b', "it's", '"q"', "'\"", '\\', '\t', '\x7f', '\x85', '\xad', '͸', '\U000e0001', '\ud800',
               '\x01\x01', '\x01a\nb\x01', 'x' * 600, 'é' * 600]
F19_API = {'op': 'take', 'clause': 'bytes', 'label': None,
           'msg': {'tags': {}, 'prefix': '', 'command': 'PRIVMSG', 'args': ['#c', 'é' * 600]}}
F19_LIVE = {'op': 'live', 'clause': 'bytes', 'history': [],
            'inv': {'caller': 'bob', 'where': 'chan', 'text': 'reply action ' + 'é' * 300, 'conf': {}}}


def _nonascii(x):
    return any(ord(ch) > 127 for ch in json.dumps(x, ensure_ascii=False))


def _surrogate(x):
    t = json.dumps(x, ensure_ascii=False)
    return any(0xd800 <= ord(ch) <= 0xdfff for ch in t) or '\\\\ud' in t.lower()


CLASSES = {
    # C06.F47: the server-supplied msgid copied into +draft/reply holds a NUL (tag escaping has no image for it)
    'tag_value_nul': lambda inp: inp.get('clause') == 'line' and (
        (inp.get('op') == 'reply' and isinstance(inp.get('msgid'), str) and '\0' in inp['msgid'])
        or (inp.get('op') == 'steps' and any(st[0] == 'raw' and st[1].startswith('@') and '\0' in st[1].split(' ', 1)[0] for st in inp['steps']))),
}


# witnesses of repaired findings (C06.F19: _truncateMsg counted characters): run first on every check
F22_LIVE = {'op': 'live', 'clause': 'encode', 'history': [],
            'inv': {'caller': 'alice', 'where': 'chan', 'text': 'channel part x y "\\ud800"', 'conf': {}}}
FIXED_CORPUS = [F19_LIVE, F19_API, F22_LIVE,
                {'op': 'take', 'clause': 'bytes', 'label': 'lbl-1',
                 'msg': {'tags': {'a': 'b'}, 'prefix': 'srv', 'command': 'NOTICE', 'args': ['#c', '\U0001f600' * 200]}},
                {'op': 'live', 'clause': 'bytes', 'history': [],
                 'inv': {'caller': 'bob', 'where': 'chan', 'text': 'anonymous say ' + '\u65e5\u672c\u8a9e' * 120, 'conf': {}}}]


def run(ctx):
    B = bot()
    rng = ctx.rng
    import itertools
    for w in FIXED_CORPUS:
        ctx.case('corpus-fixed', w)
        d = replay(ctx, w)
        if d:
            ctx.fail(w, d)
    # --- safeArgument / repr
    texts = list(CORPUS_TEXT)
    small = ['\r', '\n', '\0', "'", '"', '\\', 'a', 'é', '\x85', '\U0001f600']
    for n in range(1, 4):
        texts += [''.join(t) for t in itertools.product(small, repeat=n)]
    texts += [gen_text(rng) for _ in range(ctx.n(3000))]
    for s, mo in zip(texts, ctx.model([[0, s] for s in texts])):
        case_safearg(ctx, B, s, mo)
    ctx.notes.append('safeArgument exhaustive over %d hostile characters up to length 3' % len(small))
    # --- keyword constructor
    gs = [gen_ctor(rng) for _ in range(ctx.n(3000))]
    for g, mo in zip(gs, ctx.model([[2, [wire_tags(g['tags']), g['prefix'], g['command'], g['args']]] for g in gs])):
        case_ctor(ctx, B, g, mo)
    # --- _makeReply
    gs = [gen_reply(rng) for _ in range(ctx.n(4000))]
    for t in CORPUS_TEXT:
        for act in (None, True):
            g = gen_reply(rng)
            g.update(text=t, action=act, to=None)
            gs.append(g)
    setups = [reply_setup(B, g) for g in gs]
    outs = ctx.model([[1, [cfg, g['text']]] for g, (_, cfg) in zip(gs, setups)])
    for g, (msg, cfg), mo in zip(gs, setups, outs):
        reply_setup(B, g)
        case_reply(ctx, B, g, mo, msg)
    set_conf(B, {})
    # --- _truncateMsg
    ls = [gen_line(rng) for _ in range(ctx.n(1500))]
    ls = [l for l in ls if l and '\n' not in l[:-1]]
    for l, mo in zip(ls, ctx.model([[3, l if l.endswith('\n') else l + '\n'] for l in ls])):
        case_truncate(ctx, B, l, mo)
    # --- makers with msg=
    gs = []
    for _ in range(ctx.n(800)):
        gs.append({'base': gen_ctor(rng), 'cmd': rng.choice(['PRIVMSG', 'NOTICE']), 'rcpt': rng.choice(['#c', 'bob', 'a\rb']),
                   's': gen_text(rng), 'prefix': rng.choice(['', '', 'me!u@h'])})
    for g in gs:
        g['base']['command'] = g['base']['command'] or 'X'
    outs = ctx.model([[4, [g['cmd'], g['rcpt'], g['s'], g['prefix'],
                           [wire_tags(g['base']['tags']), g['base']['prefix'], g['base']['command'], g['base']['args']]]] for g in gs])
    for g, mo in zip(gs, outs):
        case_maker(ctx, B, g, mo)
    # --- takeMsg: label + truncate
    heal(B)
    gs = [(gen_take(rng), rng.choice([None, None, 'lbl-1', 'a b'])) for _ in range(ctx.n(600))]
    gs.append((F19_API['msg'], None))
    outs = ctx.model([[5, [wire.opt(l), [wire_tags(g['tags']), g['prefix'], g['command'], g['args']]]] for g, l in gs])
    for (g, l), mo in zip(gs, outs):
        case_take(ctx, B, g, l, mo)
    # --- Filter.outFilter: model (with the 'reverse' filter) vs implementation
    gs = [gen_outfilter(rng) for _ in range(ctx.n(600))]
    for g, mo in zip(gs, ctx.model([outfilter_wire(B, g) for g in gs])):
        case_outfilter(ctx, B, g, mo)
    # --- every command of the whitelist Filter._filterCommands as a function text -> text on hostile ONE-LINE inputs
    cb = filter_cb(B)
    names = sorted(cb._filterCommands)
    singles = [chr(i) for i in range(1, 0x300) if chr(i) not in '\r\n']
    texts = decoder_inputs() + [h for h in HOSTILE if h and not any(c in h for c in '\r\n\0')] + [''.join(singles[i:i + 64]) for i in range(0, len(singles), 64)]
    for name in names:
        for t in texts:
            case_filter_fn(ctx, B, name, t)
        for ch in singles:
            case_filter_fn(ctx, B, name, ch, count=False)
    ctx.notes.append('output-filter whitelist (%d commands) exercised on %d one-line texts and %d single characters each' % (len(names), len(texts), len(singles)))
    # --- live exploration
    _drain(B)
    run_live(ctx)


def replay(ctx, inp):
    B = bot()
    sub = type(ctx)(ctx.pid, ctx.tier, ctx.seed, {'model_ok': False})
    op = inp.get('op')
    clause = inp.get('clause')
    if op == 'live':
        heal(B)
        for h in inp.get('history', []):
            live_feed(B, h)
        bad = live_check(B, inp['inv'])
        set_conf(B, {})
        for c, d in bad:
            if clause is None or c == clause:
                return '%s: %s' % (c, d)
        return None
    if op == 'steps':
        heal(B)
        restore_registry(B)
        bad = [(c, d) for m in run_steps(B, inp['steps']) for c, d in check_out(m)]
        restore_registry(B)
        for c, d in bad:
            if clause is None or c == clause:
                return '%s: %s' % (c, d)
        return None
    if op == 'filterfn':
        case_filter_fn(sub, B, inp['filter'], inp['s'])
        return sub.failures[0]['detail'] if sub.failures else None
    if op == 'safearg':
        case_safearg(sub, B, inp['s'], None)
    elif op == 'ctor':
        case_ctor(sub, B, inp['msg'], None)
    elif op == 'reply':
        g = {k: v for k, v in inp.items() if k != 'clause'}
        msg, _ = reply_setup(B, g)
        case_reply(sub, B, g, None, msg)
        set_conf(B, {})
    elif op == 'take':
        heal(B)
        case_take(sub, B, inp['msg'], inp.get('label'), None)
    for f in sub.failures:
        if clause is None or f['input'].get('clause') == clause:
            return f['detail']
    return None


if __name__ == '__main__':
    sys.path.insert(0, os.path.dirname(os.path.abspath(__file__)))
    if len(sys.argv) > 1 and sys.argv[1] == 'worker':
        import c06 as _self          # one module instance (the bot singleton lives there)
        _self.worker_main(sys.argv[2:])
