"""pins for C03's channel table (ChannelsDictionary.channels is an ircutils.IrcDict): src/ircdb.py, src/ircutils.py, src/utils/gen.py"""
import ast
from gen_tables import table, tree, find_def, find_class, need, cstr


def _norm(node):
    """source of a def without its docstring"""
    body = list(node.body)
    if body and isinstance(body[0], ast.Expr) and isinstance(getattr(body[0], 'value', None), ast.Constant) \
            and isinstance(body[0].value.value, str):
        body = body[1:]
    return '\n'.join(ast.unparse(b) for b in body)


@table('T03c')
def gen_T03c():
    """fail-closed pins of the channel table's keying (nothing here is data: the model's getChannel / setChannel /
    ircdict_key in coq/C03/Model.v are hand-written after exactly these lines)"""
    d = tree('src/ircdb.py')
    init = find_def(d, '__init__', 'ChannelsDictionary')
    assigns = [ast.unparse(n) for n in ast.walk(init) if isinstance(n, ast.Assign) and 'self.channels' in ast.unparse(n.targets[0])]
    need(assigns == ['self.channels = ircutils.IrcDict()'],
         'ChannelsDictionary.__init__: self.channels is no longer an ircutils.IrcDict(): %r' % (assigns,))
    # nothing else in the class may rebind the table
    cls = find_class(d, 'ChannelsDictionary')
    others = [ast.unparse(n) for n in ast.walk(cls) if isinstance(n, (ast.Assign, ast.AugAssign, ast.AnnAssign))
              and ast.unparse(n.targets[0] if isinstance(n, ast.Assign) else n.target) == 'self.channels']
    need(others == ['self.channels = ircutils.IrcDict()'], 'ChannelsDictionary rebinds self.channels: %r' % (others,))
    g = _norm(find_def(d, 'getChannel', 'ChannelsDictionary'))
    need(g == ('channel = channel.lower()\n'
               'if channel in self.channels:\n    return self.channels[channel]\n'
               'else:\n    c = IrcChannel()\n    self.channels[channel] = c\n    return c'),
         'ChannelsDictionary.getChannel changed: ' + g)
    st = _norm(find_def(d, 'setChannel', 'ChannelsDictionary'))
    need(st == 'channel = channel.lower()\nself.channels[channel] = ircChannel\nself.flush()',
         'ChannelsDictionary.setChannel changed: ' + st)
    # both decision procedures reach the table through getChannel
    for fn in ('checkCapability', '_checkCapabilityForUnknownUser'):
        calls = [ast.unparse(n) for n in ast.walk(find_def(d, fn)) if isinstance(n, ast.Call) and 'channels.' in ast.unparse(n.func)]
        need(calls == ['channels.getChannel(channel)'], '%s: channel lookup changed: %r' % (fn, calls))
    # the container: IrcDict.key = toLower, over InsensitivePreservingDict whose accessors go through self.key
    u = tree('src/ircutils.py')
    icls = find_class(u, 'IrcDict')
    need([ast.unparse(b) for b in icls.bases] == ['utils.InsensitivePreservingDict'], 'IrcDict bases changed')
    k = _norm(find_def(u, 'key', 'IrcDict'))
    need(k == 'if s is not None:\n    s = toLower(s)\nreturn s', 'IrcDict.key changed: ' + k)
    need(not any(isinstance(n, ast.FunctionDef) and n.name in ('__getitem__', '__setitem__', '__contains__', '__delitem__', 'get')
                 for n in icls.body), 'IrcDict overrides an accessor')
    gen = tree('src/utils/gen.py')
    want = {'__getitem__': 'return self.data[self.key(k)][1]', '__setitem__': 'self.data[self.key(k)] = (k, v)',
            '__delitem__': 'del self.data[self.key(k)]'}
    for name, body in want.items():
        got = _norm(find_def(gen, name, 'InsensitivePreservingDict'))
        need(got == body, 'InsensitivePreservingDict.%s changed: %s' % (name, got))
    pcls = find_class(gen, 'InsensitivePreservingDict')
    need([ast.unparse(b) for b in pcls.bases] == ['collections.abc.MutableMapping'], 'InsensitivePreservingDict bases changed')
    need(not any(isinstance(n, ast.FunctionDef) and n.name in ('__contains__', 'get') for n in pcls.body),
         'InsensitivePreservingDict defines its own __contains__/get (MutableMapping derives them from __getitem__)')
    out = '(* ChannelsDictionary.channels: container and key function, as pinned *)\n'
    out += 'Definition CHANNELS_CONTAINER : list N := %s.\n' % cstr('ircutils.IrcDict')
    out += 'Definition CHANNELS_KEY : list N := %s.\n' % cstr('toLower(channel.lower())')
    return 'src/ircdb.py, src/ircutils.py, src/utils/gen.py', out
