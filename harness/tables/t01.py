"""tables + inventories for C01 (capability gate):
 * src/ircdb.py: the registered default of supybot.capabilities
 * src/commands.py: which converter names ask a capability question (transitively reach
   ircdb.checkCapability), which exceptions each context class catches
 * src/callbacks.py: the shape of the gate in _callCommand (the Y check + the prefix loop, before callCommand)
 * plugins/*/**.py: every wrap(f, [spec...]) / @wrap([...]) as (plugin, class path, command, flattened
   converter occurrences with the chain of enclosing contexts)
 * src/ + plugins/: every call site of _callCommand / callCommand / getCommandMethod and every class
   overriding callCommand / getCommandMethod / _callCommand
Fail-closed: unknown spec shapes are emitted as '?...' occurrences which the Coq predicate only accepts
when they are on the reviewed list."""
import ast, glob, os, warnings
from gen_tables import table, tree, find_def, find_class, need, cstr, clist, cbool, handler_names, REPO

GATING_EXPECTED = ['admin', 'checkCapability', 'checkCapabilityButIgnoreOwner', 'checkChannelCapability',
                   'halfop', 'op', 'owner', 'voice']
CONTEXTS = ['context', 'rest', 'additional', 'optional', 'any', 'many', 'first', 'reverse', 'commalist', 'getopts']
# contexts whose every positional argument is a spec / whose first positional argument is the spec
ALL_ARGS = {'first'}


def _parse(fn):
    with warnings.catch_warnings():
        warnings.simplefilter('ignore')
        with open(fn, encoding='utf-8') as f:
            return ast.parse(f.read(), fn)


def default_caps():
    t = tree('src/ircdb.py')
    hits = []
    for n in ast.walk(t):
        if isinstance(n, ast.Call) and ast.unparse(n.func) == 'conf.registerGlobalValue' and len(n.args) >= 3 \
                and isinstance(n.args[1], ast.Constant) and n.args[1].value == 'capabilities' \
                and ast.unparse(n.args[0]) == 'conf.supybot':
            hits.append(n)
    need(len(hits) == 1, 'expected one registration of supybot.capabilities')
    v = hits[0].args[2]
    need(isinstance(v, ast.Call) and ast.unparse(v.func) == 'DefaultCapabilities' and isinstance(v.args[0], ast.List),
         'supybot.capabilities is no longer DefaultCapabilities([...])')
    caps = ast.literal_eval(v.args[0])
    need(all(isinstance(c, str) for c in caps), 'default capabilities are not strings')
    # setValue's shape: parent setValue, membership test, add
    sv = find_def(t, 'setValue', 'DefaultCapabilities')
    need(len(sv.body) == 2 and isinstance(sv.body[1], ast.If), 'DefaultCapabilities.setValue: expected call + if')
    # the membership test must look at the stored elements: CapabilitySet.__contains__ also answers True for the inverse `owner`
    need(ast.unparse(sv.body[1].test) == "'-owner' not in set(self.value) and (not allowDefaultOwner)",
         'DefaultCapabilities.setValue test changed: ' + ast.unparse(sv.body[1].test))
    need(ast.unparse(sv.body[1].body[-1]) == "self.value.add('-owner')", 'DefaultCapabilities.setValue no longer adds -owner')
    return caps


def gating_names():
    """converter names of commands.wrappers whose function (transitively) calls ircdb.checkCapability"""
    t = tree('src/commands.py')
    funcs = {n.name: n for n in t.body if isinstance(n, ast.FunctionDef)}
    def calls(f):
        out = set()
        for n in ast.walk(f):
            if isinstance(n, ast.Call):
                out.add(ast.unparse(n.func))
        return out
    gating = {name for name, f in funcs.items() if 'ircdb.checkCapability' in calls(f) or 'ircdb.checkCapabilities' in calls(f)}
    changed = True
    while changed:
        changed = False
        for name, f in funcs.items():
            if name not in gating and calls(f) & gating:
                gating.add(name)
                changed = True
    w = None
    for n in t.body:
        if isinstance(n, ast.Assign) and ast.unparse(n.targets[0]) == 'wrappers':
            w = n.value
    need(w is not None and isinstance(w, ast.Call) and isinstance(w.args[0], ast.Dict), 'commands.wrappers is not IrcDict({...})')
    names = {}
    for k, v in zip(w.args[0].keys, w.args[0].values):
        need(isinstance(k, ast.Constant) and isinstance(v, ast.Name), 'wrappers entry is not "name": function')
        names[k.value] = v.id
    return sorted(k for k, v in names.items() if v in gating), sorted(names)


def context_catches():
    """{context class: [[exception names] per except clause of __call__]} of src/commands.py"""
    t = tree('src/commands.py')
    out = []
    for c in CONTEXTS:
        cls = find_class(t, c)
        base = ast.unparse(cls.bases[0]) if cls.bases else ''
        call = [n for n in cls.body if isinstance(n, ast.FunctionDef) and n.name == '__call__']
        need(len(call) == 1, 'context class %s has no single __call__' % c)
        hs = []
        for n in ast.walk(call[0]):
            if isinstance(n, ast.ExceptHandler):
                hs.append(sorted(x.replace('callbacks.', '') for x in handler_names(n)))
        out.append((c, base, sorted(hs)))
    known = {n.name for n in t.body if isinstance(n, ast.ClassDef) and any(ast.unparse(b) in CONTEXTS for b in n.bases)} | {'context'}
    need(known == set(CONTEXTS), 'context classes changed: %s' % sorted(known ^ set(CONTEXTS)))
    return out


def gate_shape():
    """the gate of _callCommand precedes callCommand: (1) cap = checkCommandCapability(msg, self, command[-1]),
    (2) for name in fullCommandName: prefix.append(name); cap = checkCommandCapability(msg, self, prefix),
    each followed by `if cap: irc.errorNoCapability(cap); return`, (3) self.callCommand(...)"""
    t = tree('src/callbacks.py')
    f = find_def(t, '_callCommand', 'Commands')
    trys = [n for n in f.body if isinstance(n, ast.Try)]
    need(len(trys) == 1, '_callCommand: expected one top-level try')
    body = trys[0].body
    flat = []
    for st in body:
        flat.append(st)
    def is_ccc(st):
        """<var> = checkCommandCapability(msg, self, <x>) -> (var, x) or None"""
        if isinstance(st, ast.Assign) and len(st.targets) == 1 and isinstance(st.targets[0], ast.Name) \
                and isinstance(st.value, ast.Call) and ast.unparse(st.value.func) == 'checkCommandCapability' and len(st.value.args) == 3:
            return st.targets[0].id, ast.unparse(st.value.args[2])
        return None

    def refuses(st, var):
        """if <var>: irc.errorNoCapability(<var>) ; return"""
        return isinstance(st, ast.If) and ast.unparse(st.test) == var and isinstance(st.body[-1], ast.Return) \
            and ('errorNoCapability(%s)' % var) in ast.unparse(st.body[0])
    idx = {}
    for i, st in enumerate(flat):
        c = is_ccc(st)
        if c and c[1] == 'command[-1]':
            idx['y'] = i
            need(i + 1 < len(flat) and refuses(flat[i + 1], c[0]), '_callCommand: Y check no longer refuses on its result')
        elif isinstance(st, ast.For) and ast.unparse(st.iter) == 'fullCommandName' and isinstance(st.target, ast.Name):
            idx['loop'] = i
            need(len(st.body) == 3, '_callCommand prefix loop changed (expected append, check, refuse)')
            app = st.body[0]
            need(isinstance(app, ast.Expr) and isinstance(app.value, ast.Call) and isinstance(app.value.func, ast.Attribute)
                 and app.value.func.attr == 'append' and ast.unparse(app.value.args[0]) == st.target.id,
                 '_callCommand prefix loop no longer appends the name')
            acc = ast.unparse(app.value.func.value)
            c = is_ccc(st.body[1])
            need(c is not None and c[1] == acc, '_callCommand prefix loop no longer checks the accumulated prefix')
            need(refuses(st.body[2], c[0]), '_callCommand prefix loop no longer refuses on its result')
            # the accumulator starts empty, right before the loop
            prev = flat[i - 1]
            need(isinstance(prev, ast.Assign) and ast.unparse(prev.targets[0]) == acc and ast.unparse(prev.value) == '[]',
                 '_callCommand prefix accumulator is not initialised to [] before the loop')
        elif isinstance(st, ast.Try) and 'self.callCommand(command, irc, msg' in ast.unparse(st):
            idx['call'] = i
    need(set(idx) == {'y', 'loop', 'call'}, '_callCommand gate statements not found: %s' % sorted(idx))
    need(idx['y'] < idx['loop'] < idx['call'], '_callCommand: gate no longer precedes callCommand')
    handlers = [sorted(handler_names(h)) for h in trys[0].handlers]
    # the plugin component checkCommandCapability compares a list name with: the same canonicalName() _callCommand starts
    # fullCommandName with (so a plugin class Foo_Bar / Foo-Bar passes the assert)
    ccc = find_def(t, 'checkCommandCapability')
    need(ast.unparse(ccc.body[0]) == 'plugin = cb.canonicalName()', 'checkCommandCapability: the plugin component is no longer cb.canonicalName(): ' + ast.unparse(ccc.body[0]))
    full = [ast.unparse(x) for x in ast.walk(f) if isinstance(x, ast.Assign) and ast.unparse(x.targets[0]) == 'fullCommandName']
    need(sorted(full) == ['fullCommandName = [self.canonicalName()] + command', 'fullCommandName = command'], '_callCommand: fullCommandName is built differently: %r' % full)
    return handlers


def _spec_occurrences(n, path, out, consts):
    """flatten one spec expression into (converter-name, [enclosing contexts]) occurrences"""
    if isinstance(n, ast.Constant) and (isinstance(n.value, str) or n.value is None):
        out.append(('anything' if n.value is None else n.value, path, ''))
    elif isinstance(n, ast.Tuple) and n.elts and isinstance(n.elts[0], ast.Constant) and isinstance(n.elts[0].value, str):
        arg = ''
        if len(n.elts) > 1:
            a = n.elts[1]
            arg = a.value if isinstance(a, ast.Constant) and isinstance(a.value, str) else '?' + ast.unparse(a)
        out.append((n.elts[0].value, path, arg))
    elif isinstance(n, ast.Call) and isinstance(n.func, ast.Name) and n.func.id in CONTEXTS:
        c = n.func.id
        if c == 'getopts':
            need(len(n.args) == 1, 'getopts with %d arguments' % len(n.args))
            d = n.args[0]
            if isinstance(d, ast.Dict):
                for v in d.values:
                    if isinstance(v, ast.Constant) and v.value == '':
                        continue
                    _spec_occurrences(v, path + [c], out, consts)
            else:
                out.append(('?' + ast.unparse(d)[:40], path + [c], ''))
        else:
            args = n.args if c in ALL_ARGS else n.args[:1]
            need(args, 'context %s without a spec' % c)
            for a in args:
                _spec_occurrences(a, path + [c], out, consts)
    elif isinstance(n, ast.Name) and n.id in consts:
        _spec_occurrences(consts[n.id], path, out, consts)
    else:
        out.append(('?' + ast.unparse(n)[:40], path, ''))


def plugin_files():
    files = sorted(glob.glob(os.path.join(REPO, 'plugins', '*', '**', '*.py'), recursive=True))
    return [f for f in files if os.path.basename(f) != 'test.py' and '/local/' not in f]


def wraps():
    """[(plugin, class path, command, occurrences)] for every wrap call in plugins/"""
    res = []
    for fn in plugin_files():
        rel = os.path.relpath(fn, REPO)
        plugin = rel.split(os.sep)[1]
        t = _parse(fn)
        consts = {}
        for n in t.body:
            if isinstance(n, ast.Assign) and len(n.targets) == 1 and isinstance(n.targets[0], ast.Name):
                consts[n.targets[0].id] = n.value

        def visit(node, classes, kids=None):
            for ch in (kids if kids is not None else ast.iter_child_nodes(node)):
                if isinstance(ch, ast.ClassDef):
                    visit(ch, classes + [ch.name])
                    continue
                if isinstance(ch, (ast.FunctionDef, ast.AsyncFunctionDef)):
                    for d in ch.decorator_list:
                        if isinstance(d, ast.Call) and ast.unparse(d.func) in ('wrap', 'commands.wrap'):
                            record(d, ch.name, classes, decorator=True)
                    visit(ch, classes, ch.body)
                    continue
                for n in ([ch] if isinstance(ch, ast.Call) else []) + [x for x in ast.walk(ch) if isinstance(x, ast.Call) and x is not ch]:
                    if ast.unparse(n.func) in ('wrap', 'commands.wrap'):
                        name = None
                        if isinstance(ch, ast.Assign) and len(ch.targets) == 1 and isinstance(ch.targets[0], ast.Name):
                            name = ch.targets[0].id
                        record(n, name, classes, decorator=False)

        def record(call, name, classes, decorator):
            args = list(call.args)
            if decorator:
                spec = args[0] if args else None
            else:
                need(args, '%s:%d wrap() without arguments' % (rel, call.lineno))
                if name is None:
                    name = ast.unparse(args[0])[:40]
                spec = args[1] if len(args) > 1 else None
            occ = []
            if spec is not None:
                if isinstance(spec, ast.Name) and spec.id in consts:
                    spec = consts[spec.id]
                if isinstance(spec, (ast.List, ast.Tuple)):
                    for e in spec.elts:
                        _spec_occurrences(e, [], occ, consts)
                else:
                    occ.append(('?' + ast.unparse(spec)[:40], [], ''))
            res.append((plugin, '.'.join(classes), name, occ, rel, call.lineno))
        visit(t, [])
    return res


def callsites():
    """call sites of the three dispatch methods + classes overriding them, in src/ and plugins/"""
    names = ('_callCommand', 'callCommand', 'getCommandMethod')
    files = sorted(glob.glob(os.path.join(REPO, 'src', '**', '*.py'), recursive=True)) + plugin_files()
    sites, seen = [], set()
    for fn in files:
        real = os.path.realpath(fn)
        if real in seen or os.path.basename(fn) == 'test.py':
            continue
        seen.add(real)
        rel = os.path.relpath(real, os.path.realpath(REPO))
        if rel.startswith('src/plugins') or rel.startswith('test'):
            continue
        t = _parse(fn)

        def walk(node, path):
            for ch in ast.iter_child_nodes(node):
                p = path
                if isinstance(ch, (ast.FunctionDef, ast.AsyncFunctionDef, ast.ClassDef)):
                    p = path + [ch.name]
                    if isinstance(ch, ast.FunctionDef) and ch.name in names:
                        sites.append((rel, '.'.join(path), 'def', ch.name))
                if isinstance(ch, ast.Attribute) and ch.attr in names:
                    sites.append((rel, '.'.join(p), 'use', ch.attr))
                walk(ch, p)
        walk(t, [])
    return sorted(set(sites))


def _chain(stmt):
    """an if/elif/else chain as [(test, last statement of the branch)]"""
    out = []
    while True:
        need(isinstance(stmt, ast.If), 'expected an if/elif chain, got ' + ast.unparse(stmt)[:60])
        out.append((ast.unparse(stmt.test), ast.unparse(stmt.body[-1])))
        if not stmt.orelse:
            return out
        if len(stmt.orelse) == 1 and isinstance(stmt.orelse[0], ast.If):
            stmt = stmt.orelse[0]
            continue
        out.append(('else', ast.unparse(stmt.orelse[-1])))
        return out


def denial_shape():
    """RichReplyMethods._error and errorNoCapability: the decisions the model's error_ / errorNoCapability mirror.
    errorNoCapability: Raise defaults to True; the rendered message s = self.__makeReply(v, s); then the final chain
    `if s: return self._error(s, **kwargs)  elif kwargs['Raise']: raise Error()`."""
    t = tree('src/callbacks.py')
    e = find_def(t, '_error', 'RichReplyMethods')
    need([a.arg for a in e.args.args] == ['self', 's', 'Raise'] and len(e.args.defaults) == 1 and ast.unparse(e.args.defaults[0]) == 'False',
         '_error signature changed: ' + ast.unparse(e.args))
    need(len(e.body) == 1, '_error: expected a single if/else')
    err = _chain(e.body[0])
    f = find_def(t, 'errorNoCapability', 'RichReplyMethods')
    need(len(f.body) >= 3, 'errorNoCapability body too short')
    head = _chain(f.body[0])
    need(isinstance(f.body[-2], ast.Assign) and ast.unparse(f.body[-2]) == 's = self.__makeReply(v, s)',
         'errorNoCapability: the message is no longer rendered right before the decision: ' + ast.unparse(f.body[-2])[:80])
    tail = _chain(f.body[-1])
    # nothing but the log line and the choice of the template between the default and the rendering
    mid = [type(x).__name__ for x in f.body[1:-2]]
    need(mid == ['Expr', 'If'], 'errorNoCapability: unexpected statements before the rendering: %r' % mid)
    # irc.error(s, Raise=True) of the two proxies raises before anything else is done
    proxies = []
    for cls, pos in (('ReplyIrcProxy', 0), ('NestedCommandsIrcProxy', 1)):
        g = find_def(t, 'error', cls)
        need(len(g.body) > pos and isinstance(g.body[pos], ast.If), '%s.error: no Raise test at statement %d' % (cls, pos))
        need(all(isinstance(x, ast.Assign) for x in g.body[:pos]), '%s.error: something other than an assignment precedes the Raise test' % cls)
        st = g.body[pos]
        proxies.append((cls, ast.unparse(st.test), ast.unparse(st.body[-1])))
    return err, head + tail, proxies


def nocap_sites():
    """every call <x>.errorNoCapability(...) in src/ and plugins/: (file, enclosing def, value of the Raise keyword or 'default')"""
    files = sorted(glob.glob(os.path.join(REPO, 'src', '**', '*.py'), recursive=True)) + plugin_files() \
        + [os.path.join(REPO, 'plugins', '__init__.py')]
    sites, seen = [], set()
    for fn in files:
        real = os.path.realpath(fn)
        if real in seen or os.path.basename(fn) == 'test.py':
            continue
        seen.add(real)
        rel = os.path.relpath(real, os.path.realpath(REPO))
        if rel.startswith('src/plugins') or rel.startswith('test'):
            continue
        t = _parse(fn)

        def walk(node, path):
            for ch in ast.iter_child_nodes(node):
                p = path + [ch.name] if isinstance(ch, (ast.FunctionDef, ast.AsyncFunctionDef, ast.ClassDef)) else path
                if isinstance(ch, ast.Call) and isinstance(ch.func, ast.Attribute) and ch.func.attr == 'errorNoCapability':
                    kw = 'default'
                    for k in ch.keywords:
                        if k.arg == 'Raise':
                            kw = ast.unparse(k.value)
                        elif k.arg is None:
                            kw = '**' + ast.unparse(k.value)
                    sites.append((rel, '.'.join(p), kw))
                walk(ch, p)
        walk(t, [])
    need(len(sites) >= 20, 'errorNoCapability call sites not found (%d)' % len(sites))
    return sorted(sites)


def argdep_functions():
    """functions of the bundled plugins that choose the capability they check from their arguments: a local variable
    assigned two or more different string literals that flows into ircdb.checkCapability / makeChannelCapability"""
    found = []
    for fn in plugin_files() + [os.path.join(REPO, 'plugins', '__init__.py')]:
        rel = os.path.relpath(fn, REPO)
        t = _parse(fn)
        for f in ast.walk(t):
            if not isinstance(f, ast.FunctionDef):
                continue
            lits, used = {}, set()
            for n in ast.walk(f):
                if isinstance(n, ast.Assign) and len(n.targets) == 1 and isinstance(n.targets[0], ast.Name) \
                        and isinstance(n.value, ast.Constant) and isinstance(n.value.value, str):
                    lits.setdefault(n.targets[0].id, set()).add(n.value.value)
                if isinstance(n, ast.Call) and ast.unparse(n.func) in ('ircdb.checkCapability', 'ircdb.makeChannelCapability', 'ircdb.checkCapabilities'):
                    for a in n.args:
                        used.update(x.id for x in ast.walk(a) if isinstance(x, ast.Name))
            for v, ls in sorted(lits.items()):
                if v in used and len(ls) > 1:
                    found.append((rel, f.name, ' '.join(sorted(ls))))
    return sorted(found)


def voice_shape():
    """Channel._voice: the decision table (condition on the nick list -> capability word) and the check that follows it"""
    t = _parse(os.path.join(REPO, 'plugins', 'Channel', 'plugin.py'))
    f = find_def(t, '_voice', 'Channel')
    need([a.arg for a in f.args.args] == ['self', 'irc', 'msg', 'args', 'channel', 'nicks', 'fn'], 'Channel._voice signature changed')
    need(len(f.body) == 3, 'Channel._voice: expected decision, makeChannelCapability, check (got %d statements)' % len(f.body))
    d = f.body[0]
    need(isinstance(d, ast.If) and len(d.body) == 1 and isinstance(d.body[0], ast.If), 'Channel._voice: decision is no longer if nicks: (if ...: else:) else:')
    inner = d.body[0]
    rows = [(ast.unparse(d.test), ast.unparse(inner.test), ' ; '.join(ast.unparse(x) for x in inner.body)),
            (ast.unparse(d.test), 'else', ' ; '.join(ast.unparse(x) for x in inner.orelse)),
            ('else', '', ' ; '.join(ast.unparse(x) for x in d.orelse))]
    need(ast.unparse(f.body[1]) == 'capability = ircdb.makeChannelCapability(channel, capability)', 'Channel._voice: capability is no longer made a channel capability')
    c = f.body[2]
    need(isinstance(c, ast.If) and ast.unparse(c.test) == 'ircdb.checkCapability(msg.prefix, capability)'
         and ast.unparse(c.body[-1]) == 'self._sendMsgs(irc, nicks, f)' and len(c.orelse) == 1
         and ast.unparse(c.orelse[0]) == 'irc.errorNoCapability(capability)', 'Channel._voice: the check / refusal changed')
    # the two commands that use it pass the nick list of any('nickInChannel') through unchanged
    for cmd, maker in (('voice', 'ircmsgs.voices'), ('devoice', 'ircmsgs.devoices')):
        g = find_def(t, cmd, 'Channel')
        calls = [ast.unparse(x) for x in g.body if isinstance(x, ast.Expr) and isinstance(x.value, ast.Call)]
        need(calls == ['self._voice(irc, msg, args, channel, nicks, %s)' % maker], 'Channel.%s no longer just calls _voice: %r' % (cmd, calls))
    return rows


def _stmts(body):
    """unparsed statements of a body, docstrings dropped"""
    return [ast.unparse(x) for x in body
            if not (isinstance(x, ast.Expr) and isinstance(x.value, ast.Constant) and isinstance(x.value.value, str))]


def config_channel_shape():
    """Config.channel's write branch (`if value is not None:`), Config._setValue, checkCanSetValue and getCapability:
    the statements Model.config_channel_set / set_value / config_cap mirror"""
    t = _parse(os.path.join(REPO, 'plugins', 'Config', 'plugin.py'))
    f = find_def(t, 'channel', 'Config')
    need([a.arg for a in f.args.args] == ['self', 'irc', 'msg', 'args', 'network', 'channels', 'group', 'value'], 'Config.channel signature changed')
    branch = [x for x in f.body if isinstance(x, ast.If) and ast.unparse(x.test) == 'value is not None']
    need(len(branch) == 1, 'Config.channel: no single `if value is not None:` branch')
    w = branch[0].body
    need(len(w) == 2 and isinstance(w[0], ast.For) and ast.unparse(w[0].target) == 'channel' and ast.unparse(w[0].iter) == 'channels'
         and not w[0].orelse, 'Config.channel: the write branch is no longer one loop over the channels followed by the success reply')
    loop = _stmts(w[0].body)
    after = _stmts(w[1:])
    sv = _stmts(find_def(t, '_setValue', 'Config').body)
    ccf = find_def(t, 'checkCanSetValue')
    cc = []
    for x in ccf.body:
        # the wording of the read-only message is not pinned, only that it aborts (Raise=True)
        if isinstance(x, ast.If) and len(x.body) == 1 and isinstance(x.body[0], ast.Expr) and isinstance(x.body[0].value, ast.Call) \
                and ast.unparse(x.body[0].value.func) == 'irc.error':
            kws = sorted('%s=%s' % (k.arg, ast.unparse(k.value)) for k in x.body[0].value.keywords)
            cc.append('if %s: irc.error(<text>, %s)' % (ast.unparse(x.test), ', '.join(kws)))
        else:
            cc += _stmts([x])
    gc = _stmts(find_def(t, 'getCapability').body)
    return loop + ['--'] + after + ['-- _setValue'] + sv + ['-- checkCanSetValue'] + cc + ['-- getCapability'] + gc


def scheduler_shape():
    """Scheduler: a scheduled command / reminder is dropped when the user who scheduled it is ignored at fire time"""
    t = _parse(os.path.join(REPO, 'plugins', 'Scheduler', 'plugin.py'))
    g = find_def(t, '_isIgnored', 'Scheduler')
    body = [x for x in g.body if not (isinstance(x, ast.Expr) and isinstance(x.value, ast.Constant))]
    need(len(body) == 1 and isinstance(body[0], ast.Return), 'Scheduler._isIgnored is no longer a single return')
    test = ast.unparse(body[0].value)
    mk = find_def(t, '_makeCommandFunction', 'Scheduler')
    inner = [x for x in mk.body if isinstance(x, ast.FunctionDef)]
    need(len(inner) == 1, 'Scheduler._makeCommandFunction: no single inner function')
    st = inner[0].body
    idx = [i for i, x in enumerate(st) if ast.unparse(x) == 'self.Proxy(irc, msg, tokens)']
    need(len(idx) == 1 and idx[0] == len(st) - 1, 'Scheduler: self.Proxy(irc, msg, tokens) is not the last statement of the scheduled function')
    guard = st[idx[0] - 1]
    need(isinstance(guard, ast.If) and ast.unparse(guard.test) == 'self._isIgnored(msg)' and isinstance(guard.body[-1], ast.Return) and not guard.orelse,
         'Scheduler: the scheduled command is not guarded by `if self._isIgnored(msg): ... return` right before self.Proxy')
    rm = find_def(t, '_makeReminderFunction', 'Scheduler')
    rinner = [x for x in rm.body if isinstance(x, ast.FunctionDef)]
    need(len(rinner) == 1, 'Scheduler._makeReminderFunction: no single inner function')
    for x in ast.walk(rinner[0]):
        if isinstance(x, ast.Call) and isinstance(x.func, ast.Attribute) and x.func.attr == 'reply':
            par = [y for y in rinner[0].body if isinstance(y, ast.If) and any(z is x for z in ast.walk(y))]
            need(len(par) == 1 and ast.unparse(par[0].test) == 'not self._isIgnored(msg)', 'Scheduler: the reminder reply is not guarded by _isIgnored')
    # every schedule.addEvent / addPeriodicEvent of the plugin gets a function made by one of the two makers
    return test


@table('T01')
def gen_T01():
    caps = default_caps()
    gating, allnames = gating_names()
    need(gating == GATING_EXPECTED, 'gating converters changed: %r' % gating)
    catches = context_catches()
    handlers = gate_shape()
    ws = wraps()
    cs = callsites()
    err_chain, enc_chain, proxy_raise = denial_shape()
    ncs = nocap_sites()
    argdep = argdep_functions()
    vrows = voice_shape()
    ccs = config_channel_shape()
    sched_test = scheduler_shape()
    # ASSUMPTION pinned: nobody registers a pre_command_callback (they could veto or replace a command before its body)
    pcc = []
    for fn in sorted(glob.glob(os.path.join(REPO, 'src', '**', '*.py'), recursive=True)) + plugin_files() + [os.path.join(REPO, 'plugins', '__init__.py')]:
        rel = os.path.relpath(os.path.realpath(fn), os.path.realpath(REPO))
        if rel.startswith('src/plugins') or os.path.basename(fn) == 'test.py':
            continue
        with open(fn, encoding='utf-8') as fh:
            if 'pre_command_callbacks' in fh.read():
                pcc.append(rel)
    need(sorted(set(pcc)) == ['src/callbacks.py'], 'pre_command_callbacks is now used outside src/callbacks.py: %r' % sorted(set(pcc)))
    out = 'Require Import Base.Wire.\n'
    out += 'Definition DEFAULT_CAPS : list str :=\n  %s.\n' % clist(cstr(c) for c in caps)
    out += 'Definition GATING : list str :=\n  %s.\n' % clist(cstr(c) for c in gating)
    out += 'Definition CONVERTERS : list str :=\n  %s.\n' % clist(cstr(c) for c in allnames)
    out += '(* context class, base class, exception names of each except clause of __call__ *)\n'
    out += 'Definition CATCHES : list (str * str * list (list str)) :=\n  %s.\n' % clist(
        '(%s, %s, %s)' % (cstr(c), cstr(b), clist(clist(cstr(x) for x in h) for h in hs)) for c, b, hs in catches)
    out += 'Definition CALL_HANDLERS : list (list str) :=\n  %s.\n' % clist(clist(cstr(x) for x in h) for h in handlers)
    out += '(* plugin, class path, command, occurrences (converter, enclosing contexts, first argument) *)\n'
    out += 'Definition WRAPS : list (str * str * str * list (str * list str * str)) :=\n  %s.\n' % clist(
        '\n   (%s, %s, %s, %s)' % (cstr(p), cstr(cl), cstr(nm or '?'),
                                   clist('(%s, %s, %s)' % (cstr(c), clist(cstr(x) for x in path), cstr(a)) for c, path, a in occ))
        for p, cl, nm, occ, _, _ in ws)
    out += '(* file, enclosing def/class, def|use, name *)\n'
    out += 'Definition CALLSITES : list (str * str * str * str) :=\n  %s.\n' % clist(
        '\n   (%s, %s, %s, %s)' % (cstr(a), cstr(b), cstr(c), cstr(d)) for a, b, c, d in cs)
    out += '(* RichReplyMethods._error and errorNoCapability as decision chains (test, last statement of the branch) *)\n'
    out += 'Definition ERROR_CHAIN : list (str * str) :=\n  %s.\n' % clist('(%s, %s)' % (cstr(a), cstr(b)) for a, b in err_chain)
    out += 'Definition ENC_CHAIN : list (str * str) :=\n  %s.\n' % clist('(%s, %s)' % (cstr(a), cstr(b)) for a, b in enc_chain)
    out += 'Definition PROXY_ERROR_RAISE : list (str * str * str) :=\n  %s.\n' % clist('(%s, %s, %s)' % (cstr(a), cstr(b), cstr(c)) for a, b, c in proxy_raise)
    out += '(* file, enclosing def, Raise keyword of every errorNoCapability call *)\n'
    out += 'Definition NOCAP_SITES : list (str * str * str) :=\n  %s.\n' % clist(
        '\n   (%s, %s, %s)' % (cstr(a), cstr(b), cstr(c)) for a, b, c in ncs)
    out += '(* plugin functions choosing the checked capability from their arguments: file, function, the literals *)\n'
    out += 'Definition ARGDEP : list (str * str * str) :=\n  %s.\n' % clist('(%s, %s, %s)' % (cstr(a), cstr(b), cstr(c)) for a, b, c in argdep)
    out += '(* Channel._voice decision rows: outer test, inner test, statements *)\n'
    out += 'Definition VOICE_ROWS : list (str * str * str) :=\n  %s.\n' % clist('(%s, %s, %s)' % (cstr(a), cstr(b), cstr(c)) for a, b, c in vrows)
    out += '(* Config.channel write loop, _setValue, checkCanSetValue, getCapability: unparsed statements *)\n'
    out += 'Definition CONFIG_CHANNEL : list str :=\n  %s.\n' % clist('\n   ' + cstr(x) for x in ccs)
    out += '(* Scheduler._isIgnored: the test applied to a scheduled command when it fires *)\n'
    out += 'Definition SCHED_IGNORE_TEST : str := %s.\n' % cstr(sched_test)
    return 'src/ircdb.py, src/commands.py, src/callbacks.py, plugins/*/**.py', out
