"""tables for C20 (src/irclib.py, plugins/Owner/plugin.py, plugins/Misc/plugin.py, src/plugin.py)"""
import ast
from gen_tables import *  # noqa: F401,F403
from gen_tables import table, tree, find_def, find_class, need, cstr, clist


def _norm(node):
    return ast.unparse(node)


@table('T20')
def gen_T20():
    # --- Owner / Misc callPrecedence: the two non-default precedence shapes of the model (ckind 1 / 2)
    ot = tree('plugins/Owner/plugin.py')
    f = find_def(ot, 'callPrecedence', 'Owner')
    need(len(f.body) == 1 and _norm(f.body[0]) == 'return ([], [cb for cb in irc.callbacks if cb is not self])',
         'Owner.callPrecedence changed: ' + _norm(f))
    mt = tree('plugins/Misc/plugin.py')
    f = find_def(mt, 'callPrecedence', 'Misc')
    need(len(f.body) == 1 and _norm(f.body[0]) == 'return ([cb for cb in irc.callbacks if cb is not self], [])',
         'Misc.callPrecedence changed: ' + _norm(f))
    # --- IrcCallback: default callBefore/callAfter empty, callPrecedence firewalled with ([], [])
    it = tree('src/irclib.py')
    ic = find_class(it, 'IrcCallback')
    defaults = {}
    fw = None
    for n in ic.body:
        if isinstance(n, ast.Assign) and len(n.targets) == 1 and isinstance(n.targets[0], ast.Name):
            if n.targets[0].id in ('callAfter', 'callBefore'):
                defaults[n.targets[0].id] = _norm(n.value)
            if n.targets[0].id == '__firewalled__':
                fw = n.value
    need(defaults == {'callAfter': '()', 'callBefore': '()'}, 'IrcCallback.callBefore/callAfter defaults changed')
    need(isinstance(fw, ast.Dict), 'IrcCallback.__firewalled__ is not a dict literal')
    fwd = {ast.literal_eval(k): _norm(v) for k, v in zip(fw.keys, fw.values)}
    need(fwd.get('callPrecedence') == 'lambda self, irc: ([], [])',
         'IrcCallback.__firewalled__[callPrecedence] changed: %r' % fwd.get('callPrecedence'))
    cp = find_def(it, 'callPrecedence', 'IrcCallback')
    asserts = [n for n in ast.walk(cp) if isinstance(n, ast.Assert)]
    need([_norm(a.test) for a in asserts] == ['self not in after', 'self not in before'],
         'IrcCallback.callPrecedence asserts changed')
    # --- the Owner guard of unload / reload
    guards = []
    for name in ('unload', 'reload'):
        f = find_def(ot, name, 'Owner')
        ifs = [n for n in f.body if isinstance(n, ast.If)]
        need(ifs and _norm(ifs[0].test) == 'ircutils.strEqual(name, self.name())',
             'Owner.%s no longer starts with the strEqual(name, self.name()) guard' % name)
        need(isinstance(ifs[0].body[-1], ast.Return), 'Owner.%s guard does not return' % name)
        guards.append(name)
    # reload: which exceptions restore the removed callbacks
    f = find_def(ot, 'reload', 'Owner')
    trys = [n for n in ast.walk(f) if isinstance(n, ast.Try)]
    need(len(trys) == 1 and len(trys[0].handlers) == 1, 'Owner.reload: expected one try/except')
    h = trys[0].handlers[0]
    need(h.type is not None and _norm(h.type) == 'ImportError', 'Owner.reload except clause changed: %s'
         % (_norm(h.type) if h.type else 'bare'))
    out = 'Definition OWNER_NAME : list N := %s.\n' % cstr('Owner')
    out += 'Definition RELOAD_RESTORES_ON_IMPORTERROR_ONLY : bool := true.\n'
    return 'plugins/Owner/plugin.py, plugins/Misc/plugin.py, src/irclib.py', out
