"""tables for C20 (src/irclib.py, plugins/Owner/plugin.py, plugins/Misc/plugin.py, src/plugin.py)"""
import ast
from gen_tables import *  # noqa: F401,F403
from gen_tables import table, tree, find_def, find_class, need, cstr, clist, module_assign


def _norm(node):
    return ast.unparse(node)


@table('T20')
def gen_T20():
    # --- Owner / Misc callPrecedence: the two non-default precedence shapes of the model (ckind 1 / 2)
    ot = tree('plugins/Owner/plugin.py')
    f = find_def(ot, 'callPrecedence', 'Owner')
    need(len(f.body) == 1 and _norm(f.body[0]) == 'return ([], [cb for cb in irc.callbacks if cb is not self])',
         'Owner.callPrecedence changed: ' + _norm(f))
    mt = tree('plugins/Misc/plugin.py')
    f = find_def(mt, 'callPrecedence', 'Misc')
    need(len(f.body) == 1 and _norm(f.body[0]) == 'return ([cb for cb in irc.callbacks if cb is not self], [])',
         'Misc.callPrecedence changed: ' + _norm(f))
    # --- IrcCallback: default callBefore/callAfter empty, callPrecedence firewalled with ([], [])
    it = tree('src/irclib.py')
    ic = find_class(it, 'IrcCallback')
    defaults = {}
    fw = None
    for n in ic.body:
        if isinstance(n, ast.Assign) and len(n.targets) == 1 and isinstance(n.targets[0], ast.Name):
            if n.targets[0].id in ('callAfter', 'callBefore'):
                defaults[n.targets[0].id] = _norm(n.value)
            if n.targets[0].id == '__firewalled__':
                fw = n.value
    need(defaults == {'callAfter': '()', 'callBefore': '()'}, 'IrcCallback.callBefore/callAfter defaults changed')
    need(isinstance(fw, ast.Dict), 'IrcCallback.__firewalled__ is not a dict literal')
    fwd = {ast.literal_eval(k): _norm(v) for k, v in zip(fw.keys, fw.values)}
    need(fwd.get('callPrecedence') == 'lambda self, irc: ([], [])',
         'IrcCallback.__firewalled__[callPrecedence] changed: %r' % fwd.get('callPrecedence'))
    cp = find_def(it, 'callPrecedence', 'IrcCallback')
    asserts = [n for n in ast.walk(cp) if isinstance(n, ast.Assert)]
    # fix C20.F23: no assert here any more (the firewall would swallow it); Irc._sortCallbacks rejects a self-reference
    need(asserts == [], 'IrcCallback.callPrecedence has asserts again (they are swallowed by the firewall): %r'
         % [_norm(a.test) for a in asserts])
    sc = find_def(it, '_sortCallbacks', 'Irc')
    sa = [_norm(a.test) for a in ast.walk(sc) if isinstance(a, ast.Assert)]
    need(sorted(sa) == ['cb not in after', 'cb not in before', 'len(cbs) == len(self.callbacks)'],
         'Irc._sortCallbacks asserts changed: %r' % sa)
    # fix C20.F22: addCallback = assert unique name; append; try: _sortCallbacks() except Exception: remove(callback); raise
    ac = find_def(it, 'addCallback', 'Irc')
    body = [n for n in ac.body if not (isinstance(n, ast.Expr) and isinstance(n.value, ast.Constant))]
    need(len(body) == 3 and _norm(body[0]) == 'assert not self.getCallback(callback.name())'
         and _norm(body[1]) == 'self.callbacks.append(callback)' and isinstance(body[2], ast.Try),
         'Irc.addCallback shape changed')
    t = body[2]
    need([_norm(x) for x in t.body] == ['self._sortCallbacks()'] and len(t.handlers) == 1
         and _norm(t.handlers[0].type) == 'Exception'
         and [_norm(x) for x in t.handlers[0].body] == ['self.callbacks.remove(callback)', 'raise']
         and not t.orelse and not t.finalbody, 'Irc.addCallback try/except shape changed')
    # --- the Owner guard of unload / reload
    guards = []
    for name in ('unload', 'reload'):
        f = find_def(ot, name, 'Owner')
        ifs = [n for n in f.body if isinstance(n, ast.If)]
        need(ifs and _norm(ifs[0].test) == 'ircutils.strEqual(name, self.name())',
             'Owner.%s no longer starts with the strEqual(name, self.name()) guard' % name)
        need(isinstance(ifs[0].body[-1], ast.Return), 'Owner.%s guard does not return' % name)
        guards.append(name)
    # reload (fixes C20.F21 import part, C20.F24): sys.modules.get; the import phase alone is in the try;
    # ImportError -> put back + irc.error; Exception -> put back + raise; else: die() + loadPluginClass
    f = find_def(ot, 'reload', 'Owner')
    src_ = _norm(f)
    need('sys.modules.get(callbacks[0].__module__)' in src_ and 'sys.modules[callbacks[0].__module__]' not in src_,
         'Owner.reload: module lookup is not sys.modules.get(...)')
    trys = [n for n in ast.walk(f) if isinstance(n, ast.Try)]
    need(len(trys) == 1 and len(trys[0].handlers) == 2, 'Owner.reload: expected one try with two handlers')
    t = trys[0]
    need([_norm(h.type) if h.type else 'bare' for h in t.handlers] == ['ImportError', 'Exception'],
         'Owner.reload except clauses changed')
    readd = 'for callback in callbacks:\n    irc.addCallback(callback)'
    need(_norm(t.handlers[0].body[0]) == readd and _norm(t.handlers[1].body[0]) == readd
         and _norm(t.handlers[1].body[-1]) == 'raise', 'Owner.reload handlers no longer put the callbacks back')
    tb = ' '.join(_norm(x) for x in t.body)
    need('loadPluginModule' in tb and 'die()' not in tb and 'loadPluginClass' not in tb,
         'Owner.reload: the try body is no longer the import phase alone')
    # fix C20.F26: nothing that can raise sits between removeCallback and the try: the old module's reload() hook is called
    # inside it, first
    need(_norm(t.body[0]) == "if hasattr(module, 'reload'):\n    x = module.reload()",
         'Owner.reload: the try block no longer starts with the module-level reload() hook')
    ifcb = [n for n in f.body if isinstance(n, ast.If) and _norm(n.test) == 'callbacks']
    need(len(ifcb) == 1 and [type(x).__name__ for x in ifcb[0].body] == ['Assign', 'Try']
         and _norm(ifcb[0].body[0]) == 'module = sys.modules.get(callbacks[0].__module__)',
         'Owner.reload: statements other than the sys.modules.get lookup stand between removeCallback and the try block')
    ld = find_def(ot, 'load', 'Owner')
    need("if name.endswith('.py'):\n    name = name[:-3]" in [_norm(n) for n in ld.body], "Owner.load no longer strips a '.py' suffix")
    # die() of the old instances: exactly one call site in Owner.reload, inside the else clause (after the import succeeded)
    dies = [n for n in ast.walk(f) if isinstance(n, ast.Call) and isinstance(n.func, ast.Attribute) and n.func.attr == 'die']
    dies_else = [n for x in t.orelse for n in ast.walk(x) if isinstance(n, ast.Call) and isinstance(n.func, ast.Attribute) and n.func.attr == 'die']
    need(len(dies) == 1 and len(dies_else) == 1, 'Owner.reload calls die() outside the else clause of the import try '
         '(the old instance must not be torn down while the import can still fail): %d call(s), %d in else' % (len(dies), len(dies_else)))
    # a raising die() is swallowed: `die` is firewalled for every plugin class (MetaFirewall walks the MRO of each base)
    need(fwd.get('die') == 'None', "IrcCallback.__firewalled__['die'] changed")
    lt = tree('src/log.py')
    mf = find_def(lt, '__new__', 'MetaFirewall')
    need('base.__mro__' in _norm(mf), 'log.MetaFirewall.__new__ no longer merges __firewalled__ along the MRO of the bases')
    eb = ' '.join(_norm(x) for x in t.orelse)
    need('callback.die()' in eb and 'plugin.loadPluginClass(irc, module)' in eb, 'Owner.reload: else clause changed')
    # --- plugin.loadPluginModule: how a requested name is mapped to a directory entry
    pt = tree('src/plugin.py')
    lm = find_def(pt, 'loadPluginModule')
    ifs = [n for n in lm.body if isinstance(n, ast.If) and _norm(n.test) == 'name not in files']
    need(len(ifs) == 1, 'loadPluginModule: the `if name not in files:` lookup changed')
    blk = ifs[0].body
    need(len(blk) == 3 and _norm(blk[0]) == "search = lambda x: re.search('(?i)^%s$' % (re.escape(name),), x)",
         'loadPluginModule: the case-insensitive name match is no longer re.search(r"(?i)^%%s$" %% (re.escape(name),), x) '
         '(escaped name, anchored at both ends): %s' % (_norm(blk[0]) if blk else None))
    need(_norm(blk[1]) == 'matched_names = list(filter(search, files))', 'loadPluginModule: matched_names changed')
    need(isinstance(blk[2], ast.If) and _norm(blk[2].test) == 'len(matched_names) >= 1'
         and [_norm(x) for x in blk[2].body] == ['name = matched_names[0]'], 'loadPluginModule: choice among matched names changed')
    # --- every write to self.callbacks in class Irc: the list object is shared by all Irc objects (module-level
    # _callbacks, default argument of Irc.__init__) and must never be rebound outside __init__
    irc_cls = find_class(it, 'Irc')
    init = find_def(it, '__init__', 'Irc')
    defaults = dict(zip([a.arg for a in init.args.args][-len(init.args.defaults):], init.args.defaults))
    need('callbacks' in defaults and _norm(defaults['callbacks']) == '_callbacks',
         'Irc.__init__: callbacks no longer defaults to the module-level _callbacks list')
    need(_norm(module_assign(it, '_callbacks')) == '[]', 'irclib._callbacks is not a module-level empty list')
    MUTATORS = ('append', 'remove', 'insert', 'extend', 'pop', 'sort', 'reverse', 'clear')

    def is_cbs(n):
        return isinstance(n, ast.Attribute) and n.attr == 'callbacks' and isinstance(n.value, ast.Name) and n.value.id == 'self'
    writes = []
    for meth in [n for n in irc_cls.body if isinstance(n, ast.FunctionDef)]:
        for n in ast.walk(meth):
            targets = []
            if isinstance(n, ast.Assign):
                targets = n.targets
            elif isinstance(n, (ast.AugAssign, ast.AnnAssign)):
                targets = [n.target]
            elif isinstance(n, ast.Delete):
                targets = n.targets
            elif isinstance(n, (ast.For, ast.comprehension)):
                targets = [n.target]
            elif isinstance(n, (ast.With,)):
                targets = [i.optional_vars for i in n.items if i.optional_vars is not None]
            flat = []
            for t in targets:
                flat += list(t.elts) if isinstance(t, (ast.Tuple, ast.List)) else [t]
            for t in flat:
                if is_cbs(t):
                    writes.append((meth.name, 0 if (meth.name == '__init__' and isinstance(n, ast.Assign)) else 3, n.lineno))
                elif isinstance(t, ast.Subscript) and is_cbs(t.value):
                    writes.append((meth.name, 1, n.lineno))
            if isinstance(n, ast.Call) and isinstance(n.func, ast.Attribute) and is_cbs(n.func.value) and n.func.attr in MUTATORS:
                writes.append((meth.name, 2, n.lineno))
            if isinstance(n, ast.Call) and _norm(n.func) == 'setattr' and n.args and _norm(n.args[0]) == 'self':
                need(False, 'Irc.%s uses setattr(self, ...): cannot tell whether self.callbacks is rebound' % meth.name)
    need(sum(1 for w in writes if w[1] == 0) == 1, 'Irc.__init__ no longer binds self.callbacks exactly once')
    rebinds = [w for w in writes if w[1] == 3]
    need(not rebinds, 'self.callbacks (the list shared by all Irc objects) is rebound in %s'
         % ', '.join('Irc.%s line %d' % (w[0], w[2]) for w in rebinds))
    out = 'Definition OWNER_NAME : list N := %s.\n' % cstr('Owner')
    out += ('(* writes to self.callbacks in class Irc: (method, kind); kind 0 = the binding in __init__, 1 = slice/index assignment, '
            '2 = in-place list method, 3 = rebinding *)\n')
    out += 'Definition CALLBACKS_WRITES : list (list N * N) := %s.\n' % clist('(%s, %d)' % (cstr(w[0]), w[1]) for w in writes)
    out += 'Definition RELOAD_RESTORES_ON_IMPORT_FAILURE : bool := true.\n'
    return 'plugins/Owner/plugin.py, plugins/Misc/plugin.py, src/irclib.py', out
