"""tables for C16 (src/ircdb.py writers/readers, src/unpreserve.py, src/ircutils.py folding)"""
import ast, string
from gen_tables import table, tree, module_assign, find_def, find_class, need, cstr, clist, cN, src

USER_W = ['name', 'ignore', 'secure', 'hashed', 'password', 'capability', 'hostmask', 'nicks', 'gpgkey']
CHAN_W = ['lobotomized', 'defaultallow', 'capability', 'ban', 'ignore']
NET_W = ['stspolicy', 'lastdisconnecttime']
USER_R = ['user', 'name', 'ignore', 'secure', 'hashed', 'password', 'hostmask', 'nicks', 'capability', 'gpgkey']
CHAN_R = ['channel', 'lobotomized', 'defaultallow', 'capability', 'ban', 'ignore']
NET_R = ['network', 'stspolicy', 'lastdisconnecttime']
SHAPES = {'%s', '%s %s', '%s %d', '%d'}


def write_formats(fn):
    """format strings handed to the local write() of a preserve method, in source order"""
    out = []
    for n in ast.walk(fn):
        if isinstance(n, ast.Call) and isinstance(n.func, ast.Name) and n.func.id == 'write':
            need(len(n.args) == 1, 'write() call shape')
            a = n.args[0]
            need(isinstance(a, ast.BinOp) and isinstance(a.left, ast.Constant) and isinstance(a.left.value, str),
                 'write() argument is not "fmt" %% x / "kw " + x: ' + ast.unparse(a))
            if isinstance(a.op, ast.Mod):
                fmt = a.left.value
            else:
                need(isinstance(a.op, ast.Add), 'write() argument operator')
                fmt = a.left.value + '%s'
            out.append((n.lineno, n.col_offset, fmt))
    return [f for _, _, f in sorted(out)]


def keywords(fmts, labels, what):
    need(len(fmts) == len(labels), '%s: expected %d write() calls, found %d' % (what, len(labels), len(fmts)))
    kws = []
    for f in fmts:
        need(' ' in f, what + ': format without a space: %r' % f)
        kw, rest = f.split(' ', 1)
        need(rest in SHAPES, what + ': unexpected format %r' % f)
        kws.append(kw)
    return kws


FLUSH_TRAILER = {}


def header_kw(cls, what):
    """the 'user %s' / 'channel %s' / 'network %s' record header of a flush method"""
    fl = find_def(tree('src/ircdb.py'), 'flush', cls)
    c = [n.value for n in ast.walk(fl) if isinstance(n, ast.Constant) and isinstance(n.value, str) and '%s' in n.value
         and 'flush' not in n.value]
    if cls == 'UsersDictionary' and len(c) == 2:
        # the trailer that stores nextId, written after the loop over the users
        src0 = ast.unparse(fl)
        c = sorted(c, key=lambda x: x == 'nextid %s')
        need(c[1] == 'nextid %s' and "fd.write('nextid %s' % self.nextId)\n            fd.write(os.linesep)\n            fd.close()" in src0,
             'UsersDictionary.flush trailer changed: %r' % c)
        FLUSH_TRAILER['nextid'] = True
        c = c[:1]
    need(len(c) == 1 and c[0].endswith(' %s') and ' ' not in c[0][:-3], what + ' flush header: %r' % c)
    src = ast.unparse(fl)
    need('sorted(self.' in src and "indent='  ')" in src, what + ' flush: sorted()/indent shape changed')
    return c[0][:-3]


def handlers(clsnode):
    """methods taking (self, rest, lineno); other lower-case attributes the Reader's hasattr() sees"""
    hs, other = [], set()
    for n in clsnode.body:
        if isinstance(n, ast.FunctionDef):
            args = [a.arg for a in n.args.args]
            if args == ['self', 'rest', 'lineno']:
                hs.append(n.name)
            else:
                other.add(n.name)
        elif isinstance(n, ast.Assign):
            for t in n.targets:
                if isinstance(t, ast.Name):
                    other.add(t.id)
                    if t.id == '__slots__':
                        v = ast.literal_eval(n.value)
                        other.update([v] if isinstance(v, str) else list(v))
    other |= set(dir(object)) | {'__module__', '__doc__', '__slots__', 'badCommand'}
    other = sorted(a for a in other if a == a.lower() and a not in hs)
    return hs, other


# ---- which configuration options do the readers / writers consult?  (typed call graph over ircdb.py + unpreserve.py)
RECV = {'self.c': ['IrcChannel'], 'self.net': ['IrcNetwork'], 'self.u': ['IrcUser'], 'self.users': ['UsersDictionary'],
        'self.channels': ['ChannelsDictionary'], 'self.networks': ['NetworksDictionary'],
        'self.c.capabilities': ['CapabilitySet'], 'self.u.capabilities': ['UserCapabilitySet'],
        'self.capabilities': ['CapabilitySet', 'UserCapabilitySet'], 'self.__parent': ['CapabilitySet'], 'reader': ['Reader']}
EXTERNAL = ('utils', 'ircutils', 'log', 'os', 'time', 'operator', 'minisix', 'world', 'registry', 'conf')


class Sweep(object):
    def __init__(self, mods):
        self.classes, self.bases, self.modfuncs, self.alias = {}, {}, {}, {}
        for mod in mods:
            for n in mod.body:
                if isinstance(n, ast.FunctionDef):
                    self.modfuncs[n.name] = n
                elif isinstance(n, ast.ClassDef):
                    self.classes[n.name] = {m.name: m for m in n.body if isinstance(m, ast.FunctionDef)}
                    self.bases[n.name] = [ast.unparse(b) for b in n.bases]
                elif isinstance(n, ast.Assign) and len(n.targets) == 1 and isinstance(n.targets[0], ast.Name) \
                        and isinstance(n.value, ast.Name):
                    self.alias[n.targets[0].id] = n.value.id

    def lookup(self, cls, name):
        while cls in self.classes:
            if name in self.classes[cls]:
                return [(cls, self.classes[cls][name])]
            nxt = [b for b in self.bases[cls] if b in self.classes]
            if not nxt:
                break
            cls = nxt[0]
        return []

    def resolve(self, cls, call, recv):
        f = call.func
        if isinstance(f, ast.Name):
            name = self.alias.get(f.id, f.id)
            if name in self.classes:
                return self.lookup(name, '__init__')
            if name in self.modfuncs:
                return [('', self.modfuncs[name])]
            return []
        if isinstance(f, ast.Attribute):
            r = ast.unparse(f.value)
            if r == 'self':
                if f.attr == 'Creator':
                    return sum([self.lookup(c, '__init__') for c in recv.get('self.creator', [])], [])
                return self.lookup(cls, f.attr)
            if r in recv:
                return sum([self.lookup(c, f.attr) for c in recv[r]], [])
            if r.split('.')[0] in EXTERNAL:
                return []
            return [(c, self.classes[c][f.attr]) for c in self.classes if f.attr in self.classes[c]]   # unknown receiver
        return []

    def reach(self, roots, recv):
        seen, todo = {}, list(roots)
        while todo:
            cls, fn = todo.pop()
            if (cls, fn.name) in seen:
                continue
            seen[(cls, fn.name)] = fn
            for n in ast.walk(fn):
                if isinstance(n, ast.Call):
                    todo += self.resolve(cls, n, recv)
        return seen

    def options(self, roots, recv):
        out = set()
        for fn in self.reach(roots, recv).values():
            chains = [ast.unparse(n) for n in ast.walk(fn) if isinstance(n, ast.Attribute) and ast.unparse(n).startswith('conf.')]
            for c in chains:
                need(c.startswith('conf.supybot'), 'reader/writer code uses conf in an unknown way: ' + c)
            out |= {c[len('conf.'):] for c in chains if c != 'conf.supybot' and not any(y.startswith(c + '.') for y in chains)}
            for n in ast.walk(fn):       # conf handed around as a value would escape the sweep
                if isinstance(n, ast.Name) and n.id == 'conf':
                    pass
        return sorted(out)

    def methods(self, cls):
        need(cls in self.classes, 'no class ' + cls)
        return [(cls, m) for m in self.classes[cls].values()]

    def reader(self, creator, dic):
        recv = dict(RECV)
        recv['self.creator'] = [creator]
        return self.options(self.methods(creator) + self.methods('Reader') + self.methods('Creator')
                            + [(dic, self.classes[dic]['open'])], recv)


@table('T16')
def gen_T16():
    t = tree('src/ircutils.py')
    v = module_assign(t, '_rfc1459trans')
    need(isinstance(v, ast.Call) and ast.unparse(v.func) == 'utils.str.MultipleReplacer', '_rfc1459trans shape')
    inner = v.args[0]
    need(ast.unparse(inner).startswith('dict(list(zip('), '_rfc1459trans: expected dict(list(zip(a, b)))')
    zipcall = inner.args[0].args[0]
    need(isinstance(zipcall, ast.Call) and len(zipcall.args) == 2, 'zip shape')
    env = {'string': string}
    a = eval(compile(ast.Expression(zipcall.args[0]), 'x', 'eval'), env)
    b = eval(compile(ast.Expression(zipcall.args[1]), 'x', 'eval'), env)
    need(len(a) == len(b) and all(len(x) == 1 for x in a + b), 'fold table not char-wise')
    fold = sorted(set(zip(a, b)))
    need('return _rfc1459trans(s)' in ast.unparse(find_def(t, 'toLower')), 'toLower no longer returns _rfc1459trans(s)')
    ic = find_def(t, 'isChannel')
    defaults = [ast.literal_eval(d) for d in ic.args.defaults]
    need(len(defaults) == 2 and isinstance(defaults[0], str) and isinstance(defaults[1], int), 'isChannel defaults')
    need(ast.unparse(module_assign(t, 'userHostmaskRe')) == "re.compile('^\\\\S+!\\\\S+@\\\\S+$')", 'userHostmaskRe changed')
    ws = [i for i in range(0x110000) if chr(i).isspace()]

    d = tree('src/ircdb.py')
    off = None
    for n in find_class(d, 'IrcChannel').body:
        if isinstance(n, ast.Assign) and ast.unparse(n.targets[0]) == 'defaultOff':
            off = ast.literal_eval(n.value)
    need(off is not None and all(isinstance(x, str) for x in off), 'IrcChannel.defaultOff')
    uw = keywords(write_formats(find_def(d, 'preserve', 'IrcUser')), USER_W, 'IrcUser.preserve')
    cw = keywords(write_formats(find_def(d, 'preserve', 'IrcChannel')), CHAN_W, 'IrcChannel.preserve')
    nw = keywords(write_formats(find_def(d, 'preserve', 'IrcNetwork')), NET_W, 'IrcNetwork.preserve')
    FLUSH_TRAILER.clear()
    hu, hc, hn = header_kw('UsersDictionary', 'users'), header_kw('ChannelsDictionary', 'channels'), \
        header_kw('NetworksDictionary', 'networks')
    ru, au = handlers(find_class(d, 'IrcUserCreator'))
    rc, ac = handlers(find_class(d, 'IrcChannelCreator'))
    rn, an = handlers(find_class(d, 'IrcNetworkCreator'))
    reader_nextid = 'nextid' in ru
    if reader_nextid:
        nb = ast.unparse(find_def(d, 'nextid', 'IrcUserCreator'))
        need(nb.rstrip().endswith('self.users.nextId = max(self.users.nextId, int(rest))') and nb.count('\n') == 1,
             'IrcUserCreator.nextid changed: ' + nb)
        ru = [x for x in ru if x != 'nextid']
    need(sorted(ru) == sorted(USER_R), 'IrcUserCreator handlers changed: %r' % ru)
    need('self.nextId = max(self.nextId, user.id)' in ast.unparse(find_def(d, 'setUser', 'UsersDictionary'))
         and 'nextId' not in ast.unparse(find_def(d, 'delUser', 'UsersDictionary')), 'nextId handling in setUser/delUser changed')
    need(sorted(rc) == sorted(CHAN_R), 'IrcChannelCreator handlers changed: %r' % rc)
    need(sorted(rn) == sorted(NET_R), 'IrcNetworkCreator handlers changed: %r' % rn)
    # unpreserve.Reader.read: the statements the model mirrors
    rd = ast.unparse(find_def(tree('src/unpreserve.py'), 'read', 'Reader'))
    for frag in ("if not line.strip():", "line = line.rstrip('\\r\\n')", "line = line.expandtabs()", "s = line.lstrip(' ')",
                 "indent = len(line) - len(s)", "if indent != self.indent:", "command, rest = s.split(None, 1)",
                 "command = self.normalizeCommand(command)", "if hasattr(self.creator, command):",
                 "self.creator.badCommand(command, rest, lineno)", "if self.modifiedCreator:"):
        need(frag in rd, 'unpreserve.Reader.read changed: missing %r' % frag)
    need('return s.lower()' in ast.unparse(find_def(tree('src/unpreserve.py'), 'normalizeCommand', 'Reader')),
         'normalizeCommand changed')

    # IrcChannelCreator.__init__: does the record start from IrcChannel()'s default anticapabilities, or from an empty set?
    ci = ast.unparse(find_def(d, '__init__', 'IrcChannelCreator'))
    need('self.c = IrcChannel()' in ci, 'IrcChannelCreator.__init__ no longer builds IrcChannel(): ' + ci)
    keeps_defaults = 'self.c.capabilities.clear()' not in ci
    need(ci.count('capabilities') == (0 if keeps_defaults else 1), 'IrcChannelCreator.__init__ touches capabilities in an unknown way')
    # configuration consulted by the readers and the writers
    sw = Sweep([d, tree('src/unpreserve.py')])
    need('conf' not in src('src/ircutils.py').replace('configur', ''), 'ircutils.py now mentions conf: extend the sweep')
    conf_chan = sw.reader('IrcChannelCreator', 'ChannelsDictionary')
    conf_net = sw.reader('IrcNetworkCreator', 'NetworksDictionary')
    conf_user = sw.reader('IrcUserCreator', 'UsersDictionary')
    conf_ign = sw.options([('IgnoresDB', sw.classes['IgnoresDB']['open'])], RECV)
    conf_wr = sw.options([(c, sw.classes[c][m]) for c, m in [('IrcUser', 'preserve'), ('IrcChannel', 'preserve'), ('IrcNetwork', 'preserve'),
                                                              ('UsersDictionary', 'flush'), ('ChannelsDictionary', 'flush'),
                                                              ('NetworksDictionary', 'flush'), ('IgnoresDB', 'flush')]], RECV)
    # how the channel reader stores a ban / an ignore: directly, or through the validating setters
    via = {}
    for meth, direct, setter in (('ban', 'self.c.bans[pattern] = int(float(expiration))', 'self.c.addBan(pattern, float(expiration))'),
                                 ('ignore', 'self.c.ignores[pattern] = int(float(expiration))', 'self.c.addIgnore(pattern, float(expiration))')):
        body = ast.unparse(find_def(d, meth, 'IrcChannelCreator'))
        need((direct in body) != (setter in body), 'IrcChannelCreator.%s stores its record in an unknown way: %s' % (meth, body))
        via[meth] = setter in body
    need("assert not conf.supybot.protocols.irc.strictRfc() or ircutils.isUserHostmask(hostmask), 'got %s' % hostmask\n    self.bans[hostmask] = int(expiration)"
         in ast.unparse(find_def(d, 'addBan', 'IrcChannel')), 'IrcChannel.addBan changed')
    need("assert ircutils.isUserHostmask(hostmask), 'got %s' % hostmask\n    self.ignores[hostmask] = int(expiration)"
         in ast.unparse(find_def(d, 'addIgnore', 'IrcChannel')), 'IrcChannel.addIgnore changed')
    # IrcUser.addNick / removeNick: statement order around the refusal path (pinned, fail-closed)
    addnick = find_def(d, 'addNick', 'IrcUser')
    stm = [ast.unparse(x) for x in addnick.body if not (isinstance(x, ast.Expr) and isinstance(x.value, ast.Constant))]
    chk = [i for i, x in enumerate(stm) if x.startswith('if users.getUserFromNick(network, nick) is not None:') and 'raise KeyError' in x]
    need(len(chk) == 1, 'IrcUser.addNick: the "nick already taken" check changed: %r' % stm)
    touch = lambda x: 'self.nicks' in x and ('setdefault' in x or 'self.nicks[network] =' in x or 'append' in x)
    before, after = [x for x in stm[:chk[0]] if touch(x)], [x for x in stm[chk[0] + 1:]]
    need(all(x in ('nicks = self.nicks.setdefault(network, [])',) for x in before), 'IrcUser.addNick mutates before the check in an unknown way: %r' % before)
    need(any('append(nick)' in x for x in after) and not any('raise' in x for x in after), 'IrcUser.addNick tail changed: %r' % after)
    head = [x for x in stm[:chk[0]] if not touch(x)]
    WS_CHECK = "if network.split() != [network] or nick.split() != [nick]:"
    addnick_ws = len(head) == 4 and head[3].startswith(WS_CHECK) and 'raise ValueError(' in head[3] and head[3].count('\n') == 1
    need(head[:3] == ['global users', 'assert isinstance(network, minisix.string_types)', "assert ircutils.isNick(nick), 'got %s' % nick"]
         and (len(head) == 3 or addnick_ws), 'IrcUser.addNick head changed: %r' % stm)
    addnick_pre = bool(before)
    rn = ast.unparse(find_def(d, 'removeNick', 'IrcUser'))
    need('if nick not in self.nicks[network]:\n        raise KeyError\n    self.nicks[network].remove(nick)' in rn, 'IrcUser.removeNick changed: ' + rn)
    removenick_drops = 'if not self.nicks[network]:' in rn and 'del self.nicks[network]' in rn
    need(removenick_drops or rn.rstrip().endswith('self.nicks[network].remove(nick)'), 'IrcUser.removeNick tail changed: ' + rn)
    gu = ast.unparse(find_def(d, 'getUserFromNick', 'UsersDictionary'))
    need('for user in self.users.values():' in gu and 'if nick in user.nicks[network]:' in gu and 'except KeyError' in gu, 'getUserFromNick changed')
    # how the files are encoded on disk and decoded again (pinned, fail-closed)
    af = ast.unparse(find_def(tree('src/utils/file.py'), '__init__', 'AtomicFile'))
    need("if encoding is None and 'b' not in mode:\n        encoding = 'utf8'" in af
         and 'codecs.open(self.tempFilename, mode, encoding=encoding)' in af, 'AtomicFile no longer writes text as utf8')
    need("fd = utils.file.AtomicFile(self.filename)" in ast.unparse(find_def(d, 'flush', 'IgnoresDB')), 'IgnoresDB.flush writer changed')
    rf = ast.unparse(find_def(tree('src/unpreserve.py'), 'readFile', 'Reader'))
    need(('self.read(open(filename))' in rf) != ("self.read(open(filename, encoding='utf8'))" in rf), 'Reader.readFile opens the file in an unknown way: ' + rf)
    io_ = ast.unparse(find_def(d, 'open', 'IgnoresDB'))
    need(('fd = open(self.filename)\n' in io_) != ("fd = open(self.filename, encoding='utf8')\n" in io_), 'IgnoresDB.open opens the file in an unknown way')
    reader_utf8, ign_utf8 = "encoding='utf8'" in rf, "fd = open(self.filename, encoding='utf8')" in io_
    out = 'Definition FOLD : list (N * N) := %s.\n' % clist('(%d, %d)' % (ord(x), ord(y)) for x, y in fold)
    out += 'Definition WHITESPACE : list N := %s.\n' % clist(cN(i) for i in ws)
    out += 'Definition CHANTYPES : list N := %s.\n' % cstr(defaults[0])
    out += 'Definition CHANNELLEN : nat := %d.\n' % defaults[1]
    out += 'Definition DEFAULT_OFF : list (list N) := %s.\n' % clist(cstr(x) for x in off)
    out += 'Definition CHAN_CREATOR_DEFAULTS : bool := %s.  (* IrcChannelCreator starts from the default anticapabilities *)\n' % (
        'true' if keeps_defaults else 'false')
    out += '(* configuration options (conf.<name>) read by the code reachable from each reader / from the writers *)\n'
    for lab, val in (('CHAN_READER', conf_chan), ('NET_READER', conf_net), ('USER_READER', conf_user), ('IGN_READER', conf_ign),
                     ('WRITERS', conf_wr)):
        out += 'Definition CONF_READ_%s : list (list N) := %s.  (* %s *)\n' % (lab, clist(cstr(x) for x in val), ', '.join(val) or 'none')
    out += 'Definition CHAN_READER_BAN_VIA_SETTER : bool := %s.\nDefinition CHAN_READER_IGN_VIA_SETTER : bool := %s.\n' % (
        'true' if via['ban'] else 'false', 'true' if via['ignore'] else 'false')
    out += '(* the writers encode utf8 (AtomicFile); do the readers decode utf8 explicitly, or with the locale preferred encoding? *)\n'
    out += 'Definition READER_DECODES_UTF8 : bool := %s.\nDefinition IGN_READER_DECODES_UTF8 : bool := %s.\n' % (
        'true' if reader_utf8 else 'false', 'true' if ign_utf8 else 'false')
    out += 'Definition ADDNICK_LIST_BEFORE_CHECK : bool := %s.  (* addNick creates nicks[network] before the "already taken" check *)\n' % (
        'true' if addnick_pre else 'false')
    out += 'Definition ADDNICK_REFUSES_WHITESPACE : bool := %s.  (* addNick raises ValueError unless network and nick are single tokens *)\n' % (
        'true' if addnick_ws else 'false')
    out += 'Definition REMOVENICK_DROPS_EMPTY : bool := %s.  (* removeNick deletes nicks[network] with its last nick *)\n' % (
        'true' if removenick_drops else 'false')
    out += '(* writer keywords, from the format strings of the preserve/flush methods *)\n'
    out += 'Definition WH_user : list N := %s.\nDefinition WH_channel : list N := %s.\nDefinition WH_network : list N := %s.\n' % (
        cstr(hu), cstr(hc), cstr(hn))
    for lab, kw in zip(USER_W, uw):
        out += 'Definition WU_%s : list N := %s.  (* %s *)\n' % (lab, cstr(kw), kw)
    for lab, kw in zip(CHAN_W, cw):
        out += 'Definition WC_%s : list N := %s.  (* %s *)\n' % (lab, cstr(kw), kw)
    for lab, kw in zip(NET_W, nw):
        out += 'Definition WN_%s : list N := %s.  (* %s *)\n' % (lab, cstr(kw), kw)
    fin = ast.unparse(find_def(d, 'finish', 'IrcUserCreator'))
    need(fin.startswith('def finish(self):\n    if self.u.name:') and fin.count('IrcUserCreator.u = None') in (1, 2), 'IrcUserCreator.finish changed: ' + fin)
    finish_clears = fin.rstrip().endswith('elif self.u.id is None:\n        IrcUserCreator.u = None')
    need(finish_clears == (fin.count('IrcUserCreator.u = None') == 2) and ('elif' in fin) == finish_clears, 'IrcUserCreator.finish tail changed: ' + fin)
    out += 'Definition FINISH_CLEARS_PRISTINE : bool := %s.  (* finish() resets IrcUserCreator.u when the record has neither name nor id *)\n' % (
        'true' if finish_clears else 'false')
    out += '(* nextId: does flush store it in a trailing `nextid N` line, does the reader have the nextid command? *)\n'
    out += 'Definition FLUSH_WRITES_NEXTID : bool := %s.\nDefinition READER_HAS_NEXTID : bool := %s.\n' % (
        'true' if FLUSH_TRAILER.get('nextid') else 'false', 'true' if reader_nextid else 'false')
    out += 'Definition K_nextid : list N := %s.\n' % cstr('nextid')
    out += '(* reader: method names of the Creator classes, and the other lower-case attributes hasattr() finds *)\n'
    for lab in USER_R:
        out += 'Definition RU_%s : list N := %s.\n' % (lab, cstr(lab))
    for lab in CHAN_R:
        out += 'Definition RC_%s : list N := %s.\n' % (lab, cstr(lab))
    for lab in NET_R:
        out += 'Definition RN_%s : list N := %s.\n' % (lab, cstr(lab))
    out += 'Definition USER_ATTRS : list (list N) := %s.\n' % clist(cstr(x) for x in au)
    out += 'Definition CHAN_ATTRS : list (list N) := %s.\n' % clist(cstr(x) for x in ac)
    out += 'Definition NET_ATTRS : list (list N) := %s.\n' % clist(cstr(x) for x in an)
    return 'src/ircdb.py, src/unpreserve.py, src/ircutils.py', out
