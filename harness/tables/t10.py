"""tables for C10 (src/irclib.py state tracking, src/ircutils.py separateModes)"""
import ast, re
from gen_tables import table, tree, module_assign, find_def, find_class, need, cstr, clist


def _cls_def(cls, name):
    for n in cls.body:
        if isinstance(n, ast.FunctionDef) and n.name == name:
            return n
    need(False, 'no def %s.%s' % (cls.name, name))


def _consts(node):
    return [n.value for n in ast.walk(node) if isinstance(n, ast.Constant) and isinstance(n.value, str)]


@table('T10')
def gen_T10():
    u = tree('src/ircutils.py')
    plus = ast.literal_eval(module_assign(u, '_plusRequireArguments'))
    minus = ast.literal_eval(module_assign(u, '_minusRequireArguments'))
    need(isinstance(plus, str) and isinstance(minus, str), 'mode argument tables are not strings')
    sm = ast.unparse(find_def(u, 'separateModes'))
    need("if c in '+-'" in sm and 'arg = int(arg)' in sm and 'args.pop(0)' in sm and "last = '+'" in sm,
         'separateModes changed shape')
    hre = module_assign(u, 'userHostmaskRe')
    need(ast.unparse(hre) == "re.compile('^\\\\S+!\\\\S+@\\\\S+$')", 'userHostmaskRe changed: ' + ast.unparse(hre))
    sh = ast.unparse(find_def(u, 'splitHostmask'))
    need("rest, host = hostmask.rsplit('@', 1)\n    nick, user = rest.rsplit('!', 1)\n    return (minisix.intern(nick), minisix.intern(user), minisix.intern(host))" in sh,
         'splitHostmask changed shape')
    t = tree('src/irclib.py')
    cs = find_class(t, 'ChannelState')
    au = _cls_def(cs, 'addUser')
    lst = [n for n in ast.walk(au) if isinstance(n, ast.Call) and ast.unparse(n.func) == 'user.lstrip']
    wh = [n for n in ast.walk(au) if isinstance(n, ast.While)]
    need(len(lst) == 1 and len(wh) == 1, 'ChannelState.addUser: lstrip/while shape')
    sig_all = ast.literal_eval(lst[0].args[0])
    need(ast.unparse(wh[0].test) == 'user and user[0] in %r' % sig_all, 'addUser while test: ' + ast.unparse(wh[0].test))
    ifs = [n for n in wh[0].body if isinstance(n, ast.If)]
    need(len(ifs) == 1, 'addUser marker if-chain')
    chain, node = [], ifs[0]
    while True:
        chain.append((ast.unparse(node.test), ast.unparse(node.body[0])))
        if len(node.orelse) == 1 and isinstance(node.orelse[0], ast.If):
            node = node.orelse[0]
        else:
            need(node.orelse == [], 'addUser marker chain has an else')
            break
    need(len(chain) == 3 and [b for _, b in chain] == ['self.ops.add(nick)', 'self.halfops.add(nick)', 'self.voices.add(nick)'],
         'addUser marker chain: %r' % chain)
    m0 = re.fullmatch(r"marker in '(.+)'", chain[0][0]); m1 = re.fullmatch(r"marker == '(.)'", chain[1][0])
    m2 = re.fullmatch(r"marker == '(.)'", chain[2][0])
    need(m0 and m1 and m2, 'addUser marker tests: %r' % chain)
    sig_op, sig_half, sig_voice = m0.group(1), m1.group(1), m2.group(1)
    dm = _cls_def(cs, 'doMode')
    dmc = _consts(dm)
    gs = ast.unparse(dm.body[0])
    need(re.sub(r'\s+', ' ', gs).startswith("def getSet(c): if c == 'o': Set = self.ops elif c == 'v': Set = self.voices elif c == 'h': Set = self.halfops elif c == 'b': Set = self.bans else: Set = set()"), 'ChannelState.doMode.getSet changed: ' + gs)
    setmodes = [x for x in dmc if len(x) > 1]
    need(len(setmodes) == 1, 'ChannelState.doMode: expected one mode-letter set, got %r' % setmodes)
    need(all(ch in setmodes[0] for ch in set(plus) & set(minus) if ch not in 'ovhk'),
         'ChannelState.doMode files a list mode (a letter taking a parameter on + and -) as a single value: %r vs %r' % (setmodes[0], plus))
    sa = _consts(_cls_def(cs, 'setMode'))
    ua = _consts(_cls_def(cs, 'unsetMode'))
    need(sa == [setmodes[0]] and ua == [setmodes[0]], 'setMode/unsetMode assertion letters: %r %r' % (sa, ua))
    st = find_class(t, 'IrcState')
    c324 = [x for x in _consts(_cls_def(st, 'do324')) if x not in '+-']
    need(len(set(c324)) == 1, 'IrcState.do324 letters: %r' % c324)
    handlers = sorted(n.name for n in st.body if isinstance(n, ast.FunctionDef) and n.name.startswith('do'))
    need(handlers == sorted(['do004', 'do005', 'do352', 'do354', 'do353', 'doChghost', 'doJoin', 'do367', 'doMode',
                             'do324', 'do329', 'doPart', 'doKick', 'doQuit', 'doTopic', 'do332', 'doNick', 'doBatch',
                             'doAway']), 'IrcState handler inventory changed: %r' % handlers)
    # do353 (userhost-in-names): splits the item, strips the prefixes, stores nick!user@host under the bare nick
    d353 = _cls_def(st, 'do353')
    u353 = ast.unparse(d353)
    ls353 = [n for n in ast.walk(d353) if isinstance(n, ast.Call) and ast.unparse(n.func) == 'name.lstrip']
    need(len(ls353) == 1, 'IrcState.do353: expected one name.lstrip(prefixes)')
    sig_353 = ast.literal_eval(ls353[0].args[0])
    need('name, user, host = ircutils.splitHostmask(item)' in u353 and "hostmask = '%s!%s@%s' % (nick, user, host)" in u353
         and 'self.nicksToHostmasks[nick] = hostmask' in u353 and 'c.addUser(name)' in u353
         and 'self.nicksToHostmasks[name] = name' not in u353, 'IrcState.do353 changed shape: ' + u353)
    # replies about a channel the bot is not on are ignored: do353 returns early, do324 / do329 return on KeyError (like do367)
    need(re.search(r"if channel not in self\.channels:\s+return", u353) is not None and 'ChannelState()' not in u353,
         'IrcState.do353 starts tracking a channel the bot is not on: ' + u353)
    for nm in ('do324', 'do329'):
        ux = ast.unparse(_cls_def(st, nm))
        need(re.search(r"except KeyError:\s+return", ux) is not None and 'ChannelState()' not in ux,
             'IrcState.%s starts tracking a channel the bot is not on' % nm)
    need(re.search(r"except KeyError:\s+pass", ast.unparse(_cls_def(st, 'do367'))) is not None, 'IrcState.do367 changed shape')
    # doNick: the old entry is deleted before the new one is written
    un = ast.unparse(_cls_def(st, 'doNick'))
    i_del, i_set = un.find('del self.nicksToHostmasks[oldNick]'), un.find('self.nicksToHostmasks[newNick] = newHostmask')
    need(0 <= i_del < i_set, 'IrcState.doNick: expected `del nicksToHostmasks[oldNick]` before `nicksToHostmasks[newNick] = ...`')
    # every IrcState / ChannelState owns its containers: no mutable default argument, fresh objects built in __init__
    ini = _cls_def(st, '__init__')
    for d in ini.args.defaults + [x for x in ini.args.kw_defaults if x is not None]:
        need(isinstance(d, ast.Constant) and (d.value is None or isinstance(d.value, (int, str, bool, float))),
             'IrcState.__init__ has a mutable / computed default argument: ' + ast.unparse(d))
    ui = ast.unparse(ini)
    for name, ctor in (('nicksToHostmasks', 'ircutils.IrcDict()'), ('channels', 'ircutils.IrcDict()')):
        need(re.search(r'if %s is None:\s+%s = %s' % (name, name, re.escape(ctor)), ui) is not None,
             'IrcState.__init__ no longer builds a fresh %s when none is given' % name)
    need('self.channels = channels' in ui and 'self.nicksToHostmasks = nicksToHostmasks' in ui, 'IrcState.__init__ container assignment changed')
    cini = _cls_def(cs, '__init__')
    need(len(cini.args.args) == 1 and not cini.args.defaults, 'ChannelState.__init__ takes arguments')
    uc = ast.unparse(cini)
    for fld in ('ops', 'bans', 'users', 'voices', 'halfops'):
        need('self.%s = ircutils.IrcSet()' % fld in uc, 'ChannelState.__init__: %s is not a fresh IrcSet()' % fld)
    need('self.modes = {}' in uc, 'ChannelState.__init__: modes is not a fresh dict')
    irc = find_class(t, 'Irc')
    need('self.state = IrcState()' in ast.unparse(_cls_def(irc, '__init__')), 'Irc.__init__ no longer builds its own IrcState()')
    # Irc.isChannel hands ISUPPORT CHANTYPES / CHANNELLEN down to ircutils.isChannel (whose body is pinned in T03)
    need(re.sub(r'\s+', ' ', ast.unparse(ast.Module(body=_cls_def(irc, 'isChannel').body[1:], type_ignores=[]))) ==
         "kw = {} chantypes = self.state.supported.get('chantypes') if chantypes is not None: kw['chantypes'] = chantypes "
         "channellen = self.state.supported.get('channellen') if channellen is not None: kw['channellen'] = channellen "
         "return ircutils.isChannel(s, **kw)", 'Irc.isChannel changed shape')
    dm = ast.unparse(_cls_def(st, 'doMode'))
    need('if irc.isChannel(channel):' in dm and 'chan.doMode(msg)' in dm, 'IrcState.doMode changed shape: ' + dm)
    conv = [n for n in st.body if isinstance(n, ast.Assign) and ast.unparse(n.targets[0]) == '_005converters']
    need(len(conv) == 1 and "'channellen': int" in ast.unparse(conv[0]), 'IrcState._005converters: channellen is no longer int')
    ns = None
    for n in irc.body:
        if isinstance(n, ast.Assign) and ast.unparse(n.targets[0]) == '_nickSetters':
            ns = sorted(ast.literal_eval(n.value.args[0]))
    need(ns is not None, 'Irc._nickSetters')
    out = 'Definition PLUS_REQ : list N := %s.\n' % cstr(plus)
    out += 'Definition MINUS_REQ : list N := %s.\n' % cstr(minus)
    out += 'Definition SIGILS : list N := %s.\n' % cstr(sig_all)
    out += 'Definition SIGILS_353 : list N := %s.\n' % cstr(sig_353)
    out += 'Definition SIGILS_OP : list N := %s.\n' % cstr(sig_op)
    out += 'Definition SIGIL_HALFOP : N := %d.\n' % ord(sig_half)
    out += 'Definition SIGIL_VOICE : N := %d.\n' % ord(sig_voice)
    out += 'Definition SETMODES : list N := %s.\n' % cstr(setmodes[0])
    out += 'Definition MODES324 : list N := %s.\n' % cstr(c324[0])
    out += 'Definition NICKSETTERS : list (list N) := %s.\n' % clist(cstr(x) for x in ns)
    return 'src/irclib.py, src/ircutils.py', out
