"""tables for C13 (src/callbacks.py Tokenizer, src/shlex.py, src/conf.py)"""
import ast
from gen_tables import table, tree, find_def, find_class, handler_names, need, cstr, clist, EXN


def _class_assign(cls, name):
    for n in cls.body:
        if isinstance(n, ast.Assign) and len(n.targets) == 1 and isinstance(n.targets[0], ast.Name) \
                and n.targets[0].id == name:
            return n.value
    need(False, 'no class attribute %s.%s' % (cls.name, name))


def _self_assigns(fn, attr):
    """constant values assigned to self.<attr> inside fn"""
    out = []
    for n in ast.walk(fn):
        if isinstance(n, ast.Assign) and len(n.targets) == 1 and isinstance(n.targets[0], ast.Attribute) \
                and isinstance(n.targets[0].value, ast.Name) and n.targets[0].attr == attr:
            out.append(n.value)
    return out


@table('T13')
def gen_T13():
    cb = tree('src/callbacks.py')
    tok = find_class(cb, 'Tokenizer')
    seps = ast.literal_eval(_class_assign(tok, 'separators'))
    need(isinstance(seps, str) and seps, 'Tokenizer.separators is not a non-empty str literal')
    init = find_def(cb, '__init__', 'Tokenizer')
    # the pipe character: self.separators += '|'  under  if self.pipe
    aug = [n for n in ast.walk(init) if isinstance(n, ast.AugAssign) and isinstance(n.value, ast.Constant)]
    need(len(aug) == 1 and aug[0].value.value == '|', "Tokenizer.__init__: expected exactly one `separators += '|'`")
    tkz = find_def(cb, 'tokenize', 'Tokenizer')
    comm = [n.value for n in ast.walk(tkz) if isinstance(n, ast.Assign) and isinstance(n.targets[0], ast.Attribute)
            and n.targets[0].attr == 'commenters']
    need(len(comm) == 1 and isinstance(comm[0], ast.Constant) and comm[0].value == '',
         "Tokenizer.tokenize no longer sets lexer.commenters = ''")
    pipes = [n for n in ast.walk(tkz) if isinstance(n, ast.Compare) and isinstance(n.comparators[0], ast.Constant)
             and n.comparators[0].value == '|']
    need(len(pipes) == 1, "Tokenizer.tokenize: expected one comparison with '|'")
    # the wrapper: except ValueError -> SyntaxError
    wrap = find_def(cb, 'tokenize')
    trys = [n for n in ast.walk(wrap) if isinstance(n, ast.Try)]
    need(len(trys) == 1 and len(trys[0].handlers) == 1, 'callbacks.tokenize: expected one try/except')
    caught = handler_names(trys[0].handlers[0])
    need(all(c in EXN for c in caught), 'callbacks.tokenize catches unknown exception %r' % caught)
    rs = [n for n in ast.walk(trys[0].handlers[0]) if isinstance(n, ast.Raise)]
    need(len(rs) == 1 and isinstance(rs[0].exc, ast.Call) and ast.unparse(rs[0].exc.func) == 'SyntaxError',
         'callbacks.tokenize handler no longer raises SyntaxError')
    # _handleToken: the codec chain and the bare except around the latin-1 step
    ht = find_def(cb, '_handleToken', 'Tokenizer')
    src = ast.unparse(ht)
    for piece in ["codecs.getencoder('utf8')(token)[0]", "codecs.getdecoder('unicode_escape')(token)[0]",
                  "token.encode('iso-8859-1').decode()"]:
        need(piece in src, '_handleToken: codec chain changed, missing %s' % piece)
    htr = [n for n in ast.walk(ht) if isinstance(n, ast.Try)]
    bare = [t for t in htr if len(t.handlers) == 1 and t.handlers[0].type is None
            and "iso-8859-1" in ast.unparse(t.body)]
    need(len(bare) == 1, '_handleToken: expected a bare except around the iso-8859-1 step')
    # since the repair of C13.F15: the re-assembly is guarded by  nonAscii = any(ord(c) > 127 for c in token),
    # computed before the token is encoded (any is utils.iter.any(p, iterable) in this module)
    need('nonAscii = any(lambda c: ord(c) > 127, token)' in src, '_handleToken: nonAscii is no longer any(lambda c: ord(c) > 127, token)')
    imp = [n for n in cb.body if isinstance(n, ast.ImportFrom) and n.module == 'utils.iter' and any(a.name == 'any' for a in n.names)]
    need(len(imp) == 1, 'callbacks.py no longer imports any(p, iterable) from utils.iter')
    guards = [n for n in ast.walk(ht) if isinstance(n, ast.If) and ast.unparse(n.test) == 'nonAscii'
              and len(n.body) == 1 and n.body[0] is bare[0] and not n.orelse]
    need(len(guards) == 1, '_handleToken: the iso-8859-1 step is no longer guarded by `if nonAscii:`')
    need(src.index('nonAscii = any(') < src.index("codecs.getencoder('utf8')(token)[0]"), '_handleToken: nonAscii computed after encoding')
    # shlex defaults
    sh = tree('src/shlex.py')
    shinit = find_def(sh, '__init__', 'shlex')
    ws = _self_assigns(shinit, 'whitespace')
    need(len(ws) == 1 and isinstance(ws[0], ast.Constant) and isinstance(ws[0].value, str), 'shlex.whitespace shape')
    whitespace = ws[0].value
    # conf: legal bracket strings and quote characters
    cf = tree('src/conf.py')
    vb = ast.literal_eval(_class_assign(find_class(cf, 'ValidBrackets'), 'validStrings'))
    need(all(isinstance(b, str) and len(b) in (0, 2) for b in vb), 'ValidBrackets.validStrings: entry of length other than 0 or 2')
    vq = find_def(cf, 'setValue', 'ValidQuotes')
    consts = [n.value for n in ast.walk(vq) if isinstance(n, ast.Constant) and isinstance(n.value, str)]
    need(len(consts) == 1, 'ValidQuotes.setValue: expected one string constant')
    out = 'Require Import Base.Wire.\n'
    out += 'Definition SEPARATORS0 : list N := %s.\n' % cstr(seps)
    out += 'Definition WHITESPACE : list N := %s.\n' % cstr(whitespace)
    out += 'Definition PIPE : N := %d.\n' % ord('|')
    out += 'Definition VALID_BRACKETS : list (list N) := %s.\n' % clist(cstr(b) for b in vb)
    out += 'Definition VALID_QUOTE_CHARS : list N := %s.\n' % cstr(consts[0])
    out += 'Definition TOKENIZE_CATCHES : list exn := %s.\n' % clist(EXN[c] for c in caught)
    return 'src/callbacks.py src/shlex.py src/conf.py', out
