"""tables for C13 (src/callbacks.py Tokenizer, src/shlex.py, src/conf.py)"""
import ast
from gen_tables import table, tree, find_def, find_class, handler_names, need, cstr, clist, EXN


def _class_assign(cls, name):
    for n in cls.body:
        if isinstance(n, ast.Assign) and len(n.targets) == 1 and isinstance(n.targets[0], ast.Name) \
                and n.targets[0].id == name:
            return n.value
    need(False, 'no class attribute %s.%s' % (cls.name, name))


def _self_assigns(fn, attr):
    """constant values assigned to self.<attr> inside fn"""
    out = []
    for n in ast.walk(fn):
        if isinstance(n, ast.Assign) and len(n.targets) == 1 and isinstance(n.targets[0], ast.Attribute) \
                and isinstance(n.targets[0].value, ast.Name) and n.targets[0].attr == attr:
            out.append(n.value)
    return out



def _bind(call, params, what):
    """map the arguments of an ast.Call onto the callee's parameter names (positional then keyword); returns {param: source}"""
    need(isinstance(call, ast.Call), what + ': not a call')
    need(len(call.args) <= len(params) and not any(isinstance(a, ast.Starred) for a in call.args), what + ': unexpected positional arguments')
    out = {}
    for name, a in zip(params, call.args):
        out[name] = ast.unparse(a)
    for kw in call.keywords:
        need(kw.arg in params and kw.arg not in out, what + ': unexpected keyword %r' % kw.arg)
        out[kw.arg] = ast.unparse(kw.value)
    return out


def _params(fn, drop_self=False):
    need(not fn.args.vararg and not fn.args.kwarg and not fn.args.kwonlyargs and not fn.args.posonlyargs, fn.name + ': unexpected signature')
    names = [a.arg for a in fn.args.args]
    return names[1:] if drop_self else names


def _lookup_pins(cb):
    """how callbacks.tokenize obtains brackets / pipeSyntax / quotes for (channel, network): every lookup must hand
    tokenize's `network` to the network parameter and `channel` to the channel parameter of Value.getSpecific,
    directly or through conf.get.  Read the signatures of conf.get and getSpecific from the source too."""
    wrap = find_def(cb, 'tokenize')
    need(_params(wrap) == ['s', 'channel', 'network'], 'callbacks.tokenize signature changed: %r' % _params(wrap))
    gs = find_def(tree('src/registry.py'), 'getSpecific', 'Value')
    gs_params = _params(gs, drop_self=True)
    need(gs_params[:2] == ['network', 'channel'] and set(gs_params) <= {'network', 'channel', 'check'},
         'registry.Value.getSpecific signature changed: %r' % gs_params)
    cg = find_def(tree('src/conf.py'), 'get')
    cg_params = _params(cg)
    need(sorted(cg_params) == ['channel', 'group', 'network'] and cg_params[0] == 'group', 'conf.get signature changed: %r' % cg_params)
    need(len(cg.body) == 1 and isinstance(cg.body[0], ast.Return) and isinstance(cg.body[0].value, ast.Call)
         and isinstance(cg.body[0].value.func, ast.Call), 'conf.get body is not `return group.getSpecific(...)()`')
    inner = cg.body[0].value.func
    need(ast.unparse(inner.func) == 'group.getSpecific', 'conf.get does not call group.getSpecific')
    b = _bind(inner, gs_params, 'conf.get -> getSpecific')
    need(b.get('network') == 'network' and b.get('channel') == 'channel' and set(b) <= {'network', 'channel'},
         'conf.get passes %r to getSpecific' % b)

    def resolve(expr, what):
        """expr evaluates a registry value for (network, channel): returns (registry path, {network:..., channel:...})"""
        if isinstance(expr, ast.Call) and isinstance(expr.func, ast.Call) and isinstance(expr.func.func, ast.Attribute) \
                and expr.func.func.attr == 'getSpecific':
            need(not expr.args and not expr.keywords, what + ': value call with arguments')
            return ast.unparse(expr.func.func.value), _bind(expr.func, gs_params, what)
        if isinstance(expr, ast.Call) and ast.unparse(expr.func) == 'conf.get':
            b = _bind(expr, cg_params, what)
            need('group' in b, what + ': conf.get without group')
            return b.pop('group'), b
        need(False, what + ': unrecognised lookup ' + ast.unparse(expr))

    names = {}
    for n in ast.walk(wrap):
        if isinstance(n, ast.Assign) and len(n.targets) == 1 and isinstance(n.targets[0], ast.Name):
            names.setdefault(n.targets[0].id, []).append(n.value)
    need(len(names.get('nested', [])) == 1 and ast.unparse(names['nested'][0]) == 'conf.supybot.commands.nested',
         'tokenize: nested is no longer conf.supybot.commands.nested')
    ifs = [n for n in wrap.body if isinstance(n, ast.If) and ast.unparse(n.test) == 'nested()']
    need(len(ifs) == 1 and not ifs[0].orelse, 'tokenize: expected one `if nested():`')
    # brackets: the one non-constant assignment, inside `if nested():`
    bas = [v for v in names.get('brackets', []) if not isinstance(v, ast.Constant)]
    need(len(bas) == 1 and any(bas[0] is getattr(x, 'value', None) for x in ifs[0].body), 'tokenize: brackets lookup moved')
    path, b = resolve(bas[0], 'tokenize brackets lookup')
    need(path == 'nested.brackets' and b == {'network': 'network', 'channel': 'channel'},
         'tokenize: brackets looked up as %s with %r (network/channel swapped or dropped?)' % (path, b))
    # pipe: `if <lookup>: pipe = True` inside `if nested():`
    pifs = [n for n in ifs[0].body if isinstance(n, ast.If)]
    need(len(pifs) == 1 and ast.unparse(pifs[0].body[0]) == 'pipe = True' and len(pifs[0].body) == 1 and not pifs[0].orelse,
         'tokenize: pipeSyntax test changed')
    path, b = resolve(pifs[0].test, 'tokenize pipeSyntax lookup')
    need(path == 'nested.pipeSyntax' and b == {'network': 'network', 'channel': 'channel'},
         'tokenize: pipeSyntax looked up as %s with %r' % (path, b))
    need(len(names.get('quotes', [])) == 1, 'tokenize: quotes assigned more than once')
    path, b = resolve(names['quotes'][0], 'tokenize quotes lookup')
    need(path == 'conf.supybot.commands.quotes' and b == {'network': 'network', 'channel': 'channel'},
         'tokenize: quotes looked up as %s with %r' % (path, b))
    tk = [n for n in ast.walk(wrap) if isinstance(n, ast.Call) and ast.unparse(n.func) == 'Tokenizer']
    need(len(tk) == 1 and _bind(tk[0], ['brackets', 'pipe', 'quotes'], 'Tokenizer(...)') ==
         {'brackets': 'brackets', 'pipe': 'pipe', 'quotes': 'quotes'}, 'tokenize: Tokenizer(...) arguments changed')


def _fresh_result_pin(cb):
    """callbacks.tokenize hands out the tree the Tokenizer just built, and keeps nothing: callers (Alias, Aka, Scheduler,
    Conditional) substitute into the returned lists in place, so a result that is stored or shared would leak their edits
    into later calls.  Fail-closed: tokenize may only refer to conf, Tokenizer, its own locals/parameters and builtins; its
    only value-returning statement returns the name bound once to Tokenizer(...).tokenize(s); no global/nonlocal, no
    subscript/attribute stores, no default-argument objects."""
    import builtins
    wrap = find_def(cb, 'tokenize')
    need(all(isinstance(d, ast.Constant) and d.value is None for d in wrap.args.defaults), 'tokenize: a parameter default is not None')
    need(not wrap.decorator_list, 'tokenize is decorated (memoised?)')
    local = set(a.arg for a in wrap.args.args)
    for n in ast.walk(wrap):
        need(not isinstance(n, (ast.Global, ast.Nonlocal)), 'tokenize: global/nonlocal statement')
        if isinstance(n, (ast.Assign, ast.AugAssign, ast.AnnAssign)):
            targets = n.targets if isinstance(n, ast.Assign) else [n.target]
            for t in targets:
                need(isinstance(t, ast.Name), 'tokenize stores into %s (state outside its locals)' % ast.unparse(t))
                local.add(t.id)
        if isinstance(n, ast.ExceptHandler) and n.name:
            local.add(n.name)
        need(not isinstance(n, (ast.Lambda, ast.FunctionDef)) or n is wrap, 'tokenize: nested function')
    free = set(n.id for n in ast.walk(wrap) if isinstance(n, ast.Name) and isinstance(n.ctx, ast.Load)) - local
    free = set(x for x in free if not hasattr(builtins, x))
    need(free <= {'conf', 'Tokenizer'}, 'tokenize refers to module-level names other than conf and Tokenizer: %s' % sorted(free))
    rets = [n for n in ast.walk(wrap) if isinstance(n, ast.Return)]
    need(len(rets) == 1 and isinstance(rets[0].value, ast.Name), 'tokenize: expected a single `return <name>`')
    rname = rets[0].value.id
    binds = [n for n in ast.walk(wrap) if isinstance(n, ast.Assign) and any(isinstance(t, ast.Name) and t.id == rname for t in n.targets)]
    need(len(binds) == 1 and isinstance(binds[0].value, ast.Call) and isinstance(binds[0].value.func, ast.Attribute)
         and binds[0].value.func.attr == 'tokenize' and isinstance(binds[0].value.func.value, ast.Call)
         and ast.unparse(binds[0].value.func.value.func) == 'Tokenizer' and ast.unparse(binds[0].value.args[0]) == 's'
         and len(binds[0].value.args) == 1 and not binds[0].value.keywords,
         'tokenize: the returned value is not the fresh result of Tokenizer(...).tokenize(s)')
    uses = [n for n in ast.walk(wrap) if isinstance(n, ast.Name) and n.id == rname and isinstance(n.ctx, ast.Load)]
    need(len(uses) == 1, 'tokenize: the result is used for something else than being returned')
    # Tokenizer.tokenize builds its lists itself: args/ends are fresh list displays, the return is `args`
    tkz = find_def(cb, 'tokenize', 'Tokenizer')
    inits = dict((n.targets[0].id, ast.unparse(n.value)) for n in tkz.body if isinstance(n, ast.Assign) and isinstance(n.targets[0], ast.Name))
    need(inits.get('args') == '[]' and inits.get('ends') == '[]', 'Tokenizer.tokenize: args/ends no longer start as fresh lists')
    ib = find_def(cb, '_insideBrackets', 'Tokenizer')
    need(ast.unparse(ib.body[0]) == 'ret = []', 'Tokenizer._insideBrackets: ret no longer starts as a fresh list')



@table('T13')
def gen_T13():
    cb = tree('src/callbacks.py')
    tok = find_class(cb, 'Tokenizer')
    seps = ast.literal_eval(_class_assign(tok, 'separators'))
    need(isinstance(seps, str) and seps, 'Tokenizer.separators is not a non-empty str literal')
    init = find_def(cb, '__init__', 'Tokenizer')
    # the pipe character: self.separators += '|'  under  if self.pipe
    aug = [n for n in ast.walk(init) if isinstance(n, ast.AugAssign) and isinstance(n.value, ast.Constant)]
    need(len(aug) == 1 and aug[0].value.value == '|', "Tokenizer.__init__: expected exactly one `separators += '|'`")
    tkz = find_def(cb, 'tokenize', 'Tokenizer')
    comm = [n.value for n in ast.walk(tkz) if isinstance(n, ast.Assign) and isinstance(n.targets[0], ast.Attribute)
            and n.targets[0].attr == 'commenters']
    need(len(comm) == 1 and isinstance(comm[0], ast.Constant) and comm[0].value == '',
         "Tokenizer.tokenize no longer sets lexer.commenters = ''")
    pipes = [n for n in ast.walk(tkz) if isinstance(n, ast.Compare) and isinstance(n.comparators[0], ast.Constant)
             and n.comparators[0].value == '|']
    need(len(pipes) == 1, "Tokenizer.tokenize: expected one comparison with '|'")
    # the wrapper: except ValueError -> SyntaxError
    wrap = find_def(cb, 'tokenize')
    trys = [n for n in ast.walk(wrap) if isinstance(n, ast.Try)]
    need(len(trys) == 1 and len(trys[0].handlers) == 1, 'callbacks.tokenize: expected one try/except')
    caught = handler_names(trys[0].handlers[0])
    need(all(c in EXN for c in caught), 'callbacks.tokenize catches unknown exception %r' % caught)
    rs = [n for n in ast.walk(trys[0].handlers[0]) if isinstance(n, ast.Raise)]
    need(len(rs) == 1 and isinstance(rs[0].exc, ast.Call) and ast.unparse(rs[0].exc.func) == 'SyntaxError',
         'callbacks.tokenize handler no longer raises SyntaxError')
    _lookup_pins(cb)
    _fresh_result_pin(cb)
    # _handleToken: the codec chain and the bare except around the latin-1 step
    ht = find_def(cb, '_handleToken', 'Tokenizer')
    src = ast.unparse(ht)
    for piece in ["codecs.getencoder('utf8')(token)[0]", "codecs.getdecoder('unicode_escape')(token)[0]",
                  "token.encode('iso-8859-1').decode()"]:
        need(piece in src, '_handleToken: codec chain changed, missing %s' % piece)
    htr = [n for n in ast.walk(ht) if isinstance(n, ast.Try)]
    bare = [t for t in htr if len(t.handlers) == 1 and t.handlers[0].type is None
            and "iso-8859-1" in ast.unparse(t.body)]
    need(len(bare) == 1, '_handleToken: expected a bare except around the iso-8859-1 step')
    # since the repair of C13.F15: the re-assembly is guarded by  nonAscii = any(ord(c) > 127 for c in token),
    # computed before the token is encoded (any is utils.iter.any(p, iterable) in this module)
    need('nonAscii = any(lambda c: ord(c) > 127, token)' in src, '_handleToken: nonAscii is no longer any(lambda c: ord(c) > 127, token)')
    imp = [n for n in cb.body if isinstance(n, ast.ImportFrom) and n.module == 'utils.iter' and any(a.name == 'any' for a in n.names)]
    need(len(imp) == 1, 'callbacks.py no longer imports any(p, iterable) from utils.iter')
    guards = [n for n in ast.walk(ht) if isinstance(n, ast.If) and ast.unparse(n.test) == 'nonAscii'
              and len(n.body) == 1 and n.body[0] is bare[0] and not n.orelse]
    need(len(guards) == 1, '_handleToken: the iso-8859-1 step is no longer guarded by `if nonAscii:`')
    need(src.index('nonAscii = any(') < src.index("codecs.getencoder('utf8')(token)[0]"), '_handleToken: nonAscii computed after encoding')
    # shlex defaults
    sh = tree('src/shlex.py')
    shinit = find_def(sh, '__init__', 'shlex')
    ws = _self_assigns(shinit, 'whitespace')
    need(len(ws) == 1 and isinstance(ws[0], ast.Constant) and isinstance(ws[0].value, str), 'shlex.whitespace shape')
    whitespace = ws[0].value
    # conf: legal bracket strings and quote characters
    cf = tree('src/conf.py')
    vb = ast.literal_eval(_class_assign(find_class(cf, 'ValidBrackets'), 'validStrings'))
    need(all(isinstance(b, str) and len(b) in (0, 2) for b in vb), 'ValidBrackets.validStrings: entry of length other than 0 or 2')
    vq = find_def(cf, 'setValue', 'ValidQuotes')
    consts = [n.value for n in ast.walk(vq) if isinstance(n, ast.Constant) and isinstance(n.value, str)]
    need(len(consts) == 1, 'ValidQuotes.setValue: expected one string constant')
    out = 'Require Import Base.Wire.\n'
    out += 'Definition SEPARATORS0 : list N := %s.\n' % cstr(seps)
    out += 'Definition WHITESPACE : list N := %s.\n' % cstr(whitespace)
    out += 'Definition PIPE : N := %d.\n' % ord('|')
    out += 'Definition VALID_BRACKETS : list (list N) := %s.\n' % clist(cstr(b) for b in vb)
    out += 'Definition VALID_QUOTE_CHARS : list N := %s.\n' % cstr(consts[0])
    out += 'Definition TOKENIZE_CATCHES : list exn := %s.\n' % clist(EXN[c] for c in caught)
    return 'src/callbacks.py src/shlex.py src/conf.py', out
