"""tables for C17 (src/utils/file.py: AtomicFile naming constants, defaults, primitives used)"""
import ast
from gen_tables import table, tree, find_def, find_class, need, cstr, cbool


def _strs(node):
    return [n.value for n in ast.walk(node) if isinstance(n, ast.Constant) and isinstance(n.value, str)]


def _calls(node):
    return [ast.unparse(n.func) for n in ast.walk(node) if isinstance(n, ast.Call)]


@table('T17')
def gen_T17():
    t = tree('src/utils/file.py')
    cls = find_class(t, 'AtomicFile')
    # defaults holder
    dflt = [n for n in cls.body if isinstance(n, ast.ClassDef) and n.name == 'default']
    need(len(dflt) == 1, 'AtomicFile.default holder class not found')
    vals = {}
    for n in dflt[0].body:
        if isinstance(n, ast.Assign) and len(n.targets) == 1 and isinstance(n.targets[0], ast.Name):
            need(isinstance(n.value, ast.Constant), 'AtomicFile.default.%s is not a constant' % n.targets[0].id)
            vals[n.targets[0].id] = n.value.value
    need(set(vals) == {'tmpDir', 'backupDir', 'makeBackupIfSmaller', 'allowEmptyOverwrite'},
         'AtomicFile.default fields changed: %r' % sorted(vals))
    need(vals['tmpDir'] is None and vals['backupDir'] is None, 'AtomicFile.default dirs are not None')
    need(isinstance(vals['makeBackupIfSmaller'], bool) and isinstance(vals['allowEmptyOverwrite'], bool),
         'AtomicFile.default flags are not booleans')
    # names: __init__ builds '%s.%s' twice (same dir / tmpDir); close builds '%s.backup.%s'
    init = find_def(t, '__init__', 'AtomicFile')
    fm = [s for s in _strs(init) if '%s' in s]
    need(fm == ['%s.%s', '%s.%s'], 'temp file name formats changed: %r' % fm)
    need('mktemp' in _calls(init) and 'os.path.basename' in _calls(init) and 'os.path.join' in _calls(init)
         and 'codecs.open' in _calls(init), 'AtomicFile.__init__ no longer uses mktemp/basename/join/codecs.open')
    close = find_def(t, 'close', 'AtomicFile')
    fb = [s for s in _strs(close) if '%s' in s]
    need(len(fb) == 1 and fb[0].startswith('%s') and fb[0].endswith('%s') and fb[0].count('%s') == 2,
         'backup file name format changed: %r' % fb)
    infix = fb[0][2:-2]
    need('/' not in infix and infix, 'backup infix contains a slash or is empty')
    dn = [s for s in _strs(close) if s.startswith('/')]
    need(dn == ['/dev/null'], 'the special backupDir value changed: %r' % dn)
    cc = _calls(close)
    for prim in ('shutil.move', 'shutil.copy', 'os.path.getsize', 'os.path.exists', 'open'):
        need(prim in cc, 'AtomicFile.close no longer calls %s' % prim)
    modes = [n.args[1].value for n in ast.walk(close) if isinstance(n, ast.Call) and ast.unparse(n.func) == 'open'
             and len(n.args) == 2 and isinstance(n.args[1], ast.Constant)]
    need(modes == ['a'], 'AtomicFile.close opens the target with mode %r (model: one open(...,"a"))' % modes)
    out = 'Require Import Base.Wire.\n'
    out += 'Definition BACKUP_INFIX : list N := %s.\n' % cstr(infix)
    out += 'Definition DEVNULL : list N := %s.\n' % cstr('/dev/null')
    out += 'Definition DEFAULT_MBIS : bool := %s.\n' % cbool(vals['makeBackupIfSmaller'])
    out += 'Definition DEFAULT_AEO : bool := %s.\n' % cbool(vals['allowEmptyOverwrite'])
    return 'src/utils/file.py', out
