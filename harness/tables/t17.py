"""tables for C17 (src/utils/file.py: AtomicFile naming constants, defaults, primitives used)"""
import ast, os
import gen_tables
from gen_tables import table, tree, find_def, find_class, need, cstr, cbool, clist, Shape, handler_names

SWALLOWS = ('Exception', 'BaseException', 'OSError', 'IOError', 'EnvironmentError')


def _strs(node):
    return [n.value for n in ast.walk(node) if isinstance(n, ast.Constant) and isinstance(n.value, str)]


def _calls(node):
    return [ast.unparse(n.func) for n in ast.walk(node) if isinstance(n, ast.Call)]


@table('T17')
def gen_T17():
    t = tree('src/utils/file.py')
    cls = find_class(t, 'AtomicFile')
    # defaults holder
    dflt = [n for n in cls.body if isinstance(n, ast.ClassDef) and n.name == 'default']
    need(len(dflt) == 1, 'AtomicFile.default holder class not found')
    vals = {}
    for n in dflt[0].body:
        if isinstance(n, ast.Assign) and len(n.targets) == 1 and isinstance(n.targets[0], ast.Name):
            need(isinstance(n.value, ast.Constant), 'AtomicFile.default.%s is not a constant' % n.targets[0].id)
            vals[n.targets[0].id] = n.value.value
    need(set(vals) == {'tmpDir', 'backupDir', 'makeBackupIfSmaller', 'allowEmptyOverwrite'},
         'AtomicFile.default fields changed: %r' % sorted(vals))
    need(vals['tmpDir'] is None and vals['backupDir'] is None, 'AtomicFile.default dirs are not None')
    need(isinstance(vals['makeBackupIfSmaller'], bool) and isinstance(vals['allowEmptyOverwrite'], bool),
         'AtomicFile.default flags are not booleans')
    # names: __init__ builds '%s.%s' twice (same dir / tmpDir); close builds '%s.backup.%s'
    init = find_def(t, '__init__', 'AtomicFile')
    fm = [s for s in _strs(init) if '%s' in s]
    need(fm == ['%s.%s', '%s.%s'], 'temp file name formats changed: %r' % fm)
    need('mktemp' in _calls(init) and 'os.path.basename' in _calls(init) and 'os.path.join' in _calls(init)
         and 'codecs.open' in _calls(init), 'AtomicFile.__init__ no longer uses mktemp/basename/join/codecs.open')
    close = find_def(t, 'close', 'AtomicFile')
    fb = [s for s in _strs(close) if '%s' in s]
    need(len(fb) == 1 and fb[0].startswith('%s') and fb[0].endswith('%s') and fb[0].count('%s') == 2,
         'backup file name format changed: %r' % fb)
    infix = fb[0][2:-2]
    need('/' not in infix and infix, 'backup infix contains a slash or is empty')
    dn = [s for s in _strs(close) if s.startswith('/')]
    need(dn == ['/dev/null'], 'the special backupDir value changed: %r' % dn)
    cc = _calls(close)
    for prim in ('shutil.move', 'shutil.copy', 'os.path.getsize', 'os.path.exists', 'open'):
        need(prim in cc, 'AtomicFile.close no longer calls %s' % prim)
    # exactly ONE commit path: one shutil.move(temp, target); the only other write-capable calls are the backup copy
    # (shutil.copy(target, backup)) and the permission probe open(target, 'a').  Anything else that can write, link or
    # remove (copyfile/copy2/rename/replace/remove/truncate/write/...; a branch on islink) is a second commit path.
    calls = [n for n in ast.walk(close) if isinstance(n, ast.Call)]
    mv = [n for n in calls if ast.unparse(n.func) == 'shutil.move']
    need(len(mv) == 1 and [ast.unparse(a) for a in mv[0].args] == ['self.tempFilename', 'self.filename'] and not mv[0].keywords,
         'AtomicFile.close: the commit must be exactly one shutil.move(self.tempFilename, self.filename), found %r'
         % [ast.unparse(n) for n in mv])
    cp = [n for n in calls if ast.unparse(n.func) == 'shutil.copy']
    need(len(cp) == 1 and len(cp[0].args) == 2 and ast.unparse(cp[0].args[0]) == 'self.filename'
         and ast.unparse(cp[0].args[1]) == 'backupFilename',
         'AtomicFile.close: expected exactly one shutil.copy(self.filename, backupFilename), found %r' % [ast.unparse(n) for n in cp])
    FORBIDDEN = ('copyfile', 'copy2', 'copyfileobj', 'copytree', 'rename', 'renames', 'replace', 'remove', 'unlink', 'rmtree',
                 'truncate', 'ftruncate', 'symlink', 'link', 'islink', 'readlink', 'realpath', 'write', 'writelines', 'sendfile',
                 'os.open', 'fdopen', 'codecs.open', 'open_mkdir', 'touch')
    bad = [ast.unparse(n.func) for n in calls
           if ast.unparse(n.func).split('.')[-1] in FORBIDDEN or ast.unparse(n.func) in FORBIDDEN]
    need(not bad, 'AtomicFile.close has a second path that writes/links/removes (model: one rename commit): %r' % bad)
    need(len([n for n in calls if ast.unparse(n.func) == 'open']) == 1, 'AtomicFile.close: expected exactly one open(...) call')
    modes = [n.args[1].value for n in ast.walk(close) if isinstance(n, ast.Call) and ast.unparse(n.func) == 'open'
             and len(n.args) == 2 and isinstance(n.args[1], ast.Constant)]
    need(modes == ['a'], 'AtomicFile.close opens the target with mode %r (model: one open(...,"a"))' % modes)
    del_rb, exit_rb = unwinding_methods(cls)
    sites, unsafe, swallow, _ = call_sites()
    out = 'Require Import Base.Wire.\n'
    out += 'Definition BACKUP_INFIX : list N := %s.\n' % cstr(infix)
    out += 'Definition DEVNULL : list N := %s.\n' % cstr('/dev/null')
    out += 'Definition DEFAULT_MBIS : bool := %s.\n' % cbool(vals['makeBackupIfSmaller'])
    out += 'Definition DEFAULT_AEO : bool := %s.\n' % cbool(vals['allowEmptyOverwrite'])
    # what the unwinding of an exception does to an open AtomicFile (see unwinding_methods / call_sites)
    out += 'Definition DEL_ROLLS_BACK : bool := %s.\n' % cbool(del_rb)
    out += 'Definition EXIT_ROLLS_BACK : bool := %s.\n' % cbool(exit_rb)
    out += 'Definition ATOMIC_CALL_SITES : list (list N) :=\n  %s.\n' % clist(cstr(x) for x in sites)
    out += 'Definition FLAT_ADD_NEXT_ID_FIRST : bool := %s.\n' % cbool(flat_add_order())
    out += 'Definition COMMIT_ON_UNWIND_SITES : list (list N) := %s.\n' % clist(cstr(x) for x in unsafe)
    # callers that wrap fd.write(...) in a try whose handler swallows OSError: the flush goes on and commits
    out += 'Definition SWALLOW_WRITE_ERROR_SITES : list (list N) := %s.\n' % clist(cstr(x) for x in swallow)
    return 'src/utils/file.py + every AtomicFile call site under src/ and plugins/', out


def _swallows_oserror(t):
    """does this try statement swallow an OSError raised in its body?  The FIRST handler that matches an OSError decides:
    it swallows unless it re-raises."""
    for h in t.handlers:
        if h.type is None or any(nm.split('.')[-1] in SWALLOWS for nm in handler_names(h)):
            return not any(isinstance(x, ast.Raise) for x in ast.walk(h))
    return False


def _only_call(stmts, name):
    """the statement list is exactly [self.<name>()]"""
    return (len(stmts) == 1 and isinstance(stmts[0], ast.Expr) and isinstance(stmts[0].value, ast.Call)
            and ast.unparse(stmts[0].value) == 'self.%s()' % name)


def unwinding_methods(cls):
    """(does __del__ roll back?, does __exit__ roll back when an exception is in flight?)"""
    defs = {n.name: n for n in cls.body if isinstance(n, ast.FunctionDef)}
    need('__del__' in defs and '__exit__' in defs, 'AtomicFile.__del__/__exit__ not found')
    body = [n for n in defs['__del__'].body if not (isinstance(n, ast.Expr) and isinstance(n.value, ast.Constant))]
    if _only_call(body, 'rollback'):
        del_rb = True
    elif _only_call(body, 'close'):
        del_rb = False
    else:
        raise Shape('AtomicFile.__del__ is neither self.rollback() nor self.close(): %s' % ast.unparse(defs['__del__'])[:200])
    ex = defs['__exit__']
    need(len(ex.args.args) == 4, 'AtomicFile.__exit__ signature changed')
    exc_name = ex.args.args[1].arg
    body = [n for n in ex.body if not (isinstance(n, ast.Expr) and isinstance(n.value, ast.Constant))]
    if (len(body) == 1 and isinstance(body[0], ast.If) and ast.unparse(body[0].test) in (exc_name, exc_name + ' is not None')
            and _only_call(body[0].body, 'rollback') and _only_call(body[0].orelse, 'close')):
        exit_rb = True
    elif _only_call(body, 'close') or (len(body) == 1 and isinstance(body[0], ast.If) and _only_call(body[0].body, 'close')):
        exit_rb = False
    else:
        raise Shape('AtomicFile.__exit__ has an unexpected shape: %s' % ast.unparse(ex)[:300])
    rb = defs.get('rollback')
    need(rb is not None and 'os.remove' in _calls(rb) and 'self._fd.close' in _calls(rb),
         'AtomicFile.rollback no longer closes and removes the temp file')
    return del_rb, exit_rb


def call_sites():
    """every AtomicFile(...) call under src/ and plugins/: (inventory, sites whose close() -- the COMMIT -- also runs
    while an exception unwinds: close() lexically inside a finally: or except: block).  `with AtomicFile(...)` goes
    through __exit__ (checked separately)."""
    sites, unsafe, swallow, swallow_lines = [], [], [], {}
    for top in ('src', 'plugins'):
        for root, dirs, files in os.walk(os.path.join(gen_tables.REPO, top)):
            dirs.sort()
            for fn in sorted(files):
                if not fn.endswith('.py'):
                    continue
                full = os.path.join(root, fn)
                rel = os.path.relpath(full, gen_tables.REPO)
                text = open(full, encoding='utf-8', errors='replace').read()
                if 'AtomicFile' not in text or rel == 'src/utils/file.py':
                    continue
                t = ast.parse(text, rel)
                parent = {}
                for n in ast.walk(t):
                    for c in ast.iter_child_nodes(n):
                        parent[c] = n

                def ancestors(n):
                    while n in parent:
                        n = parent[n]
                        yield n

                def funcname(n):
                    names = [a.name for a in ancestors(n) if isinstance(a, (ast.FunctionDef, ast.ClassDef))]
                    return '.'.join(reversed(names)) or '<module>'
                for call in [n for n in ast.walk(t) if isinstance(n, ast.Call) and ast.unparse(n.func).split('.')[-1] == 'AtomicFile']:
                    site = '%s:%s' % (rel, funcname(call))
                    par = parent[call]
                    if isinstance(par, ast.withitem):
                        sites.append(site + ' [with]')
                        continue
                    need(isinstance(par, ast.Assign) and len(par.targets) == 1
                         and isinstance(par.targets[0], (ast.Name, ast.Attribute)),
                         '%s: AtomicFile(...) is neither assigned to a name nor used in a with statement' % site)
                    var = ast.unparse(par.targets[0])
                    sites.append(site + ' [%s]' % var)
                    if isinstance(par.targets[0], ast.Name):
                        scope = next((a for a in ancestors(call) if isinstance(a, ast.FunctionDef)), t)
                    else:
                        scope = t
                    for c2 in ast.walk(scope):
                        if isinstance(c2, ast.Call) and ast.unparse(c2.func) in (var + '.write', var + '.writelines'):
                            child = c2
                            for a in ancestors(c2):
                                if isinstance(a, ast.Try) and any(child is x for x in a.body) and _swallows_oserror(a):
                                    swallow.append(site + ' [write error swallowed]')
                                    swallow_lines.setdefault(fn, set()).add(c2.lineno)
                                if a is scope:
                                    break
                                child = a
                        if isinstance(c2, ast.Call) and ast.unparse(c2.func) == var + '.close':
                            child = c2
                            for a in ancestors(c2):
                                if isinstance(a, ast.Try) and any(child is x or child in ast.walk(x) for x in a.finalbody):
                                    unsafe.append(site + ' [close in finally]')
                                if isinstance(a, ast.ExceptHandler):
                                    unsafe.append(site + ' [close in except]')
                                if a is scope:
                                    break
                                child = a
    need(any(x.startswith('src/ircdb.py:UsersDictionary.flush') for x in sites)
         and any(x.startswith('src/ircdb.py:ChannelsDictionary.flush') for x in sites)
         and any(x.startswith('src/ircdb.py:NetworksDictionary.flush') for x in sites)
         and any(x.startswith('src/ircdb.py:IgnoresDB.flush') for x in sites)
         and any(x.startswith('src/registry.py:close') for x in sites)
         and any(x.startswith('src/dbi.py:FlatfileMapping.vacuum') for x in sites),
         'an anchored flusher no longer goes through AtomicFile: %r' % sites)
    return sites, sorted(set(unsafe)), sorted(set(swallow)), swallow_lines


def flat_add_order():
    """dbi.FlatfileMapping.add writes in place: the record line at the end and the next-id header at offset 0.  True iff
    the header (self._incrementCurrentId(fd)) is written BEFORE the record (fd.write(line)) and not from a finally: block."""
    t = tree('src/dbi.py')
    add = find_def(t, 'add', 'FlatfileMapping')
    inc = [n for n in ast.walk(add) if isinstance(n, ast.Call) and ast.unparse(n) == 'self._incrementCurrentId(fd)']
    wr = [n for n in ast.walk(add) if isinstance(n, ast.Call) and ast.unparse(n.func) == 'fd.write']
    need(len(inc) == 1 and len(wr) == 1 and ast.unparse(wr[0]) == 'fd.write(line)',
         'FlatfileMapping.add: expected one self._incrementCurrentId(fd) and one fd.write(line)')
    need(len([n for n in ast.walk(add) if isinstance(n, ast.Call) and ast.unparse(n.func) in ('open', 'fd.seek', 'fd.close')]) == 3,
         'FlatfileMapping.add: expected open / fd.seek / fd.close exactly once each')
    fin = [x for tr in ast.walk(add) if isinstance(tr, ast.Try) for st in tr.finalbody for x in ast.walk(st)]
    incr = find_def(t, '_incrementCurrentId', 'FlatfileMapping')
    cc = [ast.unparse(n.func) for n in ast.walk(incr) if isinstance(n, ast.Call)]
    need(cc.count('fd.seek') == 1 and cc.count('fd.write') == 2,
         'FlatfileMapping._incrementCurrentId: expected fd.seek(0) and two fd.write calls, found %r' % cc)
    return inc[0].lineno < wr[0].lineno and inc[0] not in fin
