"""tables + class inventory for C15 (src/registry.py, src/conf.py, src/utils/str.py)

Fail-closed: every registry value class (transitive subclass of registry.Value) defined in
src/registry.py and src/conf.py must be listed in KNOWN with exactly the structural signature
(bases, methods defined, class attributes) recorded here; a new class, a class that gains or
loses a method, or a changed class attribute raises Shape.  Method *bodies* are not pinned
(a refactor must not alarm): they are covered by the differential run.
"""
import ast
from gen_tables import *  # noqa: F401,F403
from gen_tables import table, tree, module_assign, find_def, find_class, need, cstr, clist, Shape

# kind: how harness/c15.py + coq/C15/Model.v treat the class
#   string/surround/spaceright/onlysome/boolean/integer/raw/spacelist/commalist : modelled in Coq
#       (class-specific validator of setValue = oracle bit computed on the real class)
#   oracle:<why> : save/reload + reject-atomic checked directly on the implementation only
KNOWN = {
    # ---- src/registry.py
    'registry.Value': ('abstract', ('Group',), ('__call__', '__init__', '__str__', '_makeChild', '_setValue', 'addCallback', 'context', 'error', 'getSpecific', 'removeCallback', 'serialize', 'set', 'setName', 'setValue'), ()),
    'registry.Boolean': ('boolean', ('Value',), ('set', 'setValue'), ()),
    'registry.Integer': ('integer', ('Value',), ('set',), ()),
    'registry.NonNegativeInteger': ('integer', ('Integer',), ('setValue',), ()),
    'registry.PositiveInteger': ('integer', ('NonNegativeInteger',), ('setValue',), ()),
    'registry.Float': ('oracle:float parsing/printing is a CPython primitive', ('Value',), ('set', 'setValue'), ()),
    'registry.PositiveFloat': ('oracle:float', ('Float',), ('setValue',), ()),
    'registry.Probability': ('oracle:float', ('Float',), ('__init__', 'setValue'), ()),
    'registry.String': ('string', ('Value',), ('__str__', '_needsQuoting', 'set'), ("_printable=string.printable[:-4]",)),
    'registry.OnlySomeStrings': ('onlysome', ('String',), ('__init__', 'help', 'normalize', 'setValue'), ('validStrings=()',)),
    'registry.NormalizedString': ('oracle:serialize uses textwrap.wrap', ('String',), ('__init__', 'normalize', 'serialize', 'set', 'setValue'), ()),
    'registry.StringSurroundedBySpaces': ('surround', ('String',), ('setValue',), ()),
    'registry.StringWithSpaceOnRight': ('spaceright', ('String',), ('setValue',), ()),
    'registry.Regexp': ('oracle:perlReToPythonRe/re.compile', ('Value',), ('__call__', '__init__', '__str__', '_convertFromString', 'error', 'set', 'setValue'), ()),
    'registry.SeparatedListOf': ('abstract', ('Value',), ('__str__', 'joiner', 'set', 'setValue', 'splitter'), ('List=list', 'Value=Value', 'sorted=False')),
    'registry.SpaceSeparatedListOf': ('abstract', ('SeparatedListOf',), ('splitter',), ("joiner=' '.join",)),
    'registry.SpaceSeparatedListOfStrings': ('spacelist', ('SpaceSeparatedListOf',), (), ('Value=String',)),
    'registry.SpaceSeparatedSetOfStrings': ('spacelist', ('SpaceSeparatedListOfStrings',), (), ('List=set',)),
    'registry.CommaSeparatedListOfStrings': ('commalist', ('SeparatedListOf',), ('splitter',), ('Value=String', "joiner=', '.join")),
    'registry.CommaSeparatedSetOfStrings': ('commalist', ('SeparatedListOf',), ('splitter',), ('List=set', 'Value=String', "joiner=', '.join")),
    'registry.TemplatedString': ('string', ('String',), ('__init__', 'setValue'), ('requiredTemplates=[]',)),
    'registry.Json': ('oracle:json.loads/json.dumps', ('String',), ('__call__', '_needsQuoting', 'editable', 'set', 'setValue'), ()),
    # ---- src/conf.py
    'conf.ValidNick': ('string', ('registry.String',), ('setValue',), ()),
    'conf.ValidNickOrEmpty': ('string', ('ValidNick',), ('setValue',), ()),
    'conf.ValidNicks': ('spacelist', ('registry.SpaceSeparatedListOf',), (), ('Value=ValidNick',)),
    'conf.ValidNickAllowingPercentS': ('string', ('ValidNick',), ('setValue',), ()),
    'conf.ValidNicksAllowingPercentS': ('spacelist', ('ValidNicks',), (), ('Value=ValidNickAllowingPercentS',)),
    'conf.ValidChannel': ('string', ('registry.String',), ('error', 'setValue'), ()),
    'conf.ValidHostmask': ('string', ('registry.String',), ('setValue',), ()),
    'conf.VersionIfEmpty': ('string', ('registry.String',), ('__call__',), ()),
    'conf.Networks': ('spacelist', ('registry.SpaceSeparatedSetOfStrings',), (), ('List=ircutils.IrcSet',)),
    'conf.Servers': ('oracle:__str__/__call__ overridden (Server objects)', ('registry.SpaceSeparatedListOfStrings',), ('__call__', '__str__', 'append', 'convert', 'normalize'), ()),
    'conf.SocksProxy': ('string', ('registry.String',), ('setValue',), ()),
    'conf.SpaceSeparatedSetOfChannels': ('spacelist', ('registry.SpaceSeparatedListOf',), ('join', 'joins'), ('List=ircutils.IrcSet', 'Value=ValidChannel', 'sorted=True')),
    'conf.ValidSaslMechanism': ('onlysome', ('registry.OnlySomeStrings',), (), ("validStrings=('ecdsa-nist256p-challenge', 'external', 'plain', 'scram-sha-256')",)),
    'conf.SpaceSeparatedListOfSaslMechanisms': ('spacelist', ('registry.SpaceSeparatedListOf',), (), ('Value=ValidSaslMechanism',)),
    'conf.ValidPrefixChars': ('string', ('registry.String',), ('setValue',), ()),
    'conf.DatabaseRecordTemplatedString': ('string', ('registry.TemplatedString',), (), ("requiredTemplates=['text']",)),
    'conf.ValidQuotes': ('raw', ('registry.Value',), ('__str__', 'setValue'), ()),
    'conf.ValidBrackets': ('onlysome', ('registry.OnlySomeStrings',), (), ("validStrings=('', '[]', '<>', '{}', '()')",)),
    'conf.ValidDriverModule': ('onlysome', ('registry.OnlySomeStrings',), (), ("validStrings=('default', 'Socket')",)),
    'conf.Directory': ('string', ('registry.String',), ('__call__', 'dirize'), ()),
    'conf.DataFilename': ('string', ('registry.String',), ('__call__',), ()),
    'conf.DataFilenameDirectory': ('string', ('DataFilename', 'Directory'), ('__call__',), ()),
    'conf.Databases': ('oracle:serialize overridden (no unicode_escape)', ('registry.SpaceSeparatedListOfStrings',), ('__call__', 'serialize'), ()),
    'conf.ChannelSpecific': ('boolean', ('registry.Boolean',), ('getChannelLink',), ()),
    'conf.CDB': ('boolean', ('registry.Boolean',), ('connect',), ()),
    'conf.Banmask': ('oracle:setValue normalises every element through validStrings', ('registry.SpaceSeparatedSetOfStrings',), ('__init__', 'help', 'makeBanmask', 'normalize', 'setValue'), ("validStrings=('exact', 'nick', 'user', 'host')",)),
    'conf.HttpProxy': ('oracle:setValue mutates utils.web.proxy', ('registry.String',), ('setValue',), ()),
    'conf.HttpRequestLanguage': ('string', ('registry.String',), ('setValue',), ()),
    'conf.HttpUserAgents': ('commalist', ('registry.CommaSeparatedListOfStrings',), ('setValue',), ()),
    'conf.IP': ('string', ('registry.String',), ('setValue',), ()),
    'conf.ListOfIPs': ('spacelist', ('registry.SpaceSeparatedListOfStrings',), (), ('Value=IP',)),
    'conf.SocketTimeout': ('oracle:setValue calls socket.setdefaulttimeout (process-global)', ('registry.PositiveInteger',), ('setValue',), ()),
}


# value classes defined outside src/registry.py and src/conf.py (src/log.py, src/callbacks.py, src/ircdb.py, plugins/*):
# not modelled class by class (direct oracle: set / reject-atomic / save / reload on the real class), but part of the
# inventory: their set()/setValue() bodies are in the reject-atomic table, and an unknown or reshaped class is an error.
EXTRA_KNOWN = {
    'callbacks.CanonicalString': ('oracle:defined outside src/registry.py and src/conf.py', ('registry.NormalizedString',), ('normalize',), ()),
    'callbacks.Disabled': ('oracle:defined outside src/registry.py and src/conf.py', ('registry.SpaceSeparatedListOf',), (), ('List=CanonicalNameSet', 'Value=CanonicalString', 'sorted=True')),
    'ircdb.SpaceSeparatedListOfCapabilities': ('oracle:defined outside src/registry.py and src/conf.py', ('registry.SpaceSeparatedListOfStrings',), (), ('List=CapabilitySet',)),
    'ircdb.DefaultCapabilities': ('oracle:defined outside src/registry.py and src/conf.py', ('SpaceSeparatedListOfCapabilities',), ('setValue',), ()),
    'log.ValidLogLevel': ('oracle:defined outside src/registry.py and src/conf.py', ('registry.String',), ('__str__', 'set'), ('handler=None', 'minimumLevel=-1')),
    'log.LogLevel': ('oracle:defined outside src/registry.py and src/conf.py', ('ValidLogLevel',), (), ('handler=_handler',)),
    'log.StdoutLogLevel': ('oracle:defined outside src/registry.py and src/conf.py', ('ValidLogLevel',), (), ('handler=_stdoutHandler',)),
    'log.BooleanRequiredFalseOnWindows': ('oracle:defined outside src/registry.py and src/conf.py', ('registry.Boolean',), ('setValue',), ()),
    'BadWords.LastModifiedSpaceSeparatedSetOfStrings': ('oracle:defined outside src/registry.py and src/conf.py', ('registry.SpaceSeparatedSetOfStrings',), ('setValue',), ('lastModified=0',)),
    'BadWords.LastModifiedCommaSeparatedSetOfStrings': ('oracle:defined outside src/registry.py and src/conf.py', ('registry.CommaSeparatedSetOfStrings',), ('set', 'setValue'), ('lastModified=0',)),
    'BadWords.String256': ('oracle:defined outside src/registry.py and src/conf.py', ('registry.String',), ('__call__', '__str__'), ()),
    'BadWords.ReplacementMethods': ('oracle:defined outside src/registry.py and src/conf.py', ('registry.OnlySomeStrings',), (), ("validStrings=('simple', 'nastyCharacters')",)),
    'ChannelStats.Smileys': ('oracle:defined outside src/registry.py and src/conf.py', ('registry.Value',), ('__str__', 'set', 'setValue'), ()),
    'DDG.SafeSearch': ('oracle:defined outside src/registry.py and src/conf.py', ('registry.OnlySomeStrings',), (), ("validStrings=['active', 'moderate', 'off']",)),
    'Factoids.FactoidFormat': ('oracle:defined outside src/registry.py and src/conf.py', ('registry.TemplatedString',), (), ("requiredTemplates=['value']",)),
    'Google.Language': ('oracle:defined outside src/registry.py and src/conf.py', ('registry.OnlySomeStrings',), ('normalize',), ("transLangs={'Afrikaans': 'af', 'Albanian': 'sq', 'Amharic': 'am', 'Arabic': 'ar', 'Armenian': 'hy', 'Azerbaijani': 'az', 'Basque': 'eu', 'Belarusian': 'be', 'Bengali': 'bn', 'Bulgarian': 'bg', 'Burmese': 'my', 'Catalan': 'ca', 'Chinese': 'zh', 'Chinese_simplified': 'zh-CN', 'Chinese_traditional': 'zh-TW', 'Croatian': 'hr', 'Czech': 'cs', 'Danish': 'da', 'Dhivehi': 'dv', 'Dutch': 'nl', 'English': 'en', 'Esperanto': 'eo', 'Estonian': 'et', 'Filipino': 'tl', 'Finnish': 'fi', 'French': 'fr', 'Galician': 'gl', 'Georgian': 'ka', 'German': 'de', 'Greek': 'el', 'Gujarati': 'gu', 'Hebrew': 'iw', 'Hindi': 'hi', 'Hungarian': 'hu', 'Icelandic': 'is', 'Indonesian': 'id', 'Inuktitut': 'iu', 'Italian': 'it', 'Japanese': 'ja', 'Kannada': 'kn', 'Kazakh': 'kk', 'Khmer': 'km', 'Korean': 'ko', 'Kurdish': 'ku', 'Kyrgyz': 'ky', 'Laothian': 'lo', 'Latvian': 'lv', 'Lithuanian': 'lt', 'Macedonian': 'mk', 'Malay': 'ms', 'Malayalam': 'ml', 'Maltese': 'mt', 'Marathi': 'mr', 'Mongolian': 'mn', 'Nepali': 'ne', 'Norwegian': 'no', 'Oriya': 'or', 'Pashto': 'ps', 'Persian': 'fa', 'Polish': 'pl', 'Portuguese': 'pt-PT', 'Punjabi': 'pa', 'Romanian': 'ro', 'Russian': 'ru', 'Sanskrit': 'sa', 'Serbian': 'sr', 'Sindhi': 'sd', 'Sinhalese': 'si', 'Slovak': 'sk', 'Slovenian': 'sl', 'Spanish': 'es', 'Swedish': 'sv', 'Tajik': 'tg', 'Tamil': 'ta', 'Tagalog': 'tl', 'Telugu': 'te', 'Thai': 'th', 'Tibetan': 'bo', 'Turkish': 'tr', 'Ukranian': 'uk', 'Urdu': 'ur', 'Uzbek': 'uz', 'Uighur': 'ug', 'Vietnamese': 'vi', 'Detect language': 'auto'}", "validStrings=['lang_' + s for s in transLangs.values()]")),
    'Google.NumSearchResults': ('oracle:defined outside src/registry.py and src/conf.py', ('registry.PositiveInteger',), ('setValue',), ()),
    'Google.SafeSearch': ('oracle:defined outside src/registry.py and src/conf.py', ('registry.OnlySomeStrings',), (), ("validStrings=['active', 'moderate', 'off']",)),
    'Protector.ImmuneNicks': ('oracle:defined outside src/registry.py and src/conf.py', ('conf.ValidNicks',), (), ('List=ircutils.IrcSet',)),
    'RSS.FeedNames': ('oracle:defined outside src/registry.py and src/conf.py', ('registry.SpaceSeparatedListOfStrings',), (), ('List=callbacks.CanonicalNameSet',)),
    'RSS.FeedItemSortOrder': ('oracle:defined outside src/registry.py and src/conf.py', ('registry.OnlySomeStrings',), (), ("validStrings=('asInFeed', 'oldestFirst', 'newestFirst', 'outdatedFirst', 'updatedFirst')",)),
    'Relay.Ignores': ('oracle:defined outside src/registry.py and src/conf.py', ('registry.SpaceSeparatedListOf',), (), ('List=ircutils.IrcSet', 'Value=conf.ValidHostmask')),
    'Relay.Networks': ('oracle:defined outside src/registry.py and src/conf.py', ('registry.SpaceSeparatedListOf',), (), ('List=ircutils.IrcSet', 'Value=registry.String')),
    'Services.ValidNickOrEmptyString': ('oracle:defined outside src/registry.py and src/conf.py', ('registry.String',), ('setValue',), ()),
    'Services.ValidNickSet': ('oracle:defined outside src/registry.py and src/conf.py', ('conf.ValidNicks',), (), ('List=ircutils.IrcSet',)),
    'Services.Networks': ('oracle:defined outside src/registry.py and src/conf.py', ('registry.SpaceSeparatedSetOfStrings',), (), ('List=ircutils.IrcSet',)),
    'ShrinkUrl.ShrinkService': ('oracle:defined outside src/registry.py and src/conf.py', ('registry.OnlySomeStrings',), (), ("validStrings=('tiny', 'ur1', 'x0')",)),
    'ShrinkUrl.ShrinkCycle': ('oracle:defined outside src/registry.py and src/conf.py', ('registry.SpaceSeparatedListOfStrings',), ('__init__', 'getService', 'setValue'), ('Value=ShrinkService',)),
    'Topic.TopicFormat': ('oracle:defined outside src/registry.py and src/conf.py', ('registry.TemplatedString',), (), ("requiredTemplates=['topic']",)),
    'Unix.NonOptionString': ('oracle:defined outside src/registry.py and src/conf.py', ('registry.String',), ('__init__', 'setValue'), ()),
    'Unix.SpaceSeparatedListOfNonOptionStrings': ('oracle:defined outside src/registry.py and src/conf.py', ('registry.SpaceSeparatedListOfStrings',), (), ('Value=NonOptionString',)),
}


def class_sig(node):
    bases = tuple(ast.unparse(b) for b in node.bases)
    methods, attrs = [], []
    for st in node.body:
        if isinstance(st, ast.FunctionDef):
            methods.append(st.name)
        elif isinstance(st, ast.Assign) and len(st.targets) == 1 and isinstance(st.targets[0], ast.Name):
            n = st.targets[0].id
            if n not in ('__slots__', 'errormsg'):
                attrs.append('%s=%s' % (n, ast.unparse(st.value)))
        elif isinstance(st, ast.ClassDef):
            pass  # nested helper classes (Json._Context) carry no value semantics
    return bases, tuple(sorted(methods)), tuple(sorted(attrs))


def _modules():
    """(module key, path) of every source file that may define registry value classes: src/registry.py and src/conf.py
    first, then the other src/*.py, then plugins/*/config.py and plugins/*/plugin.py (key = plugin name [+ '.plugin'])"""
    import glob, os
    from gen_tables import REPO
    mods = [('registry', 'src/registry.py'), ('conf', 'src/conf.py')]
    for p_ in sorted(glob.glob(os.path.join(REPO, 'src', '*.py'))):
        k = os.path.basename(p_)[:-3]
        if k not in ('registry', 'conf'):
            mods.append((k, 'src/%s.py' % k))
    for p_ in sorted(glob.glob(os.path.join(REPO, 'plugins', '*', 'config.py'))):
        mods.append((os.path.basename(os.path.dirname(p_)), os.path.relpath(p_, REPO)))
    for p_ in sorted(glob.glob(os.path.join(REPO, 'plugins', '*', 'plugin.py'))):
        mods.append((os.path.basename(os.path.dirname(p_)) + '.plugin', os.path.relpath(p_, REPO)))
    out = []
    for k, rel in mods:
        txt = src(rel)
        if k in ('registry', 'conf') or ('class ' in txt and ('registry.' in txt or 'conf.' in txt)):
            out.append((k, rel))
    return out


def _classes():
    out = {}
    for mod, path in _modules():
        for node in tree(path).body:
            if isinstance(node, ast.ClassDef):
                out['%s.%s' % (mod, node.name)] = node
    return out


def _qual(mod, name, classes):
    """qualified name of a base / class expression written inside module [mod]"""
    if name.startswith('supybot.'):
        name = name[len('supybot.'):]
    if name.startswith('registry.') or name.startswith('conf.'):
        return name if name in classes else None
    q = '%s.%s' % (mod, name)
    return q if q in classes else None


def _value_classes(classes):
    """qualified names of the transitive subclasses of registry.Value, in module order"""
    vs = {'registry.Value'}
    changed = True
    while changed:
        changed = False
        for q, node in classes.items():
            if q in vs:
                continue
            mod = q.rsplit('.', 1)[0]
            if any(_qual(mod, ast.unparse(b), classes) in vs for b in node.bases):
                vs.add(q)
                changed = True
    return [q for q in classes if q in vs]


def inventory(strict=True):
    """[(qualified name, kind, bases, methods, attrs)] of every registry value class defined ANYWHERE in src/ and
    plugins/ (not only src/registry.py and src/conf.py); raises Shape.
    strict=False (the harness, so that it can still replay its corpus when the shape check -- reported by the
    table generator -- fails): unknown classes get kind 'oracle:unknown', signatures are not compared"""
    classes = _classes()
    out = []
    known = dict(KNOWN)
    known.update(EXTRA_KNOWN)
    for q in _value_classes(classes):
        sig = class_sig(classes[q])
        need(q in known or not strict, 'unknown registry value class %s (bases %r): add it to the C15 model/inventory' % (q, sig[0]))
        kind, kb, km, ka = known.get(q, ('oracle:unknown', (), (), ()))
        need(not strict or sig == (tuple(kb), tuple(sorted(km)), tuple(sorted(ka))),
             'registry value class %s changed shape: now bases=%r methods=%r attrs=%r' % ((q,) + sig))
        out.append((q, kind) + sig)
    missing = set(known) - {q for q, *_ in out}
    need(not strict or not missing, 'registry value classes disappeared: %r' % sorted(missing))
    return out


def _const_strs(node):
    return [n.value for n in ast.walk(node) if isinstance(n, ast.Constant) and isinstance(n.value, str)]


@table('T15')
def gen_T15():
    inv = inventory()
    t = tree('src/registry.py')
    # regexes / constants of the reader and of the name functions
    opn = find_def(t, 'open_registry')
    strs = _const_strs(opn)
    need('\\\\*$' in strs, 'open_registry: slashEnd regex changed')
    need('(?<!\\\\)((?:\\\\\\\\)*): ' in strs, 'open_registry: key/value split regex changed')
    need(ast.unparse(module_assign(t, '_splitRe')) == "re.compile('(?<!\\\\\\\\)((?:\\\\\\\\\\\\\\\\)*)\\\\.')", '_splitRe changed')
    need(ast.unparse(module_assign(t, 'ENCODING')) == "'string_escape' if minisix.PY2 else 'unicode_escape'", 'ENCODING changed')
    cl = find_def(t, 'close')
    need('%s: %s\n' in _const_strs(cl), 'close(): value line format changed')
    need('toggle' in _const_strs(find_def(t, 'set', 'Boolean')), "Boolean.set: 'toggle' literal gone")
    pr = [st for st in find_class(t, 'String').body if isinstance(st, ast.Assign) and ast.unparse(st.targets[0]) == '_printable']
    need(len(pr) == 1 and ast.unparse(pr[0].value) == 'string.printable[:-4]', 'String._printable changed')
    import string
    printable = string.printable[:-4]
    for cname in ('CommaSeparatedListOfStrings', 'CommaSeparatedSetOfStrings'):
        need('\\s*,\\s*' in _const_strs(find_def(t, 'splitter', cname)), cname + '.splitter regex changed')
    # toBool word lists
    tb = find_def(tree('src/utils/str.py'), 'toBool')
    tups = [ast.literal_eval(n) for n in ast.walk(tb) if isinstance(n, ast.Tuple)
            and all(isinstance(e, ast.Constant) and isinstance(e.value, str) for e in n.elts)]
    need(len(tups) == 2 and 'true' in tups[0] and 'false' in tups[1], 'toBool word tuples changed')
    need(all(w == w.lower() and w.isascii() for tp in tups for w in tp), 'toBool words not lower-case ASCII')
    ws = [c for c in range(0x110000) if chr(c).isspace()]
    # printable (repr keeps the character) ranges above ASCII
    ranges, lo = [], None
    for c in range(0x80, 0x110001):
        p = c < 0x110000 and chr(c).isprintable()
        if p and lo is None:
            lo = c
        elif not p and lo is not None:
            ranges.append((lo, c - 1)); lo = None
    out = 'Require Import Base.Wire.\n'
    out += 'Definition WHITESPACE : list N := %s.\n' % clist(str(c) for c in ws)
    out += 'Definition STRING_PRINTABLE : list N := %s.\n' % cstr(printable)
    out += 'Definition TRUE_WORDS : list (list N) := %s.\n' % clist(cstr(w) for w in tups[0])
    out += 'Definition FALSE_WORDS : list (list N) := %s.\n' % clist(cstr(w) for w in tups[1])
    out += 'Definition PRINTABLE_RANGES : list (N * N) := %s.\n' % clist('(%d, %d)' % r for r in ranges)
    # conf.register{Network,Channel}Value: the cache scan (name matching pinned exactly, case handling included)
    cf = tree('src/conf.py')
    SCAN = ("gname = g._name.lower()", "for name in registry._cache.keys():",
            "if name.lower().startswith(gname) and len(gname) < len(name):", "name = name[len(gname) + 1:]",
            "parts = registry.split(name)")
    for fn_, conds in (('registerNetworkValue', ["if len(parts) == 1 and parts[0] and (parts[0].startswith(':') or ircutils.isChannel(parts[0])):"]),
                       ('registerChannelValue', ["if len(parts) == 2 and parts[0] and parts[0].startswith(':') and parts[1] and ircutils.isChannel(parts[1]):",
                                                 "elif len(parts) == 1 and parts[0] and parts[0].startswith(':'):",
                                                 "elif len(parts) == 1 and parts[0] and ircutils.isChannel(parts[0]):"])):
        src_ = ast.unparse(find_def(cf, fn_))
        for frag in SCAN + tuple(conds):
            need(frag in src_, 'conf.%s: cache scan changed (expected `%s`)' % (fn_, frag))
    need("g.get(parts[0])()\n" in ast.unparse(find_def(cf, 'registerChannelValue'))
         and "g.get(parts[0]).get(parts[1])()" in ast.unparse(find_def(cf, 'registerChannelValue')), 'registerChannelValue: child instantiation changed')
    sn = ast.unparse(find_def(t, 'setName', 'Group'))
    need('if name in _cache and self._lastModified < _lastModified:' in sn and 'self.set(_cache[name])' in sn, 'Group.setName: cache consumption changed')
    gv = ast.unparse(find_def(t, 'getValues', 'Group'))
    need('if node._wasSet:' in gv, 'Group.getValues: _wasSet filter changed')
    isch = find_def(tree('src/ircutils.py'), 'isChannel')
    defaults = [ast.literal_eval(x) for x in isch.args.defaults]
    need(len(defaults) == 2 and isinstance(defaults[0], str) and isinstance(defaults[1], int), 'ircutils.isChannel defaults changed')
    isrc = ast.unparse(isch)
    for frag in ("',' not in s", "'\\x07' not in s", 's[0] in chantypes', 'len(s) <= channellen', 'len(s.split(None, 1)) == 1'):
        need(frag in isrc, 'ircutils.isChannel changed (expected `%s`)' % frag)
    out += 'Definition CHANTYPES : list N := %s.\nDefinition CHANNELLEN : N := %d.\n' % (cstr(defaults[0]), defaults[1])
    # the line filters open_registry reads through, and the wrapped value lines of NormalizedString.serialize
    uf = tree('src/utils/file.py')
    ncl = ast.unparse(find_def(uf, 'nonCommentLines'))
    need("for line in fd:" in ncl and "if not line.startswith('#'):" in ncl and "yield line" in ncl,
         'utils.file.nonCommentLines changed (expected `if not line.startswith(\'#\'):`)')
    need('return filter(str.strip, fd)' in ast.unparse(find_def(uf, 'nonEmptyLines')), 'utils.file.nonEmptyLines changed')
    need('return nonEmptyLines(nonCommentLines(fd))' in ast.unparse(find_def(uf, 'nonCommentNonEmptyLines')), 'utils.file.nonCommentNonEmptyLines changed')
    need('fd = utils.file.nonCommentNonEmptyLines(_fd)' in ast.unparse(opn), 'open_registry no longer reads through nonCommentNonEmptyLines')
    nss = ast.unparse(find_def(t, 'serialize', 'NormalizedString'))
    # the wrap width as a function of the name length: regenerated (WRAP_COLS, WRAP_EXTRA, WRAP_MIN)
    ser = find_def(t, 'serialize', 'NormalizedString')
    wraps = [n for n in ast.walk(ser) if isinstance(n, ast.Call) and ast.unparse(n.func) == 'textwrap.wrap']
    need(len(wraps) == 1 and len(wraps[0].args) == 1 and ast.unparse(wraps[0].args[0]) == 's', 'NormalizedString.serialize: expected one textwrap.wrap(s, ...)')
    kw = dict((k.arg, k.value) for k in wraps[0].keywords)
    need(sorted(kw) == ['break_long_words', 'break_on_hyphens', 'width'] and ast.unparse(kw['break_long_words']) == 'False'
         and ast.unparse(kw['break_on_hyphens']) == 'False', 'NormalizedString.serialize: textwrap.wrap keywords changed: %r' % sorted(kw))
    w = kw['width']
    wmin = 0
    if isinstance(w, ast.Call) and ast.unparse(w.func) == 'max' and len(w.args) == 2 and isinstance(w.args[1], ast.Constant) and isinstance(w.args[1].value, int):
        wmin = w.args[1].value
        w = w.args[0]
    need(isinstance(w, ast.BinOp) and isinstance(w.op, ast.Sub) and isinstance(w.left, ast.Constant) and isinstance(w.left.value, int)
         and ast.unparse(w.right) == 'prefixLen', 'NormalizedString.serialize: wrap width is not <columns> - prefixLen or max(<columns> - prefixLen, <minimum>): %s' % ast.unparse(kw['width']))
    wcols = w.left.value
    pl = [st for st in ser.body if isinstance(st, ast.Assign) and ast.unparse(st.targets[0]) == 'prefixLen']
    need(len(pl) == 1 and isinstance(pl[0].value, ast.BinOp) and isinstance(pl[0].value.op, ast.Add) and ast.unparse(pl[0].value.left) == 'len(self._name)'
         and isinstance(pl[0].value.right, ast.Constant) and isinstance(pl[0].value.right.value, int), 'NormalizedString.serialize: prefixLen is not len(self._name) + <n>')
    wextra = pl[0].value.right.value
    need(wmin >= 0 and wcols > 0 and wextra >= 0, 'NormalizedString.serialize: wrap constants out of range')
    out += 'Definition WRAP_COLS : nat := %d%%nat.\nDefinition WRAP_EXTRA : nat := %d%%nat.\nDefinition WRAP_MIN : nat := %d%%nat.\n' % (wcols, wextra, wmin)
    for frag in ("line = ' ' * prefixLen + line",
                 "line += '\\\\'", 'os.linesep.join(lines)'):
        need(frag in nss, 'NormalizedString.serialize changed (expected `%s`)' % frag)
    nsn = ast.unparse(find_def(t, 'normalize', 'NormalizedString'))
    need('utils.str.normalizeWhitespace(s.strip())' in nsn, 'NormalizedString.normalize changed')
    # timestamps and the lazy reload; `config reload` and the reset commands of plugins/Config
    sv = ast.unparse(find_def(t, '_setValue', 'Value'))
    body = find_def(t, '_setValue', 'Value').body
    stmts = [ast.unparse(x) for x in body if not (isinstance(x, ast.Expr) and isinstance(x.value, ast.Constant))]
    need(stmts[:2] == ['self._lastModified = monotonic_time()', 'self.value = v'],
         'Value._setValue: the timestamp must be refreshed unconditionally before the assignment (found %r)' % stmts[:2])
    call = ast.unparse(find_def(t, '__call__', 'Value'))
    for frag in ('if _lastModified > self._lastModified:', 'if self._name in _cache:', 'self.set(_cache[self._name])', 'return self.value'):
        need(frag in call, 'Value.__call__ changed (expected `%s`)' % frag)
    vsn = ast.unparse(find_def(t, 'setName', 'Value'))
    for frag in ("if self._name == 'unset':", 'self._lastModified = 0', 'self._lastModified = monotonic_time()'):
        need(frag in vsn, 'Value.setName changed (expected `%s`)' % frag)
    need('_lastModified = monotonic_time()' in ast.unparse(opn) and 'if clear:' in ast.unparse(opn), 'open_registry: timestamp / clear changed')
    need('return repr(self())' in ast.unparse(find_def(t, '__str__', 'Value')), 'Value.__str__ changed')
    need('s = self.value' in ast.unparse(find_def(t, '__str__', 'String')), 'String.__str__ changed')
    need('values = self()' in ast.unparse(find_def(t, '__str__', 'SeparatedListOf')), 'SeparatedListOf.__str__ changed')
    cp = tree('plugins/Config/plugin.py')
    need('registry.open_registry(world.registryFilename)' in ast.unparse(find_def(cp, '_reload')), 'Config._reload changed')
    config_reset_forgets()
    # conf.registerUserValue: the cache scan that re-creates <var>.<user id> (repair of C15.F32), in the style of its siblings
    ruv = ast.unparse(find_def(cf, 'registerUserValue'))
    for frag in SCAN + ("if len(parts) == 1 and parts[0].isdigit():", "g.get(parts[0])()", "value._supplyDefault = True", "return g"):
        need(frag in ruv, 'conf.registerUserValue: cache scan changed (expected `%s`)' % frag)
    # the plugin API: exact descent on the write path, lenient getSpecific on the read path
    cb = tree('src/callbacks.py')
    srv = ast.unparse(find_def(cb, 'setRegistryValue', 'PluginMixin'))
    for frag in ("if network:\n        group = group.get(':' + network)", "if channel:\n        group = group.get(channel)", 'group.setValue(value)'):
        need(frag in srv, 'PluginMixin.setRegistryValue changed (expected `%s`)' % frag.replace('\n', ' / '))
    need('getSpecific' not in srv, 'PluginMixin.setRegistryValue resolves its target with getSpecific (a read resolver)')
    rrv = ast.unparse(find_def(cb, 'registryValue', 'PluginMixin'))
    need('if channel or network:\n        group = group.getSpecific(network=network, channel=channel)' in rrv, 'PluginMixin.registryValue changed')
    gsp = ast.unparse(find_def(t, 'getSpecific', 'Value'))
    for frag in ('if channel and (not ircutils.isChannel(channel)):\n        channel = None', 'if world.getIrc(network) is None:\n            network = None',
                 'if network_value._wasSet or network_channel_value._wasSet:'):
        need(frag in gsp, 'Value.getSpecific changed (expected `%s`)' % frag.replace('\n', ' / '))
    progs = atomic_programs()
    out += ('(* order of validation / side effects / store in X.set and X.setValue, inlined along the MRO *)\n'
            'Inductive stm : Type :=\n| SSkip | SCheck | SError | SAssign\n| SSeq (a b : stm) | SIf (a b : stm) | STry (body handler : stm).\n')
    out += 'Definition INVENTORY : list (list N) := %s.\n' % clist(cstr(q) for q, *_ in inv)
    out += 'Definition ATOMIC_EXCEPTIONS : list (list N) := %s.\n' % clist(cstr(q) for q in atomic_exceptions(progs))
    out += 'Definition ATOMIC_TABLE : list (list N * stm * stm) :=\n  %s.\n' % clist(
        '\n   (%s, %s, %s)' % (cstr(q), stm_coq(a), stm_coq(b)) for q, a, b in progs)
    out += '(* class inventory (%d classes): %s *)\n' % (len(inv), ', '.join('%s:%s' % (q, k.split(':')[0]) for q, k, *_ in inv))
    return 'src/registry.py src/conf.py src/utils/str.py', out


# ---------------------------------------------------------------------------------------------
# reject-atomic: the order of validation / side effects / store in X.set and X.setValue
#
# For every class of the inventory the resolved (MRO) bodies of set() and setValue() are inlined
# into a small statement language (emitted as the Coq type [stm]):
#   SSkip    neither raises nor stores          SCheck   may raise (validation, conversion, any call)
#   SError   self.error(...) / raise            SAssign  Value._setValue: self.value = v (+ unset children)
#   SSeq a b | SIf a b | STry body handler
# Fail-closed: a statement form the translator does not know raises Shape.  Calls trusted not to raise
# although they follow the store are listed in NONRAISING (and in TRUSTED of harness/c15.py).
NONRAISING = {'defaultHttpHeaders(None, None)',     # conf.HttpRequestLanguage / HttpUserAgents: rebuilds a dict of headers
              # ircdb.DefaultCapabilities.setValue: after the store it prints a warning and adds '-owner' to the stored set
              "print('*** You must run supybot with the --allow-default-owner')",
              "print('*** option in order to allow a default capability of owner.')",
              'print("*** Don\'t do that, it\'s dumb.")', "self.value.add('-owner')"}
NONRAISING_TESTS = {"'-owner' not in set(self.value) and (not allowDefaultOwner)"}
# classes whose set()/setValue() can raise AFTER the store (genuine defects, recorded as findings): the reject-atomic
# theorem excludes exactly those of them that are still not atomic in the source being checked
KNOWN_NONATOMIC = {}          # C15.F33 (log.BooleanRequiredFalseOnWindows) is repaired: no exception is tolerated any more
MAXDEPTH = 12


def _mro(q, classes, memo):
    if q in memo:
        return memo[q]
    mod = q.split('.')[0]
    bases = [_qual(mod, ast.unparse(b), classes) for b in classes[q].bases]
    bases = [b for b in bases if b is not None]          # object / Exception / Group's `object`
    seqs = [list(_mro(b, classes, memo)) for b in bases] + [list(bases)]
    res = [q]
    while any(seqs):
        for s_ in seqs:
            if s_ and not any(s_[0] in t[1:] for t in seqs):
                h = s_[0]
                break
        else:
            raise Shape('no consistent MRO for %s' % q)
        res.append(h)
        seqs = [[x for x in t if x != h] for t in seqs]
    memo[q] = res
    return res


def _has_call(node):
    return any(isinstance(n, ast.Call) for n in ast.walk(node))


def _defines(cnode, meth):
    for st in cnode.body:
        if isinstance(st, ast.FunctionDef) and st.name == meth:
            return st
    return None


def _seq(items):
    items = [x for x in items if x != ('SSkip',)]
    if not items:
        return ('SSkip',)
    r = items[-1]
    for x in reversed(items[:-1]):
        r = ('SSeq', x, r)
    return r


def _stores(p):
    return p[0] == 'SAssign' or any(isinstance(x, tuple) and _stores(x) for x in p[1:])


class _Inliner:
    def __init__(self, q, classes, memo):
        self.q, self.classes, self.mro = q, classes, _mro(q, classes, memo)

    def method(self, start, meth, depth):
        need(depth < MAXDEPTH, '%s: call depth exceeded while inlining %s' % (self.q, meth))
        for i in range(start, len(self.mro)):
            f = _defines(self.classes[self.mro[i]], meth)
            if f is not None:
                return self.block(f.body, i, depth + 1)
        raise Shape('%s: no %s found from MRO position %d' % (self.q, meth, start))

    def block(self, stmts, i, depth):
        return _seq([self.stmt(st, i, depth) for st in stmts])

    def call(self, c, i, depth):
        """a Call expression evaluated for its effect"""
        f = c.func
        src = ast.unparse(c)
        pre = [('SCheck',)] if any(_has_call(a) for a in list(c.args) + [k.value for k in c.keywords]) else []
        if isinstance(f, ast.Attribute) and f.attr in ('set', 'setValue'):
            v = f.value
            vs = ast.unparse(v)
            mod = self.mro[i].split('.')[0]
            if vs == 'self':
                start = 0
            elif vs.startswith('super(') or vs in ('self.__parent',) or (vs.startswith('self._') and vs.endswith('__parent')):
                start = i + 1
            else:
                tq = _qual(mod, vs, self.classes)
                need(tq is not None, '%s: cannot resolve the receiver of %s' % (self.q, src))
                need(len(c.args) >= 1 and ast.unparse(c.args[0]) == 'self', '%s: unbound call without self: %s' % (self.q, src))
                if tq not in self.mro:
                    # an unbound method of a class that is not an ancestor (plugins/BadWords): the function that runs is the
                    # one the named class inherits; it must be defined by one of our own ancestors
                    for anc in _mro(tq, self.classes, {}):
                        if _defines(self.classes[anc], f.attr) is not None:
                            tq = anc
                            break
                    need(tq in self.mro, '%s: %s runs a method of a class outside the MRO' % (self.q, src))
                start = self.mro.index(tq)
            return _seq(pre + [self.method(start, f.attr, depth)])
        if isinstance(f, ast.Attribute) and ast.unparse(f) == 'self._setValue':
            return _seq(pre + [('SAssign',)])
        if isinstance(f, ast.Attribute) and ast.unparse(f) == 'self.error':
            return _seq(pre + [('SError',)])
        if src in NONRAISING:
            return ('SSkip',)
        return ('SCheck',)

    def stmt(self, st, i, depth):
        if isinstance(st, ast.Expr):
            if isinstance(st.value, ast.Constant):
                return ('SSkip',)
            if isinstance(st.value, ast.Call):
                return self.call(st.value, i, depth)
            return ('SCheck',) if _has_call(st.value) else ('SSkip',)
        if isinstance(st, ast.Raise):
            return ('SError',)
        if isinstance(st, ast.Assign) and len(st.targets) == 1 and ast.unparse(st.targets[0]) == 'self.value':
            # a class that stores without Value._setValue (plugins/ChannelStats Smileys)
            pre = [('SCheck',)] if _has_call(st.value) and ast.unparse(st.value) not in NONRAISING else []
            return _seq(pre + [('SAssign',)])
        if isinstance(st, (ast.Assign, ast.AugAssign, ast.AnnAssign)):
            v = st.value
            if v is None or not _has_call(v):
                return ('SSkip',)
            if isinstance(v, ast.Call) and ast.unparse(v) in NONRAISING:
                return ('SSkip',)
            need(not (isinstance(v, ast.Call) and isinstance(v.func, ast.Attribute) and v.func.attr in ('set', 'setValue', '_setValue')),
                 '%s: store call used as a value: %s' % (self.q, ast.unparse(st)))
            return ('SCheck',)
        if isinstance(st, ast.If):
            test = [] if ast.unparse(st.test) in NONRAISING_TESTS else [('SCheck',)]
            return _seq(test + [('SIf', self.block(st.body, i, depth), self.block(st.orelse, i, depth))])
        if isinstance(st, ast.Try):
            need(not st.finalbody, '%s: try/finally in set/setValue' % self.q)
            hs = [self.block(h.body, i, depth) for h in st.handlers]
            h = hs[-1]
            for x in reversed(hs[:-1]):
                h = ('SIf', x, h)
            return _seq([('STry', self.block(st.body, i, depth), h), self.block(st.orelse, i, depth)])
        if isinstance(st, (ast.For, ast.While)):
            body = self.block(st.body + st.orelse, i, depth)
            need(not _stores(body), '%s: a loop in set/setValue stores' % self.q)
            return ('SCheck',)
        if isinstance(st, (ast.FunctionDef, ast.Pass, ast.Import, ast.ImportFrom)):
            return ('SSkip',)
        raise Shape('%s: statement form not understood in set/setValue: %s' % (self.q, ast.unparse(st)[:80]))


def atomic_programs(strict=True):
    """[(qualified class name, set program, setValue program)] for every non-abstract inventory class"""
    classes = _classes()
    memo = {}
    # Value._setValue must assign before it does anything else that matters (children, callbacks)
    sv = _defines(classes['registry.Value'], '_setValue')
    need(sv is not None, 'Value._setValue missing')
    assigns = [j for j, st in enumerate(sv.body) if isinstance(st, ast.Assign) and ast.unparse(st.targets[0]) == 'self.value']
    need(len(assigns) == 1, 'Value._setValue: expected exactly one assignment to self.value')
    out = []
    for q, kind, *_ in inventory(strict):
        inl = _Inliner(q, classes, memo)
        out.append((q, inl.method(0, 'set', 0), inl.method(0, 'setValue', 0)))
    return out


def stm_coq(p):
    return p[0] if len(p) == 1 else '(%s %s)' % (p[0], ' '.join(stm_coq(x) for x in p[1:]))


def config_reset_forgets():
    """shape of the reset commands of plugins/Config/plugin.py (re-stated in harness/c15.py, mirrored by TReset in
    coq/C15/Model.v): three _setValue(<parent>.value, inherited=True), each immediately followed by
    registry._cache.pop(changroup._name, None).  Anything else raises Shape."""
    cp = tree('plugins/Config/plugin.py')
    found = 0
    for node in ast.walk(cp):
        body = getattr(node, 'body', None)
        if not isinstance(body, list):
            continue
        for blk in (body, getattr(node, 'orelse', []) or []):
            for j, st in enumerate(blk):
                src = ast.unparse(st)
                if '_setValue(' in src and 'inherited=True' in src and isinstance(st, ast.Expr):
                    need(src in ('changroup._setValue(netgroup.value, inherited=True)', 'changroup._setValue(group.value, inherited=True)'),
                         'plugins/Config: unexpected reset statement `%s`' % src)
                    need(j + 1 < len(blk) and ast.unparse(blk[j + 1]) == 'registry._cache.pop(changroup._name, None)',
                         'plugins/Config: `%s` is not followed by registry._cache.pop(changroup._name, None)' % src)
                    found += 1
    need(found == 3 and ast.unparse(cp).count('inherited=True') == 3, 'plugins/Config: expected three reset statements, found %d' % found)
    # which parent each reset copies from, in source order: <var>.:net.#chan <- its parent <var>.:net (netgroup);
    # <var>.#chan <- the general value (group); <var>.:net <- the general value (group)
    got = [v for (v, _) in config_reset_sites()]
    need(got == ['netgroup.value', 'group.value', 'group.value'],
         'plugins/Config: the reset commands re-seed from %r (expected netgroup.value for <var>.:net.#chan, group.value for <var>.#chan and <var>.:net)' % got)
    return True


def config_reset_sites():
    """non-strict companion of config_reset_forgets for the harness, which re-states the reset commands: for the three
    reset statements in source order (reset channel: <var>.:net.#chan, <var>.#chan; reset network: <var>.:net) the
    expression the node is re-seeded with (source text of the first argument of _setValue) and whether the statement
    is followed by registry._cache.pop(changroup._name, None).  Never raises."""
    out = []
    try:
        cp = tree('plugins/Config/plugin.py')
        hits = []
        for node in ast.walk(cp):
            for attr in ('body', 'orelse'):
                blk = getattr(node, attr, None)
                if not isinstance(blk, list):
                    continue
                for j, st in enumerate(blk):
                    if isinstance(st, ast.Expr) and isinstance(st.value, ast.Call) and '_setValue(' in ast.unparse(st) and 'inherited=True' in ast.unparse(st):
                        nxt = ast.unparse(blk[j + 1]) if j + 1 < len(blk) else ''
                        arg = ast.unparse(st.value.args[0]) if st.value.args else ''
                        hits.append((st.lineno, (arg, nxt == 'registry._cache.pop(changroup._name, None)')))
        out = [h[1] for h in sorted(hits)]
    except Exception:
        out = []
    return (out + [('', False)] * 3)[:3]


def py_outs(p, d):
    """Python mirror of Model.outs: the outcomes (dirty, raised) of program p from state d"""
    k = p[0]
    if k == 'SSkip':
        return [(d, False)]
    if k == 'SCheck':
        return [(d, False), (d, True)]
    if k == 'SError':
        return [(d, True)]
    if k == 'SAssign':
        return [(True, False)]
    if k == 'SSeq':
        out = []
        for (d1, r) in py_outs(p[1], d):
            out += [(d1, True)] if r else py_outs(p[2], d1)
        return out
    if k == 'SIf':
        return py_outs(p[1], d) + py_outs(p[2], d)
    if k == 'STry':
        out = []
        for (d1, r) in py_outs(p[1], d):
            out += ([(d1, True)] + py_outs(p[2], d1)) if r else [(d1, False)]
        return out
    raise Shape('unknown program node %r' % (k,))


def atomic_exceptions(progs):
    """names of the inventory classes whose set()/setValue() program is not atomic; each must be a recorded finding"""
    bad = []
    for q, a, b in progs:
        if any(r and d for p_ in (a, b) for (d, r) in py_outs(p_, False)):
            need(q in KNOWN_NONATOMIC, 'the set()/setValue() of %s can raise after it has stored the value (validation or side effect after the store)' % q)
            bad.append(q)
    return bad
