"""tables + class inventory for C15 (src/registry.py, src/conf.py, src/utils/str.py)

Fail-closed: every registry value class (transitive subclass of registry.Value) defined in
src/registry.py and src/conf.py must be listed in KNOWN with exactly the structural signature
(bases, methods defined, class attributes) recorded here; a new class, a class that gains or
loses a method, or a changed class attribute raises Shape.  Method *bodies* are not pinned
(a refactor must not alarm): they are covered by the differential run.
"""
import ast
from gen_tables import *  # noqa: F401,F403
from gen_tables import table, tree, module_assign, find_def, find_class, need, cstr, clist, Shape

# kind: how harness/c15.py + coq/C15/Model.v treat the class
#   string/surround/spaceright/onlysome/boolean/integer/raw/spacelist/commalist : modelled in Coq
#       (class-specific validator of setValue = oracle bit computed on the real class)
#   oracle:<why> : save/reload + reject-atomic checked directly on the implementation only
KNOWN = {
    # ---- src/registry.py
    'registry.Value': ('abstract', ('Group',), ('__call__', '__init__', '__str__', '_makeChild', '_setValue', 'addCallback', 'context', 'error', 'getSpecific', 'removeCallback', 'serialize', 'set', 'setName', 'setValue'), ()),
    'registry.Boolean': ('boolean', ('Value',), ('set', 'setValue'), ()),
    'registry.Integer': ('integer', ('Value',), ('set',), ()),
    'registry.NonNegativeInteger': ('integer', ('Integer',), ('setValue',), ()),
    'registry.PositiveInteger': ('integer', ('NonNegativeInteger',), ('setValue',), ()),
    'registry.Float': ('oracle:float parsing/printing is a CPython primitive', ('Value',), ('set', 'setValue'), ()),
    'registry.PositiveFloat': ('oracle:float', ('Float',), ('setValue',), ()),
    'registry.Probability': ('oracle:float', ('Float',), ('__init__', 'setValue'), ()),
    'registry.String': ('string', ('Value',), ('__str__', '_needsQuoting', 'set'), ("_printable=string.printable[:-4]",)),
    'registry.OnlySomeStrings': ('onlysome', ('String',), ('__init__', 'help', 'normalize', 'setValue'), ('validStrings=()',)),
    'registry.NormalizedString': ('oracle:serialize uses textwrap.wrap', ('String',), ('__init__', 'normalize', 'serialize', 'set', 'setValue'), ()),
    'registry.StringSurroundedBySpaces': ('surround', ('String',), ('setValue',), ()),
    'registry.StringWithSpaceOnRight': ('spaceright', ('String',), ('setValue',), ()),
    'registry.Regexp': ('oracle:perlReToPythonRe/re.compile', ('Value',), ('__call__', '__init__', '__str__', '_convertFromString', 'error', 'set', 'setValue'), ()),
    'registry.SeparatedListOf': ('abstract', ('Value',), ('__str__', 'joiner', 'set', 'setValue', 'splitter'), ('List=list', 'Value=Value', 'sorted=False')),
    'registry.SpaceSeparatedListOf': ('abstract', ('SeparatedListOf',), ('splitter',), ("joiner=' '.join",)),
    'registry.SpaceSeparatedListOfStrings': ('spacelist', ('SpaceSeparatedListOf',), (), ('Value=String',)),
    'registry.SpaceSeparatedSetOfStrings': ('spacelist', ('SpaceSeparatedListOfStrings',), (), ('List=set',)),
    'registry.CommaSeparatedListOfStrings': ('commalist', ('SeparatedListOf',), ('splitter',), ('Value=String', "joiner=', '.join")),
    'registry.CommaSeparatedSetOfStrings': ('commalist', ('SeparatedListOf',), ('splitter',), ('List=set', 'Value=String', "joiner=', '.join")),
    'registry.TemplatedString': ('string', ('String',), ('__init__', 'setValue'), ('requiredTemplates=[]',)),
    'registry.Json': ('oracle:json.loads/json.dumps', ('String',), ('__call__', '_needsQuoting', 'editable', 'set', 'setValue'), ()),
    # ---- src/conf.py
    'conf.ValidNick': ('string', ('registry.String',), ('setValue',), ()),
    'conf.ValidNickOrEmpty': ('string', ('ValidNick',), ('setValue',), ()),
    'conf.ValidNicks': ('spacelist', ('registry.SpaceSeparatedListOf',), (), ('Value=ValidNick',)),
    'conf.ValidNickAllowingPercentS': ('string', ('ValidNick',), ('setValue',), ()),
    'conf.ValidNicksAllowingPercentS': ('spacelist', ('ValidNicks',), (), ('Value=ValidNickAllowingPercentS',)),
    'conf.ValidChannel': ('string', ('registry.String',), ('error', 'setValue'), ()),
    'conf.ValidHostmask': ('string', ('registry.String',), ('setValue',), ()),
    'conf.VersionIfEmpty': ('string', ('registry.String',), ('__call__',), ()),
    'conf.Networks': ('spacelist', ('registry.SpaceSeparatedSetOfStrings',), (), ('List=ircutils.IrcSet',)),
    'conf.Servers': ('oracle:__str__/__call__ overridden (Server objects)', ('registry.SpaceSeparatedListOfStrings',), ('__call__', '__str__', 'append', 'convert', 'normalize'), ()),
    'conf.SocksProxy': ('string', ('registry.String',), ('setValue',), ()),
    'conf.SpaceSeparatedSetOfChannels': ('spacelist', ('registry.SpaceSeparatedListOf',), ('join', 'joins'), ('List=ircutils.IrcSet', 'Value=ValidChannel', 'sorted=True')),
    'conf.ValidSaslMechanism': ('onlysome', ('registry.OnlySomeStrings',), (), ("validStrings=('ecdsa-nist256p-challenge', 'external', 'plain', 'scram-sha-256')",)),
    'conf.SpaceSeparatedListOfSaslMechanisms': ('spacelist', ('registry.SpaceSeparatedListOf',), (), ('Value=ValidSaslMechanism',)),
    'conf.ValidPrefixChars': ('string', ('registry.String',), ('setValue',), ()),
    'conf.DatabaseRecordTemplatedString': ('string', ('registry.TemplatedString',), (), ("requiredTemplates=['text']",)),
    'conf.ValidQuotes': ('raw', ('registry.Value',), ('__str__', 'setValue'), ()),
    'conf.ValidBrackets': ('onlysome', ('registry.OnlySomeStrings',), (), ("validStrings=('', '[]', '<>', '{}', '()')",)),
    'conf.ValidDriverModule': ('onlysome', ('registry.OnlySomeStrings',), (), ("validStrings=('default', 'Socket')",)),
    'conf.Directory': ('string', ('registry.String',), ('__call__', 'dirize'), ()),
    'conf.DataFilename': ('string', ('registry.String',), ('__call__',), ()),
    'conf.DataFilenameDirectory': ('string', ('DataFilename', 'Directory'), ('__call__',), ()),
    'conf.Databases': ('oracle:serialize overridden (no unicode_escape)', ('registry.SpaceSeparatedListOfStrings',), ('__call__', 'serialize'), ()),
    'conf.ChannelSpecific': ('boolean', ('registry.Boolean',), ('getChannelLink',), ()),
    'conf.CDB': ('boolean', ('registry.Boolean',), ('connect',), ()),
    'conf.Banmask': ('oracle:setValue normalises every element through validStrings', ('registry.SpaceSeparatedSetOfStrings',), ('__init__', 'help', 'makeBanmask', 'normalize', 'setValue'), ("validStrings=('exact', 'nick', 'user', 'host')",)),
    'conf.HttpProxy': ('oracle:setValue mutates utils.web.proxy', ('registry.String',), ('setValue',), ()),
    'conf.HttpRequestLanguage': ('string', ('registry.String',), ('setValue',), ()),
    'conf.HttpUserAgents': ('commalist', ('registry.CommaSeparatedListOfStrings',), ('setValue',), ()),
    'conf.IP': ('string', ('registry.String',), ('setValue',), ()),
    'conf.ListOfIPs': ('spacelist', ('registry.SpaceSeparatedListOfStrings',), (), ('Value=IP',)),
    'conf.SocketTimeout': ('oracle:setValue calls socket.setdefaulttimeout (process-global)', ('registry.PositiveInteger',), ('setValue',), ()),
}


def class_sig(node):
    bases = tuple(ast.unparse(b) for b in node.bases)
    methods, attrs = [], []
    for st in node.body:
        if isinstance(st, ast.FunctionDef):
            methods.append(st.name)
        elif isinstance(st, ast.Assign) and len(st.targets) == 1 and isinstance(st.targets[0], ast.Name):
            n = st.targets[0].id
            if n not in ('__slots__', 'errormsg'):
                attrs.append('%s=%s' % (n, ast.unparse(st.value)))
        elif isinstance(st, ast.ClassDef):
            pass  # nested helper classes (Json._Context) carry no value semantics
    return bases, tuple(sorted(methods)), tuple(sorted(attrs))


def inventory(strict=True):
    """[(qualified name, kind, bases, methods, attrs)] of every registry value class; raises Shape.
    strict=False (the harness, so that it can still replay its corpus when the shape check -- reported by the
    table generator -- fails): unknown classes get kind 'oracle:unknown', signatures are not compared"""
    out = []
    for mod, path in (('registry', 'src/registry.py'), ('conf', 'src/conf.py')):
        t = tree(path)
        valueish = {'Value', 'registry.Value'} if mod == 'registry' else set()
        if mod == 'conf':
            valueish = {'registry.' + q.split('.', 1)[1] for q, *_ in out}
        for node in t.body:
            if not isinstance(node, ast.ClassDef):
                continue
            bases = [ast.unparse(b) for b in node.bases]
            if node.name == 'Value' and mod == 'registry' or any(b in valueish for b in bases):
                valueish.add(node.name)
                q = '%s.%s' % (mod, node.name)
                sig = class_sig(node)
                need(q in KNOWN or not strict, 'unknown registry value class %s (bases %r): add it to the C15 model/inventory' % (q, sig[0]))
                kind, kb, km, ka = KNOWN.get(q, ('oracle:unknown', (), (), ()))
                need(not strict or sig == (tuple(kb), tuple(sorted(km)), tuple(sorted(ka))),
                     'registry value class %s changed shape: now bases=%r methods=%r attrs=%r' % ((q,) + sig))
                out.append((q, kind) + sig)
    missing = set(KNOWN) - {q for q, *_ in out}
    need(not strict or not missing, 'registry value classes disappeared: %r' % sorted(missing))
    return out


def _const_strs(node):
    return [n.value for n in ast.walk(node) if isinstance(n, ast.Constant) and isinstance(n.value, str)]


@table('T15')
def gen_T15():
    inv = inventory()
    t = tree('src/registry.py')
    # regexes / constants of the reader and of the name functions
    opn = find_def(t, 'open_registry')
    strs = _const_strs(opn)
    need('\\\\*$' in strs, 'open_registry: slashEnd regex changed')
    need('(?<!\\\\)((?:\\\\\\\\)*): ' in strs, 'open_registry: key/value split regex changed')
    need(ast.unparse(module_assign(t, '_splitRe')) == "re.compile('(?<!\\\\\\\\)\\\\.')", '_splitRe changed')
    need(ast.unparse(module_assign(t, 'ENCODING')) == "'string_escape' if minisix.PY2 else 'unicode_escape'", 'ENCODING changed')
    cl = find_def(t, 'close')
    need('%s: %s\n' in _const_strs(cl), 'close(): value line format changed')
    need('toggle' in _const_strs(find_def(t, 'set', 'Boolean')), "Boolean.set: 'toggle' literal gone")
    pr = [st for st in find_class(t, 'String').body if isinstance(st, ast.Assign) and ast.unparse(st.targets[0]) == '_printable']
    need(len(pr) == 1 and ast.unparse(pr[0].value) == 'string.printable[:-4]', 'String._printable changed')
    import string
    printable = string.printable[:-4]
    for cname in ('CommaSeparatedListOfStrings', 'CommaSeparatedSetOfStrings'):
        need('\\s*,\\s*' in _const_strs(find_def(t, 'splitter', cname)), cname + '.splitter regex changed')
    # toBool word lists
    tb = find_def(tree('src/utils/str.py'), 'toBool')
    tups = [ast.literal_eval(n) for n in ast.walk(tb) if isinstance(n, ast.Tuple)
            and all(isinstance(e, ast.Constant) and isinstance(e.value, str) for e in n.elts)]
    need(len(tups) == 2 and 'true' in tups[0] and 'false' in tups[1], 'toBool word tuples changed')
    need(all(w == w.lower() and w.isascii() for tp in tups for w in tp), 'toBool words not lower-case ASCII')
    ws = [c for c in range(0x110000) if chr(c).isspace()]
    # printable (repr keeps the character) ranges above ASCII
    ranges, lo = [], None
    for c in range(0x80, 0x110001):
        p = c < 0x110000 and chr(c).isprintable()
        if p and lo is None:
            lo = c
        elif not p and lo is not None:
            ranges.append((lo, c - 1)); lo = None
    out = 'Require Import Base.Wire.\n'
    out += 'Definition WHITESPACE : list N := %s.\n' % clist(str(c) for c in ws)
    out += 'Definition STRING_PRINTABLE : list N := %s.\n' % cstr(printable)
    out += 'Definition TRUE_WORDS : list (list N) := %s.\n' % clist(cstr(w) for w in tups[0])
    out += 'Definition FALSE_WORDS : list (list N) := %s.\n' % clist(cstr(w) for w in tups[1])
    out += 'Definition PRINTABLE_RANGES : list (N * N) := %s.\n' % clist('(%d, %d)' % r for r in ranges)
    out += '(* class inventory (%d classes): %s *)\n' % (len(inv), ', '.join('%s:%s' % (q, k.split(':')[0]) for q, k, *_ in inv))
    return 'src/registry.py src/conf.py src/utils/str.py', out
