"""tables for C18 (src/schedule.py): code-shaped facts the model depends on"""
import ast
from gen_tables import table, tree, find_def, handler_names, need, cbool


def _calls(node, attr):
    return [n for n in ast.walk(node) if isinstance(n, ast.Call) and isinstance(n.func, ast.Attribute) and n.func.attr == attr]


def _directives(text):
    """number of %-conversion directives in a template ('%%' is none); only plain %s %r %d are understood"""
    import re
    rest = text.replace('%%', '')
    found = re.findall(r'%[srd]', rest)
    need(rest.count('%') == len(found), 'log template has a conversion directive the extractor does not understand: %r' % (text,))
    return len(found)


@table('T18')
def gen_T18():
    t = tree('src/schedule.py')
    # run(): while self.schedule and self.schedule[0][0] < time.time(): pop, pop, try: f(*args, **kwargs) except Exception
    run = find_def(t, 'run', 'Schedule')
    loops = [n for n in ast.walk(run) if isinstance(n, ast.While)]
    need(len(loops) == 1, 'Schedule.run: expected exactly one while loop')
    test = loops[0].test
    need(isinstance(test, ast.BoolOp) and isinstance(test.op, ast.And) and len(test.values) == 2
         and ast.unparse(test.values[0]) == 'self.schedule', 'Schedule.run: loop test is not `self.schedule and ...`')
    cmp_ = test.values[1]
    need(isinstance(cmp_, ast.Compare) and len(cmp_.ops) == 1 and ast.unparse(cmp_.left) == 'self.schedule[0][0]'
         and ast.unparse(cmp_.comparators[0]) == 'time.time()', 'Schedule.run: loop test compares something else: ' + ast.unparse(cmp_))
    need(isinstance(cmp_.ops[0], (ast.Lt, ast.LtE)), 'Schedule.run: comparison operator is neither < nor <=')
    strict = isinstance(cmp_.ops[0], ast.Lt)
    need(len(_calls(loops[0], 'heappop')) == 1, 'Schedule.run: expected one heappop in the loop')
    trys = [n for n in loops[0].body if isinstance(n, ast.Try)]
    need(len(trys) == 1 and len(trys[0].handlers) == 1 and not trys[0].finalbody and not trys[0].orelse,
         'Schedule.run: expected one try/except around the call')
    need(handler_names(trys[0].handlers[0]) == ['Exception'], 'Schedule.run: handler is not `except Exception`')
    need(len(trys[0].body) == 1 and ast.unparse(trys[0].body[0]) == 'f(*args, **kwargs)', 'Schedule.run: call is not f(*args, **kwargs)')
    # the handler: exactly one statement, log.exception(<constant template>[, names...]) -- or, tolerated as a modelled
    # shape, <constant template> % name (eager interpolation of the event name, which can raise for tuple names)
    hb = trys[0].handlers[0].body
    need(trys[0].handlers[0].name is None and len(hb) == 1 and isinstance(hb[0], ast.Expr) and isinstance(hb[0].value, ast.Call)
         and ast.unparse(hb[0].value.func) == 'log.exception' and not hb[0].value.keywords and len(hb[0].value.args) >= 1,
         'Schedule.run: the except handler is not a single log.exception(...) call')
    largs = hb[0].value.args
    need(all(isinstance(a, ast.Name) for a in largs[1:]), 'Schedule.run: log.exception gets a non-variable logging argument')
    tmpl = largs[0]
    interpolates = False
    if isinstance(tmpl, ast.BinOp):
        need(isinstance(tmpl.op, ast.Mod) and isinstance(tmpl.left, ast.Constant) and isinstance(tmpl.left.value, str),
             'Schedule.run: log template is not a constant or constant % value: ' + ast.unparse(tmpl))
        right = tmpl.right
        text = tmpl.left.value
        if isinstance(right, ast.Tuple):        # '...' % (name,): wrapped, cannot raise when the counts match
            need(all(isinstance(e, ast.Name) for e in right.elts), 'Schedule.run: log template interpolates an expression')
            need(_directives(text) == len(right.elts), 'Schedule.run: log template directives do not match the interpolated tuple')
        else:
            need(isinstance(right, ast.Name) and right.id == 'name', 'Schedule.run: log template interpolates something else than the event name: ' + ast.unparse(right))
            interpolates = True
        need(len(largs) == 1, 'Schedule.run: interpolated template and logging arguments together')
    else:
        need(isinstance(tmpl, ast.Constant) and isinstance(tmpl.value, str), 'Schedule.run: log template is not a string constant')
        text = tmpl.value
        need(len(largs) == 1 or _directives(text) == len(largs) - 1, 'Schedule.run: log template directives do not match the logging arguments')
    directives = _directives(text)
    need(not any(isinstance(n, (ast.Break, ast.Return, ast.Raise)) for n in ast.walk(loops[0])),
         'Schedule.run: break/return/raise inside the loop')
    # addEvent: assert name not in self.events; heappush of (t, name, args, kwargs)
    add = find_def(t, 'addEvent', 'Schedule')
    asserts = [n for n in ast.walk(add) if isinstance(n, ast.Assert)]
    need(len(asserts) == 1 and ast.unparse(asserts[0].test) == 'name not in self.events', 'addEvent: duplicate-name assert changed')
    push = _calls(add, 'heappush')
    need(len(push) == 1 and ast.unparse(push[0].args[1]) == 'mytuple((t, name, args, kwargs))', 'addEvent: pushed tuple changed')
    # removeEvent: events.pop(name); listcomp filter on x[1] != name; heapify
    rem = find_def(t, 'removeEvent', 'Schedule')
    need(ast.unparse(rem.body[1]) == 'f = self.events.pop(name)', 'removeEvent: first statement changed')
    comps = [n for n in ast.walk(rem) if isinstance(n, ast.ListComp)]
    need(len(comps) == 1 and len(comps[0].generators) == 1 and len(comps[0].generators[0].ifs) == 1, 'removeEvent: filter changed')
    v = comps[0].generators[0].target.id
    need(ast.unparse(comps[0].elt) == v and ast.unparse(comps[0].generators[0].iter) == 'self.schedule'
         and ast.unparse(comps[0].generators[0].ifs[0]) == '%s[1] != name' % v, 'removeEvent: filter changed')
    need(len(_calls(rem, 'heapify')) == 1, 'removeEvent: heapify missing')
    # rescheduleEvent (repaired, fix of C18.F17): look the entry's args/kwargs up, removeEvent, addEvent with them
    rs = find_def(t, 'rescheduleEvent', 'Schedule')
    need([ast.unparse(x) for x in rs.body[:2]] == ['args = []', 'kwargs = {}'], 'rescheduleEvent: defaults of args/kwargs changed')
    need(len(rs.body) == 5 and isinstance(rs.body[2], ast.With) and len(rs.body[2].body) == 1
         and isinstance(rs.body[2].body[0], ast.For), 'rescheduleEvent: shape changed (expected lookup loop under the lock)')
    loop = rs.body[2].body[0]
    need(ast.unparse(loop.iter) == 'self.schedule' and len(loop.body) == 1 and isinstance(loop.body[0], ast.If)
         and ast.unparse(loop.body[0].test) == '%s[1] == name' % loop.target.id
         and [ast.unparse(x) for x in loop.body[0].body] ==
             ['args, kwargs = (%s[2], %s[3])' % (loop.target.id, loop.target.id), 'break']
         and not loop.body[0].orelse and not loop.orelse, 'rescheduleEvent: lookup loop changed')
    need(ast.unparse(rs.body[3]) == 'f = self.removeEvent(name)', 'rescheduleEvent: removeEvent call changed')
    calls = _calls(rs.body[4], 'addEvent')
    need(len(calls) == 1 and [ast.unparse(a) for a in calls[0].args] == ['f', 't'], 'rescheduleEvent: addEvent call changed')
    kws = sorted((k.arg or '**', ast.unparse(k.value)) for k in calls[0].keywords)
    need(kws == [('args', 'args'), ('kwargs', 'kwargs'), ('name', 'name')],
         'rescheduleEvent does not pass name, args and kwargs on to addEvent: %r' % kws)
    passes = True
    # wrapper: try: f(*args, **kwargs) finally: count bookkeeping; `return self.addEvent(wrapper, time.time() + t, name)`
    mk = find_def(t, 'makePeriodicWrapper', 'Schedule')
    wr = [n for n in mk.body if isinstance(n, ast.FunctionDef) and n.name == 'wrapper']
    need(len(wr) == 1, 'makePeriodicWrapper: no inner wrapper()')
    wtry = [n for n in wr[0].body if isinstance(n, ast.Try)]
    need(len(wtry) == 1 and not wtry[0].handlers and len(wtry[0].body) == 1
         and ast.unparse(wtry[0].body[0]) == 'f(*args, **kwargs)', 'wrapper: try body changed')
    fin = wtry[0].finalbody
    need(len(fin) == 2 and ast.unparse(fin[0].test) == 'count is not None' and ast.unparse(fin[0].body[0]) == 'count -= 1'
         and ast.unparse(fin[1].test) == 'count is None or count > 0' and len(fin[1].body) == 1, 'wrapper: finally block changed')
    last = fin[1].body[0]
    need(isinstance(last, (ast.Return, ast.Expr)) and ast.unparse(last.value) == 'self.addEvent(wrapper, time.time() + t, name)',
         'wrapper: re-add call changed')
    returns = isinstance(last, ast.Return)
    # addPeriodicEvent: now -> return wrapper() ; else addEvent(wrapper, time.time() + t, name)
    ap = find_def(t, 'addPeriodicEvent', 'Schedule')
    need(ast.unparse(ap.body[-1]).replace('\n', ' ').split() ==
         'if now: return wrapper() else: return self.addEvent(wrapper, time.time() + t, name)'.split(), 'addPeriodicEvent: shape changed')
    # ---- plugins/Scheduler/plugin.py: the id handling of _restoreEvents / _add / _repeat / remove ----
    pt = tree('plugins/Scheduler/plugin.py')
    rest = find_def(pt, '_restoreEvents', 'Scheduler')
    loops = [n for n in rest.body if isinstance(n, ast.For)]
    need(len(loops) == 1 and ast.unparse(loops[0].iter) == 'eventdict.items()' and ast.unparse(loops[0].target) == '(name, event)',
         '_restoreEvents: loop over eventdict.items() changed')
    ltry = [n for n in loops[0].body if isinstance(n, ast.Try)]
    need(len(ltry) == 1 and len(ltry[0].handlers) == 1 and handler_names(ltry[0].handlers[0]) == ['AssertionError'],
         '_restoreEvents: try/except AssertionError around the re-scheduling changed')
    hnd = ltry[0].handlers[0].body
    need(len(hnd) == 1 and isinstance(hnd[0], ast.If)
         and ast.unparse(hnd[0].test) == "str(e) == 'An event with the same name has already been scheduled.'"
         and ast.unparse(hnd[0].body[-1]) == 'self.events[name] = event' and ast.unparse(hnd[0].orelse[0]) == 'raise',
         '_restoreEvents: handling of the already-scheduled case changed')
    need(ast.unparse(asserts[0].msg) == "'An event with the same name has already been scheduled.'",
         'addEvent: the assertion message _restoreEvents compares with changed')
    branch = ltry[0].body
    need(len(branch) == 1 and isinstance(branch[0], ast.If) and ast.unparse(branch[0].test) == "event['type'] == 'single'",
         '_restoreEvents: single/repeat dispatch changed')
    single = branch[0].body
    need(ast.unparse(single[0]) == 'n = None' and isinstance(single[1], ast.If)
         and [ast.unparse(x) for x in single[1].body] == ['n = int(name)'] and not single[1].orelse,
         '_restoreEvents: computation of the old id n changed')
    cond = ast.unparse(single[1].test)
    need(cond in ('schedule.schedule.counter > int(name)',
                  'schedule.schedule.counter > int(name) and int(name) not in schedule.schedule.events'),
         '_restoreEvents: condition for keeping the old id changed: ' + cond)
    checks_free = 'not in schedule.schedule.events' in cond
    acalls = [c for c in _calls(branch[0], '_add') if c in [x for st in single for x in ast.walk(st)]]
    need(len(acalls) == 1, '_restoreEvents: expected one self._add(...) call in the single branch')
    pos = [ast.unparse(a) for a in acalls[0].args]
    kws = dict((k.arg, ast.unparse(k.value)) for k in acalls[0].keywords)
    head = ['network', "event['msg']", "event['time']", "event['command']"]
    need(pos[:4] == head, '_restoreEvents: leading arguments of self._add changed: %r' % pos)
    rem_ok = (pos[4:5] == ['is_reminder']) or kws.get('is_reminder') == 'is_reminder'
    need(rem_ok, '_restoreEvents: is_reminder is not passed to self._add')
    need(set(kws) <= {'is_reminder', 'name'} and len(pos) <= 6, '_restoreEvents: unexpected arguments of self._add')
    passes_id = (pos[5:6] == ['n']) or kws.get('name') == 'n'
    need(passes_id or (len(pos) <= 5 and 'name' not in kws), '_restoreEvents: self._add gets something else than n as name')
    rcalls = _calls(branch[0].orelse[0], '_repeat')
    need(len(rcalls) == 1 and [ast.unparse(a) for a in rcalls[0].args] ==
         ['network', "event['msg']", 'name', "event['time']", "event['command']", 'first_run', 'next_run_in'],
         '_restoreEvents: self._repeat call changed')
    padd = find_def(pt, '_add', 'Scheduler')
    need([a.arg for a in padd.args.args] == ['self', 'network', 'msg', 't', 'command', 'is_reminder', 'name'],
         'Scheduler._add: parameters changed')
    need(any(ast.unparse(x) == 'id = schedule.addEvent(f, t, name)' for x in padd.body)
         and any(ast.unparse(x).startswith('self.events[str(id)] = ') for x in padd.body), 'Scheduler._add: id handling changed')
    prep = find_def(pt, '_repeat', 'Scheduler')
    need(any(ast.unparse(x) == 'id = schedule.addEvent(f_wrapper, time.time() + next_run_in, name)' for x in prep.body)
         and any(ast.unparse(x) == 'f_wrapper = schedule.schedule.makePeriodicWrapper(f, seconds, name)' for x in prep.body),
         'Scheduler._repeat: scheduling changed')
    # the closures: tokenize; [remove: del self.events[...]]; [repair C01.b: user ignored now -> log, return]; run the command
    mk = find_def(pt, '_makeCommandFunction', 'Scheduler')
    inner = [n for n in mk.body if isinstance(n, ast.FunctionDef) and n.name == 'f']
    need(len(inner) == 1, 'Scheduler._makeCommandFunction: no inner f()')
    fb = [ast.unparse(x) for x in inner[0].body]
    dele, getirc = 'if remove:\n    del self.events[str(f.eventId)]', 'irc = world.getIrc(network) or world.ircs[0]'
    tok = 'tokens = callbacks.tokenize(command, channel=msg.channel, network=irc.network)'
    need(fb[:3] in ([getirc, tok, dele], [dele, getirc, tok]) and fb[-1] == 'self.Proxy(irc, msg, tokens)',
         'Scheduler._makeCommandFunction: tokenize / delete / run changed: %r' % fb)
    delete_first = fb[0] == dele
    if len(fb) == 4:
        cmd_checks = False
    else:
        need(len(fb) == 5 and isinstance(inner[0].body[3], ast.If) and ast.unparse(inner[0].body[3].test) == 'self._isIgnored(msg)'
             and not inner[0].body[3].orelse and isinstance(inner[0].body[3].body[-1], ast.Return) and inner[0].body[3].body[-1].value is None
             and all(isinstance(x, ast.Expr) and ast.unparse(x).startswith('self.log.') for x in inner[0].body[3].body[:-1]),
             'Scheduler._makeCommandFunction: the ignored-user branch changed: %r' % fb)
        cmd_checks = True
    mr = find_def(pt, '_makeReminderFunction', 'Scheduler')
    inner = [n for n in mr.body if isinstance(n, ast.FunctionDef) and n.name == 'f']
    need(len(inner) == 1, 'Scheduler._makeReminderFunction: no inner f()')
    rb = inner[0].body
    rtxt = [ast.unparse(x) for x in rb]
    send = ['replyIrc = callbacks.ReplyIrcProxy(irc, msg)', "replyIrc.reply(_('Reminder: %s') % text, msg=msg, prefixNick=True)"]
    need(rtxt[0] == 'irc = world.getIrc(network) or world.ircs[0]' and rtxt[-1] == 'del self.events[str(f.eventId)]',
         'Scheduler._makeReminderFunction: reply-then-delete changed: %r' % rtxt)
    if rtxt[1:-1] == send:
        rem_checks = False
    else:
        need(len(rb) == 3 and isinstance(rb[1], ast.If) and ast.unparse(rb[1].test) == 'not self._isIgnored(msg)'
             and not rb[1].orelse and [ast.unparse(x) for x in rb[1].body] == send,
             'Scheduler._makeReminderFunction: the ignored-user guard changed: %r' % rtxt)
        rem_checks = True
    need(cmd_checks == rem_checks, 'Scheduler: only one of the two kinds of scheduled functions checks whether the user is ignored')
    if cmd_checks:
        ig = find_def(pt, '_isIgnored', 'Scheduler')
        body = [x for x in ig.body if not (isinstance(x, ast.Expr) and isinstance(x.value, ast.Constant))]
        need(len(body) == 1 and ast.unparse(body[0]) ==
             'return ircutils.isUserHostmask(msg.prefix) and ircdb.checkIgnored(msg.prefix, msg.channel)',
             'Scheduler._isIgnored changed')
    # die(): flush, unregister the flusher, [repaired: unschedule every event of self.events], parent die
    die = find_def(pt, 'die', 'Scheduler')
    dstm = [ast.unparse(x) for x in die.body]
    need(dstm[:2] == ['self._flush()', 'world.flushers.remove(self._flush)'] and dstm[-1] == 'self.__parent.die()',
         'Scheduler.die: flush / flusher removal / parent die changed: %r' % dstm)
    if len(die.body) == 3:
        die_unschedules = False
    else:
        need(len(die.body) == 4 and isinstance(die.body[2], ast.For), 'Scheduler.die: unexpected statements: %r' % dstm)
        loop = die.body[2]
        need(ast.unparse(loop.target) == '(name, event)' and ast.unparse(loop.iter) == 'self.events.items()' and not loop.orelse
             and len(loop.body) == 2, 'Scheduler.die: the unscheduling loop changed')
        need(ast.unparse(loop.body[0]) == "if event['type'] == 'single':\n    name = int(name)",
             'Scheduler.die: conversion of a one-shot key to its int id changed')
        tr = loop.body[1]
        need(isinstance(tr, ast.Try) and [ast.unparse(x) for x in tr.body] == ['schedule.removeEvent(name)']
             and len(tr.handlers) == 1 and handler_names(tr.handlers[0]) == ['KeyError']
             and [ast.unparse(x) for x in tr.handlers[0].body] == ['pass'] and not tr.finalbody and not tr.orelse,
             'Scheduler.die: removeEvent / except KeyError changed')
        die_unschedules = True
    fl = find_def(pt, '_flush', 'Scheduler')
    need('pickle.dump(self.events, pkl)' in ast.unparse(fl), 'Scheduler._flush: what is pickled changed')
    out = 'Definition RUN_CMP_STRICT : bool := %s.\n' % cbool(strict)
    out += 'Definition RESCHED_PASSES_ARGS : bool := %s.\n' % cbool(passes)
    out += 'Definition WRAPPER_RETURNS_IN_FINALLY : bool := %s.\n' % cbool(returns)
    out += 'Definition RUN_LOG_INTERPOLATES_NAME : bool := %s.\n' % cbool(interpolates)
    out += 'Definition RUN_LOG_DIRECTIVES : N := %d.\n' % directives
    out += 'Definition RESTORE_PASSES_ID : bool := %s.\n' % cbool(passes_id)
    out += 'Definition DIE_UNSCHEDULES : bool := %s.\n' % cbool(die_unschedules)
    out += 'Definition RESTORE_CHECKS_FREE : bool := %s.\n' % cbool(checks_free)
    out += 'Definition FIRE_CHECKS_IGNORED : bool := %s.\n' % cbool(cmd_checks)
    out += 'Definition DELETE_BEFORE_TOKENIZE : bool := %s.\n' % cbool(delete_first)
    return 'src/schedule.py + plugins/Scheduler/plugin.py', out
