"""tables for C08/C09 (CAP/SASL registration state machine): src/irclib.py, src/ircutils.py"""
import ast
from gen_tables import table, tree, module_assign, find_def, find_class, need, cstr, clist, cN, Shape


def _state_value(states, node):
    """self.States.X / IrcStateFsm.States.X -> enum value"""
    s = ast.unparse(node)
    name = s.split('.')[-1]
    need(s.endswith('States.' + name) and name in states, 'not a state reference: ' + s)
    return states[name]


def _transition_call(states, call):
    """self._transition(irc, msg, TO[, [FROM...]]) -> (to, froms|None)"""
    need(isinstance(call, ast.Call) and ast.unparse(call.func) == 'self._transition', 'expected self._transition(...)')
    need(len(call.args) in (3, 4) and not call.keywords, '_transition arity')
    to = _state_value(states, call.args[2])
    froms = None
    if len(call.args) == 4:
        need(isinstance(call.args[3], ast.List), 'expected_from must be a list literal')
        froms = [_state_value(states, e) for e in call.args[3].elts]
    return to, froms


def _body(fn):
    b = fn.body
    if b and isinstance(b[0], ast.Expr) and isinstance(b[0].value, ast.Constant) and isinstance(b[0].value.value, str):
        b = b[1:]
    return b


def fsm_table(t):
    cls = find_class(t, 'IrcStateFsm')
    enum_cls = [n for n in cls.body if isinstance(n, ast.ClassDef) and n.name == 'States']
    need(len(enum_cls) == 1, 'IrcStateFsm.States')
    states = {}
    for n in enum_cls[0].body:
        if isinstance(n, ast.Assign):
            states[n.targets[0].id] = ast.literal_eval(n.value)
    need(set(states) == {'UNINITIALIZED', 'INIT_CAP_NEGOTIATION', 'INIT_SASL', 'INIT_WAITING_MOTD', 'INIT_MOTD', 'CONNECTED',
                         'CONNECTED_SASL', 'SHUTTING_DOWN'}, 'FSM state set changed: %r' % sorted(states))
    # _transition itself: guard shape
    tr = find_def(t, '_transition', 'IrcStateFsm')
    src = ast.unparse(tr)
    need('if expected_from is None or from_state in expected_from:' in src and 'raise ValueError' in src and 'self.state = to_state' in src,
         '_transition guard changed')
    ex = find_def(t, 'expect_state', 'IrcStateFsm')
    need('if self.state not in expected_states:' in ast.unparse(ex) and 'raise ValueError' in ast.unparse(ex), 'expect_state changed')
    events = {}
    for fn in cls.body:
        if isinstance(fn, ast.FunctionDef) and fn.name.startswith('on_'):
            b = _body(fn)
            need(len(b) == 1, 'FSM handler %s: expected one statement' % fn.name)
            st = b[0]
            pairs = []
            if isinstance(st, ast.Expr):
                to, froms = _transition_call(states, st.value)
                pairs = [(0, to)] if froms is None else [(f, to) for f in froms]
            elif isinstance(st, ast.If):
                cur = st
                while True:
                    test = ast.unparse(cur.test)
                    need(test.startswith('self.state == '), 'ladder test: ' + test)
                    frm = _state_value(states, cur.test.comparators[0])
                    need(len(cur.body) == 1, 'ladder body')
                    to, froms = _transition_call(states, cur.body[0].value)
                    need(froms is None, 'ladder with expected_from')
                    pairs.append((frm, to))
                    if len(cur.orelse) == 1 and isinstance(cur.orelse[0], ast.If):
                        cur = cur.orelse[0]
                    else:
                        need(len(cur.orelse) == 1 and isinstance(cur.orelse[0], ast.Raise), 'ladder must end in raise')
                        break
            else:
                raise Shape('FSM handler %s: unexpected statement' % fn.name)
            events[fn.name] = pairs
    need(set(events) == {'on_init_messages_sent', 'on_sasl_cap', 'on_sasl_auth_finished', 'on_cap_end', 'on_start_motd',
                         'on_end_motd', 'on_shutdown'}, 'FSM event set changed: %r' % sorted(events))
    return states, events


def expect_lists(t, states):
    """the expect_state([...]) calls of the Irc handlers"""
    out = {}
    for name in ('capUpkeep', 'tryNextSaslMechanism', 'doAuthenticate', 'doCapLs'):
        fn = find_def(t, name, 'Irc')
        calls = [n for n in ast.walk(fn) if isinstance(n, ast.Call) and ast.unparse(n.func) == 'self.state.fsm.expect_state']
        need(len(calls) == 1 and isinstance(calls[0].args[0], ast.List), '%s: expected one expect_state([..])' % name)
        out[name] = [_state_value(states, e) for e in calls[0].args[0].elts]
    return out


@table('T08')
def gen_T08():
    t = tree('src/irclib.py')
    states, events = fsm_table(t)
    exp = expect_lists(t, states)
    irc = find_class(t, 'Irc')
    req = None
    for n in irc.body:
        if isinstance(n, ast.Assign) and ast.unparse(n.targets[0]) == 'REQUEST_CAPABILITIES':
            need(ast.unparse(n.value.func) == 'set', 'REQUEST_CAPABILITIES = set([...])')
            req = ast.literal_eval(n.value.args[0])
    need(req is not None and all(isinstance(x, str) for x in req), 'REQUEST_CAPABILITIES')
    maxline = ast.literal_eval(module_assign(t, 'MAX_LINE_SIZE'))
    u = tree('src/ircutils.py')
    chunk = ast.literal_eval(module_assign(u, 'AUTHENTICATE_CHUNK_SIZE'))
    # structural facts the model hard-codes: fail closed when they change
    src_req = ast.unparse(find_def(t, '_requestCaps', 'Irc'))
    need("if 'echo-message' in caps and 'labeled-response' not in self.state.capabilities_ack:" in src_req, '_requestCaps echo-message guard changed')
    need("MAX_LINE_SIZE - len('CAP REQ :')" in src_req, '_requestCaps wrap width changed')
    src_try = ast.unparse(find_def(t, 'tryNextSaslMechanism', 'Irc'))
    need("elif conf.supybot.networks.get(self.network).sasl.required():\n        log.error('None of the configured SASL mechanisms succeeded, aborting connection.')\n"
         "        self.driver.reconnect(wait=True)\n    else:" in src_try, 'tryNextSaslMechanism: required branch changed')
    src_up = ast.unparse(find_def(t, 'capUpkeep', 'Irc'))
    need('if not capabilities_responded <= self.state.capabilities_req:' in src_up
         and 'elif capabilities_responded == self.state.capabilities_req:' in src_up, 'capUpkeep comparison changed')
    # the repaired shapes (fix: C09.F8, C08.F7, C08.F24) the model mirrors
    src_ru = ast.unparse(find_def(t, '_saslRequiredButNotAuthenticated', 'Irc'))
    need('return not self.sasl_authenticated and conf.supybot.networks.get(self.network).sasl.required()' in src_ru,
         '_saslRequiredButNotAuthenticated changed')
    end = find_def(t, 'endCapabilityNegociation', 'Irc')
    eb = _body(end)
    need(len(eb) == 4 and isinstance(eb[0], ast.If) and isinstance(eb[1], ast.If), 'endCapabilityNegociation: expected two guards, transition, CAP END')
    need(ast.unparse(eb[0].test) == 'self._saslRequiredButNotAuthenticated()' and not eb[0].orelse and len(eb[0].body) == 3
         and ast.unparse(eb[0].body[0]).startswith('log.error(')
         and [ast.unparse(x) for x in eb[0].body[1:]] == ['self.driver.reconnect(wait=True)', 'return'],
         'endCapabilityNegociation: sasl.required guard changed')
    need(ast.unparse(eb[1].test) == 'self.state.capabilities_req - self.state.capabilities_ack - self.state.capabilities_nak'
         and len(eb[1].body) == 1 and isinstance(eb[1].body[0], ast.Return) and not eb[1].orelse,
         'endCapabilityNegociation: outstanding-request guard changed')
    need(ast.unparse(eb[2]) == 'self.state.fsm.on_cap_end(self, msg)' and "args=('END',)" in ast.unparse(eb[3]), 'endCapabilityNegociation tail changed')
    b376 = _body(find_def(t, 'do376', 'Irc'))
    need(isinstance(b376[0], ast.If) and ast.unparse(b376[0].test) == 'self._saslRequiredButNotAuthenticated()' and not b376[0].orelse
         and len(b376[0].body) == 3 and ast.unparse(b376[0].body[0]).startswith('log.error(')
         and [ast.unparse(x) for x in b376[0].body[1:]] == ['self.driver.reconnect(wait=True)', 'return']
         and ast.unparse(b376[1]) == 'self.state.fsm.on_end_motd(self, msg)', 'do376: sasl.required guard changed')
    src_ls = ast.unparse(find_def(t, 'doCapLs', 'Irc'))
    need('if not new_caps or not self._requestCaps(new_caps):\n            self.endCapabilityNegociation(msg)\n    else:' in src_ls, 'doCapLs: request-or-end changed')
    need(ast.unparse(_body(find_def(t, '_requestCaps', 'Irc'))[-1]) == 'return bool(cap_lines)', '_requestCaps return value changed')
    src_ms = ast.unparse(find_def(t, '_maybeStartSasl', 'Irc'))
    need("if not self.sasl_authenticated and 'sasl' in self.state.capabilities_ack:" in src_ms
         and 'elif self.state.fsm.state == IrcStateFsm.States.INIT_CAP_NEGOTIATION:\n        self.endCapabilityNegociation(msg)' in src_ms,
         '_maybeStartSasl changed')
    src_903 = ast.unparse(find_def(t, 'do903', 'Irc'))
    need('self.sasl_authenticated = True' in src_903 and 'on_sasl_auth_finished' in src_903 and 'endCapabilityNegociation' in src_903, 'do903 changed')
    # authenticate_generator: the loop the model's auth_gen mirrors (one iteration per multiple of the chunk size <= len; empty -> '+')
    ag = find_def(u, 'authenticate_generator')
    loops = [n for n in ag.body if isinstance(n, ast.For)]
    need(len(loops) == 1 and ag.body[-1] is loops[0] and not any(isinstance(n, (ast.Return, ast.Yield)) for st in ag.body[:-1] for n in ast.walk(st)),
         'authenticate_generator: expected base64 preamble and one for loop')
    need(ast.unparse(loops[0]) == "for n in range(0, len(authstring) + 1, AUTHENTICATE_CHUNK_SIZE):\n"
                                  "    chunk = authstring[n:n + AUTHENTICATE_CHUNK_SIZE] or '+'\n    yield chunk",
         'authenticate_generator chunking loop changed')
    src_dec = ast.unparse(find_def(u, 'feed', 'AuthenticateDecoder'))
    need("if chunk == '+' or len(chunk) != AUTHENTICATE_CHUNK_SIZE:\n        self.ready = True" in src_dec, 'AuthenticateDecoder.feed changed')
    src_sss = ast.unparse(find_def(t, 'sendSaslString', 'Irc'))
    need('for chunk in ircutils.authenticate_generator(string):' in src_sss, 'sendSaslString changed')
    # ServersMixin (C09): the stored STS policy is applied to the popped entry, at pop time, on every _getNextServer
    d = tree('src/drivers/__init__.py')
    gns = [ast.unparse(x) for x in _body(find_def(d, '_getNextServer', 'ServersMixin'))]
    need(gns[0] == 'if not self.servers:\n    self.servers = self._getServers()' and gns[-3:] ==
         ['server = self.servers.pop(0)', 'self.currentServer = self._applyStsPolicy(server)', 'return self.currentServer'],
         '_getNextServer: the policy must be applied to the popped entry')
    need([ast.unparse(x) for x in _body(find_def(d, '_getServers', 'ServersMixin'))] == ['return self.networkGroup.servers()[:]'], '_getServers changed')
    src_ap = ast.unparse(find_def(d, '_applyStsPolicy', 'ServersMixin'))
    need("if lastDisconnect is not None and lastDisconnect + policy['duration'] < time.time():" in src_ap
         and "return Server(server.hostname, policy['port'], server.attempt, force_tls_verification=True)" in src_ap, '_applyStsPolicy changed')
    # the nick generator (C08 liveness): alternates first, then random variants that are neither tried nor the current nick
    gnn = find_def(t, '_getNextNick', 'Irc')
    loops = [ast.unparse(n.test) for n in ast.walk(gnn) if isinstance(n, ast.While)]
    need(loops == ['len(L) <= 3', 'ret in self.triedNicks or ret == self.nick'], '_getNextNick: fallback loop changed: %r' % loops)
    need(ast.unparse(gnn.body[0]).startswith('if self.alternateNicks:\n    nick = self.alternateNicks.pop(0)'), '_getNextNick: alternates branch changed')
    src_43 = ast.unparse(find_def(t, 'do43x', 'Irc'))
    need(src_43.startswith("def do43x(self, msg, problem):\n    if not self.afterConnect:\n        newNick = self._getNextNick()\n        assert newNick != self.nick")
         and 'self.sendMsg(ircmsgs.nick(newNick))' in src_43, 'do43x changed')
    # doCapDel: the capability leaves capabilities_ls AND capabilities_ack, independently of each other
    dd = find_def(t, 'doCapDel', 'Irc')
    loops = [n for n in dd.body if isinstance(n, ast.For)]
    need(len(loops) == 1 and [ast.unparse(x) for x in loops[0].body] ==
         ["cap = cap.split('=')[0]", 'try:\n    del self.state.capabilities_ls[cap]\nexcept KeyError:\n    pass',
          'try:\n    self.state.capabilities_ack.remove(cap)\nexcept KeyError:\n    pass'], 'doCapDel loop changed')
    src_ac = ast.unparse(find_def(t, '_addCapabilities', 'Irc'))
    need("while item.startswith(('=', '~')):\n            item = item[1:]" in src_ac and "cap, value = item.split('=', 1)" in src_ac
         and 'self.state.capabilities_ls[cap] = value' in src_ac and 'self.state.capabilities_ls[item] = None' in src_ac, '_addCapabilities changed')
    # IrcState.reset: three distinct fresh sets (a chained assignment would alias requested / acknowledged / refused)
    rs = _body(find_def(t, 'reset', 'IrcState'))
    assigns = [ast.unparse(x) for x in rs if isinstance(x, ast.Assign)]
    for name in ('capabilities_req', 'capabilities_ack', 'capabilities_nak'):
        need('self.%s = set()' % name in assigns, 'IrcState.reset: self.%s must be assigned its own fresh set()' % name)
    need('self.capabilities_ls = {}' in assigns and not any(isinstance(x, ast.Assign) and len(x.targets) > 1 for x in rs),
         'IrcState.reset: chained assignment / capabilities_ls changed')
    # the STS store (C09): stored and looked up under the same key: the hostname exactly as the server entry carries it
    db = tree('src/ircdb.py')
    need([ast.unparse(x) for x in _body(find_def(db, 'addStsPolicy', 'IrcNetwork'))] ==
         ['assert isinstance(stsPolicy, str)', 'self.stsPolicies[server] = stsPolicy'], 'IrcNetwork.addStsPolicy: key changed')
    need([ast.unparse(x) for x in _body(find_def(db, 'expireStsPolicy', 'IrcNetwork'))] ==
         ['if server in self.stsPolicies:\n    del self.stsPolicies[server]'], 'IrcNetwork.expireStsPolicy: key changed')
    need([ast.unparse(x) for x in _body(find_def(db, 'addDisconnection', 'IrcNetwork'))] ==
         ['self.lastDisconnectTimes[server] = int(time.time())'], 'IrcNetwork.addDisconnection: key changed')
    need('policy = network.stsPolicies.get(server.hostname)' in src_ap and 'lastDisconnect = network.lastDisconnectTimes.get(server.hostname)' in src_ap
         and 'network.expireStsPolicy(server.hostname)' in src_ap, '_applyStsPolicy: lookup key changed')
    need('network.addDisconnection(self.currentServer.hostname)' in ast.unparse(find_def(d, 'onDisconnect', 'ServersMixin')), 'onDisconnect: key changed')
    need('addStsPolicy(self.driver.currentServer.hostname, policy)' in ast.unparse(find_def(t, '_onCapSts', 'Irc')), '_onCapSts: store key changed')
    # Irc.reset: both queues are emptied before the connect messages are queued
    ir = [ast.unparse(x) for x in _body(find_def(t, 'reset', 'Irc'))]
    need(ir[:5] == ['self._setNonResettingVariables()', 'self.state.reset()', 'self.queue.reset()', 'self.fastqueue.reset()', 'self.startedSync.clear()']
         and ir[-1] == 'self._queueConnectMessages()' and len(ir) == 7, 'Irc.reset: statements changed: %r' % ir[:6])
    need('self.fastqueue.enqueue(msg)' in ast.unparse(find_def(t, 'sendMsg', 'Irc')), 'Irc.sendMsg changed')
    src_take = ast.unparse(find_def(t, 'takeMsg', 'Irc'))
    need('if self.fastqueue:\n        msg = self.fastqueue.dequeue()' in src_take, 'Irc.takeMsg: fast queue first')
    # SocketDriver.reconnect (C09): the attempt number is filled in with _replace (every other field, force_tls_verification included, survives),
    # TLS is started when ssl is on or verification is forced; Server is a plain 4-field namedtuple without defaults
    sk = tree('src/drivers/Socket.py')
    src_rc = ast.unparse(find_def(sk, 'reconnect', 'SocketDriver'))
    need('self.currentServer = server or self._getNextServer()' in src_rc
         and 'if self.currentServer.attempt is None:\n        self.currentServer = self.currentServer._replace(attempt=self._attempt)\n    else:\n'
             '        self._attempt = self.currentServer.attempt' in src_rc, 'SocketDriver.reconnect: attempt fix-up changed')
    need('if network_config.ssl() or self.currentServer.force_tls_verification:\n            self.starttls()' in src_rc, 'SocketDriver.reconnect: TLS start condition changed')
    need(module_assign(d, 'Server') is not None and ast.unparse(module_assign(d, 'Server')) == "namedtuple('Server', 'hostname port attempt force_tls_verification')"
         and 'Server.__new__' not in ast.unparse(d), 'drivers.Server changed')
    src_tls = ast.unparse(find_def(sk, 'starttls', 'SocketDriver'))
    need('if self.currentServer.force_tls_verification and (not self.anyCertValidationEnabled()):\n        verifyCertificates = True' in src_tls
         and 'verify=verifyCertificates' in src_tls and 'hostname=self.currentServer.hostname' in src_tls, 'SocketDriver.starttls changed')
    # what is requested: REQUEST_CAPABILITIES (class attribute, never modified) plus 'sasl' per Irc object
    src_rs = ast.unparse(find_def(t, 'resetSasl', 'Irc'))
    need('REQUEST_CAPABILITIES' not in src_rs and src_rs.rstrip().endswith('self.sasl_wanted = bool(self.sasl_next_mechanisms)'),
         'resetSasl: must record sasl_wanted per object and leave REQUEST_CAPABILITIES alone')
    need([ast.unparse(x) for x in _body(find_def(t, '_wantedCapabilities', 'Irc'))] ==
         ["if self.sasl_wanted:\n    return self.REQUEST_CAPABILITIES | set(['sasl'])\nelse:\n    return self.REQUEST_CAPABILITIES"], '_wantedCapabilities changed')
    for fn in ('doCapLs', 'doCapNew'):
        need('set(self.state.capabilities_ls) & self._wantedCapabilities() - self.state.capabilities_ack' in ast.unparse(find_def(t, fn, 'Irc')),
             '%s: wanted set changed' % fn)
    need(not any(isinstance(n, ast.Attribute) and n.attr == 'REQUEST_CAPABILITIES' and isinstance(getattr(n, 'ctx', None), ast.Store)
                 for n in ast.walk(irc)), 'REQUEST_CAPABILITIES is assigned inside Irc')
    # nothing inside Irc updates REQUEST_CAPABILITIES (or an alias of it) in place
    for fn in ('_wantedCapabilities', 'resetSasl', 'doCapLs', 'doCapNew', '_requestCaps'):
        need(not any(isinstance(n, ast.AugAssign) for n in ast.walk(find_def(t, fn, 'Irc')) if not (isinstance(n, ast.AugAssign) and ast.unparse(n.target) == 'self.state.capabilities_req')),
             '%s: in-place update (augmented assignment) of a capability set' % fn)
    # _applyStsPolicy (C09), statement by statement: lookup, no policy -> as configured, parse, expiry -> removed and as configured, else the policy port with forced verification
    ap = [ast.unparse(x) for x in _body(find_def(d, '_applyStsPolicy', 'ServersMixin'))]
    need(len(ap) == 8 and ap[0] == 'network = ircdb.networks.getNetwork(self.networkName)'
         and ap[3].startswith('if policy is None:') and ap[3].rstrip().endswith('return server')
         and ap[4] == 'policy = ircutils.parseStsPolicy(log, policy, parseDuration=True)'
         and ap[5].startswith("if lastDisconnect is not None and lastDisconnect + policy['duration'] < time.time():") and ap[5].rstrip().endswith('return server')
         and ap[6].startswith('log.info(') and ap[7] == "return Server(server.hostname, policy['port'], server.attempt, force_tls_verification=True)",
         '_applyStsPolicy: statements changed: %r' % [x[:40] for x in ap])
    has_filter = any(isinstance(n, ast.FunctionDef) and n.name == 'filterSaslMechanisms' for n in irc.body)
    order = ['on_init_messages_sent', 'on_sasl_cap', 'on_sasl_auth_finished', 'on_cap_end', 'on_start_motd', 'on_end_motd', 'on_shutdown']
    out = '(* FSM states: ' + ', '.join('%s=%d' % kv for kv in sorted(states.items(), key=lambda kv: kv[1])) + ' *)\n'
    for i, ev in enumerate(order):
        out += 'Definition EV_%s : list (N * N) := %s.\n' % (ev, clist('(%d, %d)' % p for p in events[ev]))
    for k, v in exp.items():
        out += 'Definition EXPECT_%s : list N := %s.\n' % (k, clist(cN(x) for x in v))
    out += 'Definition REQUEST_CAPABILITIES : list (list N) := %s.\n' % clist(cstr(x) for x in sorted(req))
    # Irc.feedMsg's nick/server bookkeeping: the numerics whose first argument overwrites irc.nick before the handler runs
    setters = None
    for n in irc.body:
        if isinstance(n, ast.Assign) and ast.unparse(n.targets[0]) == '_nickSetters':
            setters = sorted(int(x) for x in ast.literal_eval(n.value.args[0]))
    need(setters is not None, 'Irc._nickSetters')
    src_feed = ast.unparse(find_def(t, 'feedMsg', 'Irc'))
    need('if msg.command in self._nickSetters:\n        if msg.args[0] != self.nick:\n            self.nick = msg.args[0]' in src_feed
         and src_feed.index('if msg.command in self._nickSetters:') < src_feed.index('method = self.dispatchCommand(msg.command, msg.args)')
         and 'method = self.dispatchCommand(msg.command, msg.args)\n    if method is not None:\n        method(msg)' in src_feed, 'Irc.feedMsg: pre-processing / dispatch changed')
    out += 'Definition NICK_SETTERS : list N := %s.\n' % clist(cN(x) for x in setters)
    out += 'Definition MAX_LINE_SIZE : nat := %d.\n' % maxline
    out += 'Definition AUTHENTICATE_CHUNK_SIZE : nat := %d.\n' % chunk
    out += 'Definition HAS_filterSaslMechanisms : bool := %s.\n' % ('true' if has_filter else 'false')
    return 'src/irclib.py, src/ircutils.py', out
