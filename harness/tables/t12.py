"""tables for C12 (src/callbacks.py reply arithmetic, src/ircutils.py FormatContext/FormatParser constants,
src/utils/str.py splitBytes, CPython's str.isdigit/int table)"""
import ast
from gen_tables import *  # noqa: F401,F403
from gen_tables import table, tree, find_def, need, cstr, clist


def _consts(node, typ):
    return [n.value for n in ast.walk(node) if isinstance(n, ast.Constant) and isinstance(n.value, typ)
            and not isinstance(n.value, bool)]


@table('T12')
def gen_T12():
    # ---- callbacks.py: NestedCommandsIrcProxy.reply arithmetic ----
    t = tree('src/callbacks.py')
    reply = find_def(t, 'reply', 'NestedCommandsIrcProxy')
    assigns = [n for n in ast.walk(reply) if isinstance(n, ast.Assign) and len(n.targets) == 1
               and isinstance(n.targets[0], ast.Name) and n.targets[0].id == 'allowedLength']
    need(len(assigns) == 2, 'reply: expected two assignments to allowedLength, got %d' % len(assigns))
    base = [a for a in assigns if isinstance(a.value, ast.BinOp)]
    need(len(base) == 1, 'reply: expected one arithmetic allowedLength expression')
    want = "512 - len(':') - byteLength(self.irc.prefix) - len(' PRIVMSG ') - byteLength(recipient) - len(' :') - len('\\r\\n')"
    got = ast.unparse(base[0].value)
    need(got == want, 'reply: allowedLength expression changed: ' + got)
    line_max = 512
    # byteLength: bytes under Python 3; recipient: the nick when the command came in a query
    ifs = [n for n in ast.walk(reply) if isinstance(n, ast.If)]
    bl = [n for n in ifs if ast.unparse(n.test) == 'minisix.PY3' and len(n.body) == 1 and len(n.orelse) == 1
          and ast.unparse(n.body[0]) == 'byteLength = lambda x: len(x.encode())' and ast.unparse(n.orelse[0]) == 'byteLength = len']
    need(len(bl) == 1, 'reply: definition of byteLength changed')
    rc = [n for n in ast.walk(reply) if isinstance(n, ast.Assign) and len(n.targets) == 1
          and ast.unparse(n.targets[0]) == 'recipient']
    need(len(rc) == 1 and ast.unparse(rc[0].value) == "_makeReply(self, msg, 'x', **replyArgs).args[0]",
         'reply: choice of the recipient changed')
    fixed = len(':') + len(' PRIVMSG ') + len(' :') + len('\r\n')
    augs = [n for n in ast.walk(reply) if isinstance(n, ast.AugAssign) and isinstance(n.target, ast.Name)
            and n.target.id == 'allowedLength']
    need(len(augs) == 2 and all(isinstance(a.op, ast.Sub) for a in augs), 'reply: expected two `allowedLength -=`')
    a_nick, a_more = sorted(augs, key=lambda a: a.lineno)
    need(ast.unparse(a_nick.value) == "byteLength(self.to or msg.nick) + len(': ')", 'reply: nick reserve changed: ' + ast.unparse(a_nick.value))
    need(ast.unparse(a_more.value) == 'max(map(len, suffixes)) + 3', 'reply: more reserve changed: ' + ast.unparse(a_more.value))
    ur0 = ast.unparse(reply)
    need("suffixes = ['(XX %s)' % _('more message'), '(XX %s)' % _('more messages')]\n" in ur0
         and 'if minisix.PY3:\n                    suffixes = [x.encode() for x in suffixes]' in ur0,
         'reply: the measured suffixes changed')
    strs = _consts(reply, str)
    need('more message' in strs and 'more messages' in strs and '(%i %s)' in strs and '%s %s' in strs,
         'reply: suffix strings changed')
    mx = [n for n in ast.walk(reply) if isinstance(n, ast.Assign) and isinstance(n.targets[0], ast.Name)
          and n.targets[0].id == 'maximumLength']
    need(len(mx) == 1 and ast.unparse(mx[0].value) == 'allowedLength * maximumMores', 'reply: maximumLength changed')
    # the nick reserve is unconditional on private/to: `if self.prefixNick:` and nothing else
    nick_ifs = [n for n in ast.walk(reply) if isinstance(n, ast.If) and any(x is a_nick for x in n.body)]
    need(len(nick_ifs) == 1 and ast.unparse(nick_ifs[0].test) == 'self.prefixNick' and len(nick_ifs[0].body) == 1
         and not nick_ifs[0].orelse, 'reply: condition of the nick-prefix reserve changed: '
         + (ast.unparse(nick_ifs[0].test) if nick_ifs else '?'))
    ur = ast.unparse(reply)
    need('self.private = self.private or private' in ur and 'self.notice = self.notice or notice' in ur
         and 'target = self._getTarget(to)' in ur
         and 'replyArgs = dict(to=self.to, notice=self.notice, action=self.action, private=self.private, '
             'prefixNick=self.prefixNick, stripCtcp=stripCtcp)' in ur, 'reply: keyword handling changed')
    gts = [n for n in ast.walk(t) if isinstance(n, ast.FunctionDef) and n.name == '_getTarget']
    need(len(gts) == 1, 'expected one _getTarget')
    gt = ast.unparse(gts[0])
    need('if to is not None:\n        self.to = self.to or to' in gt
         and 'target = self.private and self.to or self.msg.args[0]' in gt, '_getTarget changed')
    mk = find_def(t, '_makeReply')
    um = ast.unparse(mk)
    for piece in ('target = ircutils.replyTo(msg)',
                  'if to is not None and isPublic(to):\n        target = to',
                  'if notice is None:\n        notice = conf.get(conf.supybot.reply.withNotice,',
                  'if private is None:\n        private = conf.get(conf.supybot.reply.inPrivate,',
                  'if private:\n        prefixNick = False\n        if to is None:\n            target = msg.nick\n'
                  '        else:\n            target = to',
                  'if to is None:\n        to = msg.nick',
                  "if prefixNick and isPublic(target):\n        if not isPublic(to):\n            s = '%s: %s' % (to, s)",
                  'if not isPublic(target):\n        if conf.supybot.reply.withNoticeWhenPrivate():\n            notice = True',
                  'msgmaker = ircmsgs.privmsg\n    if notice:\n        msgmaker = ircmsgs.notice',
                  'ret = msgmaker(target, s)'):
        need(piece in um, '_makeReply changed: missing `%s`' % piece.split('\n')[0])
    rt = ast.unparse(find_def(tree('src/ircutils.py'), 'replyTo'))
    need('if msg.channel:\n        return msg.args[0]\n    else:\n        return msg.nick' in rt, 'ircutils.replyTo changed')
    empt = [x for x in _consts(mk, str) if 'empty message' in x]
    need(len(empt) == 1, '_makeReply: empty-message text changed')
    strips = [n for n in ast.walk(mk) if isinstance(n, ast.Call) and isinstance(n.func, ast.Attribute) and n.func.attr == 'strip']
    need(len(strips) == 1 and ast.unparse(strips[0]) == "s.strip('\\x01')", '_makeReply: strip changed')
    # ---- Misc.more: pops from the end, in order; `more <nick>` takes copies of the messages ----
    mm = ast.unparse(find_def(tree('plugins/Misc/plugin.py'), 'more', 'Misc'))
    for piece in ('private, L = irc._mores[nick]',
                  'L = irc._mores[userHostmask]', 'msgs = L[-number:]', 'msgs.reverse()', 'L[-number:] = []',
                  'for msg in msgs:\n            irc.queueMsg(msg)'):
        need(piece in mm, 'Misc.more changed: missing `%s`' % piece.split('\n')[0])
    # the caller of `more <nick>` gets a list of its own: copies of the messages, or (equivalent since takeMsg
    # sends an already-sent object again, C19.F47) a copy of the list
    need('irc._mores[userHostmask] = [ircmsgs.IrcMsg(msg=m) for m in L]' in mm or 'irc._mores[userHostmask] = L[:]' in mm,
         'Misc.more changed: the caller of `more <nick>` must get a list of its own')
    tk = ast.unparse(find_def(tree('src/irclib.py'), 'takeMsg', 'Irc'))
    need("echo = msg\n            if msg.tagged('receivedAt') or msg.tagged('emulatedEcho'):\n"
         "                echo = ircmsgs.IrcMsg(msg=msg)\n                echo.tags.clear()\n"
         "            echo.tag('emulatedEcho', True)\n            self.feedMsg(echo, tag=False)" in tk
         and 'assert not msg.tagged' not in tk,
         'Irc.takeMsg: emulated echo (an already tagged object must be sent, with a fresh echo) changed')
    # ---- irc.prefix maintenance: feedMsg learns it, doNick follows the bot's own NICK (nick first) ----
    ilt = tree('src/irclib.py')
    fm = ast.unparse(find_def(ilt, 'feedMsg', 'Irc'))
    need('if msg.nick == self.nick and self.prefix != msg.prefix:\n        self.prefix = msg.prefix' in fm,
         'Irc.feedMsg: learning of the own prefix changed')
    dn = find_def(ilt, 'doNick', 'Irc')
    first = [n for n in dn.body if isinstance(n, ast.If)]
    need(len(first) >= 1 and ast.unparse(first[0].test) == 'msg.nick == self.nick', 'Irc.doNick: own-nick test changed')
    own = '\n'.join(ast.unparse(x) for x in first[0].body)
    need(own == 'newNick = msg.args[0]\nself.nick = newNick\nnick, user, domain = ircutils.splitHostmask(msg.prefix)\n'
                'self.prefix = ircutils.joinHostmask(self.nick, user, domain)',
         'Irc.doNick: own-nick branch changed (the nick must be updated before the prefix is rebuilt): ' + own.replace('\n', ' ; '))
    iu2 = tree('src/ircutils.py')
    need("'%s!%s@%s' % (nick, ident, host)" in ast.unparse(find_def(iu2, 'joinHostmask')), 'joinHostmask changed')
    sh = ast.unparse(find_def(iu2, 'splitHostmask'))
    need("rest, host = hostmask.rsplit('@', 1)" in sh and "nick, user = rest.rsplit('!', 1)" in sh, 'splitHostmask changed')
    # ---- safeArgument comes first in the length-checked branch of reply(); its definition ----
    need("else:\n                s = ircutils.safeArgument(s)\n                allowedLength = conf.get(conf.supybot.reply.mores.length, "
         in ast.unparse(reply), 'reply: `s = ircutils.safeArgument(s)` must be the first statement of the length-checked branch')
    iu3 = tree('src/ircutils.py')
    need("return '\\r' not in s and '\\n' not in s and ('\\x00' not in s)" in ast.unparse(find_def(iu3, 'isValidArgument')),
         'isValidArgument changed: ' + ast.unparse(find_def(iu3, 'isValidArgument'))[-80:])
    need('if isValidArgument(s):\n        return s\n    else:\n        return repr(s)' in ast.unparse(find_def(iu3, 'safeArgument')),
         'safeArgument changed')
    # ---- utils/str.py ----
    u = tree('src/utils/str.py')
    sb = find_def(u, 'splitBytes')
    rng = [n for n in ast.walk(sb) if isinstance(n, ast.Call) and isinstance(n.func, ast.Name) and n.func.id == 'range']
    need(len(rng) == 1 and len(rng[0].args) == 1 and isinstance(rng[0].args[0], ast.Constant), 'splitBytes: range(..) changed')
    tries = rng[0].args[0].value
    # byteTextWrap always makes progress: width at least 1, and an empty `before` takes one character
    btw = ast.unparse(find_def(u, 'byteTextWrap'))
    need('if size < 1:\n        size = 1' in btw
         and "if not before:\n                before = word.decode('utf8')[:1].encode('utf8')\n                after = word[len(before):]" in btw
         and 'if len(lines[-1]) + len(word) <= size:\n            lines[-1] += word\n        else:\n            lines.append(word)' in btw,
         'byteTextWrap: progress rule / packing changed')
    # ---- ircutils.py ----
    i = tree('src/ircutils.py')
    size = find_def(i, 'size', 'FormatContext')
    ints = sorted(_consts(size, int))
    need(ints == [0, 1, 3, 6], 'FormatContext.size constants changed: %r' % ints)
    src_size = ast.unparse(size)
    need('prefix_size = self.bold + self.reverse + self.underline + (self.fg is not None) + (self.bg is not None)' in src_size
         and 'if self.bg is not None:\n        prefix_size += 6' in src_size
         and 'elif self.fg is not None:\n        prefix_size += 3' in src_size, 'FormatContext.size shape changed')
    end = find_def(i, 'end', 'FormatContext')
    need('if self.bold or self.reverse or self.fg or self.bg or self.underline:' in ast.unparse(end), 'FormatContext.end changed')
    gi = find_def(i, 'getInt', 'FormatParser')
    cmp_ = [n for n in ast.walk(gi) if isinstance(n, ast.Compare)]
    need('j >= 16' in [ast.unparse(c) for c in cmp_], 'getInt bound changed')
    wh = [n for n in ast.walk(gi) if isinstance(n, ast.While)]
    import string as _string
    need(len(wh) == 1 and ast.unparse(wh[0].test) == 'c and c in string.digits' and _string.digits == '0123456789',
         'getInt: digit test changed: ' + (ast.unparse(wh[0].test) if wh else '?'))
    il = tree('src/irclib.py')
    from gen_tables import module_assign
    mls = module_assign(il, 'MAX_LINE_SIZE')
    need(isinstance(mls, ast.Constant) and isinstance(mls.value, int), 'irclib.MAX_LINE_SIZE is not an int literal')
    tr = find_def(il, '_truncateMsg', 'Irc')
    # (C06.F19 repair) measured and cut in UTF-8 bytes; 'ignore' drops the character the cut falls in
    utr = ast.unparse(tr)
    need("msg_rest_bytes = msg_rest_str.encode('utf-8')" in utr and 'len(msg_rest_bytes) > MAX_LINE_SIZE' in utr
         and "msg_rest_bytes[:MAX_LINE_SIZE - 2].decode('utf-8', 'ignore')" in utr, 'Irc._truncateMsg changed')
    # ---- CPython: characters with str.isdigit(), and int() of them (99 = ValueError) ----
    digs = []
    for c in range(0x110000):
        ch = chr(c)
        if ch.isdigit():
            try:
                v = int(ch)
            except ValueError:
                v = 99
            need(0 <= v <= 9 or v == 99, 'int(%r) = %r' % (ch, v))
            digs.append((c, v))
    out = ''
    out += 'Definition LINE_MAX : N := %d.\n' % line_max
    out += 'Definition FIXED_OVERHEAD : N := %d.  (* len of ":" + " PRIVMSG " + " :" + CRLF *)\n' % fixed
    out += 'Definition NICK_SEP : list N := %s.\n' % cstr(': ')
    out += 'Definition MORE_ONE : list N := %s.\n' % cstr('more message')
    out += 'Definition MORE_MANY : list N := %s.\n' % cstr('more messages')
    out += 'Definition IRCLIB_MAX_LINE_SIZE : N := %d.\n' % mls.value
    out += 'Definition EMPTY_MSG : list N := %s.\n' % cstr(empt[0])
    out += 'Definition SPLIT_TRIES : N := %d.\n' % tries
    out += 'Definition COLOR_LIMIT : N := 16.\n'
    out += 'Definition SIZE_BOTH : N := 6.\nDefinition SIZE_ONE : N := 3.\n'
    out += 'Definition DIGITS : list (N * N) :=\n  %s.\n' % clist('(%d, %d)' % p for p in digs)
    return 'src/callbacks.py src/utils/str.py src/ircutils.py src/irclib.py', out
