"""tables for C02 (privilege escalation through the bot's own commands):
the converter list of every modelled command (plugins/User, plugins/Admin, plugins/Channel),
the default capability sets (src/ircdb.py) and toBool's literals (src/utils/str.py)."""
import ast
from gen_tables import table, tree, find_class, find_def, module_assign, need, cstr, clist

# (plugin file, class path inside the plugin class, command)
COMMANDS = [
    ('plugins/User/plugin.py', 'User', [], 'register'),
    ('plugins/User/plugin.py', 'User', [], 'unregister'),
    ('plugins/User/plugin.py', 'User', [], 'changename'),
    ('plugins/User/plugin.py', 'User', [], 'identify'),
    ('plugins/User/plugin.py', 'User', [], 'unidentify'),
    ('plugins/User/plugin.py', 'User', ['hostmask'], 'add'),
    ('plugins/User/plugin.py', 'User', ['hostmask'], 'remove'),
    ('plugins/User/plugin.py', 'User', ['set'], 'password'),
    ('plugins/User/plugin.py', 'User', ['set'], 'secure'),
    ('plugins/Admin/plugin.py', 'Admin', ['capability'], 'add'),
    ('plugins/Admin/plugin.py', 'Admin', ['capability'], 'remove'),
    ('plugins/Admin/plugin.py', 'Admin', ['ignore'], 'add'),
    ('plugins/Admin/plugin.py', 'Admin', ['ignore'], 'remove'),
    ('plugins/Channel/plugin.py', 'Channel', ['capability'], 'add'),
    ('plugins/Channel/plugin.py', 'Channel', ['capability'], 'remove'),
    ('plugins/Channel/plugin.py', 'Channel', ['capability'], 'set'),
    ('plugins/Channel/plugin.py', 'Channel', ['capability'], 'unset'),
    ('plugins/Channel/plugin.py', 'Channel', ['capability'], 'setdefault'),
]


def wrap_spec(body, name):
    """the literal list handed to wrap() in  `name = wrap(name, [...])`"""
    found = []
    for n in body:
        if isinstance(n, ast.Assign) and len(n.targets) == 1 and isinstance(n.targets[0], ast.Name) \
                and n.targets[0].id == name and isinstance(n.value, ast.Call) \
                and isinstance(n.value.func, ast.Name) and n.value.func.id == 'wrap':
            found.append(n.value)
    need(len(found) == 1, 'expected exactly one `%s = wrap(...)`, found %d' % (name, len(found)))
    c = found[0]
    need(len(c.args) in (1, 2) and not c.keywords and isinstance(c.args[0], ast.Name) and c.args[0].id == name,
         'wrap() call shape for ' + name)
    if len(c.args) == 1:
        return '[]'
    need(isinstance(c.args[1], ast.List), 'wrap() spec of %s is not a list literal' % name)
    return ast.unparse(c.args[1]).replace('"', "'")


@table('T02')
def gen_T02():
    specs = []
    for path, cls, inner, cmd in COMMANDS:
        node = find_class(tree(path), cls)
        for i in inner:
            sub = [n for n in node.body if isinstance(n, ast.ClassDef) and n.name == i]
            need(len(sub) == 1, 'no nested class %s in %s' % (i, cls))
            node = sub[0]
        need(any(isinstance(n, ast.FunctionDef) and n.name == cmd for n in node.body), 'no def %s' % cmd)
        specs.append((' '.join([cls.lower()] + inner + [cmd]), wrap_spec(node.body, cmd)))
    # default capabilities: conf.registerGlobalValue(conf.supybot, 'capabilities', DefaultCapabilities([...], ...))
    d = tree('src/ircdb.py')
    defaults = registered = flag = None
    for n in d.body:
        if isinstance(n, ast.Expr) and isinstance(n.value, ast.Call) and ast.unparse(n.value.func) == 'conf.registerGlobalValue':
            a = n.value.args
            if len(a) == 3 and isinstance(a[1], ast.Constant) and isinstance(a[2], ast.Call) and a[2].args:
                tgt, nm = ast.unparse(a[0]), a[1].value
                if tgt == 'conf.supybot' and nm == 'capabilities':
                    need(ast.unparse(a[2].func) == 'DefaultCapabilities', 'supybot.capabilities type')
                    defaults = ast.literal_eval(a[2].args[0])
                elif tgt == 'conf.supybot.capabilities' and nm == 'registeredUsers':
                    registered = ast.literal_eval(a[2].args[0])
                elif tgt == 'conf.supybot.capabilities' and nm == 'default':
                    need(ast.unparse(a[2].func) == 'registry.Boolean', 'capabilities.default type')
                    flag = ast.literal_eval(a[2].args[0])
    need(isinstance(defaults, list) and all(isinstance(x, str) for x in defaults), 'supybot.capabilities default')
    need(isinstance(registered, list) and isinstance(flag, bool), 'capabilities.registeredUsers/default')
    # utils.str.toBool literals
    tb = find_def(tree('src/utils/str.py'), 'toBool')
    tups = [ast.literal_eval(n) for n in ast.walk(tb) if isinstance(n, ast.Tuple)
            and all(isinstance(e, ast.Constant) and isinstance(e.value, str) for e in n.elts)]
    need(len(tups) == 2 and 'true' in tups[0] and 'false' in tups[1], 'toBool literals')
    need('s.strip().lower()' in ast.unparse(tb), 'toBool normalisation')
    # User._checkName (name validation shared by register and changename)
    ut = tree('plugins/User/plugin.py')
    ucls = find_class(ut, 'User')
    chk = [n for n in ucls.body if isinstance(n, ast.FunctionDef) and n.name == '_checkName']
    need(len(chk) == 1, 'User._checkName (validation of user names) is missing')
    csrc = ast.unparse(chk[0])
    need('ircutils.isUserHostmask(name)' in csrc and 'name != name.strip()' in csrc, 'User._checkName: hostmask / strip tests changed')
    forbidden = []
    for n in ast.walk(chk[0]):
        if isinstance(n, ast.Compare) and len(n.ops) == 1 and isinstance(n.ops[0], ast.In) \
                and isinstance(n.left, ast.Constant) and isinstance(n.left.value, str) \
                and isinstance(n.comparators[0], ast.Name) and n.comparators[0].id == 'name':
            need(len(n.left.value) == 1, '_checkName: forbidden substring is not one character')
            forbidden.append(n.left.value)
    need(forbidden, '_checkName: no forbidden characters')
    need(csrc.count('Raise=True') == 2 and csrc.count('irc.errorInvalid') == 2, '_checkName: refusals must raise')
    for cmd, arg in (('register', 'name'), ('changename', 'newname')):
        body = ast.unparse(find_def(ut, cmd, 'User'))
        need('self._checkName(irc, %s)' % arg in body, 'User.%s no longer validates the name' % cmd)
    # the commands that put the live account back when users.setUser refuses (repairs C04.F23 / C04.F24)
    def usrc(cmd, inner=None):
        node = ucls
        if inner:
            node = [n for n in ucls.body if isinstance(n, ast.ClassDef) and n.name == inner][0]
        return ' '.join(ast.unparse([n for n in node.body if isinstance(n, ast.FunctionDef) and n.name == cmd][0]).split())
    reg = [n for n in ucls.body if isinstance(n, ast.FunctionDef) and n.name == 'register'][0]
    trys = [n for n in reg.body if isinstance(n, ast.Try)]
    need(trys and ast.unparse(trys[-1].body).replace('\n', '; ') ==
         'user.name = name; user.setPassword(password); if addHostmask:;     user.addHostmask(msg.prefix); ircdb.users.setUser(user)'
         and len(trys[-1].handlers) == 1 and ast.unparse(trys[-1].handlers[0].type) == 'ValueError'
         and [ast.unparse(x) for x in trys[-1].handlers[0].body] == ['ircdb.users.delUser(user.id)', 'raise'],
         'User.register: expected try: name/setPassword/addHostmask/setUser except ValueError: delUser(user.id); raise')
    newu = [i for i, n in enumerate(reg.body) if ast.unparse(n) == 'user = ircdb.users.newUser()']
    need(len(newu) == 1 and reg.body.index(trys[-1]) == newu[0] + 1, 'User.register: newUser() must directly precede the guarded block')
    cn = usrc('changename')
    need('oldname = user.name' in cn and 'except ircdb.DuplicateHostmask: user.name = oldname' in cn,
         'User.changename no longer restores the old name when setUser refuses')
    need('auth = list(user.auth)' in usrc('identify') and 'except ValueError: user.auth = auth' in usrc('identify'),
         'User.identify no longer restores user.auth')
    need('except ircdb.DuplicateHostmask: user.auth = auth' in usrc('unidentify'), 'User.unidentify no longer restores user.auth')
    rm = usrc('remove', 'hostmask')
    need('hostmasks = ircutils.IrcSet(user.hostmasks)' in rm and 'except ircdb.DuplicateHostmask: user.hostmasks = hostmasks' in rm,
         'User.hostmask.remove no longer restores the hostmask set')
    ad = usrc('add', 'hostmask')
    need('alreadyThere = hostmask in user.hostmasks' in ad and 'if not alreadyThere: user.removeHostmask(hostmask)' in ad,
         'User.hostmask.add: rollback of the added mask changed')
    sec = usrc('secure', 'set')
    need('secure = user.secure' in sec and 'except ircdb.DuplicateHostmask: user.secure = secure' in sec,
         'User.set.secure no longer restores the secure flag when setUser refuses')
    for cmd, inner in (('password', 'set'),):
        need('DuplicateHostmask' not in usrc(cmd, inner) and 'except ValueError' not in usrc(cmd, inner),
             'User.set.%s gained a setUser failure handler (model: no rollback)' % cmd)
    # Admin.capability.add: single-token test
    acls = find_class(tree('plugins/Admin/plugin.py'), 'Admin')
    cap = [n for n in acls.body if isinstance(n, ast.ClassDef) and n.name == 'capability'][0]
    addsrc = ast.unparse([n for n in cap.body if isinstance(n, ast.FunctionDef) and n.name == 'add'][0])
    need('capability.split() != [capability]' in addsrc, 'Admin.capability.add: the single-token test is missing')
    need(addsrc.index('capability.split() != [capability]') < addsrc.index('user.addCapability'), 'Admin.capability.add: token test after the add')
    # Channel.capability.*: the expression that builds the stored capability, applied unconditionally
    ccls = find_class(tree('plugins/Channel/plugin.py'), 'Channel')
    ccap = [n for n in ccls.body if isinstance(n, ast.ClassDef) and n.name == 'capability']
    need(len(ccap) == 1, 'Channel.capability class')

    def cmd_loop(name, itersrc):
        """the single `for c in <itersrc>:` loop of Channel.capability.<name>; returns its body as source lines"""
        f = [n for n in ccap[0].body if isinstance(n, ast.FunctionDef) and n.name == name]
        need(len(f) == 1, 'Channel.capability.%s' % name)
        loops = [n for n in ast.walk(f[0]) if isinstance(n, (ast.For, ast.While))]
        need(len(loops) == 1 and isinstance(loops[0], ast.For) and ast.unparse(loops[0].target) == 'c'
             and ast.unparse(loops[0].iter) == itersrc and not loops[0].orelse,
             'Channel.capability.%s: expected exactly one `for c in %s` loop' % (name, itersrc))
        need(loops[0] in f[0].body, 'Channel.capability.%s: the loop is no longer a top-level statement' % name)
        return f[0], [ast.unparse(x) for x in loops[0].body]

    f, body = cmd_loop('add', 'capabilities.split()')
    need(body == ['c = ircdb.makeChannelCapability(channel, c)', 'user.addCapability(c)'],
         'Channel.capability.add: every word must be prefixed with the verified channel '
         '(c = ircdb.makeChannelCapability(channel, c); user.addCapability(c)), found: %r' % body)
    need(sum(1 for n in ast.walk(f) if isinstance(n, ast.Call) and ast.unparse(n.func).endswith('addCapability')) == 1,
         'Channel.capability.add: more than one addCapability call')
    f, body = cmd_loop('remove', 'capabilities.split()')
    need(body[0] == 'cap = ircdb.makeChannelCapability(channel, c)' and len(body) == 2
         and body[1].replace('\n', ' ').split() == 'try: user.removeCapability(cap) except KeyError: fail.append(c)'.split(),
         'Channel.capability.remove: loop body changed: %r' % body)
    f, body = cmd_loop('set', 'capabilities')
    need(body == ['chan.addCapability(c)'] and 'chan = ircdb.channels.getChannel(channel)' in ast.unparse(f)
         and 'ircdb.channels.setChannel(channel, chan)' in ast.unparse(f), 'Channel.capability.set: body changed: %r' % body)
    f, body = cmd_loop('unset', 'capabilities')
    need(len(body) == 1 and body[0].replace('\n', ' ').split() == 'try: chan.removeCapability(c) except KeyError: fail.append(c)'.split()
         and 'chan = ircdb.channels.getChannel(channel)' in ast.unparse(f), 'Channel.capability.unset: body changed: %r' % body)
    for name in ('add', 'remove', 'set', 'unset'):
        fn = [n for n in ccap[0].body if isinstance(n, ast.FunctionDef) and n.name == name][0]
        need('users.getUser' not in ast.unparse(fn) and 'capabilities.add' not in ast.unparse(fn),
             'Channel.capability.%s touches capability sets outside the pinned statements' % name)
    # ircutils.isUserHostmask: the only validation between `user hostmask add` / IrcUser.addHostmask and the hostmask
    # line of users.conf.  The pattern is emitted; Coq compares it with the one the model (C16 is_user_hostmask) mirrors.
    ut2 = tree('src/ircutils.py')
    rx = module_assign(ut2, 'userHostmaskRe')
    need(isinstance(rx, ast.Call) and ast.unparse(rx.func) == 're.compile' and len(rx.args) == 1 and not rx.keywords
         and isinstance(rx.args[0], ast.Constant) and isinstance(rx.args[0].value, str), 'ircutils.userHostmaskRe is not re.compile(<literal>)')
    hostmask_re = rx.args[0].value
    iuh = find_def(ut2, 'isUserHostmask')
    need([ast.unparse(b) for b in iuh.body if not (isinstance(b, ast.Expr) and isinstance(b.value, ast.Constant))]
         == ['return userHostmaskRe.match(s) is not None'], 'ircutils.isUserHostmask changed')
    ah = ' '.join(ast.unparse(find_def(d, 'addHostmask', 'IrcUser')).split())
    need("assert ircutils.isUserHostmask(hostmask), 'got %s' % hostmask" in ah and 'self.hostmasks.add(hostmask)' in ah,
         'IrcUser.addHostmask no longer asserts isUserHostmask before storing')
    hadd = ' '.join(ast.unparse([n for n in [c for c in ucls.body if isinstance(c, ast.ClassDef) and c.name == 'hostmask'][0].body
                                 if isinstance(n, ast.FunctionDef) and n.name == 'add'][0]).split())
    need('if not ircutils.isUserHostmask(hostmask): irc.errorInvalid(' in hadd and hadd.index('if not ircutils.isUserHostmask(hostmask)') < hadd.index('user.addHostmask(hostmask)'),
         'User.hostmask.add no longer refuses a non-hostmask before addHostmask')
    # IrcUser.checkPassword: an empty or missing password never authenticates (repair of C02.F44)
    cp = find_def(d, 'checkPassword', 'IrcUser')
    stmts = [n for n in cp.body if not (isinstance(n, ast.Expr) and isinstance(n.value, ast.Constant))]
    need(stmts and ' '.join(ast.unparse(stmts[0]).split()) == 'if not password or not self.password: return False',
         'IrcUser.checkPassword: the first statement must be `if not password or not self.password: return False`')
    need(' '.join(ast.unparse(cp).split()).endswith(
         "if self.hashed: salt, _ = self.password.split('|') return self.password == utils.saltHash(password, salt=salt) "
         "else: return self.password == password"), 'IrcUser.checkPassword: comparison changed')
    # unpreserve.Reader.readFile: how users.conf is cut into lines.  A text-mode open() iterated by read() ends a line at
    # \\n, \\r and \\r\\n only (universal newlines); codecs/io readers with str.splitlines semantics also end it at
    # \\x0b \\x0c \\x1c \\x1d \\x1e \\x85 U+2028 U+2029.  The characters are emitted; Coq checks them against the model's
    # reader (C16 split_nl) and against what User._checkName refuses.
    rt = tree('src/unpreserve.py')
    rf = find_def(rt, 'readFile', 'Reader')
    rd = find_def(rt, 'read', 'Reader')
    need(ast.unparse(rd.args) == 'self, fd' and any(isinstance(n, ast.For) and ast.unparse(n.iter) == 'fd' for n in rd.body),
         'unpreserve.Reader.read no longer iterates the file object line by line')
    opens = [n for n in ast.walk(rf) if isinstance(n, ast.Call) and ast.unparse(n.func).split('.')[-1] == 'open']
    need(len(opens) == 1 and 'self.read(' in ast.unparse(rf), 'unpreserve.Reader.readFile: expected exactly one open() handed to self.read')
    oc = opens[0]
    kw = {k.arg: k.value for k in oc.keywords}
    if ast.unparse(oc.func) == 'open' and len(oc.args) == 1 and not (set(kw) - {'encoding', 'errors'}):
        lineseps = [10, 13]                                        # text mode, newline=None
    elif ast.unparse(oc.func) in ('codecs.open', 'io.open', 'open'):
        mode = ast.literal_eval(oc.args[1]) if len(oc.args) > 1 else (ast.literal_eval(kw['mode']) if 'mode' in kw else 'r')
        need(isinstance(mode, str) and 'b' not in mode and 'newline' not in kw, 'unpreserve.Reader.readFile: open() mode/newline not understood')
        if ast.unparse(oc.func) == 'codecs.open':
            lineseps = [10, 13, 11, 12, 28, 29, 30, 133, 8232, 8233]      # StreamReader iteration = str.splitlines
        else:
            lineseps = [10, 13]
    else:
        need(False, 'unpreserve.Reader.readFile: unknown way of opening the file: ' + ast.unparse(oc))
    out = 'Definition READER_LINESEPS : list N := %s.\n' % clist(str(c) for c in lineseps)
    out += 'Definition USERHOSTMASK_RE : list N := %s.  (* %s *)\n' % (cstr(hostmask_re), hostmask_re.replace('*)', '* )'))
    out += 'Definition NAME_FORBIDDEN : list N := %s.\n' % clist(str(ord(c)) for c in forbidden)
    out += 'Definition SPECS : list (list N * list N) := %s.\n' % clist(
        '(%s, %s)' % (cstr(k), cstr(v)) for k, v in specs)
    for k, v in specs:
        out += '(* %s : %s *)\n' % (k, v)
    out += 'Definition DEFAULT_CAPS : list (list N) := %s.\n' % clist(cstr(x) for x in defaults)
    out += 'Definition REGISTERED_CAPS : list (list N) := %s.\n' % clist(cstr(x) for x in registered)
    out += 'Definition DEFAULT_FLAG : bool := %s.\n' % ('true' if flag else 'false')
    out += 'Definition BOOL_TRUE : list (list N) := %s.\n' % clist(cstr(x) for x in tups[0])
    out += 'Definition BOOL_FALSE : list (list N) := %s.\n' % clist(cstr(x) for x in tups[1])
    return 'plugins/User/plugin.py, plugins/Admin/plugin.py, plugins/Channel/plugin.py, src/ircdb.py, src/utils/str.py, src/unpreserve.py, src/ircutils.py', out
