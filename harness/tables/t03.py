"""tables for C03 (capability algebra / checkCapability): src/ircutils.py, src/ircdb.py"""
import ast, string
from gen_tables import table, tree, module_assign, find_def, find_class, need, cstr, clist, cN, src


@table('T03')
def gen_T03():
    t = tree('src/ircutils.py')
    # _rfc1459trans = utils.str.MultipleReplacer(dict(list(zip(UPPER + r'\[]~', LOWER + r'|{}^'))))
    v = module_assign(t, '_rfc1459trans')
    need(isinstance(v, ast.Call) and ast.unparse(v.func) == 'utils.str.MultipleReplacer', '_rfc1459trans shape')
    inner = v.args[0]
    need(ast.unparse(inner).startswith('dict(list(zip('), '_rfc1459trans: expected dict(list(zip(a, b)))')
    zipcall = inner.args[0].args[0]
    need(isinstance(zipcall, ast.Call) and len(zipcall.args) == 2, 'zip shape')
    env = {'string': string}
    a = eval(compile(ast.Expression(zipcall.args[0]), 'x', 'eval'), env)
    b = eval(compile(ast.Expression(zipcall.args[1]), 'x', 'eval'), env)
    need(len(a) == len(b) and all(len(x) == 1 for x in a + b), 'fold table not char-wise')
    fold = sorted(set(zip(a, b)))
    # toLower: default casemapping branch must return _rfc1459trans(s)
    tl = find_def(t, 'toLower')
    need('return _rfc1459trans(s)' in ast.unparse(tl), 'toLower no longer returns _rfc1459trans(s)')
    # isChannel defaults
    ic = find_def(t, 'isChannel')
    defaults = [ast.literal_eval(d) for d in ic.args.defaults]
    need(len(defaults) == 2 and isinstance(defaults[0], str) and isinstance(defaults[1], int), 'isChannel defaults')
    body = ast.unparse(ic.body[-1])
    need(body == "return s and ',' not in s and ('\\x07' not in s) and (s[0] in chantypes) and (len(s) <= channellen) and (len(s.split(None, 1)) == 1)",
         'isChannel body changed: ' + body)
    # whitespace set of str.split(None): str.isspace over all code points
    ws = [i for i in range(0x110000) if chr(i).isspace()]
    # IrcChannel.defaultOff
    d = tree('src/ircdb.py')
    cls = find_class(d, 'IrcChannel')
    off = None
    for n in cls.body:
        if isinstance(n, ast.Assign) and ast.unparse(n.targets[0]) == 'defaultOff':
            off = ast.literal_eval(n.value)
    need(off is not None and all(isinstance(x, str) for x in off), 'IrcChannel.defaultOff')
    ao = module_assign(d, 'antiOwner')
    need(ast.unparse(ao) == "makeAntiCapability('owner')", 'antiOwner changed')
    out = 'Definition FOLD : list (N * N) := %s.\n' % clist('(%d, %d)' % (ord(x), ord(y)) for x, y in fold)
    out += 'Definition WHITESPACE : list N := %s.\n' % clist(cN(i) for i in ws)
    out += 'Definition CHANTYPES : list N := %s.\n' % cstr(defaults[0])
    out += 'Definition CHANNELLEN : nat := %d.\n' % defaults[1]
    out += 'Definition DEFAULT_OFF : list (list N) := %s.\n' % clist(cstr(x) for x in off)
    return 'src/ircutils.py, src/ircdb.py', out
