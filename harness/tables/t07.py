"""tables for C07: the except-clause lists of SocketDriver._read / drivers.run / log.firewall / Irc.feedMsg,
the __firewalled__ dictionaries, Irc._nickSetters and the str.strip() whitespace set."""
import ast
from gen_tables import table, tree, find_def, find_class, handler_names, need, cstr, clist, cbool, EXN

CLS = {'*': 'CBare', 'BaseException': 'CBare', 'Exception': 'CException',
       'socket.timeout': 'CSocketTimeout', 'TimeoutError': 'CSocketTimeout',
       'SSLError': 'CSSLError', 'ssl.SSLError': 'CSSLError',
       'socket.error': 'CSocketError', 'OSError': 'CSocketError', 'IOError': 'CSocketError',
       'select.error': 'CSocketError',
       'ircmsgs.MalformedIrcMsg': '(CExn MalformedIrcMsg)', 'MalformedIrcMsg': '(CExn MalformedIrcMsg)'}
for _k, _v in EXN.items():
    CLS[_k] = '(CExn %s)' % _v


def classes(h, where):
    out = []
    for n in handler_names(h):
        need(n in CLS, '%s: except clause catches a class the model does not know: %s' % (where, n))
        out.append(CLS[n])
    return out


def norm(nodes):
    return ' ; '.join(ast.unparse(n).replace('\n', ' ') for n in nodes)


def swallowing(h, where):
    """a handler that lets the enclosing loop go on: no raise/return/break/continue-out"""
    for n in ast.walk(h):
        need(not isinstance(n, (ast.Raise, ast.Return, ast.Break)),
             '%s: handler leaves the loop (%s); the model only knows log-and-continue guards' % (where, type(n).__name__))


def enclosing_tries(func, is_target):
    """chain of ast.Try nodes (outermost first) whose *body* contains the unique node satisfying is_target"""
    found = []

    def walk(node, chain):
        if is_target(node):
            found.append(list(chain))
        if isinstance(node, ast.Try):
            for c in node.body:
                walk(c, chain + [node])
            for part in (node.handlers, node.orelse, node.finalbody):
                for c in part:
                    walk(c, chain)
            return
        for c in ast.iter_child_nodes(node):
            walk(c, chain)
    walk(func, [])
    return found


def is_call(node, text):
    return isinstance(node, ast.Call) and ast.unparse(node.func) == text


LOG_METHODS = ('debug', 'info', 'warning', 'error', 'critical', 'exception')
LOG_OBJECTS = ('log', 'drivers.log', 'self.log', 'supylog')


def is_log_call(n):
    if not isinstance(n, ast.Call):
        return False
    f = ast.unparse(n.func)
    if f == 'logging_function':          # log.firewall.logException: self.log.exception or log.exception
        return True
    return isinstance(n.func, ast.Attribute) and n.func.attr in LOG_METHODS and ast.unparse(n.func.value) in LOG_OBJECTS


EXC_SITES = set()


def log_entries(site, nodes, where, allowed_calls, fmt_re, server_names=()):
    """the log calls among [nodes] (statements of handler bodies) as (site, const?, directives, args); every other call
    must be in allowed_calls (fail closed: a handler that does something the model does not know is a shape error)"""
    out = []
    for st in nodes:
        for n in ast.walk(st):
            if not isinstance(n, ast.Call):
                continue
            if not is_log_call(n):
                need(ast.unparse(n.func) in allowed_calls or any(n is a for c in ast.walk(st) if is_log_call(c) for a in ast.walk(c) if a is not c),
                     '%s: handler calls %s: not a log call and not a call the model knows' % (where, ast.unparse(n.func)))
                continue
            need(n.args and not n.keywords and not any(isinstance(a, ast.Starred) for a in n.args),
                 '%s: log call with no template / keywords / *args: %s' % (where, ast.unparse(n)))
            # which handlers run Logger.exception (and with it utils.python.collect_extra_debug_data)
            if ast.unparse(n.func) == 'logging_function' or n.func.attr == 'exception':
                EXC_SITES.add(site)
            tmpl, rest = n.args[0], n.args[1:]
            consuming = lambda s: sum(1 for m in fmt_re.finditer(s) if m.group(1) != '%')
            if isinstance(tmpl, ast.Constant) and isinstance(tmpl.value, str):
                out.append((site, True, consuming(tmpl.value), len(rest)))
                continue
            # text in TEMPLATE position: only understood for the server-controlled names of this site
            need(server_names, '%s: log template is not a string constant: %s' % (where, ast.unparse(tmpl)))
            names = {x.id for x in ast.walk(tmpl) if isinstance(x, ast.Name)}
            need(names and names <= set(server_names), '%s: log template built from %s: shape not understood' % (where, sorted(names)))
            consts = [x.value for x in ast.walk(tmpl) if isinstance(x, ast.Constant) and isinstance(x.value, str)]
            if isinstance(tmpl, ast.BinOp) and isinstance(tmpl.op, ast.Mod) and isinstance(tmpl.left, ast.Constant):
                nd = 0          # Python's % consumes the directives of the constant; what is left are those of the operand
            elif isinstance(tmpl, ast.BinOp) and isinstance(tmpl.op, ast.Add):
                nd = sum(consuming(c) for c in consts)
            elif isinstance(tmpl, ast.JoinedStr):
                nd = sum(consuming(c) for c in consts)
            elif isinstance(tmpl, ast.Call) and isinstance(tmpl.func, ast.Attribute) and tmpl.func.attr == 'format' \
                    and isinstance(tmpl.func.value, ast.Constant):
                nd = consuming(tmpl.func.value.value)
            else:
                need(False, '%s: log template shape not understood: %s' % (where, ast.unparse(tmpl)))
            out.append((site, False, nd, len(rest)))
    return out


def firewalled_dict(cdef, where):
    for node in cdef.body:
        if isinstance(node, ast.Assign) and len(node.targets) == 1 and isinstance(node.targets[0], ast.Name) \
                and node.targets[0].id == '__firewalled__':
            need(isinstance(node.value, ast.Dict), where + '.__firewalled__ is not a dict literal')
            out = []
            for k, v in zip(node.value.keys, node.value.values):
                need(isinstance(k, ast.Constant) and isinstance(k.value, str), where + '.__firewalled__: non-literal key')
                has = not (isinstance(v, ast.Constant) and v.value is None)
                out.append((k.value, has, v))
            return out
    need(False, 'no %s.__firewalled__' % where)


@table('T07')
def gen_T07():
    # ---- SocketDriver._read ----
    ts = tree('src/drivers/Socket.py')
    rd = find_def(ts, '_read', 'SocketDriver')
    body = [n for n in rd.body if not (isinstance(n, ast.Expr) and isinstance(n.value, ast.Constant))]
    need(len(body) == 2 and isinstance(body[0], ast.Try) and isinstance(body[1], ast.If),
         'SocketDriver._read: expected one try statement followed by the `if self.irc and not self.irc.zombie` send')
    outer = body[0]
    need(not outer.finalbody and not outer.orelse, 'SocketDriver._read: try has else/finally')
    need(norm([body[1]]) == 'if self.irc and (not self.irc.zombie):     self._sendIfMsgs()',
         'SocketDriver._read: trailing statement changed: ' + norm([body[1]]))
    read_catches = []
    for h in outer.handlers:
        cs = classes(h, 'SocketDriver._read')
        need(len(cs) == 1, 'SocketDriver._read: tuple except clause')
        c = cs[0]
        b = norm(h.body)
        if c == 'CSocketTimeout':
            need(b == 'pass', '_read: except socket.timeout body changed: ' + b)
        elif c == 'CSSLError':
            need(b == "if e.args[0] == 'The read operation timed out':     pass else:     self._handleSocketError(e)     return",
                 '_read: except SSLError body changed: ' + b)
        elif c == 'CSocketError':
            need(b == 'self._handleSocketError(e) ; return', '_read: except socket.error body changed: ' + b)
        else:
            need(False, 'SocketDriver._read: outer try has a clause the model has no body for: %s (%s)' % (c, b))
        read_catches.append(c)
    guards = {}
    guard_bodies = {'PARSE': [], 'FEED': []}
    for key, text in (('PARSE', 'drivers.parseMsg'), ('FEED', 'self.irc.feedMsg')):
        ch = enclosing_tries(rd, lambda n, text=text: is_call(n, text))
        need(len(ch) == 1, 'SocketDriver._read: expected exactly one call of %s' % text)
        chain = ch[0]
        need(chain and chain[0] is outer, 'SocketDriver._read: %s is no longer inside the outer try' % text)
        g = []
        for t in chain[1:]:
            need(not t.finalbody, '_read: guard with finally')
            for h in t.handlers:
                swallowing(h, 'SocketDriver._read guard around ' + text)
                g += classes(h, 'SocketDriver._read guard')
                guard_bodies[key] += h.body
        guards[key] = g
    # recv and the loop are inside the outer try
    fors = [n for n in outer.body if isinstance(n, ast.For)]
    need(len(fors) == 1 and ast.unparse(fors[0].iter) == 'lines', '_read: the `for line in lines` loop moved')
    need(any(is_call(n, 'self.conn.recv') for n in ast.walk(outer)), '_read: recv no longer in the try')
    # ---- SocketDriver._select: transparent for what leaves _read ----
    sel = find_def(ts, '_select', 'SocketDriver')
    ch = enclosing_tries(sel, lambda n: is_call(n, 'instance._read'))
    need(len(ch) == 1 and len(ch[0]) == 1, 'SocketDriver._select: expected instance._read() inside exactly one try')
    t = ch[0][0]
    need(len(t.handlers) == 1 and handler_names(t.handlers[0]) == ['select.error'],
         'SocketDriver._select: except clauses changed: %r' % [handler_names(h) for h in t.handlers])
    need(norm(t.handlers[0].body) == 'if e.args[0] != errno.EINTR:     raise',
         'SocketDriver._select: select.error handler changed')
    # ---- SocketDriver.run: no try around _select ----
    rn = find_def(ts, 'run', 'SocketDriver')
    need(not any(isinstance(n, ast.Try) for n in ast.walk(rn)), 'SocketDriver.run now contains a try statement')
    need(norm(rn.body[-2:]) == 'self._sendIfMsgs() ; self._select()', 'SocketDriver.run tail changed: ' + norm(rn.body[-2:]))
    # ---- drivers.run ----
    td = tree('src/drivers/__init__.py')
    drun = find_def(td, 'run')
    ch = enclosing_tries(drun, lambda n: is_call(n, 'driver.run'))
    need(len(ch) == 1 and len(ch[0]) == 1, 'drivers.run: expected driver.run() inside exactly one try')
    t = ch[0][0]
    run_catches = []
    run_bodies = []
    for h in t.handlers:
        run_catches += classes(h, 'drivers.run')
        need('_deadDrivers.add(name)' in norm(h.body), 'drivers.run: handler no longer marks the driver dead: ' + norm(h.body))
        run_bodies += h.body
    # ---- log.firewall ----
    tl = tree('src/log.py')
    fw = find_def(tl, 'firewall')
    m = [n for n in fw.body if isinstance(n, ast.FunctionDef) and n.name == 'm']
    need(len(m) == 1, 'log.firewall: inner function m not found')
    need(len(m[0].body) == 1 and isinstance(m[0].body[0], ast.Try), 'log.firewall.m: expected a single try')
    t = m[0].body[0]
    need(norm(t.body) == 'return f(self, *args, **kwargs)', 'log.firewall.m: try body changed')
    need(len(t.handlers) == 1, 'log.firewall.m: expected one except clause')
    fw_catches = classes(t.handlers[0], 'log.firewall')
    hb = t.handlers[0].body
    need(norm(hb[:2]) == 'if testing:     raise ; logException(self)', 'log.firewall.m: handler prologue changed: ' + norm(hb[:2]))
    # ---- __firewalled__ dictionaries ----
    ti = tree('src/irclib.py')
    irc_fw = firewalled_dict(find_class(ti, 'Irc'), 'Irc')
    cb_fw = firewalled_dict(find_class(ti, 'IrcCallback'), 'IrcCallback')
    st_fw = firewalled_dict(find_class(ti, 'IrcState'), 'IrcState')
    for nm, has, v in cb_fw:
        if nm in ('inFilter', 'outFilter') and has:
            need(ast.unparse(v) == 'lambda self, irc, msg: msg', 'IrcCallback.__firewalled__[%s] error handler changed' % nm)
    for cname in ('Irc', 'IrcCallback', 'IrcState'):
        bases = [ast.unparse(b) for b in find_class(ti, cname).bases]
        need('log.Firewalled' in bases, '%s no longer derives from log.Firewalled' % cname)
    # ---- the class hierarchy of callbacks and how log.MetaFirewall merges __firewalled__ over it ----
    mf = find_def(tl, '__new__', 'MetaFirewall')
    mfb = norm(mf.body)
    tail = (" ; cls.updateFirewalled(firewalled, classdict.get('__firewalled__', [])) ; for attr, errorHandler in firewalled.items():     "
            "if attr in classdict:         classdict[attr] = firewall(classdict[attr], errorHandler) ; "
            "return super(MetaFirewall, cls).__new__(cls, name, bases, classdict)")
    if mfb == ("firewalled = {} ; for base in bases:     if hasattr(base, '__firewalled__'):         "
               "cls.updateFirewalled(firewalled, base.__firewalled__)" + tail):
        merge_mro = False       # attribute lookup on the base: only the FIRST __firewalled__ of its MRO
    elif mfb == ("firewalled = {} ; for base in bases:     for klass in reversed(base.__mro__):         "
                 "cls.updateFirewalled(firewalled, klass.__dict__.get('__firewalled__', []))" + tail):
        merge_mro = True        # every __firewalled__ of every class of the base's MRO, least derived first
    else:
        need(False, 'log.MetaFirewall.__new__: shape not understood: ' + mfb)
    need(norm(find_def(tl, 'updateFirewalled', 'MetaFirewall').body) ==
         'for attr in __firewalled__:     firewalled[attr] = cls.getErrorHandler(__firewalled__, attr)', 'MetaFirewall.updateFirewalled changed')
    tc = tree('src/callbacks.py')
    # name -> (module tree, bases as written); 'Firewalled'/'SynchronizedAndFirewalled' are made by calling the metaclass
    pyclasses = {'object': ([], None)}

    def add_class(tr, cname, rename=lambda b: b):
        cd = find_class(tr, cname)
        bases = [rename(ast.unparse(b)) for b in cd.bases]
        own = None
        for node in cd.body:
            if isinstance(node, ast.Assign) and len(node.targets) == 1 and ast.unparse(node.targets[0]) == '__firewalled__':
                need(isinstance(node.value, ast.Dict) and all(isinstance(k, ast.Constant) for k in node.value.keys),
                     '%s.__firewalled__ is not a dict literal with constant keys' % cname)
                own = [k.value for k in node.value.keys]
        need(not cd.keywords or all(k.arg != 'metaclass' for k in cd.keywords), cname + ': explicit metaclass')
        pyclasses[cname] = (bases, own)
    strip = lambda b: {'log.Firewalled': 'Firewalled', 'irclib.IrcCallback': 'IrcCallback'}.get(b, b)
    for made, where, tr in (('Firewalled', "MetaFirewall('Firewalled', (), {})", tl),
                            ('SynchronizedAndFirewalled', "MetaSynchronizedAndFirewalled('SynchronizedAndFirewalled', (), {})", tc)):
        v = [n for n in tr.body if isinstance(n, ast.Assign) and ast.unparse(n.targets[0]) == made]
        need(len(v) == 1 and ast.unparse(v[0].value) == where, '%s is no longer %s' % (made, where))
        pyclasses[made] = (['object'], None)
    need([ast.unparse(b) for b in find_class(tc, 'MetaSynchronizedAndFirewalled').bases] == ['log.MetaFirewall', 'utils.python.MetaSynchronized'],
         'MetaSynchronizedAndFirewalled bases changed')
    add_class(ti, 'IrcCommandDispatcher', strip)
    add_class(ti, 'IrcCallback', strip)
    for cname in ('BasePlugin', 'Commands', 'PluginMixin', 'Plugin', 'PluginRegexp'):
        add_class(tc, cname, strip)
    for cname, (bases, own) in pyclasses.items():
        need(all(b in pyclasses for b in bases), '%s: base class outside the inventory: %r' % (cname, bases))

    def c3(cname):
        bases = pyclasses[cname][0]
        seqs = [c3(b) for b in bases] + [list(bases)]
        res = [cname]
        while any(seqs):
            seqs = [s for s in seqs if s]
            for s in seqs:
                h = s[0]
                if not any(h in o[1:] for o in seqs):
                    break
            else:
                need(False, 'no consistent MRO for ' + cname)
            res.append(h)
            seqs = [[x for x in s if x != h] if s[0] == h else s for s in seqs]
            seqs = [s[1:] if s and s[0] == h else s for s in seqs]
        return res
    class_rows = []
    for cname in pyclasses:
        bases, own = pyclasses[cname]
        class_rows.append((cname, bases, c3(cname), own))
    # ---- the three inner try statements of Irc.feedMsg ----
    fm = find_def(ti, 'feedMsg', 'Irc')
    inner = {}
    inner_bodies = {}
    for key, text in (('ADDMSG', 'self.state.addMsg'), ('INFILTER', 'callback.inFilter'), ('CALLBACK', 'callback')):
        ch = enclosing_tries(fm, lambda n, text=text: is_call(n, text))
        need(len(ch) == 1, 'Irc.feedMsg: expected exactly one call of %s' % text)
        g = []
        inner_bodies[key] = []
        for t in ch[0]:
            need(not t.finalbody, 'Irc.feedMsg: try with finally')
            for h in t.handlers:
                swallowing(h, 'Irc.feedMsg guard around ' + text)
                g += classes(h, 'Irc.feedMsg')
                inner_bodies[key] += h.body
        inner[key] = g
    need(not enclosing_tries(fm, lambda n: is_call(n, 'method'))[0], 'Irc.feedMsg: method(msg) is now inside a try')
    # ---- _nickSetters ----
    ns = None
    for node in find_class(ti, 'Irc').body:
        if isinstance(node, ast.Assign) and ast.unparse(node.targets[0]) == '_nickSetters':
            need(isinstance(node.value, ast.Call) and ast.unparse(node.value.func) == 'set', '_nickSetters is not set([...])')
            ns = ast.literal_eval(node.value.args[0])
    need(ns is not None and all(isinstance(x, str) for x in ns), 'Irc._nickSetters not found')
    need('msg.args[0] != self.nick' in ast.unparse(fm), 'Irc.feedMsg no longer reads msg.args[0] for nick setters')
    # ---- utils.str.decode_raw_line: the codec error handlers it decodes with (send side assumes: no lone surrogates) ----
    tu = tree('src/utils/str.py')
    defs = [n for n in ast.walk(tu) if isinstance(n, ast.FunctionDef) and n.name == 'decode_raw_line']
    need(len(defs) == 2, 'utils.str: expected the PY3 and PY2 definitions of decode_raw_line')
    dec_handlers = []
    for n in ast.walk(defs[0]):
        if isinstance(n, ast.Call) and isinstance(n.func, ast.Attribute) and n.func.attr == 'decode':
            h = n.args[1] if len(n.args) > 1 else None
            for kw in n.keywords:
                if kw.arg == 'errors':
                    h = kw.value
            need(h is None or (isinstance(h, ast.Constant) and isinstance(h.value, str)),
                 'decode_raw_line: non-literal codec error handler')
            dec_handlers.append('strict' if h is None else h.value)
    need(dec_handlers, 'decode_raw_line: no .decode() call found')
    need(not any(isinstance(n, ast.Raise) for n in ast.walk(defs[0])), 'decode_raw_line now raises')
    # ---- SocketDriver._sendIfMsgs: outbuffer is bytes; the messages taken are encoded outside the try ----
    sm = find_def(ts, '_sendIfMsgs', 'SocketDriver')
    ch = enclosing_tries(sm, lambda n: is_call(n, 'data.encode'))
    need(len(ch) == 1 and ch[0] == [], '_sendIfMsgs: expected one data.encode() outside every try (the model lets '
         'UnicodeEncodeError out there)')
    need("data = ''.join(map(str, msgs))" in ast.unparse(sm) and 'self.outbuffer += data' in ast.unparse(sm),
         '_sendIfMsgs: the join/encode/append of the taken messages changed')
    ch = enclosing_tries(sm, lambda n: is_call(n, 'self.conn.send'))
    need(len(ch) == 1 and len(ch[0]) == 1 and [handler_names(h) for h in ch[0][0].handlers] == [['socket.error']]
         and ast.unparse(ch[0][0].body[0]) == 'sent = self.conn.send(self.outbuffer)',
         '_sendIfMsgs: the try around conn.send(self.outbuffer) changed')
    need(not any(is_call(n, 'self.outbuffer.encode') for n in ast.walk(sm)), '_sendIfMsgs: outbuffer is encoded again')
    # ---- Irc.takeMsg: _truncateMsg encodes the message (inside the firewalled takeMsg, under no try of its own) ----
    tr = find_def(ti, '_truncateMsg', 'Irc')
    encs = [n for n in ast.walk(tr) if isinstance(n, ast.Call) and isinstance(n.func, ast.Attribute) and n.func.attr == 'encode']
    need(len(encs) <= 1, 'Irc._truncateMsg: more than one encode()')
    trunc_encodes = False
    if encs:
        need(ast.unparse(encs[0]) == "msg_rest_str.encode('utf-8')", 'Irc._truncateMsg: encode call changed: ' + ast.unparse(encs[0]))
        need(not enclosing_tries(tr, lambda n: n is encs[0])[0], 'Irc._truncateMsg: encode is now inside a try')
        trunc_encodes = True
    tk = find_def(ti, 'takeMsg', 'Irc')
    ch = enclosing_tries(tk, lambda n: is_call(n, 'self._truncateMsg'))
    need(len(ch) == 1 and ch[0] == [], 'Irc.takeMsg: expected one self._truncateMsg(msg) under no try')
    # ---- ISUPPORT state read by the per-message path before dispatch: _tagMsg -> _setMsgChannel -> isChannel ----
    def body_of(cname, fname):
        f = find_def(ti, fname, cname)
        return norm([n for n in f.body if not (isinstance(n, ast.Expr) and isinstance(n.value, ast.Constant))])
    need(body_of('IrcState', 'do005') == "for arg in msg.args[1:-1]:     if '=' in arg:         name, value = arg.split('=', 1)         "
         "converter = self._005converters.get(name, lambda x: x)         try:             self.supported[name] = converter(value)         "
         "except Exception:             log.exception('Uncaught exception in 005 converter:')             "
         "log.error('Name: %s, Converter: %s', name, converter)     else:         self.supported[arg] = None",
         'IrcState.do005 changed: ' + body_of('IrcState', 'do005'))
    need(body_of('Irc', '_setMsgChannel') == "channel = None ; if msg.args:     channel = msg.args[0]     if msg.command in ('NOTICE', 'PRIVMSG') "
         "and (not conf.supybot.protocols.irc.strictRfc()):         channel = self.stripChannelPrefix(channel) ; "
         "if not self.isChannel(channel):     channel = None ; msg.channel = channel", 'Irc._setMsgChannel changed')
    need(body_of('Irc', 'stripChannelPrefix') == "statusmsg_chars = self.state.supported.get('statusmsg', '') ; return channel.lstrip(statusmsg_chars)",
         'Irc.stripChannelPrefix changed')
    ic = body_of('Irc', 'isChannel')
    if ic == ("kw = {} ; if 'chantypes' in self.state.supported:     kw['chantypes'] = self.state.supported['chantypes'] ; "
              "if 'channellen' in self.state.supported:     kw['channellen'] = self.state.supported['channellen'] ; return ircutils.isChannel(s, **kw)"):
        none_safe = False        # a None entry (token without value) reaches ircutils.isChannel
    elif ic == ("kw = {} ; chantypes = self.state.supported.get('chantypes') ; if chantypes is not None:     kw['chantypes'] = chantypes ; "
                "channellen = self.state.supported.get('channellen') ; if channellen is not None:     kw['channellen'] = channellen ; "
                "return ircutils.isChannel(s, **kw)"):
        none_safe = True
    else:
        need(False, 'Irc.isChannel: shape not understood: ' + ic)
    tut = tree('src/ircutils.py')
    uic = find_def(tut, 'isChannel')
    need(ast.unparse(uic.args) == "s, chantypes='#&!', channellen=50" and ast.unparse(uic.body[-1]) ==
         "return s and ',' not in s and ('\\x07' not in s) and (s[0] in chantypes) and (len(s) <= channellen) and (len(s.split(None, 1)) == 1)",
         'ircutils.isChannel changed')
    conv = None
    for node in find_class(ti, 'IrcState').body:
        if isinstance(node, ast.Assign) and ast.unparse(node.targets[0]) == '_005converters':
            d = node.value.args[0]
            conv = {k.value: ast.unparse(v) for k, v in zip(d.keys, d.values)}
    need(conv is not None and conv.get('channellen') == 'int' and 'chantypes' not in conv and 'statusmsg' not in conv,
         'IrcState._005converters: channellen/chantypes/statusmsg converters changed')
    tkf = find_def(ti, 'takeMsg', 'Irc')
    loops = [n for n in ast.walk(tkf) if isinstance(n, ast.For) and ast.unparse(n.iter) == 'reversed(self.callbacks)']
    need(len(loops) == 1 and ast.unparse(loops[0].body[0]) == 'self._setMsgChannel(msg)', 'Irc.takeMsg: the out-filter loop no longer tags first')
    need(not enclosing_tries(tkf, lambda n: is_call(n, 'self._setMsgChannel'))[0], 'Irc.takeMsg: _setMsgChannel now under a try')
    need('self._tagMsg(msg)' in ast.unparse(fm.body[1]) or 'self._tagMsg(msg)' in ast.unparse(fm.body[0]) + ast.unparse(fm.body[1]),
         'Irc.feedMsg no longer tags the message first')
    names = set('chantypeschannellenstatusmsg')
    for c in range(128, 0x110000):
        need(not (set(chr(c).lower()) & names), 'non-ASCII code point %d lower-cases into an ISUPPORT key letter' % c)
    # ---- every log message goes through utils.str.format: the handlers' log calls are code that can raise ----
    import re as _re
    fr = None
    for node in tu.body:
        if isinstance(node, ast.Assign) and ast.unparse(node.targets[0]) == '_formatRe':
            need(isinstance(node.value, ast.Call) and ast.unparse(node.value.func) == 're.compile'
                 and isinstance(node.value.args[0], ast.Constant), 'utils.str._formatRe is not re.compile(<literal>)')
            fr = node.value.args[0].value
    need(fr is not None, 'utils.str._formatRe not found')
    mm = _re.match(r'^%\(\(\?:\\d\+\)\?\\\.\\d\+f\|\[([A-Za-z%]+)\]\)$', fr)
    need(mm, 'utils.str._formatRe changed shape: %r' % fr)
    fmt_chars = mm.group(1)
    fmt_re = _re.compile(fr)
    fdef = [n for n in tu.body if isinstance(n, ast.FunctionDef) and n.name == 'format']
    need(len(fdef) == 1 and "raise ValueError('Extra format chars in format spec: %r' % s)" in ast.unparse(fdef[0])
         and 'args.pop()' in ast.unparse(fdef[0]), 'utils.str.format: the pop-an-argument-per-directive shape changed')
    lg = find_def(tl, '_log', 'Logger')
    need(ast.unparse(lg.body[0]) == 'msg = format(msg, *args)', 'log.Logger._log no longer formats the message first')
    lex = [n for n in fw.body if isinstance(n, ast.FunctionDef) and n.name == 'logException']
    need(len(lex) == 1, 'log.firewall: logException not found')
    hb_calls = [ast.unparse(n.func) for st in hb for n in ast.walk(st) if isinstance(n, ast.Call)]
    need(set(hb_calls) <= {'logException', 'errorHandler'}, 'log.firewall.m: handler calls changed: %r' % hb_calls)
    EXC_SITES.clear()
    logs = []
    logs += log_entries(0, guard_bodies['PARSE'], '_read guard around parseMsg', (), fmt_re, server_names=('line',))
    logs += log_entries(6, guard_bodies['FEED'], '_read guard around feedMsg', (), fmt_re)
    logs += log_entries(1, run_bodies, 'drivers.run handler', ('_deadDrivers.add',), fmt_re)
    logs += log_entries(2, lex[0].body, 'log.firewall.logException', ('hasattr',), fmt_re)
    logs += log_entries(3, inner_bodies['ADDMSG'], 'feedMsg addMsg handler', (), fmt_re)
    logs += log_entries(4, inner_bodies['INFILTER'], 'feedMsg inFilter handler', (), fmt_re)
    logs += log_entries(5, inner_bodies['CALLBACK'], 'feedMsg callback handler', (), fmt_re)
    # Irc.reset (reconnect path, reduced to connected:=False in the model): every callback.reset() is under its own guard
    rs = find_def(ti, 'reset', 'Irc')
    ch = enclosing_tries(rs, lambda n: is_call(n, 'callback.reset'))
    need(len(ch) == 1 and len(ch[0]) == 1, 'Irc.reset: callback.reset() is no longer under exactly one try')
    rh = ch[0][0].handlers
    need(len(rh) == 1 and set(classes(rh[0], 'Irc.reset')) <= {'CException', 'CBare'}, 'Irc.reset: the guard of callback.reset() no longer catches Exception')
    swallowing(rh[0], 'Irc.reset guard')
    logs += log_entries(7, rh[0].body, 'Irc.reset handler', (), fmt_re)
    for h in outer.handlers:     # the outer clauses of _read: pass / self._handleSocketError(e) only (bodies pinned above)
        need(not any(is_log_call(n) for n in ast.walk(h)), '_read: outer except clause now logs directly')
    if run_bodies:
        need(is_log_call(run_bodies[0].value) if isinstance(run_bodies[0], ast.Expr) else False,
             'drivers.run: the handler no longer starts with its log call')
    # ---- Logger.exception -> utils.python.collect_extra_debug_data(): runs inside every handler that logs with .exception ----
    lex2 = find_def(tl, 'exception', 'Logger')
    need("self.debug('%s', utils.python.collect_extra_debug_data())" in ast.unparse(lex2),
         'log.Logger.exception no longer calls utils.python.collect_extra_debug_data() as an argument of self.debug')
    need(not any(isinstance(n, ast.Try) for n in ast.walk(lex2)), 'log.Logger.exception now contains a try')
    lgx = norm(lex[0].body)
    need('logging_function = self.log.exception' in lgx and 'logging_function = exception' in lgx,
         'log.firewall.logException no longer logs with .exception')
    tp = tree('src/utils/python.py')
    cd = find_def(tp, 'collect_extra_debug_data')

    def foreign_calls(fname):
        return [n for n in ast.walk(cd) if isinstance(n, ast.Call) and ast.unparse(n.func) == fname]

    def guard_of(node, where):
        ch = enclosing_tries(cd, lambda n: n is node)
        need(len(ch) == 1, 'collect_extra_debug_data: %s not found once' % where)
        out = []
        for tnode in ch[0]:
            for h in tnode.handlers:
                need(not any(isinstance(x, ast.Raise) for x in ast.walk(h)), 'collect_extra_debug_data: a handler re-raises')
                out += classes(h, 'collect_extra_debug_data ' + where)
        return out
    gets = foreign_calls('getattr')
    need(len(gets) == 1 and ast.unparse(gets[0].args[0]) == 'frame_locals[inspected]' and ast.unparse(gets[0].args[1]) == 'attr_name',
         'collect_extra_debug_data: expected exactly one getattr(frame_locals[inspected], attr_name[, default])')
    helper_catches = guard_of(gets[0], 'getattr')
    if len(gets[0].args) == 3:
        helper_catches = helper_catches + ['(CExn AttributeError)']       # getattr's default covers AttributeError only
    else:
        need(len(gets[0].args) == 2 and not gets[0].keywords, 'collect_extra_debug_data: getattr call shape')
    need(helper_catches, 'collect_extra_debug_data: getattr on a foreign object under no guard at all')
    for fname, arg in (('dir', 'frame_locals[inspected]'), ('repr', 'value')):
        cs = foreign_calls(fname)
        need(len(cs) == 1 and ast.unparse(cs[0].args[0]) == arg, 'collect_extra_debug_data: expected one %s(%s)' % (fname, arg))
        need('CException' in guard_of(cs[0], fname) or 'CBare' in guard_of(cs[0], fname),
             'collect_extra_debug_data: %s(%s) on a foreign object is not under `except Exception`' % (fname, arg))
    others = {ast.unparse(n.func) for n in ast.walk(cd) if isinstance(n, ast.Call)} - {'getattr', 'dir', 'repr', 'list', 'sys.exc_info',
              'stack.append', 'frame_locals.items'}
    need(not others, 'collect_extra_debug_data: calls the model does not know: %s' % sorted(others))
    digits = [c for c in range(0x110000) if chr(c).isdecimal()]
    need(all(_re.match(r'\d', chr(c)) for c in digits[:50]), 're \\d / isdecimal mismatch')
    # ---- CPython facts: str.strip() whitespace, capitalize() of the command ----
    ws = [c for c in range(0x110000) if chr(c).isspace()]
    need(all(len(chr(c).strip()) == 0 for c in ws), 'isspace/strip mismatch')
    for c in range(0x110000):
        ch_ = chr(c)
        low = ch_.lower()
        if low in ('i', 'n', 'g'):
            need(c < 128, 'non-ASCII code point %d lower-cases into "ing"' % c)
        if (ch_ + 'x').upper().capitalize()[:1] == 'P' and len((ch_ + 'x').upper().capitalize()) == 2:
            need(c in (80, 112), 'code point %d capitalises to P' % c)
    out = 'Require Import Base.Wire.\n'
    out += 'Inductive cls : Type := CBare | CException | CSocketTimeout | CSSLError | CSocketError | CExn (e : exn).\n'
    out += 'Definition READ_CATCHES : list cls := %s.\n' % clist(read_catches)
    out += 'Definition LOOP_GUARD_PARSE : list cls := %s.\n' % clist(guards['PARSE'])
    out += 'Definition LOOP_GUARD_FEED : list cls := %s.\n' % clist(guards['FEED'])
    out += 'Definition RUN_CATCHES : list cls := %s.\n' % clist(run_catches)
    out += 'Definition FIREWALL_CATCHES : list cls := %s.\n' % clist(fw_catches)
    out += 'Definition FEED_ADDMSG_CATCHES : list cls := %s.\n' % clist(inner['ADDMSG'])
    out += 'Definition FEED_INFILTER_CATCHES : list cls := %s.\n' % clist(inner['INFILTER'])
    out += 'Definition FEED_CALLBACK_CATCHES : list cls := %s.\n' % clist(inner['CALLBACK'])
    out += 'Definition IRC_FIREWALLED : list (list N) := %s.\n' % clist(cstr(n) for n, _, _ in irc_fw)
    out += 'Definition STATE_FIREWALLED : list (list N) := %s.\n' % clist(cstr(n) for n, _, _ in st_fw)
    out += 'Definition METAFIREWALL_MERGES_MRO : bool := %s.\n' % cbool(merge_mro)
    out += '(* (class, (bases, (MRO, own __firewalled__ keys if the class body has one))) *)\n'
    out += 'Definition PYCLASSES : list (list N * (list (list N) * (list (list N) * option (list (list N))))) :=\n  %s.\n' % clist(
        '(%s, (%s, (%s, %s)))' % (cstr(n), clist(cstr(b) for b in bs), clist(cstr(m) for m in mro),
                                  'None' if own is None else 'Some ' + clist(cstr(k) for k in own))
        for n, bs, mro, own in class_rows)
    out += 'Definition CALLBACK_FIREWALLED : list (list N * bool) :=\n  %s.\n' % clist(
        '(%s, %s)' % (cstr(n), cbool(h)) for n, h, _ in cb_fw)
    out += 'Definition NICK_SETTERS : list (list N) :=\n  %s.\n' % clist(cstr(x) for x in sorted(ns))
    out += 'Definition HELPER_GETATTR_CATCHES : list cls := %s.\n' % clist(helper_catches)
    out += 'Definition EXCEPTION_SITES : list N := %s.\n' % clist('%d' % s for s in sorted(EXC_SITES))
    out += 'Definition ISCHANNEL_NONE_SAFE : bool := %s.\n' % cbool(none_safe)
    out += 'Definition HANDLER_LOGS : list (N * (bool * (N * N))) :=\n  %s.\n' % clist(
        '(%d, (%s, (%d, %d)))' % (s, cbool(c), nd, na) for s, c, nd, na in logs)
    out += 'Definition FORMAT_CHARS : list N := %s.\n' % cstr(fmt_chars)
    out += 'Definition FORMAT_DIGITS : list N := %s.\n' % clist('%d' % c for c in digits)
    out += 'Definition TRUNCATE_ENCODES : bool := %s.\n' % cbool(trunc_encodes)
    out += 'Definition DECODE_HANDLERS : list (list N) := %s.\n' % clist(cstr(h) for h in dec_handlers)
    out += 'Definition PY_WS : list N := %s.\n' % clist('%d' % c for c in ws)
    return 'src/drivers/Socket.py src/drivers/__init__.py src/log.py src/irclib.py src/utils/str.py', out
