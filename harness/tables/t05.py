"""tables for C05 (src/ircmsgs.py)"""
import ast
from gen_tables import *  # noqa: F401,F403
from gen_tables import table, tree, module_assign, find_def, handler_names, need, cstr, clist, EXN


@table('T05')
def gen_T05():
    t = tree('src/ircmsgs.py')
    v = module_assign(t, 'SERVER_TAG_ESCAPE')
    pairs = ast.literal_eval(v)
    need(isinstance(pairs, list) and all(isinstance(p, tuple) and len(p) == 2 for p in pairs),
         'SERVER_TAG_ESCAPE is not a list of pairs')
    need(all(len(k) == 1 for k, _ in pairs), 'SERVER_TAG_ESCAPE key is not a single char')
    pat = module_assign(t, '_escape_sequence_pattern')
    need(ast.unparse(pat) == "re.compile('\\\\\\\\.?')", 'unescape regex changed: ' + ast.unparse(pat))
    # except clause of the string branch of IrcMsg.__init__
    init = find_def(t, '__init__', 'IrcMsg')
    trys = [n for n in ast.walk(init) if isinstance(n, ast.Try)]
    need(len(trys) == 1 and len(trys[0].handlers) == 1, 'IrcMsg.__init__: expected one try/except')
    caught = handler_names(trys[0].handlers[0])
    need(all(c in EXN for c in caught), 'IrcMsg.__init__ catches unknown exception: %r' % caught)
    fmt = [n for n in ast.walk(init) if isinstance(n, ast.Constant) and isinstance(n.value, str)
           and '%Y' in n.value]
    need(len(fmt) == 1 and fmt[0].value == '%Y-%m-%dT%H:%M:%S.%fZ', 'strptime format changed')
    # __str__: the cache self._str must hold exactly the string that is returned (tags included), and be
    # consulted first: the model's str_cached mirrors that shape
    st = find_def(t, '__str__', 'IrcMsg')
    body = [b for b in st.body if not (isinstance(b, ast.Expr) and isinstance(b.value, ast.Constant))]
    need(len(body) >= 4 and ast.unparse(body[0]) == 'if self._str is not None:\n    return self._str',
         'IrcMsg.__str__: cache lookup is not the first statement')
    tail = [ast.unparse(b) for b in body[-3:]]
    need(tail == ["if self.server_tags:\n    s = _format_server_tags(self.server_tags) + ' ' + s", 'self._str = s', 'return self._str'],
         'IrcMsg.__str__: expected `if self.server_tags: s = tags + s; self._str = s; return self._str` at the end, found %r' % tail)
    assigns = [n for n in ast.walk(st) if isinstance(n, ast.Assign) and any(ast.unparse(x) == 'self._str' for x in n.targets)]
    need(len(assigns) == 1, 'IrcMsg.__str__: self._str assigned %d times' % len(assigns))
    ln = find_def(t, '__len__', 'IrcMsg')
    need(ast.unparse(ln.body[-1]) == 'return len(str(self))', 'IrcMsg.__len__ changed')
    # the keyword branch must give every message built without tags its OWN empty dict: no mutable default argument
    # anywhere in the signature, and `if server_tags is None: self.server_tags = {}` in the body
    for d in init.args.defaults + [k for k in init.args.kw_defaults if k is not None]:
        need(isinstance(d, ast.Constant) or (isinstance(d, ast.Tuple) and not d.elts),
             'IrcMsg.__init__: mutable default argument %s' % ast.unparse(d))
    need("if server_tags is None:\n    self.server_tags = {}\nelse:\n    self.server_tags = server_tags" in
         [ast.unparse(n) for n in ast.walk(init) if isinstance(n, ast.If)],
         'IrcMsg.__init__: untagged keyword-built messages no longer get a fresh server_tags dict')
    # ---- the tail of IrcMsg.__init__ (outside the try): nick/user/host from the prefix ----
    tail = [ast.unparse(b) for b in init.body[-1:]]
    need(tail == ['if isUserHostmask(self.prefix):\n    self.nick, self.user, self.host = ircutils.splitHostmask(self.prefix)\n'
                  'else:\n    self.nick, self.user, self.host = (self.prefix,) * 3'],
         'IrcMsg.__init__: the nick/user/host split at the end changed: %r' % tail)
    imp = [ast.unparse(n) for n in t.body if isinstance(n, (ast.Assign, ast.ImportFrom)) and 'isUserHostmask' in ast.unparse(n)]
    need(imp == ['isUserHostmask = ircutils.isUserHostmask'] or any('isUserHostmask' in i and 'ircutils' in i for i in imp),
         'ircmsgs.isUserHostmask is not ircutils.isUserHostmask: %r' % imp)
    u = tree('src/ircutils.py')
    rx = module_assign(u, 'userHostmaskRe')
    need(ast.unparse(rx) == "re.compile('^\\\\S+!\\\\S+@\\\\S+$')", 'userHostmaskRe changed: ' + ast.unparse(rx))
    iu = find_def(u, 'isUserHostmask')
    body = [b for b in iu.body if not (isinstance(b, ast.Expr) and isinstance(b.value, ast.Constant))]
    need([ast.unparse(b) for b in body] == ['return userHostmaskRe.match(s) is not None'], 'isUserHostmask changed')
    sh = find_def(u, 'splitHostmask')
    body = [b for b in sh.body if not (isinstance(b, ast.Expr) and isinstance(b.value, ast.Constant))]
    need(len(body) == 4 and ast.unparse(body[0]) == 'assert isUserHostmask(hostmask)', 'splitHostmask: expected assert + two splits + return')

    def one_split(st):
        # `x, y = src.split|rsplit('<c>', 1)` -> (x, y, src, rsplit?, c)
        need(isinstance(st, ast.Assign) and len(st.targets) == 1 and isinstance(st.targets[0], ast.Tuple)
             and len(st.targets[0].elts) == 2 and all(isinstance(e, ast.Name) for e in st.targets[0].elts),
             'splitHostmask: not a two-name unpacking: ' + ast.unparse(st))
        c = st.value
        need(isinstance(c, ast.Call) and isinstance(c.func, ast.Attribute) and c.func.attr in ('split', 'rsplit')
             and isinstance(c.func.value, ast.Name) and len(c.args) == 2 and not c.keywords
             and isinstance(c.args[0], ast.Constant) and isinstance(c.args[0].value, str) and len(c.args[0].value) == 1
             and isinstance(c.args[1], ast.Constant) and c.args[1].value == 1,
             'splitHostmask: not a src.(r)split(<char>, 1): ' + ast.unparse(st))
        return (st.targets[0].elts[0].id, st.targets[0].elts[1].id, c.func.value.id, c.func.attr == 'rsplit', c.args[0].value)
    a1, b1, src1, r1, c1 = one_split(body[1])
    a2, b2, src2, r2, c2 = one_split(body[2])
    need(src1 == 'hostmask' and src2 in (a1, b1) and len({a1, b1, a2, b2}) == 4, 'splitHostmask: unexpected data flow')
    right = src2 == b1
    pieces = [a1, a2, b2] if right else [a2, b2, b1]          # left-to-right pieces of the hostmask
    need(ast.unparse(body[3]) == 'return (minisix.intern(%s), minisix.intern(%s), minisix.intern(%s))' % tuple(pieces),
         'splitHostmask: the result is not the three pieces in order: ' + ast.unparse(body[3]))
    # ---- drivers.parseMsg: strip(), then IrcMsg(s) or None ----
    dr = tree('src/drivers/__init__.py')
    pm = find_def(dr, 'parseMsg')
    body = [b for b in pm.body if not (isinstance(b, ast.Expr) and isinstance(b.value, ast.Constant))]
    need([ast.unparse(b) for b in body] == ['s = s.strip()', 'if s:\n    msg = ircmsgs.IrcMsg(s)\n    return msg\nelse:\n    return None'],
         'drivers.parseMsg changed: %r' % [ast.unparse(b) for b in body])
    import re as _re
    ws = [i for i in range(0x110000) if 0xD800 > i or i > 0xDFFF if _re.match(r'\s', chr(i))]
    # the same set serves str.strip() in parseMsg: check that the running Python agrees
    need(all((chr(i).strip() == '') == (i in set(ws)) for i in list(range(0x3100)) + [0xFEFF, 0x1D7CE]), 're \\s and str.strip() whitespace differ')
    out = 'Require Import Base.Wire.\n'
    out += 'Definition WHITESPACE : list N := %s.\n' % clist('%d' % i for i in ws)
    out += 'Definition SPLIT1 : bool * N := (%s, %d).\n' % ('true' if r1 else 'false', ord(c1))
    out += 'Definition SPLIT2 : bool * N * bool := (%s, %d, %s).\n' % ('true' if r2 else 'false', ord(c2), 'true' if right else 'false')
    out += 'Definition SERVER_TAG_ESCAPE : list (N * list N) :=\n  %s.\n' % clist(
        '(%d, %s)' % (ord(k), cstr(img)) for k, img in pairs)
    out += 'Definition STR_CACHES_RETURNED_STRING : bool := true.\n'
    out += 'Definition PARSE_CATCHES : list exn := %s.\n' % clist(EXN[c] for c in caught)
    return 'src/ircmsgs.py', out
