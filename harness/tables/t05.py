"""tables for C05 (src/ircmsgs.py)"""
import ast
from gen_tables import *  # noqa: F401,F403
from gen_tables import table, tree, module_assign, find_def, handler_names, need, cstr, clist, EXN


@table('T05')
def gen_T05():
    t = tree('src/ircmsgs.py')
    v = module_assign(t, 'SERVER_TAG_ESCAPE')
    pairs = ast.literal_eval(v)
    need(isinstance(pairs, list) and all(isinstance(p, tuple) and len(p) == 2 for p in pairs),
         'SERVER_TAG_ESCAPE is not a list of pairs')
    need(all(len(k) == 1 for k, _ in pairs), 'SERVER_TAG_ESCAPE key is not a single char')
    pat = module_assign(t, '_escape_sequence_pattern')
    need(ast.unparse(pat) == "re.compile('\\\\\\\\.?')", 'unescape regex changed: ' + ast.unparse(pat))
    # except clause of the string branch of IrcMsg.__init__
    init = find_def(t, '__init__', 'IrcMsg')
    trys = [n for n in ast.walk(init) if isinstance(n, ast.Try)]
    need(len(trys) == 1 and len(trys[0].handlers) == 1, 'IrcMsg.__init__: expected one try/except')
    caught = handler_names(trys[0].handlers[0])
    need(all(c in EXN for c in caught), 'IrcMsg.__init__ catches unknown exception: %r' % caught)
    fmt = [n for n in ast.walk(init) if isinstance(n, ast.Constant) and isinstance(n.value, str)
           and '%Y' in n.value]
    need(len(fmt) == 1 and fmt[0].value == '%Y-%m-%dT%H:%M:%S.%fZ', 'strptime format changed')
    # __str__: the cache self._str must hold exactly the string that is returned (tags included), and be
    # consulted first: the model's str_cached mirrors that shape
    st = find_def(t, '__str__', 'IrcMsg')
    body = [b for b in st.body if not (isinstance(b, ast.Expr) and isinstance(b.value, ast.Constant))]
    need(len(body) >= 4 and ast.unparse(body[0]) == 'if self._str is not None:\n    return self._str',
         'IrcMsg.__str__: cache lookup is not the first statement')
    tail = [ast.unparse(b) for b in body[-3:]]
    need(tail == ["if self.server_tags:\n    s = _format_server_tags(self.server_tags) + ' ' + s", 'self._str = s', 'return self._str'],
         'IrcMsg.__str__: expected `if self.server_tags: s = tags + s; self._str = s; return self._str` at the end, found %r' % tail)
    assigns = [n for n in ast.walk(st) if isinstance(n, ast.Assign) and any(ast.unparse(x) == 'self._str' for x in n.targets)]
    need(len(assigns) == 1, 'IrcMsg.__str__: self._str assigned %d times' % len(assigns))
    ln = find_def(t, '__len__', 'IrcMsg')
    need(ast.unparse(ln.body[-1]) == 'return len(str(self))', 'IrcMsg.__len__ changed')
    # the keyword branch must give every message built without tags its OWN empty dict: no mutable default argument
    # anywhere in the signature, and `if server_tags is None: self.server_tags = {}` in the body
    for d in init.args.defaults + [k for k in init.args.kw_defaults if k is not None]:
        need(isinstance(d, ast.Constant) or (isinstance(d, ast.Tuple) and not d.elts),
             'IrcMsg.__init__: mutable default argument %s' % ast.unparse(d))
    need("if server_tags is None:\n    self.server_tags = {}\nelse:\n    self.server_tags = server_tags" in
         [ast.unparse(n) for n in ast.walk(init) if isinstance(n, ast.If)],
         'IrcMsg.__init__: untagged keyword-built messages no longer get a fresh server_tags dict')
    out = 'Require Import Base.Wire.\n'
    out += 'Definition SERVER_TAG_ESCAPE : list (N * list N) :=\n  %s.\n' % clist(
        '(%d, %s)' % (ord(k), cstr(img)) for k, img in pairs)
    out += 'Definition STR_CACHES_RETURNED_STRING : bool := true.\n'
    out += 'Definition PARSE_CATCHES : list exn := %s.\n' % clist(EXN[c] for c in caught)
    return 'src/ircmsgs.py', out
