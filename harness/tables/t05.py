"""tables for C05 (src/ircmsgs.py)"""
import ast
from gen_tables import *  # noqa: F401,F403
from gen_tables import table, tree, module_assign, find_def, handler_names, need, cstr, clist, EXN


@table('T05')
def gen_T05():
    t = tree('src/ircmsgs.py')
    v = module_assign(t, 'SERVER_TAG_ESCAPE')
    pairs = ast.literal_eval(v)
    need(isinstance(pairs, list) and all(isinstance(p, tuple) and len(p) == 2 for p in pairs),
         'SERVER_TAG_ESCAPE is not a list of pairs')
    need(all(len(k) == 1 for k, _ in pairs), 'SERVER_TAG_ESCAPE key is not a single char')
    pat = module_assign(t, '_escape_sequence_pattern')
    need(ast.unparse(pat) == "re.compile('\\\\\\\\.?')", 'unescape regex changed: ' + ast.unparse(pat))
    # except clause of the string branch of IrcMsg.__init__
    init = find_def(t, '__init__', 'IrcMsg')
    trys = [n for n in ast.walk(init) if isinstance(n, ast.Try)]
    need(len(trys) == 1 and len(trys[0].handlers) == 1, 'IrcMsg.__init__: expected one try/except')
    caught = handler_names(trys[0].handlers[0])
    need(all(c in EXN for c in caught), 'IrcMsg.__init__ catches unknown exception: %r' % caught)
    fmt = [n for n in ast.walk(init) if isinstance(n, ast.Constant) and isinstance(n.value, str)
           and '%Y' in n.value]
    need(len(fmt) == 1 and fmt[0].value == '%Y-%m-%dT%H:%M:%S.%fZ', 'strptime format changed')
    out = 'Require Import Base.Wire.\n'
    out += 'Definition SERVER_TAG_ESCAPE : list (N * list N) :=\n  %s.\n' % clist(
        '(%d, %s)' % (ord(k), cstr(img)) for k, img in pairs)
    out += 'Definition PARSE_CATCHES : list exn := %s.\n' % clist(EXN[c] for c in caught)
    return 'src/ircmsgs.py', out
