"""tables for C11 (src/drivers/Socket.py, src/drivers/__init__.py, src/utils/str.py)"""
import ast
from gen_tables import table, tree, find_def, need, clist, cN, handler_names, EXN


def _int_compares(fn, op):
    out = []
    for n in ast.walk(fn):
        if isinstance(n, ast.Compare) and len(n.ops) == 1 and isinstance(n.ops[0], op) \
                and isinstance(n.comparators[0], ast.Constant) and type(n.comparators[0].value) is int:
            out.append((ast.unparse(n.left), n.comparators[0].value))
    return out


@table('T11')
def gen_T11():
    t = tree('src/drivers/Socket.py')
    # _handleSocketError: `e.args[0] != 11 or self.eagains > 120`
    h = find_def(t, '_handleSocketError', 'SocketDriver')
    ne = _int_compares(h, ast.NotEq)
    gt = _int_compares(h, ast.Gt)
    need(len(ne) == 1 and ne[0][0] == 'e.args[0]', '_handleSocketError: expected one `e.args[0] != <int>`, got %r' % (ne,))
    need(len(gt) == 1 and gt[0][0] == 'self.eagains', '_handleSocketError: expected one `self.eagains > <int>`, got %r' % (gt,))
    # the out-buffer holds BYTES (repair of C11.F11): initialised to a bytes constant, sent as it is, sliced by
    # the count send() returned
    init = find_def(t, '__init__', 'SocketDriver')
    obs = [n.value for n in ast.walk(init) if isinstance(n, ast.Assign) and len(n.targets) == 1
           and ast.unparse(n.targets[0]) == 'self.outbuffer']
    need(len(obs) == 1 and isinstance(obs[0], ast.Constant) and isinstance(obs[0].value, bytes) and obs[0].value == b'',
         "SocketDriver.__init__: expected `self.outbuffer = b''` (the model's out-buffer is bytes), got %r"
         % ([ast.unparse(o) for o in obs],))
    sm = find_def(t, '_sendIfMsgs', 'SocketDriver')
    sends = [ast.unparse(n.args[0]) for n in ast.walk(sm)
             if isinstance(n, ast.Call) and ast.unparse(n.func) == 'self.conn.send' and len(n.args) == 1]
    need(sends == ['self.outbuffer'], '_sendIfMsgs: expected exactly one self.conn.send(self.outbuffer), got %r' % (sends,))
    slices = [ast.unparse(n.value) for n in ast.walk(sm) if isinstance(n, ast.Assign) and len(n.targets) == 1
              and ast.unparse(n.targets[0]) == 'self.outbuffer']
    need(slices == ['self.outbuffer[sent:]'], '_sendIfMsgs: expected `self.outbuffer = self.outbuffer[sent:]`, got %r' % (slices,))
    # EAGAIN accounting (seeded change C11_7): the counter is reset by every successful send() and every successful
    # recv(), so _handleSocketError counts CONSECUTIVE EAGAINs.  Pin the send block statement by statement.
    stry = [n for n in ast.walk(sm) if isinstance(n, ast.Try)
            and any(isinstance(c, ast.Call) and ast.unparse(c.func) == 'self.conn.send' for c in ast.walk(n))]
    need(len(stry) == 1, '_sendIfMsgs: expected exactly one try around self.conn.send, got %d' % len(stry))
    body = [ast.unparse(b) for b in stry[0].body]
    need(body == ['sent = self.conn.send(self.outbuffer)', 'self.outbuffer = self.outbuffer[sent:]', 'self.eagains = 0'],
         '_sendIfMsgs: the try body is no longer send / slice / `self.eagains = 0`: %r' % (body,))
    need(not stry[0].orelse and not stry[0].finalbody and len(stry[0].handlers) == 1
         and handler_names(stry[0].handlers[0]) == ['socket.error']
         and [ast.unparse(b) for b in stry[0].handlers[0].body] == ['self._handleSocketError(e)'],
         '_sendIfMsgs: expected `except socket.error as e: self._handleSocketError(e)` and no else/finally')
    rd = find_def(t, '_read', 'SocketDriver')
    resets = [ast.unparse(b) for n in ast.walk(rd) if isinstance(n, ast.Try) for b in n.body]
    need('self.inbuffer += new_data' in resets and 'self.eagains = 0' in resets
         and resets.index('self.eagains = 0') == resets.index('self.inbuffer += new_data') + 1,
         '_read: `self.eagains = 0` no longer follows `self.inbuffer += new_data`')
    hbody = [ast.unparse(b) for n in ast.walk(h) if isinstance(n, ast.If) for b in n.orelse]
    need('self.eagains += 1' in hbody, '_handleSocketError: the else branch no longer does `self.eagains += 1`: %r' % (hbody,))
    # reconnect() (repair of C11.F47): what is buffered for / from the old connection and the EAGAIN count are dropped,
    # unconditionally (top-level statements), before a new socket is obtained and before the wait=True early return
    rc = find_def(t, 'reconnect', 'SocketDriver')
    top = [ast.unparse(b) if isinstance(b, (ast.Assign, ast.AugAssign)) else type(b).__name__ for b in rc.body]
    resets_rc = ["self.inbuffer = b''", "self.outbuffer = b''", 'self.eagains = 0']
    need(all(x in top for x in resets_rc), 'reconnect(): expected the top-level statements %r, got %r' % (resets_rc, top))
    sock_at = [i for i, b in enumerate(rc.body) if 'utils.net.getSocket' in ast.unparse(b)]
    wait_at = [i for i, b in enumerate(rc.body) if isinstance(b, ast.If) and ast.unparse(b.test) == 'wait']
    need(len(sock_at) == 1 and len(wait_at) == 1, 'reconnect(): expected one statement calling utils.net.getSocket and one `if wait:`')
    need(max(top.index(x) for x in resets_rc) < min(sock_at[0], wait_at[0]),
         'reconnect(): the buffers are no longer reset before `if wait:` / utils.net.getSocket')
    others = [ast.unparse(n) for n in ast.walk(rc) if isinstance(n, (ast.Assign, ast.AugAssign))
              and any(ast.unparse(x) in ('self.inbuffer', 'self.outbuffer', 'self.eagains')
                      for x in (n.targets if isinstance(n, ast.Assign) else [n.target]))]
    need(sorted(others) == sorted(resets_rc), 'reconnect(): other assignments to the buffers / EAGAIN count: %r' % (others,))
    # _read: the statements from recv() to the per-line loop, one by one (seeded change C11_8 put a length guard on the
    # remainder between `lines.pop()` and the loop): nothing but accumulate / split / keep the last piece may happen there
    rtry = [n for n in ast.walk(rd) if isinstance(n, ast.Try)
            and any(isinstance(c, ast.Call) and ast.unparse(c.func) == 'self.conn.recv' for b in n.body for c in ast.walk(b))]
    need(len(rtry) == 1, '_read: expected exactly one try containing self.conn.recv, got %d' % len(rtry))
    rb = rtry[0].body
    shape = [ast.unparse(b) if isinstance(b, (ast.Assign, ast.AugAssign, ast.Expr)) else type(b).__name__ for b in rb]
    want = ['new_data = self.conn.recv(1024)', 'If', 'self.inbuffer += new_data', 'self.eagains = 0',
            "lines = self.inbuffer.split(b'\\n')", 'self.inbuffer = lines.pop()', 'For']
    need(shape == want, '_read: statements between recv() and the per-line loop changed: %r' % (shape,))
    need(ast.unparse(rb[1].test) == 'not new_data' and not rb[1].orelse
         and [ast.unparse(b) for b in rb[1].body] == ['self._handleSocketError(None)', 'return'],
         '_read: the closed-socket test changed: %s' % ast.unparse(rb[1]))
    need(ast.unparse(rb[6].target) == 'line' and ast.unparse(rb[6].iter) == 'lines' and not rb[6].orelse,
         '_read: the per-line loop is no longer `for line in lines`')
    inb = [ast.unparse(n) for n in ast.walk(rd) if isinstance(n, (ast.Assign, ast.AugAssign))
           and any('self.inbuffer' == ast.unparse(t) for t in (n.targets if isinstance(n, ast.Assign) else [n.target]))]
    need(inb == ['self.inbuffer += new_data', 'self.inbuffer = lines.pop()'],
         '_read: self.inbuffer is assigned somewhere else: %r' % (inb,))
    # _read: the line separator of the split and the recv size
    r = find_def(t, '_read', 'SocketDriver')
    seps = [n.args[0].value for n in ast.walk(r)
            if isinstance(n, ast.Call) and isinstance(n.func, ast.Attribute) and n.func.attr == 'split'
            and len(n.args) == 1 and isinstance(n.args[0], ast.Constant)]
    need(len(seps) == 1 and isinstance(seps[0], bytes) and len(seps[0]) == 1,
         '_read: expected exactly one .split(<one byte>) call, got %r' % (seps,))
    recvs = [n.args[0].value for n in ast.walk(r)
             if isinstance(n, ast.Call) and isinstance(n.func, ast.Attribute) and n.func.attr == 'recv'
             and len(n.args) == 1 and isinstance(n.args[0], ast.Constant)]
    need(len(recvs) == 1 and type(recvs[0]) is int, '_read: expected one recv(<int>) call, got %r' % (recvs,))
    # _read: the try around drivers.parseMsg(line) inside the for loop (repair of C07.F4): which exceptions make
    # the loop skip the line (`continue`) instead of leaving _read
    trys = [n for n in ast.walk(r) if isinstance(n, ast.Try)
            and any(isinstance(c, ast.Call) and ast.unparse(c.func) == 'drivers.parseMsg' for b in n.body for c in ast.walk(b))
            and len(n.body) == 1]
    need(len(trys) == 1, '_read: expected exactly one try whose body is the drivers.parseMsg(line) statement, got %d' % len(trys))
    tr = trys[0]
    need(len(tr.handlers) == 1 and not tr.orelse and not tr.finalbody, '_read: try around parseMsg: expected one except clause only')
    need(isinstance(tr.handlers[0].body[-1], ast.Continue), '_read: the except clause around parseMsg no longer ends in `continue`')
    loops = [n for n in ast.walk(r) if isinstance(n, ast.For) and tr in n.body]
    need(len(loops) == 1 and ast.unparse(loops[0].iter) == 'lines', '_read: the try around parseMsg is not directly in `for line in lines`')
    hn = handler_names(tr.handlers[0])
    cmap = {'ircmsgs.MalformedIrcMsg': 'MalformedIrcMsg', 'MalformedIrcMsg': 'MalformedIrcMsg'}
    cmap.update(EXN)
    need(all(h in cmap for h in hn), '_read: except clause around parseMsg catches something the model cannot name: %r' % (hn,))
    # decode_raw_line: the charade branch must be off (module absent), else decoding is a third-party guess
    u = tree('src/utils/str.py')
    imports = [n for n in ast.walk(u) if isinstance(n, ast.ImportFrom) and n.module and 'universaldetector' in n.module]
    need(len(imports) == 1, 'utils/str.py: expected one universaldetector import, got %d' % len(imports))
    import importlib.util
    top = imports[0].module.split('.')[0]
    try:
        present = importlib.util.find_spec(top) is not None
    except Exception:
        present = False
    need(not present, 'module %s is importable: decode_raw_line would guess encodings (not modelled)' % top)
    # str.strip() of drivers.parseMsg: Python's whitespace set (data of CPython)
    d = tree('src/drivers/__init__.py')
    pm = find_def(d, 'parseMsg')
    strips = [n for n in ast.walk(pm) if isinstance(n, ast.Call) and isinstance(n.func, ast.Attribute)
              and n.func.attr == 'strip']
    need(len(strips) == 1 and not strips[0].args, 'parseMsg: expected one argument-less .strip()')
    ws = [c for c in range(0x110000) if chr(c).isspace()]
    out = 'Definition EAGAIN : N := %s.\n' % cN(ne[0][1])
    out += 'Definition EAGAIN_MAX : N := %s.\n' % cN(gt[0][1])
    out += 'Definition LINE_SEP : N := %s.\n' % cN(seps[0][0])
    out += 'Definition RECV_SIZE : N := %s.\n' % cN(recvs[0])
    out += 'Definition OUTBUFFER_IS_BYTES : bool := true.\n'
    out += 'Require Import Base.Wire.\nDefinition READ_CATCHES : list exn := %s.\n' % clist(cmap[h] for h in hn)
    out += 'Definition RECONNECT_RESETS : bool := true.\n'
    out += 'Definition WHITESPACE : list N := %s.\n' % clist(cN(c) for c in ws)
    return 'src/drivers/Socket.py src/drivers/__init__.py src/utils/str.py', out
