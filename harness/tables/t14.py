"""tables for C14 (src/callbacks.py, plugins/Owner/plugin.py, src/conf.py)"""
import ast
from gen_tables import table, tree, find_def, find_class, need, cstr, clist


def _strs(node):
    return [n.value for n in ast.walk(node) if isinstance(n, ast.Constant) and isinstance(n.value, str)]


def constants():
    """the constants the model and the harness canonicaliser share (fail-closed ast extraction)"""
    t = tree('src/callbacks.py')
    # canonicalName: special = '\t-_' ; special += ' '
    cn = find_def(t, 'canonicalName')
    special = None
    for n in ast.walk(cn):
        if isinstance(n, ast.Assign) and isinstance(n.targets[0], ast.Name) and n.targets[0].id == 'special':
            special = n.value
    need(isinstance(special, ast.Constant) and isinstance(special.value, str), 'canonicalName: special is not a literal')
    aug = [n for n in ast.walk(cn) if isinstance(n, ast.AugAssign) and isinstance(n.target, ast.Name) and n.target.id == 'special']
    need(len(aug) == 1 and isinstance(aug[0].value, ast.Constant) and aug[0].value.value == ' ',
         "canonicalName: expected special += ' '")
    need(any(isinstance(n, ast.Attribute) and n.attr == 'lower' for n in ast.walk(cn)), 'canonicalName: no .lower()')
    # _makeReply: 'Error: ' prefix and the empty-message text
    mr = find_def(t, '_makeReply')
    s = _strs(mr)
    need('Error: ' in s, "_makeReply: no 'Error: ' prefix")
    empty = [x for x in s if 'empty message' in x]
    need(len(empty) == 1, '_makeReply: empty-message text not found')
    # NestedCommandsIrcProxy.__init__: the nesting check and its message
    init = find_def(t, '__init__', 'NestedCommandsIrcProxy')
    deep = [x for x in _strs(init) if 'more nesting' in x]
    need(len(deep) == 1, 'nesting refusal text not found')
    src_init = ast.unparse(init)
    need('if maxNesting and self.nested > maxNesting' in src_init, 'nesting check changed: expected `maxNesting and self.nested > maxNesting`')
    need('nested=self.nested + 1' in ast.unparse(find_def(t, 'evalArgs', 'NestedCommandsIrcProxy')), 'evalArgs: child nested != self.nested+1')
    # finalEval ambiguity message
    fe = find_def(t, 'finalEval', 'NestedCommandsIrcProxy')
    amb = [x for x in _strs(fe) if 'is available in the' in x]
    need(len(amb) == 1, 'ambiguity message not found')
    # findCallbacksForArgs: the one-argument special case
    fc = ast.unparse(find_def(t, 'findCallbacksForArgs', 'NestedCommandsIrcProxy'))
    need('if len(maxL) == 1' in fc and ('if L and L >= maxL' in fc or 'if L and len(L) >= len(maxL)' in fc) and 'if len(importants) == 1' in fc,
         'findCallbacksForArgs: shape changed')
    # Commands.getCommand shape
    gc = ast.unparse(find_def(t, 'getCommand', 'Commands'))
    need('if first == self.canonicalName() and len(args) > 1 and stripOwnName' in gc and 'stripOwnName=False' in gc,
         'Commands.getCommand: shape changed')
    # Owner: registerDefaultPlugin(...) calls at module level
    ot = tree('plugins/Owner/plugin.py')
    defaults = []
    for node in ot.body:
        if isinstance(node, ast.Expr) and isinstance(node.value, ast.Call) and \
                isinstance(node.value.func, ast.Name) and node.value.func.id == 'registerDefaultPlugin':
            a = node.value.args
            need(len(a) == 2 and all(isinstance(x, ast.Constant) and isinstance(x.value, str) for x in a),
                 'registerDefaultPlugin call with non-literal arguments')
            defaults.append((a[0].value, a[1].value))
    need(defaults, 'no registerDefaultPlugin calls in Owner')
    # Owner.disable: the commands that cannot be disabled; Owner.enable: in-memory table first, registry second
    oc = find_class(ot, 'Owner')
    dis = [n for n in oc.body if isinstance(n, ast.FunctionDef) and n.name == 'disable']
    ena = [n for n in oc.body if isinstance(n, ast.FunctionDef) and n.name == 'enable']
    need(len(dis) == 1 and len(ena) == 1, 'Owner.disable/enable not found')
    tup = [n for n in ast.walk(dis[0]) if isinstance(n, ast.Compare) and isinstance(n.ops[0], ast.In)
           and isinstance(n.comparators[0], ast.Tuple)]
    need(len(tup) == 1 and all(isinstance(e, ast.Constant) for e in tup[0].comparators[0].elts), 'Owner.disable: undisablable tuple not found')
    undis = [e.value for e in tup[0].comparators[0].elts]
    dsrc = ast.unparse(dis[0])
    need('plugin.isCommand(command)' in dsrc and "conf.supybot.commands.disabled().add" in dsrc and '_disabled.add(command' in dsrc,
         'Owner.disable: shape changed')
    esrc = ast.unparse(ena[0])
    i1, i2 = esrc.find('_disabled.remove('), esrc.find('conf.supybot.commands.disabled().remove(')
    need(0 <= i1 < i2 and 'except KeyError' in esrc, 'Owner.enable: expected _disabled.remove before the registry removal, inside try/except KeyError')
    # Python stack: the source never changes the interpreter's recursion limit; every evaluated sub-command keeps
    # at most FRAMES_PER_SUB frames on the stack (evalArgs, __init__, evalArgs, finalEval, firewall wrapper,
    # _callCommand, synchronized wrapper, callCommand, the command, reply, reply (+2 for a noReply/nested turn));
    # FRAMES_RESERVE covers the caller (driver loop / harness), the root proxy and the final reply + logging.
    # The harness re-measures both on the live bot on every run.
    import sys as _sys, os as _os, gen_tables as _gt
    for root, _dirs, files in _os.walk(_os.path.join(_gt.REPO, 'src')):
        for fn in files:
            if fn.endswith('.py'):
                need('setrecursionlimit' not in open(_os.path.join(root, fn), encoding='utf-8', errors='replace').read(),
                     'the source changes the recursion limit in %s' % fn)
    cmds = find_class(t, 'Commands')
    csrc = ast.unparse(cmds)
    need("'_callCommand': None" in csrc and "'callCommand'" in csrc, 'Commands: firewalled/synchronized wrappers changed')
    frames_per_sub, frames_reserve = 13, 200
    limit = _sys.getrecursionlimit()
    need(limit > frames_reserve + frames_per_sub, 'recursion limit too small: %d' % limit)
    stack_safe = (limit - frames_reserve) // frames_per_sub
    # conf.py: supybot.commands.nested.maximum default
    ct = tree('src/conf.py')
    mx = None
    for node in ast.walk(ct):
        if isinstance(node, ast.Call) and isinstance(node.func, ast.Name) and node.func.id == 'registerGlobalValue' \
                and len(node.args) >= 3 and isinstance(node.args[1], ast.Constant) and node.args[1].value == 'maximum' \
                and 'commands.nested' in ast.unparse(node.args[0]):
            v = node.args[2]
            need(isinstance(v, ast.Call) and v.args and isinstance(v.args[0], ast.Constant) and isinstance(v.args[0].value, int),
                 'nested.maximum default is not a literal')
            mx = v.args[0].value
    need(mx is not None, 'supybot.commands.nested.maximum registration not found')
    return {'special': special.value, 'error_prefix': 'Error: ', 'empty_msg': empty[0], 'too_deep': deep[0],
            'ambiguous': amb[0], 'defaults': defaults, 'nested_max': mx, 'undisablable': undis,
            'recursion_limit': limit, 'frames_per_sub': frames_per_sub, 'frames_reserve': frames_reserve, 'stack_safe_subs': stack_safe}


@table('T14')
def gen_T14():
    c = constants()
    # DisabledCommands: everywhere-entries and per-plugin entries are kept apart (repair of C14.F24)
    dc = ast.unparse(find_class(tree('src/callbacks.py'), 'DisabledCommands'))
    for frag in ('self.everywhere = CanonicalNameSet()', 'if command in self.everywhere:', 'self.everywhere.add(command)',
                 'self.everywhere.remove(command)', 'self.d[command].remove(plugin)', 'self.d[command].add(plugin)',
                 'self.d[command] = CanonicalNameSet([plugin])', 'self.d = CanonicalNameDict()', 'self.add(command, plugin)',
                 "plugin, command = name.split('.', 1)"):
        need(frag in dc, 'DisabledCommands: shape changed (missing %r)' % frag)
    need('= None' not in dc.replace('plugin=None', ''), 'DisabledCommands: the d[command] = None representation is back')
    # the 'ignored' tag (Utilities.ignore): noReply on a not-yet-evaluated proxy pops the bracket and clears the tag
    # BEFORE it resumes evalArgs; reply on such a proxy drops the reply when the tag is set, and clears it
    cb_t = tree('src/callbacks.py')
    nr = find_def(cb_t, 'noReply', 'NestedCommandsIrcProxy')
    top_if = [n for n in nr.body if isinstance(n, ast.If) and ast.unparse(n.test) == 'self.finalEvaled']
    need(len(top_if) == 1 and nr.body[-1] is top_if[0], 'noReply: expected a final `if self.finalEvaled:` ... else')
    els = [ast.unparse(x) for x in top_if[0].orelse]
    need(els == ['self.args.pop(self.counter)', "msg.tag('ignored', False)", 'self.evalArgs()'],
         'noReply (not yet evaluated): expected pop, msg.tag(\'ignored\', False), evalArgs in this order, got %r' % els)
    fin = ast.unparse(top_if[0].body[0]) if top_if[0].body else ''
    need("msg.tag('ignored', True)" in fin and 'self.irc.noReply(msg=msg)' in fin, 'noReply (evaluated): shape changed')
    rp = find_def(cb_t, 'reply', 'NestedCommandsIrcProxy')
    ign_ifs = [n for n in ast.walk(rp) if isinstance(n, ast.If) and ast.unparse(n.test) == 'msg.ignored']
    need(len(ign_ifs) == 1, 'reply: expected exactly one `if msg.ignored:`')
    need([ast.unparse(x) for x in ign_ifs[0].body] == ['self.args.pop(self.counter)', "msg.tag('ignored', False)"]
         and [ast.unparse(x) for x in ign_ifs[0].orelse] == ['self.args[self.counter] = s'],
         'reply: the msg.ignored branch changed')
    outer = [n for n in ast.walk(rp) if isinstance(n, ast.If) and ast.unparse(n.test) == 'self.finalEvaled']
    need(len(outer) == 1 and len(outer[0].orelse) == 2 and outer[0].orelse[0] is ign_ifs[0]
         and ast.unparse(outer[0].orelse[1]) == 'self.evalArgs()', 'reply (not yet evaluated): expected the msg.ignored test, then evalArgs')
    # reply() on an evaluated proxy: hand the text to the parent proxy FIRST; the noLengthCheck test comes second (root only)
    need(len(outer[0].body) == 1 and isinstance(outer[0].body[0], ast.Try), 'reply (evaluated): expected one try/finally')
    first = outer[0].body[0].body[0]
    need(isinstance(first, ast.If) and ast.unparse(first.test) == 'isinstance(self.irc, self.__class__)'
         and 'return self.irc.reply(s, noLengthCheck=self.noLengthCheck, **replyArgs)' in ast.unparse(first),
         'reply (evaluated): the first test must be isinstance(self.irc, self.__class__) handing the text to the parent proxy')
    need(len(first.orelse) == 1 and isinstance(first.orelse[0], ast.If) and ast.unparse(first.orelse[0].test) == 'self.noLengthCheck',
         'reply (evaluated): expected `elif self.noLengthCheck:` second')
    rsrc = ast.unparse(rp)
    for frag in ('self.action = self.action or action', 'self.notice = self.notice or notice', 'self.private = self.private or private',
                 'self.noLengthCheck = noLengthCheck or self.noLengthCheck or self.action',
                 'replyArgs = dict(to=self.to, notice=self.notice, action=self.action, private=self.private, prefixNick=self.prefixNick, stripCtcp=stripCtcp)'):
        need(frag in rsrc, 'reply: sticky attribute update changed (missing %r)' % frag)
    need('self.to = self.to or to' in ast.unparse(find_def(cb_t, '_getTarget', 'RichReplyMethods')), '_getTarget: self.to update changed')
    ut = tree('plugins/Utilities/plugin.py')
    ig = find_def(ut, 'ignore', 'Utilities')
    need([ast.unparse(x) for x in ig.body[1:]] == ["msg.tag('ignored')", 'irc.noReply()'], 'Utilities.ignore: shape changed')
    # repairs C14.F26 / C14.F28: the capability check compares the canonical plugin name _callCommand used; setting
    # supybot.commands.disabled rebuilds the table behind Commands.isDisabled
    need('plugin = cb.canonicalName()' in ast.unparse(find_def(cb_t, 'checkCommandCapability')),
         'checkCommandCapability: expected plugin = cb.canonicalName()')
    need('[self.canonicalName()] + command' in ast.unparse(find_def(cb_t, '_callCommand', 'Commands')), '_callCommand: full command name changed')
    msrc = ast.unparse(cb_t)
    need('conf.supybot.commands.disabled.addCallback(_reloadDisabledCommands)' in msrc and
         'Commands._disabled = DisabledCommands()' in ast.unparse(find_def(cb_t, '_reloadDisabledCommands')),
         'supybot.commands.disabled no longer rebuilds Commands._disabled when it is set')
    out = 'Require Import Base.Wire.\n'
    out += 'Definition CANON_SPECIAL : list N := %s.\n' % cstr(c['special'])
    out += 'Definition ERROR_PREFIX : list N := %s.\n' % cstr(c['error_prefix'])
    out += 'Definition EMPTY_MSG : list N := %s.\n' % cstr(c['empty_msg'])
    out += 'Definition TOO_DEEP_MSG : list N := %s.\n' % cstr(c['too_deep'])
    out += 'Definition OWNER_DEFAULTS : list (list N * list N) :=\n  %s.\n' % clist(
        '(%s, %s)' % (cstr(k), cstr(v)) for k, v in c['defaults'])
    out += 'Definition UNDISABLABLE : list (list N) := %s.\n' % clist(cstr(x) for x in c['undisablable'])
    out += '(* (sys.getrecursionlimit() = %d - reserve %d) / %d frames per sub-command *)\n' % (c['recursion_limit'], c['frames_reserve'], c['frames_per_sub'])
    out += 'Definition STACK_SAFE_SUBS : nat := %d.\n' % c['stack_safe_subs']
    out += 'Definition NESTED_MAX_DEFAULT : nat := %d.\n' % c['nested_max']
    return 'src/callbacks.py plugins/Owner/plugin.py src/conf.py', out
