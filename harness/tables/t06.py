"""tables + inventory for C06 (one well-formed line per outgoing message):
src/ircutils.py (isValidArgument, safeArgument), src/irclib.py (MAX_LINE_SIZE, _truncateMsg),
src/callbacks.py (_makeReply literals), src/ircmsgs.py (reply message makers), CPython repr()
printability table, and the inventory of every construction site that reaches the unchecked
`msg=` branch of IrcMsg.__init__ in src/ and plugins/."""
import ast, glob, os, warnings
from gen_tables import table, tree, module_assign, find_def, need, cstr, clist, cN, cbool, REPO, src


def _consts_not_in(expr, var):
    """`'a' not in s and 'b' not in s and ...` -> ['a', 'b', ...]"""
    need(isinstance(expr, ast.BoolOp) and isinstance(expr.op, ast.And), 'isValidArgument: expected a conjunction')
    out = []
    for v in expr.values:
        need(isinstance(v, ast.Compare) and len(v.ops) == 1 and isinstance(v.ops[0], ast.NotIn)
             and isinstance(v.left, ast.Constant) and isinstance(v.left.value, str) and len(v.left.value) == 1
             and ast.unparse(v.comparators[0]) == var, 'isValidArgument: unexpected conjunct ' + ast.unparse(v))
        out.append(v.left.value)
    return out


def _calls(node, pred):
    return [n for n in ast.walk(node) if isinstance(n, ast.Call) and pred(n)]


def _kw(call, name):
    for k in call.keywords:
        if k.arg == name:
            return k.value
    return None


def _is_ircmsg_ctor(call):
    f = call.func
    return (isinstance(f, ast.Name) and f.id == 'IrcMsg') or (isinstance(f, ast.Attribute) and f.attr == 'IrcMsg')


def _enclosing(t):
    """map id(node) -> qualified name of the innermost enclosing def/class chain"""
    names = {}

    def walk(node, path):
        for ch in ast.iter_child_nodes(node):
            p = path
            if isinstance(ch, (ast.FunctionDef, ast.AsyncFunctionDef, ast.ClassDef)):
                p = path + [ch.name]
            names[id(ch)] = '.'.join(p) or '<module>'
            walk(ch, p)
    walk(t, [])
    return names


def _mentions_received(expr, params):
    """does an args= expression read `.args` of some message object (msg.args[..], m.args, ...)?"""
    for n in ast.walk(expr):
        if isinstance(n, ast.Attribute) and n.attr == 'args':
            return True
    return False


# keyword parameters of IrcMsg.__init__ (checked against its signature in gen_T06)
IRCMSG_KEYWORDS = {'s', 'command', 'args', 'prefix', 'server_tags', 'msg', 'reply_env'}


def inventory():
    """every call that reaches IrcMsg.__init__'s `msg is not None` branch:
       kind 0: IrcMsg(..., msg=X) written directly with some other keyword;  kind 1: ircmsgs.<maker>(..., msg=X) from
       outside ircmsgs.py;  kind 2: IrcMsg(msg=X) with NO other argument, a pure copy (fail-closed on unknown keywords).
       (path, function, kind, callee, args= given, args= reads some message's .args)"""
    makers = set()
    mt = tree('src/ircmsgs.py')
    for node in mt.body:
        if isinstance(node, ast.FunctionDef) and any(a.arg == 'msg' for a in node.args.args + node.args.kwonlyargs):
            makers.add(node.name)
    files = sorted(glob.glob(os.path.join(REPO, 'src', '**', '*.py'), recursive=True)
                   + glob.glob(os.path.join(REPO, 'plugins', '**', '*.py'), recursive=True))
    sites, seen = [], set()
    for fn in files:
        rel = os.path.relpath(fn, REPO)
        real = os.path.realpath(fn)
        if os.path.basename(fn) == 'test.py' or real in seen:     # src/plugins may be a link to plugins/
            continue
        seen.add(real)
        with warnings.catch_warnings():
            warnings.simplefilter('ignore')
            t = tree(rel)
        enc = _enclosing(t)
        for c in ast.walk(t):
            if not isinstance(c, ast.Call):
                continue
            m = _kw(c, 'msg')
            if m is None or (isinstance(m, ast.Constant) and m.value is None):
                continue
            if _is_ircmsg_ctor(c):
                kws = [k.arg for k in c.keywords]
                need(None not in kws and set(kws) <= IRCMSG_KEYWORDS,
                     'IrcMsg(msg=...) call with **kwargs or an unknown keyword in %s: %s' % (rel, ast.unparse(c)[:120]))
                pure = kws == ['msg'] and not c.args
                kind, callee = (2 if pure else 0), 'IrcMsg'
            elif isinstance(c.func, ast.Attribute) and isinstance(c.func.value, ast.Name) and c.func.value.id == 'ircmsgs' \
                    and c.func.attr in makers:
                kind, callee = 1, c.func.attr
            else:
                continue
            a = _kw(c, 'args')
            if kind == 1:
                # makers always pass args=; what matters is whether the text argument reads a message
                a_given = True
                reads = any(_mentions_received(x, None) for x in c.args)
            else:
                a_given = a is not None
                reads = a is not None and _mentions_received(a, None)
            sites.append((rel.replace(os.sep, '/'), enc.get(id(c), '<module>'), kind, callee, a_given, reads))
    need(sites, 'inventory: no IrcMsg(msg=) site found at all (extractor broken?)')
    return sorted(sites), sorted(makers)


def kwctor_odd():
    """every IrcMsg(...) call whose prefix / command / server_tags are NOT fixed text -- the keyword constructor asserts only on args:
       non-literal command=, prefix= that is not a literal (a maker forwarding its own `prefix` parameter is fine as long as nobody
       calls that maker with a prefix), any server_tags=, any positional argument (the raw-line branch).  (file, def, what)"""
    mt = tree('src/ircmsgs.py')
    prefix_pos = {}
    for node in mt.body:
        if isinstance(node, ast.FunctionDef):
            names = [a.arg for a in node.args.args]
            if 'prefix' in names:
                prefix_pos[node.name] = names.index('prefix')
    for node in mt.body:       # whois = functools.partial(_whois, 'WHOIS')
        if isinstance(node, ast.Assign) and isinstance(node.value, ast.Call) and ast.unparse(node.value.func) == 'functools.partial':
            a = node.value.args
            need(len(a) == 2 and isinstance(a[1], ast.Constant) and isinstance(a[1].value, str) and a[1].value.isalpha(),
                 'ircmsgs.py: functools.partial with a non-literal command: ' + ast.unparse(node))
            if ast.unparse(a[0]) in prefix_pos:
                prefix_pos[ast.unparse(node.targets[0])] = prefix_pos[ast.unparse(a[0])] - 1
    files = sorted(glob.glob(os.path.join(REPO, 'src', '**', '*.py'), recursive=True)
                   + glob.glob(os.path.join(REPO, 'plugins', '**', '*.py'), recursive=True))
    out, seen = [], set()
    for fn in files:
        rel = os.path.relpath(fn, REPO).replace(os.sep, '/')
        real = os.path.realpath(fn)
        if os.path.basename(fn) == 'test.py' or real in seen:
            continue
        seen.add(real)
        with warnings.catch_warnings():
            warnings.simplefilter('ignore')
            t = tree(rel)
        enc = _enclosing(t)
        params = {}
        for n in ast.walk(t):
            if isinstance(n, ast.FunctionDef):
                for ch in ast.walk(n):
                    params.setdefault(id(ch), set()).update(a.arg for a in n.args.args)
        for c in ast.walk(t):
            if not isinstance(c, ast.Call):
                continue
            where = enc.get(id(c), '<module>')
            if _is_ircmsg_ctor(c):
                kw = {k.arg: k.value for k in c.keywords}
                need(None not in kw, 'IrcMsg(**kwargs) in %s' % rel)
                cmd, pre = kw.get('command'), kw.get('prefix')
                if cmd is not None and not (isinstance(cmd, ast.Constant) and isinstance(cmd.value, str)):
                    out.append((rel, where, 'command=' + ast.unparse(cmd)))
                if pre is not None and not isinstance(pre, ast.Constant):
                    own_param = rel == 'src/ircmsgs.py' and isinstance(pre, ast.Name) and pre.id == 'prefix' and 'prefix' in params.get(id(c), ())
                    if not own_param:
                        out.append((rel, where, 'prefix=' + ast.unparse(pre)))
                if 'server_tags' in kw:
                    out.append((rel, where, 'server_tags'))
                if c.args:
                    out.append((rel, where, 'raw line'))
            elif isinstance(c.func, ast.Attribute) and isinstance(c.func.value, ast.Name) and c.func.value.id == 'ircmsgs' \
                    and c.func.attr in prefix_pos:
                if any(k.arg == 'prefix' for k in c.keywords) or any(k.arg is None for k in c.keywords) \
                        or len(c.args) > prefix_pos[c.func.attr] or any(isinstance(a, ast.Starred) for a in c.args):
                    out.append((rel, where, 'maker called with a prefix: ' + c.func.attr))
    return sorted(set(out))


def nonprintable_ranges():
    r, s = [], None
    for i in range(0, 0x110000):
        p = chr(i).isprintable()
        if not p and s is None:
            s = i
        if p and s is not None:
            r.append((s, i - 1)); s = None
    if s is not None:
        r.append((s, 0x10ffff))
    return r


def coqstring(s):
    need(all(32 <= ord(c) < 127 and c != '"' for c in s), 'inventory name not plain ASCII: %r' % s)
    return '"%s"%%string' % s


@table('T06')
def gen_T06():
    # ---- ircutils.isValidArgument / safeArgument
    u = tree('src/ircutils.py')
    iva = find_def(u, 'isValidArgument')
    ret = [n for n in iva.body if isinstance(n, ast.Return)]
    need(len(ret) == 1 and iva.args.args[0].arg == 's', 'isValidArgument shape')
    bad = _consts_not_in(ret[0].value, 's')
    sa = find_def(u, 'safeArgument')
    last = sa.body[-1]
    need(isinstance(last, ast.If) and ast.unparse(last.test) == 'isValidArgument(s)'
         and ast.unparse(last.body[0]) == 'return s' and ast.unparse(last.orelse[0]) == 'return repr(s)',
         'safeArgument tail changed: ' + ast.unparse(last))
    # ---- irclib.MAX_LINE_SIZE / _truncateMsg
    il = tree('src/irclib.py')
    mls = ast.literal_eval(module_assign(il, 'MAX_LINE_SIZE'))
    need(isinstance(mls, int), 'MAX_LINE_SIZE not an int')
    tr = find_def(il, '_truncateMsg', 'Irc')
    env = {'MAX_LINE_SIZE': mls}
    # the limit is measured on the UTF-8 encoding of the part after the tags (repair of C06.F19)
    enc = [n for n in tr.body if isinstance(n, ast.Assign) and ast.unparse(n.targets[0]) == 'msg_rest_bytes']
    need(len(enc) == 1 and ast.unparse(enc[0].value) in ("msg_rest_str.encode('utf-8')", "msg_rest_str.encode('utf8')", 'msg_rest_str.encode()'),
         '_truncateMsg: expected msg_rest_bytes = msg_rest_str.encode(\'utf-8\')')
    ifs = [n for n in ast.walk(tr) if isinstance(n, ast.If) and isinstance(n.test, ast.Compare)
           and ast.unparse(n.test.left) == 'len(msg_rest_bytes)']
    need(len(ifs) == 1 and len(ifs[0].test.ops) == 1 and isinstance(ifs[0].test.ops[0], ast.Gt),
         '_truncateMsg: expected exactly one `if len(msg_rest_bytes) > ...` (the length test must count bytes)')
    need(tr.body.index(enc[0]) < tr.body.index(ifs[0]), '_truncateMsg: encoding must precede the length test')
    limit = eval(compile(ast.Expression(ifs[0].test.comparators[0]), 'x', 'eval'), env)
    cuts = [n for n in ast.walk(ifs[0]) if isinstance(n, ast.Assign) and ast.unparse(n.targets[0]) == 'msg_rest_str']
    need(len(cuts) == 1, '_truncateMsg: expected one re-assignment of msg_rest_str inside the if')
    c = cuts[0].value
    need(isinstance(c, ast.Call) and isinstance(c.func, ast.Attribute) and c.func.attr == 'decode'
         and [ast.literal_eval(x) for x in c.args] in (['utf-8', 'ignore'], ['utf8', 'ignore']) and not c.keywords
         and isinstance(c.func.value, ast.Subscript) and ast.unparse(c.func.value.value) == 'msg_rest_bytes'
         and isinstance(c.func.value.slice, ast.Slice) and c.func.value.slice.lower is None and c.func.value.slice.step is None,
         '_truncateMsg: cut expression changed: ' + ast.unparse(c))
    keep = eval(compile(ast.Expression(c.func.value.slice.upper), 'x', 'eval'), env)
    assigns = [n for n in ast.walk(ifs[0]) if isinstance(n, ast.Assign) and ast.unparse(n.targets[0]) == 'msg._str']
    need(len(assigns) == 1, '_truncateMsg: expected one assignment to msg._str')
    v = assigns[0].value
    need(isinstance(v, ast.BinOp) and isinstance(v.op, ast.Add) and isinstance(v.right, ast.Constant)
         and ast.unparse(v.left) == 'msg_tags_str + msg_rest_str', '_truncateMsg: msg._str expression changed: ' + ast.unparse(v))
    need(ifs[0].body.index(cuts[0]) < ifs[0].body.index(assigns[0]), '_truncateMsg: cut must precede the assignment of msg._str')
    tail = v.right.value
    need(isinstance(keep, int) and isinstance(limit, int) and isinstance(tail, str), '_truncateMsg constants')
    head = ast.unparse(tr.body[1]) if len(tr.body) > 1 else ''
    need(head.startswith("if msg_str[0] == '@':") and "msg_str.split(' ', 1)" in head and "msg_tags_str += ' '" in head,
         '_truncateMsg: tag splitting changed: ' + head[:200])
    # takeMsg calls _truncateMsg after the outFilter loop
    tk = find_def(il, 'takeMsg', 'Irc')
    src_tk = ast.unparse(tk)
    need(src_tk.count('self._truncateMsg(msg)') == 1 and src_tk.index('outFilter') < src_tk.index('self._truncateMsg(msg)'),
         'takeMsg no longer truncates after the outFilter chain')
    # ---- callbacks._makeReply literals
    cb = tree('src/callbacks.py')
    mr = find_def(cb, '_makeReply')
    tr_calls = _calls(mr, lambda c: isinstance(c.func, ast.Name) and c.func.id == '_')
    tr_calls.sort(key=lambda c: (c.lineno, c.col_offset))
    lits = [c.args[0].value for c in tr_calls if c.args and isinstance(c.args[0], ast.Constant)]
    need(len(lits) == 2 and len(tr_calls) == 2, '_makeReply: expected exactly two _() literals, got %r' % lits)
    err_prefix, empty_msg = lits
    srcmr = ast.unparse(mr)
    need("s = s.strip('\\x01')" in srcmr, "_makeReply: strip('\\x01') changed")
    need("s = ircutils.safeArgument(s)" in srcmr, '_makeReply no longer calls safeArgument')
    need("s = '%s: %s' % (to, s)" in srcmr, '_makeReply: nick prefix format changed')
    need(srcmr.index("s.strip('\\x01')") < srcmr.index('safeArgument(s)') < srcmr.index("'%s: %s' % (to, s)")
         < srcmr.index('ret = msgmaker(target, s)'), '_makeReply: statement order changed')
    # ---- ircmsgs makers used by replies
    im = tree('src/ircmsgs.py')
    cmds = {}
    for name in ('privmsg', 'notice', 'action'):
        d = find_def(im, name)
        rets = [n for n in d.body if isinstance(n, ast.Return)]
        need(len(rets) == 1 and isinstance(rets[0].value, ast.Call) and _is_ircmsg_ctor(rets[0].value), name + ': return IrcMsg(...)')
        c = rets[0].value
        cmds[name] = ast.literal_eval(_kw(c, 'command'))
        a = _kw(c, 'args')
        need(isinstance(a, ast.Tuple) and len(a.elts) == 2 and ast.unparse(a.elts[0]) == 'recipient', name + ': args shape')
        if name == 'action':
            e = a.elts[1]
            need(isinstance(e, ast.BinOp) and isinstance(e.op, ast.Mod) and isinstance(e.left, ast.Constant)
                 and ast.unparse(e.right) == 's' and e.left.value.count('%s') == 1, 'action: text format')
            act_pre, act_post = e.left.value.split('%s')
        else:
            need(ast.unparse(a.elts[1]) == 's', name + ': text argument is not s')
        need(ast.unparse(_kw(c, 'msg')) == 'msg', name + ': msg= passthrough')
    # IrcMsg.__init__: the assert sits only in the msg-is-None branch
    init = find_def(im, '__init__', 'IrcMsg')
    need({a.arg for a in init.args.args[1:]} == IRCMSG_KEYWORDS and not init.args.kwonlyargs and init.args.kwarg is None,
         'IrcMsg.__init__ signature changed: %s' % [a.arg for a in init.args.args])
    # the copy semantics of the msg= branch the pure-copy lemma relies on: every field not given comes from msg
    srci = ast.unparse(init)
    for frag in ('self.prefix = msg.prefix', 'self.command = msg.command', 'self.args = msg.args', 'self.server_tags = msg.server_tags'):
        need(frag in srci, 'IrcMsg.__init__: msg= branch no longer copies (%s)' % frag)
    asserts = [ast.unparse(n.test) for n in ast.walk(init) if isinstance(n, ast.Assert)]
    need('all(ircutils.isValidArgument, args)' in asserts, 'IrcMsg.__init__: argument assert missing')
    # ---- Filter plugin: the whitelist of commands usable as a per-channel OUTPUT filter, and the shape of outFilter
    fl = tree('plugins/Filter/plugin.py')
    fcls = [n for n in fl.body if isinstance(n, ast.ClassDef) and n.name == 'Filter']
    need(len(fcls) == 1, 'plugins/Filter/plugin.py: class Filter')
    wl = [n for n in fcls[0].body if isinstance(n, ast.Assign) and ast.unparse(n.targets[0]) == '_filterCommands']
    need(len(wl) == 1, 'Filter._filterCommands: expected exactly one assignment')
    filter_cmds = ast.literal_eval(wl[0].value)
    need(isinstance(filter_cmds, list) and filter_cmds and all(isinstance(x, str) for x in filter_cmds), 'Filter._filterCommands is not a list of names')
    need(not [n for n in ast.walk(fl) if isinstance(n, ast.Attribute) and n.attr == '_filterCommands' and isinstance(n.ctx, ast.Store)]
         and 'self._filterCommands.' not in src('plugins/Filter/plugin.py').replace('self._filterCommands:', ''),
         'Filter._filterCommands is modified somewhere else')
    of = [n for n in fcls[0].body if isinstance(n, ast.FunctionDef) and n.name == 'outfilter']
    need(len(of) == 1 and 'command in self._filterCommands' in ast.unparse(of[0]) and 'getattr(self, command)' in ast.unparse(of[0]),
         'Filter.outfilter no longer checks the whitelist')
    oF = [n for n in fcls[0].body if isinstance(n, ast.FunctionDef) and n.name == 'outFilter']
    need(len(oF) == 1, 'Filter.outFilter missing')
    srcoF = ast.unparse(oF[0])
    for frag in ("if msg.command in ('PRIVMSG', 'NOTICE'):", 'if msg.channel in self.outFilters:', 's = ircmsgs.unAction(msg)', 's = msg.args[1]',
                 'filtercommand(myIrc, msg, [s])', 's = myIrc.s', 'msg = ircmsgs.action(msg.args[0], s, msg=msg)',
                 'msg = ircmsgs.IrcMsg(msg=msg, args=(msg.args[0], s))'):
        need(frag in srcoF, 'Filter.outFilter changed (missing %r)' % frag)
    sites, makers = inventory()
    np = nonprintable_ranges()
    out = 'From Coq Require Import String.\n'
    out += 'Definition INVALID_CHARS : list N := %s.\n' % clist(cN(ord(c)) for c in bad)
    out += 'Definition MAX_LINE_SIZE : nat := %d.\n' % mls
    out += 'Definition TRUNC_LIMIT : nat := %d.\n' % limit
    out += 'Definition TRUNC_KEEP : nat := %d.\n' % keep
    out += 'Definition TRUNC_TAIL : list N := %s.\n' % cstr(tail)
    out += 'Definition ERR_PREFIX : list N := %s.\n' % cstr(err_prefix)
    out += 'Definition EMPTY_MSG : list N := %s.\n' % cstr(empty_msg)
    out += 'Definition CMD_PRIVMSG : list N := %s.\n' % cstr(cmds['privmsg'])
    out += 'Definition CMD_NOTICE : list N := %s.\n' % cstr(cmds['notice'])
    out += 'Definition CMD_ACTION : list N := %s.\n' % cstr(cmds['action'])
    out += 'Definition ACTION_PRE : list N := %s.\n' % cstr(act_pre)
    out += 'Definition ACTION_POST : list N := %s.\n' % cstr(act_post)
    out += '(* code points for which str.isprintable() is False, as inclusive ranges (CPython %s) *)\n' % '.'.join(map(str, __import__('sys').version_info[:3]))
    out += 'Definition NONPRINTABLE : list (N * N) :=\n  %s.\n' % clist('(%d, %d)' % r for r in np)
    out += ('(* every call reaching the unchecked msg= branch of IrcMsg.__init__:\n'
            '   (file, enclosing def, kind 0 = IrcMsg(msg=.., other keywords) / 1 = ircmsgs.maker(msg=..) / 2 = IrcMsg(msg=..) alone (pure copy), callee, args given, args read a message) *)\n')
    out += 'Definition MSGCTOR_SITES : list (string * string * N * string * bool * bool) :=\n  %s.\n' % clist(
        '\n   (%s, %s, %d, %s, %s, %s)' % (coqstring(f), coqstring(fn), k, coqstring(cal), cbool(a), cbool(r))
        for f, fn, k, cal, a, r in sites)
    out += 'Definition KWCTOR_ODD : list (string * string * string) :=\n  %s.\n' % clist(
        '\n   (%s, %s, %s)' % (coqstring(a), coqstring(b), coqstring(c_)) for a, b, c_ in kwctor_odd())
    out += 'Definition FILTER_COMMANDS : list string := %s.\n' % clist(coqstring(m) for m in filter_cmds)
    out += 'Definition MAKERS_WITH_MSG : list string := %s.\n' % clist(coqstring(m) for m in makers)
    return 'src/ircutils.py, src/irclib.py, src/callbacks.py, src/ircmsgs.py, plugins/**', out
