"""tables for C04's command layer: the try/except structure around ircdb.users.setUser in the User plugin commands
that edit hostmasks, logins and names (plugins/User/plugin.py)"""
import ast
from gen_tables import table, tree, find_class, need, clist, cbool

EXN4 = {'ircdb.DuplicateHostmask': 'DuplicateHostmask', 'ValueError': 'ValueError', 'KeyError': 'KeyError'}


def _method(cls, name):
    for n in cls.body:
        if isinstance(n, ast.FunctionDef) and n.name == name:
            return n
    need(False, 'no method %s.%s' % (cls.name, name))


def _is_setuser(node):
    return isinstance(node, ast.Call) and ast.unparse(node.func) == 'ircdb.users.setUser'


def _setuser_sites(fn):
    """[(call, enclosing Try or None)] for every ircdb.users.setUser(...) in fn; a call in a handler/else/finally is a Shape error"""
    sites = []

    def walk(stmts, enclosing):
        for s in stmts:
            if isinstance(s, ast.Try):
                walk(s.body, s)
                for h in s.handlers:
                    need(not any(_is_setuser(n) for n in ast.walk(h)), '%s: setUser inside an except handler' % fn.name)
                need(not any(_is_setuser(n) for x in s.orelse + s.finalbody for n in ast.walk(x)),
                     '%s: setUser in else/finally' % fn.name)
                continue
            if isinstance(s, (ast.If, ast.For, ast.While, ast.With)):
                need(not any(_is_setuser(n) for n in ast.walk(s.test if isinstance(s, (ast.If, ast.While)) else ast.Pass())),
                     '%s: setUser in a condition' % fn.name)
                walk(s.body, enclosing)
                walk(getattr(s, 'orelse', []), enclosing)
                continue
            need(not isinstance(s, (ast.FunctionDef, ast.ClassDef)), '%s: nested definition' % fn.name)
            for n in ast.walk(s):
                if _is_setuser(n):
                    sites.append((n, enclosing, s))
    walk(fn.body, None)
    return sites


def _handlers(fn, tr, rollback_stmt):
    """[(exception, rolls back)] in source order; every handler must end by raising (irc.error(..., Raise=True)) or,
    when allow_fallthrough, by an irc.error(...) that is the last statement of the command"""
    out = []
    for h in tr.handlers:
        need(h.type is not None and not isinstance(h.type, ast.Tuple), '%s: bare/tuple except around setUser' % fn.name)
        name = ast.unparse(h.type)
        need(name in EXN4, '%s: handler for unknown exception %s around setUser' % (fn.name, name))
        stmts = [ast.unparse(s) for s in h.body]
        rb = rollback_stmt is not None and rollback_stmt in stmts
        need(all(s == rollback_stmt or s.startswith('irc.error(') or s.startswith('err ') or s.startswith('if caller_is_owner')
                 for s in stmts), '%s: unexpected statement in except %s: %r' % (fn.name, name, stmts))
        need(stmts and stmts[-1].startswith('irc.error('), '%s: except %s does not end with irc.error' % (fn.name, name))
        out.append((EXN4[name], rb, 'Raise=True' in stmts[-1]))
    return out


@table('T04')
def gen_T04():
    t = tree('plugins/User/plugin.py')
    user = find_class(t, 'User')
    hm = None
    for n in user.body:
        if isinstance(n, ast.ClassDef) and n.name == 'hostmask':
            hm = n
    need(hm is not None, 'no class User.hostmask')
    # ---- hostmask add: try: setUser  except ...: [rollback] error
    add = _method(hm, 'add')
    sites = _setuser_sites(add)
    need(len(sites) == 1 and sites[0][1] is not None, 'hostmask add: expected exactly one setUser, inside a try')
    call, tr, stmt = sites[0]
    need(len(tr.body) == 1 and ast.unparse(tr.body[0]) == 'ircdb.users.setUser(user)' and not tr.orelse and not tr.finalbody,
         'hostmask add: the try body is not just ircdb.users.setUser(user)')
    add_h = _handlers(add, tr, 'user.removeHostmask(hostmask)')
    need(all(r for (_, _, r) in add_h), 'hostmask add: a handler around setUser does not raise')
    body = [ast.unparse(s) for s in add.body]
    need(body[-1] == 'irc.replySuccess()' and add.body[-2] is tr, 'hostmask add: setUser try is not followed by replySuccess only')
    adds = [s for s in add.body if isinstance(s, ast.Try) and any('user.addHostmask(hostmask)' == ast.unparse(x) for x in s.body)]
    need(len(adds) == 1 and add.body.index(adds[0]) == add.body.index(tr) - 1 and len(adds[0].handlers) == 1
         and ast.unparse(adds[0].handlers[0].type) == 'ValueError',
         'hostmask add: user.addHostmask(hostmask) / except ValueError does not directly precede the setUser try')
    # ---- identify: try: addAuth; setUser; replySuccess  except ValueError: error (no rollback)
    ident = _method(user, 'identify')
    sites = _setuser_sites(ident)
    need(len(sites) == 1 and sites[0][1] is not None, 'identify: expected exactly one setUser, inside a try')
    tr = sites[0][1]
    need([ast.unparse(s) for s in tr.body] == ['user.addAuth(msg.prefix)', 'ircdb.users.setUser(user, flush=False)', 'irc.replySuccess()'],
         'identify: try body changed')
    id_h = _handlers(ident, tr, None)
    # ---- no handler at all around setUser in the others
    plain = {}
    for cls, name, before in ((user, 'register', 'user.addHostmask(msg.prefix)'), (user, 'changename', 'user.name = newname'),
                              (user, 'unidentify', 'user.clearAuth()'), (hm, 'remove', None)):
        fn = _method(cls, name)
        sites = _setuser_sites(fn)
        need(len(sites) == 1 and sites[0][1] is None, '%s: expected exactly one setUser, outside any try' % name)
        need(ast.unparse(sites[0][2]) == 'ircdb.users.setUser(user)', '%s: setUser call changed' % name)
        if before is not None:
            need(before in ast.unparse(fn), '%s: %s is gone' % (name, before))
    rm = _method(hm, 'remove')
    trs = [s for s in rm.body if isinstance(s, ast.Try)]
    need(len(trs) == 1 and len(trs[0].handlers) == 1 and ast.unparse(trs[0].handlers[0].type) == 'KeyError'
         and 'user.removeHostmask(hostmask)' in ast.unparse(trs[0]) and ast.unparse(trs[0].handlers[0].body[-1]) == 'return',
         'hostmask remove: try removeHostmask / except KeyError: error; return changed')
    out = 'Require Import Base.Wire.\n'
    out += '(* (exception class, the handler undoes user.addHostmask(hostmask)) in source order *)\n'
    out += 'Definition HM_ADD_HANDLERS : list (exn * bool) := %s.\n' % clist('(%s, %s)' % (e, cbool(r)) for (e, r, _) in add_h)
    out += 'Definition IDENTIFY_HANDLERS : list (exn * bool) := %s.\n' % clist('(%s, %s)' % (e, cbool(r)) for (e, r, _) in id_h)
    return 'plugins/User/plugin.py', out
