"""tables for C04's command layer: the try/except structure around ircdb.users.setUser in the User plugin commands
that edit hostmasks, logins and names (plugins/User/plugin.py)"""
import ast
from gen_tables import table, tree, find_class, need, clist, cbool

EXN4 = {'ircdb.DuplicateHostmask': 'DuplicateHostmask', 'ValueError': 'ValueError', 'KeyError': 'KeyError'}


def _method(cls, name):
    for n in cls.body:
        if isinstance(n, ast.FunctionDef) and n.name == name:
            return n
    need(False, 'no method %s.%s' % (cls.name, name))


def _is_setuser(node):
    return isinstance(node, ast.Call) and ast.unparse(node.func) == 'ircdb.users.setUser'


def _setuser_sites(fn):
    """[(call, enclosing Try or None)] for every ircdb.users.setUser(...) in fn; a call in a handler/else/finally is a Shape error"""
    sites = []

    def walk(stmts, enclosing):
        for s in stmts:
            if isinstance(s, ast.Try):
                walk(s.body, s)
                for h in s.handlers:
                    need(not any(_is_setuser(n) for n in ast.walk(h)), '%s: setUser inside an except handler' % fn.name)
                need(not any(_is_setuser(n) for x in s.orelse + s.finalbody for n in ast.walk(x)),
                     '%s: setUser in else/finally' % fn.name)
                continue
            if isinstance(s, (ast.If, ast.For, ast.While, ast.With)):
                need(not any(_is_setuser(n) for n in ast.walk(s.test if isinstance(s, (ast.If, ast.While)) else ast.Pass())),
                     '%s: setUser in a condition' % fn.name)
                walk(s.body, enclosing)
                walk(getattr(s, 'orelse', []), enclosing)
                continue
            need(not isinstance(s, (ast.FunctionDef, ast.ClassDef)), '%s: nested definition' % fn.name)
            for n in ast.walk(s):
                if _is_setuser(n):
                    sites.append((n, enclosing, s))
    walk(fn.body, None)
    return sites


def _handlers(fn, tr, undo):
    """[(exception, undoes the edit)] in source order.  `undo`: the statements that put the live account back.  A handler
    may only contain those, the building of the error text, and must end by raising or by irc.error(...)"""
    out = []
    for h in tr.handlers:
        need(h.type is not None and not isinstance(h.type, ast.Tuple), '%s: bare/tuple except around setUser' % fn.name)
        name = ast.unparse(h.type)
        need(name in EXN4, '%s: handler for unknown exception %s around setUser' % (fn.name, name))
        stmts = [ast.unparse(s) for s in h.body]
        rb = bool(undo) and all(u in stmts for u in undo)
        need(all(s in undo or s == 'raise' or s.startswith('irc.error(') or s.startswith('err ') or s.startswith('if caller_is_owner')
                 for s in stmts), '%s: unexpected statement in except %s: %r' % (fn.name, name, stmts))
        need(stmts and (stmts[-1] == 'raise' or stmts[-1].startswith('irc.error(')),
             '%s: except %s does not end with raise / irc.error' % (fn.name, name))
        out.append((EXN4[name], rb, stmts[-1] == 'raise' or 'Raise=True' in stmts[-1]))
    return out


def _site(cls, name, undo, bodies, saved=None):
    """the handlers around the one setUser of cls.name: [] when it is not inside a try.  `bodies`: the try bodies accepted;
    `saved`: statement(s) that must precede the edit for the undo to be meaningful"""
    fn = _method(cls, name)
    sites = _setuser_sites(fn)
    need(len(sites) == 1, '%s: expected exactly one setUser' % name)
    call, tr, stmt = sites[0]
    if tr is None:
        return fn, None, []
    need(not tr.orelse and not tr.finalbody, '%s: else/finally around setUser' % name)
    need([ast.unparse(s) for s in tr.body] in bodies, '%s: try body around setUser changed: %r' % (name, [ast.unparse(s) for s in tr.body]))
    hs = _handlers(fn, tr, undo)
    if any(r for (_, r, _) in hs):
        src = ast.unparse(fn)
        for sv in (saved or []):
            need(sv in src and src.index(sv) < src.index(ast.unparse(tr.body[0])), '%s: %r does not precede the edit' % (name, sv))
    return fn, tr, hs


def _emit(name, hs):
    return 'Definition %s : list (exn * bool) := %s.\n' % (name, clist('(%s, %s)' % (e, cbool(r)) for (e, r, _) in hs))


@table('T04')
def gen_T04():
    t = tree('plugins/User/plugin.py')
    user = find_class(t, 'User')
    hm = None
    for n in user.body:
        if isinstance(n, ast.ClassDef) and n.name == 'hostmask':
            hm = n
    need(hm is not None, 'no class User.hostmask')
    # ---- hostmask add: try: setUser  except ...: [undo addHostmask, only if it added] error
    guarded = 'if not alreadyThere:\n    user.removeHostmask(hostmask)'
    add = _method(hm, 'add')
    g = guarded in [ast.unparse(s) for n in ast.walk(add) if isinstance(n, ast.ExceptHandler) for s in n.body]
    add, tr, add_h = _site(hm, 'add', [guarded] if g else ['user.removeHostmask(hostmask)'], [['ircdb.users.setUser(user)']],
                           saved=['alreadyThere = hostmask in user.hostmasks'] if g else None)
    need(tr is not None, 'hostmask add: setUser is not inside a try')
    need(all(r for (_, _, r) in add_h), 'hostmask add: a handler around setUser does not raise')
    body = [ast.unparse(s) for s in add.body]
    need(body[-1] == 'irc.replySuccess()' and add.body[-2] is tr, 'hostmask add: setUser try is not followed by replySuccess only')
    adds = [s for s in add.body if isinstance(s, ast.Try) and any('user.addHostmask(hostmask)' == ast.unparse(x) for x in s.body)]
    need(len(adds) == 1 and add.body.index(adds[0]) == add.body.index(tr) - 1 and len(adds[0].handlers) == 1
         and ast.unparse(adds[0].handlers[0].type) == 'ValueError',
         'hostmask add: user.addHostmask(hostmask) / except ValueError does not directly precede the setUser try')
    if g:
        need(body[add.body.index(adds[0]) - 1] == 'alreadyThere = hostmask in user.hostmasks',
             'hostmask add: alreadyThere is not computed right before user.addHostmask(hostmask)')
    # ---- identify: try: addAuth; setUser; replySuccess  except ValueError: [restore auth] error
    ident, tr, id_h = _site(user, 'identify', ['user.auth = auth'],
                            [['user.addAuth(msg.prefix)', 'ircdb.users.setUser(user, flush=False)', 'irc.replySuccess()']],
                            saved=['auth = list(user.auth)'])
    need(tr is not None, 'identify: setUser is not inside a try')
    # ---- unidentify, changename, hostmask remove, register
    _, _, un_h = _site(user, 'unidentify', ['user.auth = auth'], [['ircdb.users.setUser(user)']], saved=['auth = user.auth', 'user.clearAuth()'])
    need('user.clearAuth()' in ast.unparse(_method(user, 'unidentify')), 'unidentify: user.clearAuth() is gone')
    _, _, cn_h = _site(user, 'changename', ['user.name = oldname', 'ircdb.users.invalidateCache(user.id)'], [['ircdb.users.setUser(user)']],
                       saved=['oldname = user.name', 'user.name = newname'])
    need('user.name = newname' in ast.unparse(_method(user, 'changename')), 'changename: user.name = newname is gone')
    rm, _, rm_h = _site(hm, 'remove', ['user.hostmasks = hostmasks'], [['ircdb.users.setUser(user)']],
                        saved=['hostmasks = ircutils.IrcSet(user.hostmasks)'])
    trs = [s for s in rm.body if isinstance(s, ast.Try) and 'user.removeHostmask(hostmask)' in ast.unparse(s)]
    need(len(trs) == 1 and len(trs[0].handlers) == 1 and ast.unparse(trs[0].handlers[0].type) == 'KeyError'
         and ast.unparse(trs[0].handlers[0].body[-1]) == 'return',
         'hostmask remove: try removeHostmask / except KeyError: error; return changed')
    reg_body = ['user.name = name', 'user.setPassword(password)', 'if addHostmask:\n    user.addHostmask(msg.prefix)', 'ircdb.users.setUser(user)']
    reg, tr, rg_h = _site(user, 'register', ['ircdb.users.delUser(user.id)'], [reg_body], saved=['user = ircdb.users.newUser()'])
    top = [ast.unparse(x) for x in reg.body]
    need('user = ircdb.users.newUser()' in top and top[-1] == 'irc.replySuccess()', 'register: newUser / replySuccess moved')
    k = top.index('user = ircdb.users.newUser()')
    need(top[k + 1:-1] == reg_body if tr is None else reg.body[k + 1] is tr and len(top) == k + 3, 'register: body changed')
    # ---- user set secure: the guard and the unprotected setUser
    setc = None
    for n in user.body:
        if isinstance(n, ast.ClassDef) and n.name == 'set':
            setc = n
    need(setc is not None, 'no class User.set')
    sec = _method(setc, 'secure')
    ifs = [n for n in sec.body if isinstance(n, ast.If) and any(_is_setuser(x) for x in ast.walk(n))]
    need(len(ifs) == 1, 'set secure: expected one if around setUser')
    need(ast.unparse(ifs[0].test) == 'user.checkPassword(password) and user.checkHostmask(msg.prefix, useAuth=False)',
         'set secure: the guard is not user.checkPassword(password) and user.checkHostmask(msg.prefix, useAuth=False): '
         + ast.unparse(ifs[0].test))
    _, str_, sc_h = _site(setc, 'secure', ['user.secure = secure'], [['ircdb.users.setUser(user)']],
                          saved=['secure = user.secure', 'user.secure = value'])
    gb = [ast.unparse(x) for x in ifs[0].body]
    need(gb[:2] == ['user.secure = value', 'ircdb.users.setUser(user)'] if str_ is None
         else gb[:2] == ['secure = user.secure', 'user.secure = value'] and ifs[0].body[2] is str_,
         'set secure: body of the guarded branch changed')
    # ---- src/ircdb.py: the lines the model of getUserId / setUser / checkHostmask mirrors statement by statement
    d = tree('src/ircdb.py')
    ud = find_class(d, 'UsersDictionary')
    gid = _method(ud, 'getUserId')
    need(isinstance(gid.body[-1], ast.If) and ast.unparse(gid.body[-1].test) == 'ircutils.isUserHostmask(s)', 'getUserId: outer if changed')
    trs = [x for x in gid.body[-1].body if isinstance(x, ast.Try)]
    need(len(trs) == 1 and len(trs[0].handlers) == 1 and ast.unparse(trs[0].handlers[0].type) == 'KeyError', 'getUserId: try/except KeyError changed')
    need([ast.unparse(x) for x in trs[0].body] == ['id = self._hostmaskCache[s]', 'if self.users[id].checkHostmask(s):\n    return id',
                                                  'self.invalidateCache(hostmask=s)', 'raise KeyError(s)'],
         'getUserId: a cached id must be re-checked with self.users[id].checkHostmask(s), unconditionally, before it is answered: %r'
         % [ast.unparse(x) for x in trs[0].body])
    su = _method(ud, 'setUser')
    sb = [ast.unparse(x) for x in su.body if not (isinstance(x, ast.Expr) and isinstance(x.value, ast.Constant))]
    need(sb[:2] == ['self.nextId = max(self.nextId, user.id)',
                    'for when, hostmask in user.auth:\n    self.invalidateCache(hostmask=hostmask)'],
         'setUser: the cache entries of the hostmasks in user.auth must be dropped first: %r' % sb[:2])
    ch = _method(find_class(d, 'IrcUser'), 'checkHostmask')
    need('elif hostmask == authmask and (not self.secure or self.checkHostmask(hostmask, useAuth=False)):\n' in ast.unparse(ch)
         and 'if timeout and when + timeout < time.time():' in ast.unparse(ch),
         'IrcUser.checkHostmask: the login test changed')
    # ---- src/irclib.py Irc.doNick: supybot.followIdentificationThroughNickChanges
    li = tree('src/irclib.py')
    dn = _method(find_class(li, 'Irc'), 'doNick')
    need(len(dn.body) == 2 and isinstance(dn.body[1], ast.If) and len(dn.body[1].orelse) == 1 and isinstance(dn.body[1].orelse[0], ast.If),
         'Irc.doNick: if own nick / elif follow changed')
    fb = dn.body[1].orelse[0]
    need(ast.unparse(dn.body[1].test) == 'msg.nick == self.nick'
         and ast.unparse(fb.test) == 'conf.supybot.followIdentificationThroughNickChanges()' and not fb.orelse, 'Irc.doNick: tests changed')
    fs = [ast.unparse(x) for x in fb.body]
    need(len(fs) == 2 and fs[0] == 'try:\n    id = ircdb.users.getUserId(msg.prefix)\n    u = ircdb.users.getUser(id)\nexcept KeyError:\n    return'
         and isinstance(fb.body[1], ast.If) and ast.unparse(fb.body[1].test) == 'u.auth' and not fb.body[1].orelse,
         'Irc.doNick: lookup / if u.auth changed: %r' % fs)
    ib = fb.body[1].body
    need([ast.unparse(x) for x in ib[:2]] == ['_, user, host = ircutils.splitHostmask(msg.prefix)',
                                             'newhostmask = ircutils.joinHostmask(msg.args[0], user, host)']
         and len(ib) == 3 and isinstance(ib[2], ast.For) and not ib[2].orelse, 'Irc.doNick: new hostmask / loop changed')
    loop = ib[2]
    need(ast.unparse(loop.iter) in ('enumerate(u.auth[:])', 'u.auth[:]') and len(loop.body) == 1 and isinstance(loop.body[0], ast.If)
         and ast.unparse(loop.body[0].test) == 'ircutils.strEqual(msg.prefix, authmask)' and not loop.body[0].orelse,
         'Irc.doNick: loop over a copy of u.auth / strEqual test changed')
    acts = [ast.unparse(x) for x in loop.body[0].body if not ast.unparse(x).startswith('log.')]
    need(len(acts) == 2 and acts[1] == 'ircdb.users.setUser(u)', 'Irc.doNick: the edit is not followed by ircdb.users.setUser(u): %r' % acts)
    if acts[0] == 'u.auth[i] = (u.auth[i][0], newhostmask)' and ast.unparse(loop.target) == '(i, (when, authmask))':
        replaces = True
    elif acts[0] == 'u.auth.append((when, newhostmask))':
        replaces = False
    else:
        need(False, 'Irc.doNick: unknown way of moving the login: %r' % acts[0])
    # ---- the caches: size, eviction rule, tolerant removal of the other half of an entry
    init = _method(ud, '__init__')
    sizes = [ast.unparse(x.value) for x in init.body if isinstance(x, ast.Assign) and ast.unparse(x.targets[0]) in ('self._nameCache', 'self._hostmaskCache')]
    need(sizes == ['utils.structures.CacheDict(1000)', 'utils.structures.CacheDict(1000)'] or len(set(sizes)) == 1 and len(sizes) == 2
         and sizes[0].startswith('utils.structures.CacheDict(') and sizes[0][len('utils.structures.CacheDict('):-1].isdigit(),
         'UsersDictionary.__init__: cache sizes changed: %r' % sizes)
    cache_max = int(sizes[0][len('utils.structures.CacheDict('):-1])
    need(cache_max >= 4, 'cache size too small for the model')
    cd = find_class(tree('src/utils/structures.py'), 'CacheDict')
    need([ast.unparse(x) for x in _method(cd, '__setitem__').body] == ['if len(self.d) >= self.max:\n    self.d.clear()', 'self.d[key] = value'],
         'CacheDict.__setitem__ changed')
    icb = [x for x in _method(ud, 'invalidateCache').body if isinstance(x, ast.If) and ast.unparse(x.test) == 'id is not None']
    need(len(icb) == 1, 'invalidateCache: no `if id is not None` block')
    ic = [ast.unparse(x) for x in ast.walk(icb[0]) if isinstance(x, (ast.For, ast.Expr, ast.Delete))]
    need('for hostmask in self._hostmaskCache[id]:\n    self._hostmaskCache.pop(hostmask, None)' in ic
         and 'self._nameCache.pop(self._nameCache[id], None)' in ic and 'del self._hostmaskCache[id]' in ic and 'del self._nameCache[id]' in ic
         and 'del self._hostmaskCache[hostmask]' not in ic and 'del self._nameCache[self._nameCache[id]]' not in ic,
         'invalidateCache(id): the other half of a cache entry must be removed with pop(key, None): %r' % ic)
    du = ast.unparse(_method(ud, 'delUser'))
    need('self._hostmaskCache.pop(hostmask, None)' in du and 'self._nameCache.pop(self._nameCache[id], None)' in du
         and 'del self._hostmaskCache[hostmask]' not in du, 'delUser: the other half of a cache entry must be removed with pop(key, None)')
    # ---- src/ircutils.py: the matcher is compiled case-insensitively for ASCII letters only
    iu = tree('src/ircutils.py')
    pe = [n for n in iu.body if isinstance(n, ast.FunctionDef) and n.name == '_hostmaskPatternEqual']
    need(len(pe) == 1, 'no ircutils._hostmaskPatternEqual')
    comp = [ast.unparse(n) for n in ast.walk(pe[0]) if isinstance(n, ast.Call) and ast.unparse(n.func) == 're.compile']
    need(comp == ['re.compile(fd.getvalue(), re.I | re.A)'], '_hostmaskPatternEqual: regexp flags changed (model: ASCII-only case folding): %r' % comp)
    # ---- src/ircutils.py: the two memo layers in front of the matcher: keyed by the very strings that are matched
    hpe = [n for n in iu.body if isinstance(n, ast.FunctionDef) and n.name == 'hostmaskPatternEqual']
    need(len(hpe) == 1, 'no ircutils.hostmaskPatternEqual')
    hb = [ast.unparse(x) for x in hpe[0].body if not (isinstance(x, ast.Expr) and isinstance(x.value, ast.Constant))]
    need(hb == ['try:\n    return _hostmaskPatternEqualCache[pattern, hostmask]\nexcept KeyError:\n    b = _hostmaskPatternEqual(pattern, hostmask)\n'
                '    _hostmaskPatternEqualCache[pattern, hostmask] = b\n    return b'],
         'hostmaskPatternEqual: the result cache must be keyed by (pattern, hostmask) themselves: %r' % hb)
    pb = ast.unparse(pe[0])
    need('return _patternCache[pattern](hostmask) is not None' in pb and '_patternCache[pattern] = f' in pb,
         '_hostmaskPatternEqual: the compiled-pattern cache must be keyed by the pattern itself')
    memo = dict((ast.unparse(x.targets[0]), ast.unparse(x.value)) for x in iu.body
                if isinstance(x, ast.Assign) and ast.unparse(x.targets[0]) in ('_patternCache', '_hostmaskPatternEqualCache'))
    need(memo == {'_patternCache': 'utils.structures.CacheDict(1000)', '_hostmaskPatternEqualCache': 'utils.structures.CacheDict(1000)'},
         'ircutils memo caches changed: %r' % memo)
    out = 'Require Import Base.Wire.\n'
    out += '(* utils.structures.CacheDict(n) of UsersDictionary._hostmaskCache / _nameCache *)\n'
    out += 'Definition CACHE_MAX : N := %d.\n' % cache_max
    out += '(* Irc.doNick, following an identification through a nick change: the (when, old hostmask) entry of user.auth is\n'
    out += '   replaced in place by (when, new hostmask) [true], or the new entry is appended and the old one kept [false] *)\n'
    out += 'Definition NICK_FOLLOW_REPLACES : bool := %s.\n' % cbool(replaces)
    out += '(* src/ircdb.py getUserId re-checks a cached id unconditionally; setUser drops the cache entries of user.auth first;\n'
    out += '   checkHostmask honours a login of a secure user only with a matching mask: pinned by the extractor *)\n'
    out += 'Definition LOOKUP_RECHECKS_CACHED : bool := true.\n'
    out += '(* the useAuth argument of the checkHostmask call in the guard of user set secure *)\n'
    out += 'Definition SECURE_GUARD_USEAUTH : bool := false.\n'
    out += '(* per command: (exception class, the handler puts the live account back) in source order, [] = no try around setUser *)\n'
    out += _emit('HM_ADD_HANDLERS', add_h)
    out += '(* the undo of hostmask add is skipped when the account owned the mask before (alreadyThere) *)\n'
    out += 'Definition HM_ADD_GUARDED : bool := %s.\n' % cbool(g)
    out += _emit('IDENTIFY_HANDLERS', id_h) + _emit('UNIDENTIFY_HANDLERS', un_h) + _emit('CHANGENAME_HANDLERS', cn_h)
    out += _emit('REMOVE_HANDLERS', rm_h) + _emit('REGISTER_HANDLERS', rg_h) + _emit('SECURE_HANDLERS', sc_h)
    return 'plugins/User/plugin.py, src/ircdb.py, src/irclib.py, src/ircutils.py, src/utils/structures.py', out
