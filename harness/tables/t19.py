"""tables for C19 (src/irclib.py): the priority sets of IrcMsgQueue and the
command literal of the JOIN rate-limit test in IrcMsgQueue.dequeue"""
import ast
from gen_tables import *  # noqa: F401,F403
from gen_tables import table, tree, module_assign, find_def, need, cstr, clist


def _frozenset_literal(v, name):
    need(isinstance(v, ast.Call) and ast.unparse(v.func) == 'frozenset' and len(v.args) == 1 and not v.keywords,
         '%s is not frozenset([...])' % name)
    items = ast.literal_eval(v.args[0])
    need(isinstance(items, (list, tuple, set)) and all(isinstance(x, str) for x in items), '%s: not a list of strings' % name)
    return sorted(set(items))


@table('T19')
def gen_T19():
    t = tree('src/irclib.py')
    high = _frozenset_literal(module_assign(t, '_high'), '_high')
    low = _frozenset_literal(module_assign(t, '_low'), '_low')
    deq = find_def(t, 'dequeue', 'IrcMsgQueue')
    lits = [n for n in ast.walk(deq) if isinstance(n, ast.Compare) and len(n.ops) == 1 and isinstance(n.ops[0], ast.Eq)
            and ast.unparse(n.left) == 'msg.command' and isinstance(n.comparators[0], ast.Constant)]
    need(len(lits) == 1 and isinstance(lits[0].comparators[0].value, str),
         'IrcMsgQueue.dequeue: expected exactly one  msg.command == <literal>  test')
    join = lits[0].comparators[0].value
    enq = find_def(t, 'enqueue', 'IrcMsgQueue')
    names = [ast.unparse(n.comparators[0]) for n in ast.walk(enq) if isinstance(n, ast.Compare)
             and ast.unparse(n.left) == 'msg.command' and isinstance(n.ops[0], ast.In)]
    need(names == ['_high', '_low'], 'IrcMsgQueue.enqueue: expected tests msg.command in _high, then in _low; got %r' % names)
    # Irc.die(): the only test that lets die() close the driver at once is  not self.afterConnect  (pinned exactly)
    die = find_def(t, 'die', 'Irc')
    ifs = [n for n in ast.walk(die) if isinstance(n, ast.If)]
    need(len(ifs) == 1 and not ifs[0].orelse, 'Irc.die: expected exactly one if without else')
    need(ast.unparse(ifs[0].test) == 'not self.afterConnect',
         'Irc.die: the immediate-close test is %r, expected  not self.afterConnect' % ast.unparse(ifs[0].test))
    need([ast.unparse(x) for x in ifs[0].body] == ['self._reallyDie()'], 'Irc.die: the if body is not  self._reallyDie()')
    need([ast.unparse(x) for x in die.body if not (isinstance(x, ast.Expr) and isinstance(x.value, ast.Constant))][0] == 'self.zombie = True',
         'Irc.die: does not start with  self.zombie = True')
    out = 'Definition HIGH : list (list N) :=\n  %s.\n' % clist(cstr(x) for x in high)
    out += 'Definition LOW : list (list N) :=\n  %s.\n' % clist(cstr(x) for x in low)
    out += 'Definition JOIN_CMD : list N := %s.\n' % cstr(join)
    out += '(* Irc.die closes at once iff this test holds; Model.die mirrors it *)\nDefinition DIE_AT_ONCE_TEST : list N := %s.\n' % cstr(ast.unparse(ifs[0].test))
    return 'src/irclib.py', out
