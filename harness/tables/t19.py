"""tables for C19 (src/irclib.py): the priority sets of IrcMsgQueue and the
command literal of the JOIN rate-limit test in IrcMsgQueue.dequeue"""
import ast
from gen_tables import *  # noqa: F401,F403
from gen_tables import table, tree, module_assign, find_def, need, cstr, clist


def _frozenset_literal(v, name):
    need(isinstance(v, ast.Call) and ast.unparse(v.func) == 'frozenset' and len(v.args) == 1 and not v.keywords,
         '%s is not frozenset([...])' % name)
    items = ast.literal_eval(v.args[0])
    need(isinstance(items, (list, tuple, set)) and all(isinstance(x, str) for x in items), '%s: not a list of strings' % name)
    return sorted(set(items))


@table('T19')
def gen_T19():
    t = tree('src/irclib.py')
    high = _frozenset_literal(module_assign(t, '_high'), '_high')
    low = _frozenset_literal(module_assign(t, '_low'), '_low')
    deq = find_def(t, 'dequeue', 'IrcMsgQueue')
    lits = [n for n in ast.walk(deq) if isinstance(n, ast.Compare) and len(n.ops) == 1 and isinstance(n.ops[0], ast.Eq)
            and ast.unparse(n.left) == 'msg.command' and isinstance(n.comparators[0], ast.Constant)]
    need(len(lits) == 1 and isinstance(lits[0].comparators[0].value, str),
         'IrcMsgQueue.dequeue: expected exactly one  msg.command == <literal>  test')
    join = lits[0].comparators[0].value
    enq = find_def(t, 'enqueue', 'IrcMsgQueue')
    names = [ast.unparse(n.comparators[0]) for n in ast.walk(enq) if isinstance(n, ast.Compare)
             and ast.unparse(n.left) == 'msg.command' and isinstance(n.ops[0], ast.In)]
    need(names == ['_high', '_low'], 'IrcMsgQueue.enqueue: expected tests msg.command in _high, then in _low; got %r' % names)
    # the settings are read from the registry when the call runs (never from a copy cached on the object)
    need(any(isinstance(n, ast.Assign) and ast.unparse(n) == 'limit = conf.supybot.protocols.irc.queuing.rateLimit.join()' for n in ast.walk(deq)),
         'IrcMsgQueue.dequeue: does not read  conf.supybot.protocols.irc.queuing.rateLimit.join()  at call time')
    need(any(isinstance(n, ast.If) and 'conf.supybot.protocols.irc.queuing.duplicates()' in ast.unparse(n.test) for n in ast.walk(enq)),
         'IrcMsgQueue.enqueue: does not read  conf.supybot.protocols.irc.queuing.duplicates()  at call time')
    # Irc.die(): the only test that lets die() close the driver at once is  not self.afterConnect  (pinned exactly)
    die = find_def(t, 'die', 'Irc')
    ifs = [n for n in ast.walk(die) if isinstance(n, ast.If)]
    need(len(ifs) == 1 and not ifs[0].orelse, 'Irc.die: expected exactly one if without else')
    need(ast.unparse(ifs[0].test) == 'not self.afterConnect',
         'Irc.die: the immediate-close test is %r, expected  not self.afterConnect' % ast.unparse(ifs[0].test))
    need([ast.unparse(x) for x in ifs[0].body] == ['self._reallyDie()'], 'Irc.die: the if body is not  self._reallyDie()')
    need([ast.unparse(x) for x in die.body if not (isinstance(x, ast.Expr) and isinstance(x.value, ast.Constant))][0] == 'self.zombie = True',
         'Irc.die: does not start with  self.zombie = True')
    # Irc.takeMsg: the selection chain  fastqueue / queue (throttle test nested inside, a throttled call stops there) /
    # keep-alive PING (reached only with both queues empty), pinned exactly
    tk = find_def(t, 'takeMsg', 'Irc')
    chain = [n for n in tk.body if isinstance(n, ast.If) and ast.unparse(n.test) == 'self.fastqueue']
    need(len(chain) == 1, 'Irc.takeMsg: expected one  if self.fastqueue:  at top level')
    # once a message is out of its queue nothing in takeMsg may fail on a contract check: the firewall would swallow the AssertionError
    # and the message would be lost (finding C19.F47)
    need(not any(isinstance(n, ast.Assert) for n in ast.walk(tk)), 'Irc.takeMsg contains an assert statement: a failing assert loses the message in flight')
    c0 = chain[0]
    need([ast.unparse(x) for x in c0.body] == ['msg = self.fastqueue.dequeue()'], 'Irc.takeMsg: fastqueue branch changed')
    need(len(c0.orelse) == 1 and isinstance(c0.orelse[0], ast.If) and ast.unparse(c0.orelse[0].test) == 'self.queue',
         'Irc.takeMsg: the second branch is not  elif self.queue:  (the throttle test must be nested inside it)')
    c1 = c0.orelse[0]
    need(len(c1.body) == 1 and isinstance(c1.body[0], ast.If)
         and ast.unparse(c1.body[0].test) == 'now - self.lastTake <= conf.supybot.protocols.irc.throttleTime()',
         'Irc.takeMsg: elif self.queue: must contain exactly the nested throttle test  now-self.lastTake <= throttleTime()')
    thr = c1.body[0]
    need(all(isinstance(x, ast.Expr) and ast.unparse(x).startswith('log.') for x in thr.body),
         'Irc.takeMsg: the throttled branch does more than log')
    need([ast.unparse(x) for x in thr.orelse] == ['self.lastTake = now', 'msg = self.queue.dequeue()'],
         'Irc.takeMsg: the un-throttled branch is not  self.lastTake = now; msg = self.queue.dequeue()')
    need(len(c1.orelse) == 1 and isinstance(c1.orelse[0], ast.If) and not c1.orelse[0].orelse
         and ast.unparse(c1.orelse[0].test) == 'self.afterConnect and conf.supybot.protocols.irc.ping() and '
                                               '(now > self.lastping + conf.supybot.protocols.irc.ping.interval())',
         'Irc.takeMsg: the keep-alive branch test changed')
    ka = c1.orelse[0]
    need(len(ka.body) == 1 and isinstance(ka.body[0], ast.If) and ast.unparse(ka.body[0].test) == 'self.outstandingPing'
         and [ast.unparse(x) for x in ka.body[0].body][-2:] == ['self.feedMsg(ircmsgs.error(s))', 'self.driver.reconnect()']
         and len(ka.body[0].orelse) == 1 and isinstance(ka.body[0].orelse[0], ast.If)
         and ast.unparse(ka.body[0].orelse[0].test) == 'not self.zombie' and not ka.body[0].orelse[0].orelse,
         'Irc.takeMsg: the keep-alive branch (outstandingPing -> reconnect / not zombie -> queue a PING) changed')
    out = 'Definition HIGH : list (list N) :=\n  %s.\n' % clist(cstr(x) for x in high)
    out += 'Definition LOW : list (list N) :=\n  %s.\n' % clist(cstr(x) for x in low)
    out += 'Definition JOIN_CMD : list N := %s.\n' % cstr(join)
    out += '(* Irc.takeMsg selection chain as pinned: Model.take_body mirrors it *)\nDefinition TAKE_CHAIN : list (list N) := %s.\n' % clist(
        cstr(x) for x in [ast.unparse(c0.test), ast.unparse(c1.test), ast.unparse(thr.test), ast.unparse(ka.test)])
    out += '(* Irc.die closes at once iff this test holds; Model.die mirrors it *)\nDefinition DIE_AT_ONCE_TEST : list N := %s.\n' % cstr(ast.unparse(ifs[0].test))
    return 'src/irclib.py', out
