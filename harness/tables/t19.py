"""tables for C19 (src/irclib.py): the priority sets of IrcMsgQueue and the
command literal of the JOIN rate-limit test in IrcMsgQueue.dequeue"""
import ast
from gen_tables import *  # noqa: F401,F403
from gen_tables import table, tree, module_assign, find_def, need, cstr, clist


def _frozenset_literal(v, name):
    need(isinstance(v, ast.Call) and ast.unparse(v.func) == 'frozenset' and len(v.args) == 1 and not v.keywords,
         '%s is not frozenset([...])' % name)
    items = ast.literal_eval(v.args[0])
    need(isinstance(items, (list, tuple, set)) and all(isinstance(x, str) for x in items), '%s: not a list of strings' % name)
    return sorted(set(items))


@table('T19')
def gen_T19():
    t = tree('src/irclib.py')
    high = _frozenset_literal(module_assign(t, '_high'), '_high')
    low = _frozenset_literal(module_assign(t, '_low'), '_low')
    deq = find_def(t, 'dequeue', 'IrcMsgQueue')
    lits = [n for n in ast.walk(deq) if isinstance(n, ast.Compare) and len(n.ops) == 1 and isinstance(n.ops[0], ast.Eq)
            and ast.unparse(n.left) == 'msg.command' and isinstance(n.comparators[0], ast.Constant)]
    need(len(lits) == 1 and isinstance(lits[0].comparators[0].value, str),
         'IrcMsgQueue.dequeue: expected exactly one  msg.command == <literal>  test')
    join = lits[0].comparators[0].value
    enq = find_def(t, 'enqueue', 'IrcMsgQueue')
    names = [ast.unparse(n.comparators[0]) for n in ast.walk(enq) if isinstance(n, ast.Compare)
             and ast.unparse(n.left) == 'msg.command' and isinstance(n.ops[0], ast.In)]
    need(names == ['_high', '_low'], 'IrcMsgQueue.enqueue: expected tests msg.command in _high, then in _low; got %r' % names)
    out = 'Definition HIGH : list (list N) :=\n  %s.\n' % clist(cstr(x) for x in high)
    out += 'Definition LOW : list (list N) :=\n  %s.\n' % clist(cstr(x) for x in low)
    out += 'Definition JOIN_CMD : list N := %s.\n' % cstr(join)
    return 'src/irclib.py', out
