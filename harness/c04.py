"""C04 — a sender is recognised as an account only via its own hostmasks or login."""
import copy, itertools, re
import boot
from lib import wire

TABLES = ['T03', 'T04']
RULE = ('(i) glob matcher: pattern x hostmask pairs, exhaustive up to length 3 (quick) / 4 (thorough) over the alphabet '
        '{a,A,[,{,\\,|,^,~,*,?,!,@,.} plus random long ones, real ircutils.hostmaskPatternEqual vs extracted model; '
        '(ii) state machine: random histories (register/setUser with glob masks, delUser, identify = addAuth + setUser as every '
        'caller does, unidentify, clock advances, lookups that warm the cache) on a real UsersDictionary with patched time.time; '
        'the witnesses of the repaired findings F5 and F22 run first; EVERY real transition is replayed as one '
        'model step from a snapshot of the real state (so set-iteration order is an input) and the resulting state/return value '
        'diffed; direct oracle after every lookup: recognised only through own mask or live login, never two accounts, equals the '
        'cache-free recomputation; after every accepted setUser: no two accounts own masks matching one hostmask of the pool. '
        'plus directed histories in which a cached answer goes stale without invalidateCache (a login expires and another '
        'sender\'s cache miss / another account\'s setUser purges it from user.auth; the Multiple-matches branch strips masks) followed '
        'by the lookup of the cached sender; '
        'and NICK messages of identified clients fed to the live Irc with supybot.followIdentificationThroughNickChanges on or '
        'off (Irc.doNick stepped against Model.nickchange; oracle: a login followed to the new hostmask is not kept for the old one); '
        '(iii) command layer: the histories interleave real User plugin commands (hostmask add/remove, identify, unidentify, changename, '
        'register) sent as private messages through a live bot (Owner, Misc, Config, User loaded) with the API operations; every command '
        '(and user set secure on/off/toggle from matching, foreign, identified and unidentified hostmasks) is one step of the model (run_cmd) from a snapshot of the real state, with passwords / owner flag / syntax checks observed from '
        'the real run as inputs; which except clause catches what around users.setUser is regenerated from plugins/User/plugin.py (table '
        'T04, fail-closed); direct oracle: after every refused command (no "The operation succeeded") the accounts (name, masks, secure, '
        'unexpired logins) are compared with the snapshot taken before it; an accepted user set secure must come from a hostmask one of the '
        'account\'s masks matches; a lookup that answers a secure account must be matched by one of its masks; after every accepted hostmask add / register no two accounts own '
        'masks matching one hostmask of the pool.  non-trivial = distinct (state, op) step with at least one user')
TRUSTED = ["Python's re for the atoms the translator emits (differentially tested against the model matcher)",
           're.I is modelled for ASCII letters only (generators use ASCII + non-cased characters)',
           'the reverse index of _hostmaskCache and the _nameCache are not modelled (forward cache compared after every step)',
           'CacheDict eviction is modelled (size from table T04); only the hostmask-cache boundary is exercised, by a directed fill of 998 lookups',
           'command layer: callbacks dispatch, commands.wrap converters, password hashing and the capability check are exercised through '
           'the live bot but enter the model as inputs (which account <name> resolves to is modelled; checkPassword / owner capability / '
           'isUserHostmask / unWildcardHostmask results are observed); commands whose lookups hit the Multiple-matches branch are compared '
           'on the ambiguity flag only']
ASSUMPTIONS = ['hostmasks contain no LF; plugins call setUser after mutating a stored account (API discipline): in particular a login is '
               'addAuth followed by setUser, which is where the repaired code drops the cache entries of the login hostmask']
EXPLANATION = 'C04: glob matcher + user lookup state machine; theorems in coq/C04/Props.v'
LEVEL_TEXT = ('Coq theorems over an executable Gallina model of the hostmask glob matcher and of the UsersDictionary lookup state machine '
              '(logins with timeout, hostmask cache, setUser overlap test): matcher = declarative glob semantics for all patterns/hostmasks and '
              'invariant under rfc1459 folding; a lookup that misses the cache returns an id only if exactly that account recognises the '
              'hostmask (own mask or unexpired login); for every state, cached or not, an answer is an account that recognises the hostmask '
              'now and the one account a recomputation finds is answered (F5 repaired: cached ids are re-checked); cache coherence '
              '(answer = cache-free recomputation) proved as an invariant over arbitrary histories for every login timeout and clock, '
              'logins to other accounts included (F22 repaired), on the domain "an accepted setUser does not make the account match a '
              'hostmask another account recognises" and refuted by a witness outside it (finding F6, setUser tests overlap literally); '
              'secure accounts need a matching mask to log in.  Tie: per-transition refinement check of the real UsersDictionary '
              'against the extracted model + exhaustive '
              'small-alphabet matcher comparison against the real regex translation.')
LEVEL_NOTE = ('Trusted: Coq kernel, extraction + driver, harness; Python re for the emitted atoms (tested; since the repair of F27 the '
              'regexp folds ASCII letters only, and the matcher inputs include letters whose Unicode case mapping crosses ASCII); '
              'both caches are modelled with CacheDict\'s eviction rule and size (table T04; the boundary "full between the two writes of '
              'an entry" is in the corpus for the hostmask cache, F28), clock and timeout are explicit inputs.  The memo layers of ircutils.hostmaskPatternEqual are modelled in Memo.v (C04_glob_memo: memoised = '
              'direct), their key expressions and sizes pinned by T04, and lookup sequences with Unicode-case twins are compared '
              'with a cold matcher; the memo model itself is not stepped against the real dictionaries.  NOT modelled / not verified: the name-cache eviction boundary needs about 500 accounts and is modelled but never generated; one network '
              '(hostmasks, logins and caches are network-agnostic in ircdb: the same hostmask on another network is the same sender); '
              'logins made without a password by other plugins (NickAuth: services account, GPG: signed token) call the same '
              'addAuth + setUser and are outside the histories; users.conf load / reload (IrcUserCreator writes hostmasks without '
              'addHostmask\'s checks, then setUser; logins are not persisted) is C16\'s; hostmask-shaped strings with several ! or @ or '
              'a trailing newline (isUserHostmask accepts them) are never generated; float clocks (the model clock is an integer).  Command layer: a refused User plugin command '
              'leaves the accounts as they were whatever refuses it, users.setUser included (C04_refused_command_no_trace; F23 and F24 '
              'repaired: every command undoes its edit; only proviso: no lookup of the command hit the Multiple-matches branch), an '
              'accepted hostmask add keeps the coherence invariant; `user set secure` is modelled with its guard pinned (useAuth=False) and '
              'a secure account answered by a lookup has a matching registered mask after any history on the domain of '
              'C04_secure_needs_mask_after_history_on_domain (refuted outside: findings F25, F26); dispatcher and converters are modelled as lookups of the sender and '
              'of the <name> argument only; passwords, capabilities and syntax checks are oracle inputs.')
TECHNIQUE = 'Coq proof (induction on patterns; invariant over operation histories) + per-step refinement check against the real objects'

ALPHA = ['a', 'A', '[', '{', '\\', '|', '^', '~', '*', '?', '!', '@', '.']
MASKS = ['a*!*@*', '*b!*@*', 'ab!x@y', '*!*@host', 'nick!user@host', 'N[ck!*@*', 'n{ck!u@h', '*!x@*', 'ab!*@y', 'zz!zz@zz', '?b!x@y', 'A*!*@*']
HOSTS = ['ab!x@y', 'nick!user@host', 'n[ck!u@h', 'N{CK!u@h', 'zz!zz@zz', 'cb!x@y', 'a!a@host', 'Ab!x@Y', 'q!q@q']


def _mods():
    boot.boot()
    import supybot.ircdb as ircdb, supybot.conf as conf, supybot.ircutils as ircutils
    return ircdb, conf, ircutils


# ---------- independent reference matcher (direct oracle) ----------
def ref_match(pat, h):
    """IRC glob semantics: * any run, ? one char, rfc1459 case folding"""
    tr = str.maketrans('ABCDEFGHIJKLMNOPQRSTUVWXYZ[]\\~', 'abcdefghijklmnopqrstuvwxyz{}|^')
    p, s = pat.translate(tr), h.translate(tr)
    memo = {}

    def go(i, j):
        k = (i, j)
        if k in memo:
            return memo[k]
        if i == len(p):
            r = j == len(s)
        elif p[i] == '*':
            r = go(i + 1, j) or (j < len(s) and go(i, j + 1))
        elif j < len(s) and (p[i] == '?' or p[i] == s[j]):
            r = go(i + 1, j + 1)
        else:
            r = False
        memo[k] = r
        return r
    return go(0, 0)


# ---------- state machine driver ----------
class Clock:
    now = 1000


def snapshot(users):
    us = []
    for i, u in users.users.items():
        us.append([i, [u.name, [str(m) for m in u.hostmasks], [[int(w), m] for (w, m) in u.auth], bool(u.secure)]])
    cache = [[k, v] for k, v in users._hostmaskCache.items() if isinstance(k, str)]
    rev = [[k, list(v)] for k, v in users._hostmaskCache.items() if isinstance(k, int)]
    ncache = [[k, v] for k, v in users._nameCache.items() if isinstance(k, str)]
    nrev = [[k, v] for k, v in users._nameCache.items() if isinstance(k, int)]
    return [us, cache, rev, ncache, nrev, users.nextId]


def canon_state(s):
    us = [[i, [u[0], sorted(u[1]), u[2], u[3]]] for i, u in s[0]]
    return [us, sorted(s[1]), sorted([k, sorted(v)] for k, v in s[2]), sorted(s[3]), sorted(s[4]), s[5]]


def dec_state(v):
    us = [[e[0], [wire.s(e[1][0]), wire.ls(e[1][1]), [[a[0], wire.s(a[1])] for a in e[1][2]], bool(e[1][3])]] for e in v[0]]
    return [us, [[wire.s(e[0]), e[1]] for e in v[1]], [[e[0], wire.ls(e[1])] for e in v[2]],
            [[wire.s(e[0]), e[1]] for e in v[3]], [[e[0], wire.s(e[1])] for e in v[4]], v[5]]


def wire_op(o):
    k = o[0]
    if k == 'lookup':
        return [0, o[1]]
    if k == 'set':
        return [1, o[1], o[2]]
    if k == 'del':
        return [2, o[1]]
    if k == 'new':
        return [3]
    if k == 'auth':
        return [4, o[1], o[2]]
    return [5, o[1]]


def apply_real(mods, users, o, hostmasks=None):
    ircdb, conf, ircutils = mods
    k = o[0]
    try:
        if k == 'lookup':
            return ('ok', users.getUserId(o[1]))
        if k == 'set':
            i, (name, masks, auth, secure) = o[1], o[2]
            obj = users.users.get(i)
            if obj is None:
                obj = ircdb.IrcUser()
                obj.id = i
                obj.setPassword(PASSWORD)
            old = (obj.name, obj.hostmasks, obj.secure)
            obj.name = name
            # the very set object whose iteration order was recorded in the op (rebuilding it can iterate differently
            # when two masks collide in the hash table)
            obj.hostmasks = hostmasks if hostmasks is not None else ircutils.IrcSet(masks)
            obj.auth = [(w, m) for w, m in auth]
            obj.secure = secure
            try:
                users.setUser(obj, flush=False)
            except ircdb.DuplicateHostmask:
                obj.name, obj.hostmasks, obj.secure = old      # what the User plugin does on failure
                raise
            return ('ok', 0)
        if k == 'del':
            users.delUser(o[1])
            return ('ok', 0)
        if k == 'new':
            u = users.newUser()
            u.setPassword(PASSWORD)
            if len(o) > 1 and o[1] == 'owner':
                u.addCapability('owner')
            return ('ok', u.id)
        if k == 'auth':                 # identify: what every caller of addAuth does (User.identify, GPG, NickAuth)
            obj = users.users[o[1]]
            obj.addAuth(o[2])
            users.setUser(obj, flush=False)
            return ('ok', 0)
        if k == 'clear':
            users.users[o[1]].clearAuth()
            return ('ok', 0)
    except ircdb.DuplicateHostmask:
        return ('raise', 'DuplicateHostmask')
    except Exception as e:
        return ('raise', type(e).__name__)
    raise AssertionError(o)


# ---------- the command layer: a live bot with the User plugin ----------
_BOT = {}
PASSWORD, WRONG = 'secret', 'wrong'
NAMES = ['u1', 'u2', 'u3', 'u4', 'nobody', 'fresh', 'Fresh2']
CMD_KINDS = ['add', 'remove', 'identify', 'unidentify', 'changename', 'register', 'secure']
CMD_MASKS = MASKS + ['*!*@*', 'nomask', 'q!q@q', 'n[ck!u@h']


class _Driver:
    def reconnect(self, *a, **k):
        pass

    def die(self):
        pass


def _deny(*a, **k):
    raise OSError(101, 'Network is unreachable (verification harness)')


def bot():
    if _BOT:
        return _BOT
    ircdb, conf, ircutils = _mods()
    import socket
    socket.getaddrinfo = _deny
    socket.create_connection = _deny
    socket.socket.connect = _deny
    import warnings
    warnings.simplefilter('ignore')
    import supybot.httpserver as httpserver
    httpserver.startServer = lambda: None
    import supybot.irclib as irclib, supybot.ircmsgs as ircmsgs, supybot.plugin as plugin, supybot.world as world
    assert world.testing is False
    conf.supybot.abuse.flood.command.setValue(False)
    conf.supybot.abuse.flood.command.invalid.setValue(False)
    irc = irclib.Irc('test')
    irc.driver = _Driver()
    _BOT.update(irc=irc, ircmsgs=ircmsgs)
    _drain()
    for n in ('Owner', 'Misc', 'Config', 'User'):
        plugin.loadPluginClass(irc, plugin.loadPluginModule(n))
    for l in (':server 001 test :Welcome', ':server 376 test :End of MOTD'):
        irc.feedMsg(ircmsgs.IrcMsg(l))
    _drain()
    # observation points (no source hooks): what setUser / the lookups / the oracle primitives did during one command
    obs = _BOT['obs'] = {}
    o_set, o_get, o_rm = ircdb.UsersDictionary.setUser, ircdb.UsersDictionary.getUserId, ircdb.IrcUser.removeHostmask
    o_pw, o_cap, o_ucap = ircdb.IrcUser.checkPassword, ircdb.checkCapability, ircdb.IrcUser._checkCapability

    def setUser(self, user, flush=True):
        try:
            return o_set(self, user, flush=flush)
        except Exception as e:
            obs['set_raised'] = type(e).__name__
            raise

    def getUserId(self, s):
        obs['depth'] = obs.get('depth', 0) + 1
        try:
            return o_get(self, s)
        finally:
            obs['depth'] -= 1

    def removeHostmask(self, h):
        if obs.get('depth', 0) > 0:
            obs['ambiguous'] = True
        return o_rm(self, h)

    def checkPassword(self, pw):
        r = o_pw(self, pw)
        obs['pw'] = bool(r)
        return r

    def checkCapability(hostmask, capability, *a, **k):
        r = o_cap(hostmask, capability, *a, **k)
        if capability == 'owner':
            obs['owner'] = bool(r)
        return r

    def _checkCapability(self, capability, *a, **k):
        r = o_ucap(self, capability, *a, **k)
        if capability == 'owner':
            obs['owner'] = bool(r)
        return r
    ircdb.UsersDictionary.setUser, ircdb.UsersDictionary.getUserId, ircdb.IrcUser.removeHostmask = setUser, getUserId, removeHostmask
    ircdb.IrcUser.checkPassword, ircdb.checkCapability, ircdb.IrcUser._checkCapability = checkPassword, checkCapability, _checkCapability
    return _BOT


def _drain():
    out, irc = [], _BOT['irc']
    for _ in range(10000):
        try:
            irc.lastTake = 0          # the clock is frozen during a history: do not let the throttle hold replies back
            m = irc.takeMsg()
        except Exception as e:
            out.append(e)
            continue
        if m is None:
            break
        out.append(m)
    return out


def _q(a):
    return '"%s"' % a


def cmd_text(c):
    """c = [kind, a, b, pw]"""
    kind, a, b, pw = c
    if kind == 'add':
        return 'hostmask add %s %s %s' % (_q(a), _q(b), _q(pw))
    if kind == 'remove':
        return 'hostmask remove %s %s %s' % (_q(a), _q(b), _q(pw))
    if kind == 'identify':
        return 'identify %s %s' % (_q(a), _q(pw))
    if kind == 'unidentify':
        return 'unidentify'
    if kind == 'changename':
        return 'changename %s %s %s' % (_q(a), _q(b), _q(pw))
    if kind == 'secure':
        return ('user set secure %s %s' % (_q(pw), b)).rstrip()
    return 'register %s %s' % (_q(a), _q(pw))


def run_command(mods, P, c):
    """send one User plugin command from prefix P through the live bot; returns (succeeded, observations)"""
    ircdb, conf, ircutils = mods
    B = bot()
    irc, ircmsgs = B['irc'], B['ircmsgs']
    obs = B['obs']
    obs.clear()
    _drain()
    m = ircmsgs.IrcMsg(prefix=P, command='PRIVMSG', args=(irc.nick, cmd_text(c)))
    try:
        irc.feedMsg(m)
    except Exception as e:
        obs['feed_raised'] = type(e).__name__
    out = _drain()
    texts = [x.args[1] for x in out if hasattr(x, 'args') and len(x.args) > 1]
    return any('The operation succeeded' in t or 'Secure flag set to' in t for t in texts), dict(obs), texts


def cmd_oracle_inputs(mods, P, c, obs):
    """the inputs of the command model that are not part of its state: [pw_ok, owner, shape_ok, long_ok, name_ok]"""
    ircdb, conf, ircutils = mods
    kind, a, b, pw = c
    subject = P if kind == 'register' else b
    name = b if kind == 'changename' else a
    name_ok = not ircutils.isUserHostmask(name) and name == name.strip() and not any(x in name for x in '\t\r\n')
    return [obs.get('pw', pw == PASSWORD), obs.get('owner', False), bool(ircutils.isUserHostmask(subject)),
            len(ircdb.unWildcardHostmask(subject)) >= 3, name_ok]


def wire_cmd(c):
    if c[0] == 'secure':
        return [CMD_KINDS.index(c[0]), {'False': 0, 'True': 1, '': 2}[c[2]], '']
    return [CMD_KINDS.index(c[0]), c[1], c[2]]


def db_view(state, now, timeout):
    """what a refused command must leave alone: accounts with name, masks, secure flag and the logins that have not expired"""
    return sorted([i, u[0], sorted(u[1]), u[3], sorted([w, m] for (w, m) in u[2] if not (timeout and w + timeout < now))]
                  for i, u in state[0])



def gen_history(rng):
    timeout = rng.choice([0, 0, 10])
    n = rng.randint(5, 40)
    ops, known = [], []
    for _ in range(n):
        r = rng.random()
        if r < 0.12 or not known:
            ops.append(['new', 'owner'] if rng.random() < 0.08 else ['new'])
            known.append(len(known) + 1)
        elif r < 0.40:
            i = rng.choice(known)
            masks = rng.sample(MASKS, rng.choice([0, 1, 1, 2]))
            ops.append(['set', i, ['u%d' % (i if rng.random() < 0.9 else 1), masks, None, rng.random() < 0.2]])
        elif r < 0.45:
            ops.append(['del', rng.choice(known)])
        elif r < 0.60:
            ops.append(['auth', rng.choice(known), rng.choice(HOSTS)])
        elif r < 0.65:
            ops.append(['clear', rng.choice(known)])
        elif r < 0.72:
            ops.append(['tick', rng.choice([1, 5, 11, 30])])
        elif r < 0.86:
            ops.append(['lookup', rng.choice(HOSTS)])
        else:
            ops.append(gen_cmd(rng, known))
    if rng.random() < 0.3:
        k = rng.randint(0, len(ops))
        ops.insert(k, ['nick', rng.choice(HOSTS), rng.choice(NEWNICKS)])
        return {'timeout': timeout, 'follow': rng.random() < 0.7, 'ops': ops}
    return {'timeout': timeout, 'ops': ops}


NEWNICKS = ['zed', 'Q2', 'ab', 'AB', 'nick2', 'cb', 'n{ck']


def gen_nick(rng):
    """an identified client changes nick (supybot.followIdentificationThroughNickChanges on or off); then whoever holds the old
    hostmask, and the client under its new one, are looked up"""
    import supybot.ircutils as ircutils
    h = rng.choice(HOSTS)
    own = [m for m in MASKS if not ref_match(m, h)]
    ops = [['new'], ['new'], ['set', 1, ['u1', [rng.choice(own)] if rng.random() < 0.6 else [], None, False]]]
    ops.append(['auth', 1, h] if rng.random() < 0.5 else ['cmd', h, ['identify', 'u1', '', PASSWORD]])
    if rng.random() < 0.3:
        ops.append(['auth', 1, rng.choice(HOSTS)])
    if rng.random() < 0.5:
        ops.append(['lookup', h])
    if rng.random() < 0.3:
        ops.append(['tick', rng.choice([1, 5, 11])])
    nn = rng.choice(NEWNICKS)
    ops.append(['nick', h, nn])
    newP = ircutils.joinHostmask(nn, *ircutils.splitHostmask(h)[1:])
    ops += rng.sample([['lookup', h], ['lookup', newP], ['lookup', h], ['cmd', newP, ['unidentify', '', '', PASSWORD]]], rng.randint(2, 4))
    if rng.random() < 0.4:
        ops += [['nick', newP, rng.choice(NEWNICKS)], ['lookup', newP], ['lookup', h]]
    tail = gen_history(rng)['ops'][:rng.randint(0, 6)]
    return {'timeout': rng.choice([0, 0, 10]), 'follow': rng.random() < 0.8, 'ops': ops + [o for o in tail if o[0] != 'new']}


def gen_stale(rng):
    """histories in which a cached answer goes stale WITHOUT invalidateCache: (1) a login expires and something else than the
    expired sender's own lookup purges it from user.auth; (2) the Multiple-matches branch strips masks.  Followed by the
    lookup of the sender that was cached, and a random tail"""
    route = rng.choice([1, 1, 2])
    if route == 1:
        h = rng.choice(HOSTS)
        own = rng.choice([m for m in MASKS if not ref_match(m, h)])
        ops = [['new'], ['new'], ['set', 1, ['u1', [own] if rng.random() < 0.7 else [], None, False]]]
        ops.append(['auth', 1, h] if rng.random() < 0.5 else ['cmd', h, ['identify', 'u1', '', PASSWORD]])
        ops += [['lookup', h], ['tick', rng.choice([11, 30])]]
        other = rng.choice([x for x in HOSTS if x != h])
        purge = rng.choice(['lookup', 'lookup', 'set', 'cmd'])
        if purge == 'lookup':
            ops.append(['lookup', other])
        elif purge == 'set':
            ops.append(['set', 2, ['u2', [rng.choice(MASKS)], None, False]])
        else:
            ops.append(['cmd', other, ['register', 'fresh', '', PASSWORD]])
        ops += [['lookup', h]] * rng.choice([1, 2])
        timeout = 10
    else:
        m1, m2 = rng.choice([('a*!*@*', '*b!*@*'), ('A*!*@*', '?b!x@y'), ('*!x@*', 'ab!*@y'), ('*!*@host', 'nick!user@host')])
        both = [x for x in HOSTS if ref_match(m1, x) and ref_match(m2, x)]
        only1 = [x for x in HOSTS + ['a!a@host', 'aq!x@q', 'q!x@q', 'a!q@host'] if ref_match(m1, x) and not ref_match(m2, x)]
        ops = [['new'], ['new'], ['set', 1, ['u1', [m1], None, False]]]
        if only1:
            ops.append(['lookup', rng.choice(only1)])
        ops.append(['set', 2, ['u2', [m2], None, False]])
        if both:
            ops.append(['lookup', rng.choice(both)])
        if only1:
            ops += [['lookup', x] for x in rng.sample(only1, min(2, len(only1)))]
        timeout = rng.choice([0, 10])
    tail = gen_history(rng)['ops'][:rng.randint(0, 8)]
    return {'timeout': timeout, 'ops': ops + [o for o in tail if o[0] != 'new']}


def gen_cmd(rng, known):
    kind = rng.choice(['add', 'add', 'add', 'remove', 'identify', 'identify', 'unidentify', 'changename', 'register', 'secure', 'secure'])
    name = ('u%d' % rng.choice(known)) if known and rng.random() < 0.9 else rng.choice(NAMES)
    pw = PASSWORD if rng.random() < 0.8 else WRONG
    P = rng.choice(HOSTS)
    if kind in ('add', 'remove'):
        return ['cmd', P, [kind, name, rng.choice(CMD_MASKS if rng.random() < 0.9 else HOSTS), pw]]
    if kind == 'changename':
        return ['cmd', P, [kind, name, rng.choice(NAMES), pw]]
    if kind == 'register':
        return ['cmd', P, [kind, rng.choice(NAMES), '', pw]]
    if kind == 'secure':
        return ['cmd', P, [kind, '', rng.choice(['True', 'True', 'False', '']), pw]]
    return ['cmd', P, [kind, name, '', pw]]


def live_auth(u, h, now, timeout):
    return any(m == h and not (timeout and w + timeout < now) for (w, m) in u[2])


def recognisers_ref(state, h, now, timeout):
    """cache-free: who recognises h (own mask by the reference matcher, or live login)"""
    # "a 'secure' account additionally requires a matching registered mask": its logins alone do not count
    return [i for i, u in state[0] if (live_auth(u, h, now, timeout) and not u[3]) or any(ref_match(m, h) for m in u[1])]


def run_history(ctx, mods, hist, model=True, kind='history'):
    """returns list of failures (dicts) found by the direct oracle; also records disagreements"""
    ircdb, conf, ircutils = mods
    bot()
    users = ircdb.users          # the dictionary the plugins and ircdb.checkCapability use; emptied for every history
    users.users.clear()
    users._nameCache.clear()
    users._hostmaskCache.clear()
    users.nextId = 0
    ircdb.ignores.hostmasks.clear()
    saved_time = ircdb.time.time
    clock = Clock()
    clock.now = 1000
    ircdb.time.time = lambda: clock.now
    timeout = hist['timeout']
    follow = bool(hist.get('follow', False))
    conf.supybot.databases.users.timeoutIdentification.setValue(timeout)
    conf.supybot.followIdentificationThroughNickChanges.setValue(follow)
    _BOT['irc'].state.nicksToHostmasks.clear()
    steps, fails = [], []
    try:
        for idx, o in enumerate(hist['ops']):
            if o[0] == 'tick':
                clock.now += o[1]
                continue
            if o[0] == 'fill':
                # o[2] lookups of recognised senders o[1]<i>!x@y, to bring the hostmask cache near its limit (not stepped against
                # the model one by one: the steps that follow are, from the snapshot of the filled cache)
                for i in range(o[2]):
                    try:
                        users.getUserId('%s%d!x@y' % (o[1], i))
                    except Exception:
                        pass
                continue
            before = snapshot(users)
            if o[0] == 'nick':
                # a NICK message from client o[1] seen by the bot (Irc.doNick, supybot.followIdentificationThroughNickChanges)
                P = o[1]
                newP = ircutils.joinHostmask(o[2], *ircutils.splitHostmask(P)[1:])
                B = bot()
                B['obs'].clear()
                _drain()
                try:
                    B['irc'].feedMsg(B['ircmsgs'].IrcMsg(prefix=P, command='NICK', args=(o[2],)))
                except Exception as e:
                    B['obs']['feed_raised'] = type(e).__name__
                _drain()
                obs = dict(B['obs'])
                after = snapshot(users)
                steps.append((timeout, clock.now, before, o, after, ('nick', newP, follow, 'set_raised' in obs, bool(obs.get('ambiguous')))))
                # ---- direct oracle: a login followed to the new hostmask is no longer a login from the old one
                # ("identified ... from that exact hostmask": whoever holds the old nick afterwards did not identify)
                if follow and 'set_raised' not in obs and not obs.get('ambiguous') and _fold(newP) != _fold(P):
                    b4 = dict((i, u) for i, u in before[0])
                    for i, u in after[0]:
                        old = b4.get(i)
                        if old is None:
                            continue
                        gained = [e for e in u[2] if e[1] == newP and e not in old[2]]
                        kept = [e for e in u[2] if _fold(e[1]) == _fold(P)]
                        if gained and (kept or len(u[2]) > len(old[2])):
                            fails.append({'step': idx, 'h': P, 'kind': 'nickchange-login-kept',
                                          'detail': 'NICK %s -> %s: account %r got the login %r for the new hostmask but keeps %r (logins before: %r)'
                                                    % (P, o[2], i, gained, kept or u[2], old[2])})
                continue
            hs = None
            if o[0] == 'set':
                hs = ircutils.IrcSet(o[2][1])
                cur = dict((i, u) for i, u in before[0]).get(o[1])
                # set iteration order is an input of the model; None = keep the account's current logins
                o = ['set', o[1], [o[2][0], [str(m) for m in hs], (cur[2] if cur else []) if o[2][2] is None else o[2][2], o[2][3]]]
            if o[0] == 'cmd':
                ok, obs, texts = run_command(mods, o[1], o[2])
                after = snapshot(users)
                orc = cmd_oracle_inputs(mods, o[1], o[2], obs)
                amb, via_set = bool(obs.get('ambiguous')), 'set_raised' in obs
                steps.append((timeout, clock.now, before, o, after, ('cmd', ok, amb, via_set, orc)))
                # ---- direct oracle: a refused command leaves the user database exactly as it was.  When a lookup inside the
                # command ran the "Multiple matches ... Removing the offending hostmasks" branch, that removal is the documented
                # reaction to an ambiguous hostmask, not a trace of the command: not judged here (the theorem's r_amb = false)
                if not ok and not amb:
                    b4, aft = db_view(before, clock.now, timeout), db_view(after, clock.now, timeout)
                    if b4 != aft:
                        diff = [x for x in aft if x not in b4] or [x for x in b4 if x not in aft]
                        tgt = [u for i, u in before[0] if u[0].lower() == o[2][1].lower()]
                        owned = o[2][0] == 'add' and any(_fold(m) == _fold(o[2][2]) for u in tgt for m in u[1])
                        fails.append({'step': idx, 'h': o[1], 'kind': 'refused-with-trace', 'cmd': o[2][0],
                                      'via': 'setuser' if via_set else 'other', 'owned': owned,
                                      'detail': '%s from %s was refused (%r) but the user database changed: %r'
                                                % (cmd_text(o[2]), o[1], texts[:1], diff[:2])})
                if ok and o[2][0] == 'secure':
                    # "Requires that the person's hostmask be in the list of hostmasks for that user": an accepted
                    # set secure was sent from a hostmask one of the account's registered masks matches
                    for i in set(recognisers_ref(before, o[1], clock.now, timeout)):
                        u = dict((j, v) for j, v in before[0])[i]
                        if not any(ref_match(m, o[1]) for m in u[1]):
                            fails.append({'step': idx, 'h': o[1], 'kind': 'secure-set-from-foreign', 'cmd': 'secure',
                                          'detail': '%s from %s was accepted for account %r although none of its masks %r matches the sender'
                                                    % (cmd_text(o[2]), o[1], i, u[1])})
                if ok and o[2][0] in ('add', 'register'):
                    for h in HOSTS:
                        owners = [i for i, u in after[0] if any(ref_match(m, h) for m in u[1])]
                        if len(owners) > 1:
                            fails.append({'step': idx, 'h': h, 'kind': 'overlapping-masks',
                                          'detail': '%s accepted: accounts %r own masks that all match %r' % (cmd_text(o[2]), owners, h)})
                            break
                continue
            res = apply_real(mods, users, o, hostmasks=hs)
            after = snapshot(users)
            steps.append((timeout, clock.now, before, o, after, res))
            # ---- direct oracle ----
            if o[0] == 'lookup':
                h = o[1]
                rec = recognisers_ref(before, h, clock.now, timeout)
                if res[0] == 'ok':
                    if res[1] not in rec:
                        why = 'stale' if dict((k, v) for k, v in before[1]).get(h) == res[1] else 'fresh'
                        fails.append({'step': idx, 'h': h, 'kind': 'not-recognised-by-recomputation',
                                      'detail': 'lookup(%r) = %r at t=%d but a cache-free recomputation finds %r (%s answer)'
                                                % (h, res[1], clock.now, rec, why)})
                    else:
                        u = dict((i, v) for i, v in before[0]).get(res[1])
                        if u is not None and u[3] and not any(ref_match(m, h) for m in u[1]):
                            fails.append({'step': idx, 'h': h, 'kind': 'secure-without-mask',
                                          'detail': 'lookup(%r) = %r: the account is secure but none of its masks %r matches (recognised by a login only)'
                                                    % (h, res[1], u[1])})
                    if res[1] in rec and len(rec) > 1:
                        fails.append({'step': idx, 'h': h, 'kind': 'two-accounts',
                                      'detail': 'lookup(%r) = %r but accounts %r all recognise it' % (h, res[1], rec)})
                elif res[1] == 'KeyError' and len(rec) == 1:
                    fails.append({'step': idx, 'h': h, 'kind': 'missed', 'detail': 'lookup(%r) raised KeyError but account %r recognises it' % (h, rec)})
            if o[0] in ('set', 'del', 'auth', 'clear') and res[0] == 'raise' and res[1] not in ('DuplicateHostmask', 'ValueError') \
                    and not (res[1] == 'KeyError' and o[0] != 'set' and o[1] not in dict((i, u) for i, u in before[0])):
                # users.setUser / delUser / clearAuth fail with an internal error (a half-evicted cache entry): the operation is
                # refused for a reason that has nothing to do with the accounts
                fails.append({'step': idx, 'h': '', 'kind': 'internal-error',
                              'detail': '%r raised %s (cache: %d keys)' % (o[:2], res[1], len(before[1]) + len(before[2]))})
            if o[0] == 'set' and res[0] == 'ok':
                for h in HOSTS:
                    owners = [i for i, u in after[0] if any(ref_match(m, h) for m in u[1])]
                    if len(owners) > 1:
                        fails.append({'step': idx, 'h': h, 'kind': 'overlapping-masks',
                                      'detail': 'setUser accepted: accounts %r own masks that all match %r' % (owners, h)})
                        break
            if o[0] == 'auth' and res[0] == 'ok':
                u = dict((i, u) for i, u in before[0])[o[1]]
                if u[3] and not any(ref_match(m, o[2]) for m in u[1]):
                    fails.append({'step': idx, 'h': o[2], 'kind': 'secure-login', 'detail': 'secure account logged in from a non-matching hostmask'})
    finally:
        ircdb.time.time = saved_time
        conf.supybot.databases.users.timeoutIdentification.setValue(0)
        conf.supybot.followIdentificationThroughNickChanges.setValue(False)
    if model and steps:
        outs = ctx.model([[3, [t, now, b, o[1], wire_cmd(o[2]), r[4]]] if o[0] == 'cmd'
                          else [4, [t, now, b, o[1], r[1], r[2]]] if o[0] == 'nick' else [1, [t, now, b, wire_op(o)]]
                          for (t, now, b, o, a, r) in steps])
        for (t, now, b, o, a, r), mo in zip(steps, outs):
            ctx.case(kind + '-' + (o[0] if o[0] != 'cmd' else 'cmd-' + o[2][0]), {'state': b, 'op': o, 'now': now, 'timeout': t},
                     nontrivial=bool(b[0]))
            if mo is None:
                continue
            if o[0] == 'nick':
                ms, mr = canon_state(dec_state(mo[0])), wire.r(mo[1])
                if r[4] or (mr[0] == 'raise' and not r[3]):
                    continue                      # a lookup hit the Multiple-matches branch: its exception is not observable here
                if ms != canon_state(a) or (mr[0] == 'raise') != r[3]:
                    ctx.disagree({'history': hist, 'state': b, 'op': o, 'now': now, 'timeout': t},
                                 [ms, mr], [canon_state(a), ['raise' if r[3] else 'ok']], 'Irc.doNick (followed identification)')
                continue
            if o[0] == 'cmd':
                # one model step = the whole command; when a lookup of the real run hit the Multiple-matches branch the
                # dispatcher's repeated lookups are no longer idempotent: only the flags are compared then
                # the order in which setUser walks the edited IrcSet is not an input here; it only decides which expired
                # logins of other accounts are dropped before a refusal: expired logins are left out of this comparison
                def live(st):
                    st = canon_state(st)
                    st[0] = [[i, [u[0], u[1], [e for e in u[2] if not (t and e[0] + t < now)], u[3]]] for i, u in st[0]]
                    return st
                ms, mflags = live(dec_state(mo[0])), [bool(mo[1]), bool(mo[2]), bool(mo[3])]
                rflags = [r[1], r[2], r[3]]
                if r[2] or mflags[1]:
                    if mflags[1] != r[2]:
                        ctx.disagree({'history': hist, 'state': b, 'op': o, 'now': now, 'timeout': t}, mflags, rflags, 'User command (ambiguity flag)')
                elif ms != live(a) or mflags != rflags:
                    ctx.disagree({'history': hist, 'state': b, 'op': o, 'now': now, 'timeout': t},
                                 [ms, mflags], [live(a), rflags], 'User command step')
                continue
            ms, mr = canon_state(dec_state(mo[0])), wire.r(mo[1])
            if ms != canon_state(a) or mr != r:
                ctx.disagree({'history': hist, 'state': b, 'op': o, 'now': now, 'timeout': t},
                             [ms, mr], [canon_state(a), r], 'UsersDictionary step')
    else:
        for (t, now, b, o, a, r) in steps:
            ctx.case(kind + '-' + (o[0] if o[0] != 'cmd' else 'cmd-' + o[2][0]), {'state': b, 'op': o, 'now': now, 'timeout': t},
                     nontrivial=bool(b[0]))
    return fails


# ---------- classes of the recorded findings ----------
def _fold(s):
    return s.translate(str.maketrans('ABCDEFGHIJKLMNOPQRSTUVWXYZ[]\\~', 'abcdefghijklmnopqrstuvwxyz{}|^'))


def _overlapping_globs(inp):
    """F6: setUser's overlap test is literal.  An account was given a glob mask that has a common match with a glob mask
    of another account, or that matches a hostmask another account is logged in from (neither is equal as a string)"""
    hist = inp.get('history')
    # F6 explains exactly two things: two accounts owning masks with a common match, and a lookup answering one of two
    # recognisers.  An answer that no recomputation finds, a missed unique recogniser, a secure account without a matching mask
    # or a refused command with a trace hold in EVERY state (C04_recognised_only, C04_recomputed_is_answered,
    # C04_secure_needs_mask, C04_refused_command_no_trace): never attributed to F6, however the history looks
    if not hist or inp.get('kind') not in ('overlapping-masks', 'two-accounts'):
        return False
    upto = hist['ops'][:inp['step'] + 1]
    # masks given by setUser through the API or by an accepted `hostmask add`
    acct = lambda name: int(name[1:]) if re.match(r'u[0-9]+$', name) else name
    sets = [o for o in upto if o[0] == 'set'] + [['set', acct(o[2][1]), [o[2][1], [o[2][2]]]] for o in upto if o[0] == 'cmd' and o[2][0] == 'add']
    auths = [o for o in upto if o[0] == 'auth'] + [['auth', acct(o[2][1]), o[1]] for o in upto if o[0] == 'cmd' and o[2][0] == 'identify']
    glob = lambda m: '*' in m or '?' in m
    for a, b in itertools.combinations(sets, 2):
        if a[1] != b[1]:
            for m1 in a[2][1]:
                for m2 in b[2][1]:
                    if glob(m1) and glob(m2) and any(ref_match(m1, h) and ref_match(m2, h) for h in HOSTS):
                        return True
    for a in sets:
        for o in auths:
            if o[1] != a[1] and any(glob(m) and _fold(m) != _fold(o[2]) and ref_match(m, o[2]) for m in a[2][1]):
                return True
    return False


# F5 (expired_login_cached) and F22 (login_vs_mask) are repaired: their classes are gone, their witnesses head the corpus
# F23 (edit_not_undone) and F24 (add_owned_mask) are repaired as well; their witnesses are in the corpus too
# so are F25 (secure_stale_login) and F26 (secure_not_undone)
CLASSES = {'overlapping_globs': _overlapping_globs}

TWINS = [('k', 'K', '\u212a'), ('s', 'S', '\u017f'), ('\xe5', '\xc5', '\u212b'), ('\xe9', '\xc9'), ('i', 'I', '\u0130', '\u0131'),
         ('ss', '\xdf', '\u1e9e'), ('\u03c3', '\u03c2', '\u03a3')]


def memo_failure(ircutils, seq):
    """run the lookups of seq['sequence'] against seq['pattern'] through the PUBLIC, memoised hostmaskPatternEqual from
    empty memo caches; every answer must be the cold matcher's (and the reference's)"""
    ircutils._hostmaskPatternEqualCache.clear()
    ircutils._patternCache.clear()
    p = seq['pattern']
    try:
        for i, h in enumerate(seq['sequence']):
            got = bool(ircutils.hostmaskPatternEqual(p, h))
            cold = bool(ircutils._hostmaskPatternEqual(p, h))
            if got != cold or got != ref_match(p, h):
                return (i, 'hostmaskPatternEqual(%r, %r) = %r after the lookups %r, but a cold matcher says %r (IRC rules: %r)'
                        % (p, h, got, seq['sequence'][:i], cold, ref_match(p, h)))
    finally:
        ircutils._hostmaskPatternEqualCache.clear()
        ircutils._patternCache.clear()
    return None


def gen_memo_seq(rng):
    fam = rng.choice(TWINS)
    tail = rng.choice(['evin', 'am', 'x', ''])
    rest = rng.choice(['!u@h', '!x@y', '!U@H'])
    lead = rng.choice(fam)
    pattern = rng.choice([lead + tail + '!*@*', lead + '*!*@*', '*' + rest[1:], lead + tail + rest, '?' + tail + '!*@*'])
    hosts = [c + tail + rest for c in fam] + [c + tail.upper() + rest for c in fam[:2]]
    seqn = [rng.choice(hosts) for _ in range(rng.randint(2, 5))]
    return {'pattern': pattern, 'sequence': seqn}


MEMO_CORPUS = [{'pattern': 'kevin!*@*', 'sequence': ['kevin!u@h', '\u212aevin!u@h']},
               {'pattern': 'kevin!*@*', 'sequence': ['\u212aevin!u@h', 'kevin!u@h', 'Kevin!u@h']},
               {'pattern': '\xe9!*@*', 'sequence': ['\xe9!u@h', '\xc9!u@h']},
               {'pattern': '\xe9!*@*', 'sequence': ['\xc9!u@h', '\xe9!u@h']},
               {'pattern': 'sam!*@*', 'sequence': ['SAM!u@h', '\u017fam!u@h', 'sam!u@h']}]

GLOB_CORPUS = [('kevin!*@*', '\u212aevin!u@h'), ('sam!*@*', '\u017fam!u@h'), ('\u212a!*@*', 'k!u@h'), ('\xe9!*@*', '\xc9!u@h'),
               ('i!*@*', '\u0131!u@h'), ('\u0130!*@*', 'i!u@h'), ('K?!*@*', 'k\u212a!u@h')]

CORPUS = [
    {'timeout': 10, 'ops': [['new'], ['set', 1, ['u1', ['zz!zz@zz'], None, False]], ['auth', 1, 'ab!x@y'], ['lookup', 'ab!x@y'],
                            ['tick', 30], ['lookup', 'ab!x@y']]},
    {'timeout': 0, 'ops': [['new'], ['new'], ['set', 1, ['u1', ['a*!*@*'], None, False]], ['set', 2, ['u2', ['*b!*@*'], None, False]],
                           ['lookup', 'ab!x@y']]},
    {'timeout': 0, 'ops': [['new'], ['new'], ['set', 1, ['u1', ['a*!*@*'], None, False]], ['lookup', 'ab!x@y'],
                           ['set', 2, ['u2', ['*b!*@*'], None, False]], ['lookup', 'ab!x@y']]},
    {'timeout': 0, 'ops': [['new'], ['new'], ['set', 1, ['u1', ['ab!x@y'], None, False]], ['set', 2, ['u2', ['zz!zz@zz'], None, False]],
                           ['lookup', 'ab!x@y'], ['auth', 2, 'ab!x@y'], ['lookup', 'ab!x@y']]},
    # one login of the account has expired, a later one from another hostmask has not
    {'timeout': 10, 'ops': [['new'], ['set', 1, ['u1', ['zz!zz@zz'], None, False]], ['auth', 1, 'ab!x@y'], ['lookup', 'ab!x@y'],
                            ['tick', 8], ['auth', 1, 'q!q@q'], ['lookup', 'q!q@q'], ['lookup', 'ab!x@y'], ['tick', 5], ['lookup', 'ab!x@y'],
                            ['lookup', 'q!q@q']]},
    # a sender whose nick is a Unicode-case twin of a registered one (KELVIN SIGN for K): never recognised, in either order
    {'timeout': 0, 'ops': [['new'], ['set', 1, ['u1', ['kevin!*@*'], None, False]], ['lookup', 'kevin!u@h'], ['lookup', '\u212aevin!u@h'],
                           ['lookup', 'Kevin!u@h']]},
    {'timeout': 0, 'ops': [['new'], ['set', 1, ['u1', ['kevin!*@*'], None, False]], ['lookup', '\u212aevin!u@h'], ['lookup', 'kevin!u@h'],
                           ['lookup', 'KEVIN!u@h']]},
    # the hostmask cache drops everything when it holds CACHE_MAX keys; an entry is two keys: filled to CACHE_MAX - 1, the first
    # cached answer for another account leaves only its id -> {hostmask} half; setUser / delUser of that account must still work
    {'timeout': 0, 'ops': [['new'], ['new'], ['set', 1, ['u1', ['abc*!*@*'], None, False]], ['set', 2, ['u2', ['bob!*@*'], None, False]],
                           ['fill', 'abc', 998], ['lookup', 'bob!x@y'], ['set', 2, ['u2', ['bob!*@*', 'bobby!*@*'], None, False]],
                           ['lookup', 'bob!x@y'], ['lookup', 'abc1!x@y']]},
    {'timeout': 0, 'ops': [['new'], ['new'], ['set', 1, ['u1', ['abc*!*@*'], None, False]], ['set', 2, ['u2', ['bob!*@*'], None, False]],
                           ['fill', 'abc', 998], ['lookup', 'bob!x@y'], ['cmd', 'abc1!x@y', ['remove', 'u2', 'bob!*@*', 'secret']],
                           ['lookup', 'bob!x@y']]},
    {'timeout': 0, 'ops': [['new'], ['new'], ['set', 1, ['u1', ['abc*!*@*'], None, False]], ['set', 2, ['u2', ['bob!*@*'], None, False]],
                           ['fill', 'abc', 997], ['lookup', 'bob!x@y'], ['lookup', 'abc0!x@y'], ['lookup', 'abcd!x@y'], ['del', 2], ['lookup', 'bob!x@y']]},
    # supybot.followIdentificationThroughNickChanges: the login moves to the new hostmask, it is not copied
    {'timeout': 0, 'follow': True, 'ops': [['new'], ['set', 1, ['u1', ['zz!zz@zz'], None, False]], ['cmd', 'ab!x@y', ['identify', 'u1', '', 'secret']],
                                           ['nick', 'ab!x@y', 'zed'], ['lookup', 'ab!x@y'], ['lookup', 'zed!x@y']]},
    {'timeout': 0, 'follow': False, 'ops': [['new'], ['set', 1, ['u1', ['zz!zz@zz'], None, False]], ['auth', 1, 'ab!x@y'],
                                            ['nick', 'ab!x@y', 'zed'], ['lookup', 'ab!x@y'], ['lookup', 'zed!x@y']]},
    # stale cache behind a purge: the login expires and ANOTHER sender's cache miss drops it from user.auth before the
    # expired sender comes back (the re-check of the cached id must not depend on user.auth being non-empty)
    {'timeout': 10, 'ops': [['new'], ['set', 1, ['u1', ['zz!zz@zz'], None, False]], ['auth', 1, 'ab!x@y'], ['lookup', 'ab!x@y'],
                            ['tick', 30], ['lookup', 'q!q@q'], ['lookup', 'ab!x@y'], ['lookup', 'ab!x@y']]},
    # the same, the purge done by the overlap loops of another account's setUser
    {'timeout': 10, 'ops': [['new'], ['new'], ['set', 1, ['u1', ['zz!zz@zz'], None, False]], ['cmd', 'ab!x@y', ['identify', 'u1', '', 'secret']],
                            ['lookup', 'ab!x@y'], ['tick', 11], ['set', 2, ['u2', ['cb!x@y'], None, False]], ['lookup', 'ab!x@y']]},
    # stale cache behind the ambiguity repair: a sender matching the masks of two accounts strips both masks without
    # touching the cache; a sender cached for one of them earlier must not be answered from it
    {'timeout': 0, 'ops': [['new'], ['new'], ['set', 1, ['u1', ['a*!*@*'], None, False]], ['lookup', 'a!a@host'],
                           ['set', 2, ['u2', ['*b!*@*'], None, False]], ['lookup', 'ab!x@y'], ['lookup', 'a!a@host'], ['lookup', 'cb!x@y']]},
    # user set secure from a hostmask that is only identified, not matched by a registered mask: must be refused
    {'timeout': 0, 'ops': [['new'], ['set', 1, ['u1', ['zz!zz@zz'], None, False]], ['cmd', 'q!q@q', ['identify', 'u1', '', 'secret']],
                           ['cmd', 'q!q@q', ['secure', '', 'True', 'secret']], ['lookup', 'q!q@q'], ['lookup', 'zz!zz@zz']]},
    # old witness of F25 (repaired): secure turned on from a matching hostmask while a login from a foreign hostmask is still there
    {'timeout': 0, 'ops': [['new'], ['set', 1, ['u1', ['ab!x@y'], None, False]], ['cmd', 'q!q@q', ['identify', 'u1', '', 'secret']],
                           ['cmd', 'ab!x@y', ['secure', '', 'True', 'secret']], ['lookup', 'q!q@q']]},
    # F25 (repaired), second route: the mask a secure account's login relies on is removed
    {'timeout': 0, 'ops': [['new'], ['set', 1, ['u1', ['ab!x@y', 'q!q@q'], None, True]], ['cmd', 'q!q@q', ['identify', 'u1', '', 'secret']],
                           ['cmd', 'ab!x@y', ['remove', 'u1', 'q!q@q', 'secret']], ['lookup', 'q!q@q']]},
    # old witness of F26 (repaired): set secure refused by setUser kept the new flag
    {'timeout': 0, 'ops': [['new'], ['new'], ['set', 1, ['u1', ['ab!x@y', 'zz!zz@zz'], None, False]], ['set', 2, ['u2', [], None, False]],
                           ['auth', 2, 'zz!zz@zz'], ['cmd', 'ab!x@y', ['secure', '', 'True', 'secret']]]},
    # command layer: a refused `hostmask add` (overlap with another account's mask found by setUser) must leave no trace
    {'timeout': 0, 'ops': [['new'], ['new'], ['set', 1, ['u1', ['ab!*@y'], None, False]], ['set', 2, ['u2', ['zz!zz@zz'], None, False]],
                           ['cmd', 'zz!zz@zz', ['add', 'u2', '*!*@y', 'secret']], ['lookup', 'ab!x@y'], ['lookup', 'q!q@y']]},
    # old witness of F23 (repaired): identify refused by setUser (a mask of u1 is a hostmask u2 is logged in from) left the login
    {'timeout': 0, 'ops': [['new'], ['new'], ['set', 1, ['u1', ['ab!x@y'], None, False]], ['set', 2, ['u2', [], None, False]],
                           ['auth', 2, 'ab!x@y'], ['cmd', 'q!q@q', ['identify', 'u1', '', 'secret']], ['lookup', 'q!q@q']]},
    # old witness of F24 (repaired): hostmask add of an owned mask, refused by setUser because of another mask, removed the owned mask
    {'timeout': 0, 'ops': [['new'], ['new'], ['set', 1, ['u1', ['ab!x@y', 'zz!zz@zz'], None, False]], ['set', 2, ['u2', [], None, False]],
                           ['auth', 2, 'zz!zz@zz'], ['cmd', 'q!q@q', ['add', 'u1', 'ab!x@y', 'secret']]]},
    # a login from a hostmask a glob mask of another account matches, made while the hostmask is cached
    {'timeout': 10, 'ops': [['new'], ['new'], ['set', 1, ['u1', ['a*!*@*'], None, False]], ['lookup', 'ab!x@y'], ['auth', 2, 'ab!x@y'],
                            ['lookup', 'ab!x@y'], ['tick', 30], ['lookup', 'ab!x@y'], ['lookup', 'ab!x@y']]},
]


def run(ctx):
    mods = _mods()
    ircdb, conf, ircutils = mods
    rng = ctx.rng
    # (i) matcher
    n = 3 if ctx.scale == 1 else 4
    words = [''.join(t) for k in range(0, n + 1) for t in itertools.product(ALPHA, repeat=k)]
    pairs = []
    if ctx.scale == 1:
        pats = rng.sample(words, 450)
        hs = rng.sample(words, 450)
        pairs = [(p, h) for p in pats for h in rng.sample(hs, 40)]
    else:
        pats = rng.sample(words, 4000)
        pairs = [(p, h) for p in pats for h in rng.sample(words, 120)]
    pairs += [(m, h) for m in MASKS for h in HOSTS]
    # letters whose Unicode case mapping reaches or leaves ASCII (KELVIN SIGN, LONG S, dotless / dotted i) and cased non-ASCII
    # letters: for IRC (and for the model) only ASCII letters and the rfc1459 pairs have a case
    pairs += GLOB_CORPUS
    uni = ['k', 'K', '\u212a', 's', 'S', '\u017f', 'i', 'I', '\u0131', '\u0130', '\xe9', '\xc9', '*', '?', '!']
    for _ in range(ctx.n(1500)):
        pairs.append((''.join(rng.choice(uni) for _ in range(rng.randint(1, 4))), ''.join(rng.choice(uni[:12] + ['!']) for _ in range(rng.randint(1, 4)))))
    for _ in range(ctx.n(1500)):
        pairs.append((''.join(rng.choice(ALPHA + ['b', 'B', 'é', '-', '0']) for _ in range(rng.randint(3, 14))),
                      ''.join(rng.choice(ALPHA[:8] + ['b', 'B', 'é', '-', '0', '!', '@', '.']) for _ in range(rng.randint(3, 14)))))
    outs = ctx.model([[0, [p, h]] for p, h in pairs])
    for (p, h), mo in zip(pairs, outs):
        inp = {'pattern': p, 'hostmask': h}
        ctx.case('glob', inp)
        ir = bool(ircutils._hostmaskPatternEqual(p, h))
        if mo is not None and bool(mo) != ir:
            ctx.disagree(inp, bool(mo), ir, 'hostmaskPatternEqual')
        if ir != ref_match(p, h):
            ctx.fail(inp, 'hostmaskPatternEqual(%r, %r) = %r but IRC glob/case rules say %r' % (p, h, ir, not ir))
    # (i') the memo layers in front of the matcher (ircutils.hostmaskPatternEqual: compiled-pattern cache, result cache):
    # the answer for a hostmask never depends on what was asked before.  Sequences of lookups against one pattern in which
    # hostmasks that differ only by a case mapping IRC does not know (str.lower / str.upper / casefold twins) follow each other
    for seq in MEMO_CORPUS + [gen_memo_seq(rng) for _ in range(ctx.n(300))]:
        ctx.case('memo', seq, nontrivial=True)
        bad = memo_failure(ircutils, seq)
        if bad is not None:
            ctx.fail(dict(seq, index=bad[0]), bad[1])
    # (ii) state machine
    hists = ([(h, 'corpus') for h in CORPUS] + [(gen_history(rng), 'history') for _ in range(ctx.n(400))]
             + [(gen_stale(rng), 'stale') for _ in range(ctx.n(60))] + [(gen_nick(rng), 'nick') for _ in range(ctx.n(60))])
    for hist, kind in hists:
        for f in run_history(ctx, mods, hist, kind=kind):
            inp = {'history': hist, 'step': f['step'], 'h': f['h'], 'kind': f['kind']}
            for k in ('cmd', 'via', 'owned'):
                if k in f:
                    inp[k] = f[k]
            ctx.fail(inp, f['detail'])


def _same_failure(f, inp):
    return ('kind' not in inp or f['kind'] == inp['kind']) and all(f.get(k) == inp.get(k) for k in ('cmd', 'via', 'owned'))


def replay(ctx, inp):
    mods = _mods()
    ircdb, conf, ircutils = mods
    if 'sequence' in inp:
        bad = memo_failure(ircutils, inp)
        return bad[1] if bad is not None else None
    if 'pattern' in inp:
        ir = bool(ircutils._hostmaskPatternEqual(inp['pattern'], inp['hostmask']))
        return None if ir == ref_match(inp['pattern'], inp['hostmask']) else 'matcher disagrees with IRC glob rules'
    sub = type(ctx)(ctx.pid, ctx.tier, ctx.seed, {'model_ok': False})
    fails = run_history(sub, mods, inp['history'], model=False)
    for f in fails:
        if _same_failure(f, inp):
            return f['detail']
    return None


def shrink(ctx, inp):
    if 'history' not in inp:
        return inp
    from lib.shrink import shrink_seq
    mods = _mods()

    def fails(ops):
        sub = type(ctx)(ctx.pid, ctx.tier, ctx.seed, {'model_ok': False})
        fs = run_history(sub, mods, dict(inp['history'], ops=ops), model=False)
        return any(_same_failure(f, inp) for f in fs)
    ops = shrink_seq(inp['history']['ops'], fails, budget=150)
    sub = type(ctx)(ctx.pid, ctx.tier, ctx.seed, {'model_ok': False})
    fs = [f for f in run_history(sub, mods, dict(inp['history'], ops=ops), model=False) if _same_failure(f, inp)]
    if not fs:
        return inp
    out = {'history': dict(inp['history'], ops=ops), 'step': fs[0]['step'], 'h': fs[0]['h'], 'kind': inp['kind']}
    for k in ('cmd', 'via', 'owned'):
        if k in inp:
            out[k] = inp[k]
    return out
