"""C09 — server input cannot downgrade required SASL or strict transport security."""
import itertools, re
import boot
from lib import wire
import c08

TABLES = ['T08']
RULE = ('(i) the message sequences of C08 (exhaustive to length 2/3 + random, 7 SASL configurations incl. sasl.required, secure and '
        'insecure transport, STS policy grammar + noise inside CAP LS/NEW) on the real Irc object, every step replayed on the model, with '
        'the C09 oracle: required SASL => no CAP END / CONNECTED without success; STS over an insecure link => the first driver action is '
        'reconnect(host, policy port, verification forced) and nothing is stored; a policy is stored only on a verified link; '
        '(ii) ServersMixin._applyStsPolicy on the real networks store for policy strings x stored ages x disconnect histories x clocks; '
        '(ii-b) histories of store-policy / record-disconnection / _getNextServer / restart (networks.conf flushed and re-read with a fresh '
        'NetworksDictionary; oracle against the policies the server side stored, not the bot\'s store) / connect (the real SocketDriver.connect() '
        'over a fake socket and TLS layer: dialled port, TLS started, verify argument) events on a real SocketDriver with several entries and repeated '
        'hostnames, every step replayed on the model, every returned server checked against the store; '
        '(iii) SocketDriver.starttls verification choice for all 16 settings.  non-trivial = distinct step / store state')
TRUSTED = c08.TRUSTED + ['the TLS handshake (utils.net.ssl_wrap_socket) is not modelled: only the `verify` argument it is called with',
                          'no plugin is loaded: "goes on to join" is observed as fsm = CONNECTED (Owner.do376 sends the JOINs when it is handed the 376). '
                          'When Irc.do376 refuses the numeric (sasl.required, unauthenticated) it drops the connection with driver.reconnect(wait=True); the '
                          'callbacks are still handed that 376, and whatever they queue on the reset Irc object is discarded by the second irc.reset() that '
                          'SocketDriver performs when the scheduled reconnect fires (driver side, not modelled here)',
                          '"authenticated" = a 903 was received on this connection (do903 sets sasl_authenticated before it checks the fsm state)']
ASSUMPTIONS = c08.ASSUMPTIONS
EXPLANATION = 'C09: required SASL and STS on top of the C08 machine; theorems in coq/C09/Props.v'
LEVEL_TEXT = ('Coq theorems over the C08 registration model plus models of _onCapSts/parseStsPolicy, ServersMixin._applyStsPolicy and the '
              'starttls verification choice: with sasl.required, for EVERY message sequence from the start of a connection, no CAP END is sent '
              'and the connection never becomes CONNECTED while sasl_authenticated is false (invariant; C09.F8 fixed: endCapabilityNegociation '
              'and do376 refuse and drop the connection); an STS policy over '
              'an insecure link forces reconnect(port, verify) as the next driver action and is never stored; policies are stored only over '
              'verified TLS (every sequence); a stored policy is applied whenever it is unexpired, a missing disconnect record counting as '
              'unexpired (C09.F9 fixed); forced verification implies verification.  Tie: as C08, plus differential runs of _applyStsPolicy and starttls.')
LEVEL_NOTE = (c08.LEVEL_NOTE + ' C09 (gap audit): the STS upgrade path through the real SocketDriver (reconnect(server=..., wait=True) -> servers.insert(0) -> '
              'scheduled reconnect) was probed by hand (closes, resets, dials the policy port with verify=True) but is not a history event; a failed '
              'secure connection falls through to the next configured entry (no policy is stored for an upgrade learnt over cleartext: by design of '
              '_onCapSts); one network, one driver; SOCKS proxies and the TLS handshake itself are not modelled; the networks.conf reader is C16\'s.')
TECHNIQUE = c08.TECHNIQUE


def ref_policy(policy, need_duration):
    """independent reading of an STS policy: (port, duration) or None"""
    d = {}
    for kv in policy.split(','):
        k, _, v = kv.partition('=')
        d[k] = v if '=' in kv else None
    out = []
    for key in ('port', 'duration') if need_duration else ('port',):
        if d.get(key) is None:
            return None
        try:
            out.append(int(d[key]))
        except ValueError:
            return None
    return out


def sts_values(args):
    """sts policy values carried by a CAP LS / CAP NEW argument list (in order)"""
    if len(args) < 3 or args[1].lower() not in ('ls', 'new'):
        return []
    if args[1].lower() == 'ls' and len(args) == 4 and args[2] != '*':
        return []
    vals = []
    for item in args[-1].split():
        item = item.lstrip('=~')
        if item.startswith('sts='):
            vals.append(item[4:])
        elif item == 'sts':
            vals.append(None)
    return vals


class Oracle:
    def __init__(self):
        self.acked = False
        self.in_sasl = False      # the initial SASL exchange was entered on this connection

    def __call__(self, idx, m, before, after, out, rig, extra):
        cfg = rig.cfg
        if 'sasl' in after[3]:
            self.acked = True
        reset_seen = False
        for o in out:
            if o[0] in (1, 2):
                reset_seen = True
        if after[0] == 30:
            self.in_sasl = True
        if m[0] == 5 or reset_seen:
            self.acked = 'sasl' in after[3]
            self.in_sasl = after[0] == 30
        # required SASL
        if cfg['required'] and m[0] != 5:
            # what was sent on THIS connection: the outputs up to the first reconnect/die of the step
            mine = out[:min([i for i, o in enumerate(out) if o[0] in (1, 2)] or [len(out)])]
            ended = any(o[0] == 0 and o[1] == 'CAP' and o[2][:1] == ['END'] for o in mine)
            connected = after[0] == 70 and before[0] != 70 and not reset_seen
            authed = after[7] if not reset_seen else (before[7] or (m[0] == 2 and m[1] == 903))
            if (ended or connected) and not authed:
                extra.append({'step': idx, 'kind': 'required-bypassed', 'acked': self.acked, 'in_sasl': self.in_sasl,
                              'detail': 'sasl.required is set but %s without a successful authentication'
                                        % ('CAP END was sent' if ended else 'the connection became CONNECTED')})
        # STS
        if m[0] == 0:
            vals = sts_values(m[1])
            if vals and vals[0] is not None and before[0] != 100:
                pol = ref_policy(vals[0], rig.secure)
                stores = [o for o in out if o[0] == 3]
                if not rig.secure:
                    if stores:
                        extra.append({'step': idx, 'kind': 'sts-stored-insecure', 'detail': 'policy stored over an insecure link'})
                    if pol is not None:
                        want = [1, [['irc.example.org', pol[0], 3, True]], True]
                        first = [o for o in out if o[0] in (0, 1, 2, 3)][:1]
                        if first != [want]:
                            extra.append({'step': idx, 'kind': 'sts-no-upgrade',
                                          'detail': 'valid policy %r over an insecure link: first action was %r, expected %r' % (vals[0], first, want)})
                else:
                    if pol is not None and [3, 'irc.example.org', vals[0]] not in stores:
                        extra.append({'step': idx, 'kind': 'sts-not-stored', 'detail': 'valid policy %r over a verified link was not stored' % vals[0]})
                    if pol is None and stores:
                        extra.append({'step': idx, 'kind': 'sts-invalid-stored', 'detail': 'invalid policy %r was stored' % vals[0]})
        for o in out:
            if o[0] == 3 and not rig.secure:
                extra.append({'step': idx, 'kind': 'sts-stored-insecure', 'detail': 'policy stored over an insecure link'})


# C09.F8 (required_but_sasl_never_acked) and C09.F9 (no_disconnect_record) are fixed: no class attributes a failure to them
CLASSES = {}

STS_BODIES = ['sts=port=6697', 'sts=port=6697,duration=300', 'sts=duration=300', 'sts=port=', 'sts=port=abc', 'sts=port=+6_6,duration=1',
              'batch sts=port=7000,duration=0,preload sasl', 'sts', 'sts=port=1,port=2', '~sts=port=9,duration=9']


def apply_cases(ctx):
    rng = ctx.rng
    pols = [None, 'port=6697,duration=300', 'duration=1000000,port=7000', 'port=6697', 'port=x,duration=3', 'port=1,duration=0',
            'port=+7_0,duration=1_0']
    lasts = [None, 0, 900, 1000, 1300, 1000000]
    nows = [1000, 1299, 1300, 1301, 2000000]
    cases = [(p, l, n) for p in pols for l in lasts for n in nows]
    return APPLY_CORPUS + cases


# fixed C09.F9 (old witness first, must stay fixed): a stored policy and no recorded disconnect time
APPLY_CORPUS = [('port=6697,duration=300', None, 1000), ('duration=1000000,port=7000', None, 2000000)]


def run_apply(ctx, mods):
    irclib, conf, ircmsgs, ircutils, ircdb, drivers = mods
    host = 'irc.example.org'
    net = ircdb.networks.getNetwork('test')
    saved = (dict(net.stsPolicies), dict(net.lastDisconnectTimes), drivers.time.time)
    mixin = drivers.ServersMixin.__new__(drivers.ServersMixin)
    mixin.networkName = 'test'
    cases = apply_cases(ctx)
    try:
        wire_cases, impl = [], []
        for (p, l, n) in cases:
            net.stsPolicies.clear(); net.lastDisconnectTimes.clear()
            if p is not None:
                net.stsPolicies[host] = p
            if l is not None:
                net.lastDisconnectTimes[host] = l
            drivers.time.time = lambda n=n: n
            sv = drivers.Server(host, 6667, 0, False)
            before = [[[k, v] for k, v in net.stsPolicies.items()], [[k, v] for k, v in net.lastDisconnectTimes.items()]]
            try:
                r = mixin._applyStsPolicy(sv)
                res = ('ok', [r.hostname, r.port, r.attempt, bool(r.force_tls_verification)])
            except Exception as e:
                res = ('raise', type(e).__name__)
            after = [[[k, v] for k, v in net.stsPolicies.items()], [[k, v] for k, v in net.lastDisconnectTimes.items()]]
            wire_cases.append([2, [n, before, [host, 6667, 0, False]]])
            impl.append((after, res))
        outs = ctx.model(wire_cases)
        for (p, l, n), (after, res), mo in zip(cases, impl, outs):
            inp = {'policy': p, 'last': l, 'now': n, 'kind': 'sts-not-applied'}
            ctx.case('applyStsPolicy', inp)
            if mo is not None:
                mnet = [[[wire.s(e[0]), wire.s(e[1])] for e in mo[0][0]], [[wire.s(e[0]), e[1]] for e in mo[0][1]]]
                mres = wire.r(mo[1], lambda v: [wire.s(v[0]), v[1], v[2], bool(v[3])])
                if mnet != after or mres != res:
                    ctx.disagree(inp, [mnet, mres], [after, res], '_applyStsPolicy')
            # oracle: an unexpired stored policy must be applied
            if p is not None:
                rp = ref_policy(p, True)
                if rp is not None and (l is None or n <= l + rp[1]):
                    if res != ('ok', [host, rp[0], 0, True]):
                        ctx.fail(inp, 'stored policy %r (last disconnect %r, now %r) but the next server is %r' % (p, l, n, res))
    finally:
        net.stsPolicies.clear(); net.stsPolicies.update(saved[0])
        net.lastDisconnectTimes.clear(); net.lastDisconnectTimes.update(saved[1])
        drivers.time.time = saved[2]


# ---- ServersMixin as a state machine: several entries, repeated hostnames, policies stored between pops ----
MIX_HOSTS = ['irc.example.org', 'Alt.Example.NET', 'IRC.Example.Org', 'alt.example.net']
MIX_POLS = ['port=6697,duration=300', 'duration=100,port=7000', 'port=6697,duration=0', 'port=1,duration=1000000', 'port=x,duration=3']
MIX_CORPUS = [
    # the server is configured ON the port of its stored policy: verification must still be forced (ssl on / off, verifyCertificates on / off)
    {'conf': [['irc.example.org', 6697]],
     'evs': [[0, 'irc.example.org', 'port=6697,duration=3600'], [1, 1010, 'irc.example.org'], [2, 1015], [4, 1020, True, False, False, False],
             [4, 1030, False, False, False, False], [4, 1040, True, True, False, False], [3], [4, 1050, False, False, False, True], [2, 1060]]},
    {'conf': [['Alt.Example.NET', 7000], ['irc.example.org', 6697]],
     'evs': [[0, 'Alt.Example.NET', 'duration=100,port=7000'], [0, 'irc.example.org', 'port=6697,duration=300'], [4, 5, False, False, False, False],
             [4, 6, True, False, False, False], [2, 7], [2, 8]]},
    # the real connect path: a stored policy, the next configured entry (attempt None), ssl off / on, nothing else configured
    {'conf': [['irc.example.org', 6667]],
     'evs': [[4, 1000, False, False, False, False], [0, 'irc.example.org', 'port=6697,duration=3600'], [1, 1010, 'irc.example.org'],
             [4, 1020, False, False, False, False], [4, 1030, True, False, False, False], [3], [4, 1040, False, False, True, False], [4, 9000, False, False, False, False]]},
    # configured hostnames with capitals: the policy is stored and looked up under the hostname as configured
    {'conf': [['Irc.Example.Org', 6667], ['Irc.Example.Org', 8000]],
     'evs': [[2, 1000], [0, 'Irc.Example.Org', 'port=6697,duration=300'], [1, 1010, 'Irc.Example.Org'], [2, 1020], [3], [2, 1030], [2, 1400]]},
    {'conf': [['IRC.Example.Org', 6667], ['irc.example.org', 6667], ['Alt.Example.NET', 6667]],
     'evs': [[0, 'IRC.Example.Org', 'port=6697,duration=300'], [0, 'Alt.Example.NET', 'duration=100,port=7000'], [2, 5], [2, 6], [2, 7], [3], [2, 8], [2, 9], [2, 10]]},
    # a restart between storing the policy and the next connection: the policy must survive networks.conf
    {'conf': [['irc.example.org', 6667]],
     'evs': [[2, 1000], [0, 'irc.example.org', 'port=6697,duration=3600'], [1, 1010, 'irc.example.org'], [3], [2, 1020], [3], [2, 2000], [2, 9000]]},
    {'conf': [['irc.example.org', 6667], ['alt.example.net', 6667]],
     'evs': [[0, 'irc.example.org', 'port=6697,duration=300'], [0, 'alt.example.net', 'duration=100,port=7000'], [3], [2, 5], [2, 6], [1, 7, 'alt.example.net'], [3], [2, 50], [2, 60], [2, 400]]},
    # the seeded-change scenario: two entries for one host, the policy is stored while the second entry is already loaded
    {'conf': [['irc.example.org', 6667], ['irc.example.org', 8000]],
     'evs': [[2, 1000], [0, 'irc.example.org', 'port=6697,duration=300'], [1, 1010, 'irc.example.org'], [2, 1020], [2, 1030], [2, 1400]]},
    {'conf': [['irc.example.org', 6667], ['alt.example.net', 6667], ['irc.example.org', 6668]],
     'evs': [[0, 'irc.example.org', 'port=6697,duration=300'], [2, 5], [2, 6], [1, 7, 'irc.example.org'], [2, 8], [2, 400], [2, 401]]},
    {'conf': [['irc.example.org', 6667]], 'evs': [[2, 1], [0, 'irc.example.org', 'duration=100,port=7000'], [2, 2], [1, 3, 'irc.example.org'], [2, 50], [2, 200]]},
]


def gen_mix(rng):
    # ports: also the ones the stored policies name (6697, 7000): a server configured ON the policy port must still get verification forced
    conf = [[rng.choice(MIX_HOSTS), rng.choice([6667, 6668, 8000, 6697, 6697, 7000])] for _ in range(rng.choice([1, 2, 2, 3, 4]))]
    evs, now = [], 1000
    for _ in range(rng.randint(3, 12)):
        now += rng.choice([0, 1, 50, 120, 400])
        r = rng.random()
        if r < 0.25:
            evs.append([0, rng.choice(MIX_HOSTS), rng.choice(MIX_POLS[:4] if rng.random() < 0.93 else MIX_POLS)])
        elif r < 0.45:
            evs.append([1, now, rng.choice(MIX_HOSTS)])
        elif r < 0.55:
            evs.append([3])
        elif r < 0.75:
            evs.append([4, now, rng.random() < 0.4, rng.random() < 0.25, rng.random() < 0.2, rng.random() < 0.15])
        else:
            evs.append([2, now])
    return {'conf': conf, 'evs': evs}


def run_mixin_history(ctx, mods, h, model=True):
    """drive a real ServersMixin + the real networks store through the history (events: 0 store a policy, 1 record a disconnection,
    2 _getNextServer, 3 restart = flush networks.conf, read it back with a fresh NetworksDictionary, new driver,
    4 [now, ssl, verifyCertificates, fingerprints, authority] = the real SocketDriver.connect() over a fake socket / TLS layer);
    returns (steps for the model diff, failures)"""
    import os, tempfile
    irclib, conf, ircmsgs, ircutils, ircdb, drivers = mods
    nd = ircdb.networks
    saved_nd = (nd.networks, nd.filename, nd.noFlush)
    saved_time = (drivers.time.time, ircdb.time.time)
    import supybot.drivers.Socket as Socket
    import supybot.utils as utils
    wconf = [[hh, pp, -1, False] for hh, pp in h['conf']]          # configured entries have attempt = None (-1 on the wire)
    att = lambda a: -1 if a is None else a
    netc = conf.supybot.networks.get('test')
    saved_tls = (conf.supybot.protocols.ssl.verifyCertificates(), netc.ssl.serverFingerprints(), netc.ssl.authorityCertificate(), netc.ssl(),
                 utils.net.ssl_wrap_socket, utils.net.getSocket, utils.net.getAddressFromHostname)
    seen = {}

    class FakeSock:
        _closed = False

        def settimeout(self, t):
            pass

        def connect(self, addr):
            seen['addr'] = addr

        def close(self):
            pass

        def shutdown(self, how):
            pass

        def fileno(self):
            return 7

    def fake_wrap(conn, **kw):
        seen['tls'] = True
        seen['verify'] = bool(kw.get('verify'))
        seen['tls_hostname'] = kw.get('hostname')
        return conn
    tmpdir = tempfile.mkdtemp(prefix='nets_', dir=os.getcwd())

    class Group:
        _name = 'supybot.networks.test'

        def servers(self):
            return [drivers.Server(hh, pp, None, False) for hh, pp in h['conf']]       # as conf.Servers.convert builds them

    class FakeIrc:
        network = 'test'
        zombie = False

        def reset(self):
            pass

    def new_mixin():
        # a real SocketDriver (it is the ServersMixin), built without running __init__ (which would connect)
        m = Socket.SocketDriver.__new__(Socket.SocketDriver)
        m.irc, m.networkName, m.networkGroup, m.servers = FakeIrc(), 'test', Group(), []
        m.conn, m._attempt, m.eagains, m.inbuffer, m.outbuffer = None, -1, 0, b'', b''
        m.zombie, m.connected, m.writeCheckTime, m.nextReconnectTime, m.currentDelay, m.ssl = False, False, None, None, 10.0, False
        return m
    box = {'mixin': new_mixin()}
    steps, fails = [], []
    # what the SERVER side knows it stored / when the bot disconnected: the oracle does not read the bot's store
    exp_pol, exp_last = {}, {}

    def net():
        return ircdb.networks.getNetwork('test')

    def snap():
        mixin = box['mixin']
        cur = getattr(mixin, 'currentServer', None)
        return ([[[k, v] for k, v in net().stsPolicies.items()], [[k, v] for k, v in net().lastDisconnectTimes.items()]],
                [[[x.hostname, x.port, att(x.attempt), bool(x.force_tls_verification)] for x in mixin.servers],
                 wire.opt(None if cur is None else [cur.hostname, cur.port, att(cur.attempt), bool(cur.force_tls_verification)])])
    try:
        nd.networks = ircutils.IrcDict()
        nd.filename, nd.noFlush = os.path.join(tmpdir, 'networks.conf'), False
        utils.net.ssl_wrap_socket, utils.net.getSocket = fake_wrap, (lambda *a, **k: FakeSock())
        utils.net.getAddressFromHostname = lambda hostname, attempt=0: '192.0.2.7'
        for i, e in enumerate(h['evs']):
            bnet, bmix = snap()
            res = None
            if e[0] == 0:
                net().addStsPolicy(e[1], e[2])
                exp_pol[e[1]] = e[2]
            elif e[0] == 1:
                ircdb.time.time = lambda t=e[1]: t
                net().addDisconnection(e[2])
                exp_last[e[2]] = e[1]
            elif e[0] == 3:
                # restart: what a clean shutdown writes is what the next process reads
                nd.flush()
                fresh = ircdb.NetworksDictionary()
                fresh.open(nd.filename)
                nd.networks = fresh.networks
                box['mixin'] = new_mixin()
            elif e[0] == 4:
                drivers.time.time = lambda t=e[1]: t
                netc.ssl.setValue(bool(e[2]))
                conf.supybot.protocols.ssl.verifyCertificates.setValue(bool(e[3]))
                netc.ssl.serverFingerprints.setValue(['AA' * 32] if e[4] else [])
                netc.ssl.authorityCertificate.setValue('/etc/ssl/ca.pem' if e[5] else '')
                d = box['mixin']
                drv_before = d._attempt
                seen.clear()
                try:
                    d.connect()
                    cs = d.currentServer
                    res = ('ok', [[cs.hostname, cs.port, att(cs.attempt), bool(cs.force_tls_verification)], bool(seen.get('tls')), bool(seen.get('verify'))])
                except Exception as ex:
                    res = ('raise', type(ex).__name__)
                finally:
                    conf.supybot.drivers.poll.removeCallback(d.setTimeout)
                    if d in Socket.SocketDriver._instances:
                        Socket.SocketDriver._instances.remove(d)
                    d.connected = False
                e = list(e) + [drv_before]
                # the property, directly: an unexpired stored policy => its port, over TLS, certificate verified
                if res[0] == 'ok':
                    host = res[1][0][0]
                    pol, last = exp_pol.get(host), exp_last.get(host)
                    rp = ref_policy(pol, True) if pol is not None else None
                    if rp is not None and last is not None and last + rp[1] < e[1]:
                        del exp_pol[host]
                    elif rp is not None:
                        dialled = seen.get('addr', (None, None))[1]
                        if dialled != rp[0] or not res[1][1] or not (res[1][2] or e[4] or e[5]):
                            fails.append({'step': i, 'kind': 'sts-connection-not-verified',
                                          'detail': 'connect() with the policy %r stored for %s (last disconnection %r, clock %r): dialled port %r, '
                                                    'TLS started: %r, verify=%r (fingerprints %r, CA %r), currentServer %r'
                                                    % (pol, host, last, e[1], dialled, res[1][1], res[1][2], bool(e[4]), bool(e[5]), res[1][0])})
            else:
                drivers.time.time = lambda t=e[1]: t
                try:
                    r = box['mixin']._getNextServer()
                    res = ('ok', [r.hostname, r.port, att(r.attempt), bool(r.force_tls_verification)])
                except Exception as ex:
                    res = ('raise', type(ex).__name__)
                # the property, directly: an unexpired stored policy for the host of the returned server => its port, verification forced
                if res[0] == 'ok':
                    host = res[1][0]
                    pol, last = exp_pol.get(host), exp_last.get(host)
                    rp = ref_policy(pol, True) if pol is not None else None
                    if rp is not None and last is not None and last + rp[1] < e[1]:
                        del exp_pol[host]          # expired: the bot is right to forget it
                    elif rp is not None and (res[1][1] != rp[0] or not res[1][3]):
                        fails.append({'step': i, 'kind': 'sts-connection-not-upgraded',
                                      'detail': '_getNextServer returned %r at clock %r although the policy %r was stored for that host (last disconnection %r) '
                                                'and has not expired' % (res[1], e[1], pol, last)})
            anet, amix = snap()
            steps.append((wconf, bnet, bmix, e, anet, amix, res))
    finally:
        nd.networks, nd.filename, nd.noFlush = saved_nd
        drivers.time.time, ircdb.time.time = saved_time
        conf.supybot.protocols.ssl.verifyCertificates.setValue(saved_tls[0])
        netc.ssl.serverFingerprints.setValue(saved_tls[1])
        netc.ssl.authorityCertificate.setValue(saved_tls[2])
        netc.ssl.setValue(saved_tls[3])
        utils.net.ssl_wrap_socket, utils.net.getSocket, utils.net.getAddressFromHostname = saved_tls[4:7]
        import shutil
        shutil.rmtree(tmpdir, True)
    return steps, fails


def run_mixin(ctx, mods):
    hs = list(MIX_CORPUS) + [gen_mix(ctx.rng) for _ in range(ctx.n(600))]
    allsteps = []
    for h in hs:
        steps, fails = run_mixin_history(ctx, mods, h)
        for f in fails:
            ctx.fail(dict({k: v for k, v in f.items() if k != 'detail'}, mix=h), f['detail'])
        allsteps += [(h, st) for st in steps]
    outs = ctx.model([[20, [w, bn, bm, e[1], e[6], e[2], e[3], e[4], e[5]]] if e[0] == 4 else [4, [w, bn, bm, e]]
                      for h, (w, bn, bm, e, an, am, res) in allsteps])
    for (h, (w, bn, bm, e, an, am, res)), mo in zip(allsteps, outs):
        inp = {'mix': {'conf': h['conf']}, 'net': bn, 'mixin': bm, 'event': e}
        ctx.case('servers-%s' % ['store', 'disconnect', 'next', 'restart', 'connect'][e[0]], inp)
        if mo is None:
            continue
        sv = lambda v: [wire.s(v[0]), v[1], v[2], bool(v[3])]
        mnet = [[[wire.s(x[0]), wire.s(x[1])] for x in mo[0][0]], [[wire.s(x[0]), x[1]] for x in mo[0][1]]]
        mmix = [[sv(x) for x in mo[1][0]], wire.opt(wire.o(mo[1][1], sv))]
        if e[0] == 4:
            mres = wire.r(mo[2], lambda v: [sv(v[0]), bool(v[1]), bool(v[2])])
        else:
            mres = wire.o(mo[2], lambda v: wire.r(v, sv))
        if [sorted(x) for x in mnet] != [sorted(x) for x in an] or mmix != am or mres != res:      # a restart re-reads the store in file (sorted) order
            ctx.disagree(inp, [mnet, mmix, mres], [an, am, res], 'ServersMixin / store step')


def run_starttls(ctx, mods):
    irclib, conf, ircmsgs, ircutils, ircdb, drivers = mods
    import supybot.drivers.Socket as Socket
    import supybot.utils as utils
    netc = conf.supybot.networks.get('test')
    saved = (conf.supybot.protocols.ssl.verifyCertificates(), netc.ssl.serverFingerprints(), netc.ssl.authorityCertificate(),
             utils.net.ssl_wrap_socket)
    seen = {}

    def fake_wrap(conn, **kw):
        seen['verify'] = kw.get('verify')
        return conn
    try:
        utils.net.ssl_wrap_socket = fake_wrap
        cases = list(itertools.product([False, True], repeat=4))
        outs = ctx.model([[3, list(c)] for c in cases])
        for (force, cv, fp, ca), mo in zip(cases, outs):
            inp = {'force': force, 'verifyCertificates': cv, 'fingerprints': fp, 'authority': ca}
            ctx.case('starttls', inp)
            conf.supybot.protocols.ssl.verifyCertificates.setValue(cv)
            netc.ssl.serverFingerprints.setValue(['AA' * 32] if fp else [])
            netc.ssl.authorityCertificate.setValue('/etc/ssl/ca.pem' if ca else '')
            d = Socket.SocketDriver.__new__(Socket.SocketDriver)

            class I:
                network = 'test'
            d.irc = I()
            d.conn = object()
            d.currentServer = drivers.Server('irc.example.org', 6697, 0, force)
            seen.clear()
            d.starttls()
            v = bool(seen.get('verify'))
            if mo is not None and bool(mo) != v:
                ctx.disagree(inp, bool(mo), v, 'starttls verify')
            if force and not (v or fp or ca):
                ctx.fail(inp, 'forced TLS verification but the socket is wrapped with verify=%r and nothing to verify against' % v)
    finally:
        conf.supybot.protocols.ssl.verifyCertificates.setValue(saved[0])
        netc.ssl.serverFingerprints.setValue(saved[1])
        netc.ssl.authorityCertificate.setValue(saved[2])
        utils.net.ssl_wrap_socket = saved[3]


# (ssl, some certificate validation configured, verification forced by a stored policy)
TRANSPORTS = [(False, False, False), (True, True, False), (True, False, False), (False, True, False), (False, False, True), (True, False, True)]


def sequences(ctx):
    rng = ctx.rng
    out = [(c['cfg'], c['secure'], c['seq'], 'corpus') for c in CORPUS]
    for tr in TRANSPORTS:
        for body in STS_BODIES[:3]:
            out.append((1, tr, [[0, ['*', 'LS', body]]], 'transport'))
    alpha = c08.ALPHABET + [[0, ['*', 'LS', b]] for b in STS_BODIES] + [[0, ['*', 'NEW', STS_BODIES[1]]]]
    req_cfgs = [i for i, c in enumerate(c08.CONFIGS) if c['required']]
    for n in (1, 2):
        for t in itertools.product(range(len(alpha)), repeat=n):
            if n == 2 and (t[0] + 3 * t[1]) % 3 and ctx.scale == 1:
                continue
            ci = req_cfgs[(t[0] + t[-1]) % len(req_cfgs)] if (t[0] % 2) else (t[0] + t[-1]) % len(c08.CONFIGS)
            out.append((ci, TRANSPORTS[(t[0] + t[-1]) % len(TRANSPORTS)], [alpha[i] for i in t], 'exhaustive-len%d' % n))
    for _ in range(ctx.n(1500)):
        seq = c08.gen_seq(rng)
        if rng.random() < 0.4:
            seq.insert(rng.randrange(len(seq) + 1), [0, ['*', rng.choice(['LS', 'NEW']), rng.choice(STS_BODIES)]])
        ci = rng.choice(req_cfgs) if rng.random() < 0.6 else rng.randrange(len(c08.CONFIGS))
        out.append((ci, rng.choice(TRANSPORTS), seq, 'random'))
    return out


CORPUS = [
    # fixed C09.F8 (old witnesses, must stay fixed): sasl.required and the server does not list sasl / NAKs it / skips CAP
    {'cfg': 2, 'secure': True, 'seq': [[0, ['*', 'LS', 'batch']], 'ACKALL', [2, 376, ['n', 'end']]]},
    {'cfg': 2, 'secure': True, 'seq': [[0, ['*', 'LS', 'sasl']], [0, ['*', 'NAK', 'sasl']], [2, 376, ['n', 'end']]]},
    {'cfg': 2, 'secure': True, 'seq': [[2, 376, ['n', 'end']]]},
    {'cfg': 2, 'secure': True, 'seq': [[2, 375, ['n', 'motd']], [2, 376, ['n', 'end']]]},
    {'cfg': 5, 'secure': True, 'seq': [[0, ['*', 'LS', '']], [2, 422, ['n', 'no motd']]]},
    # required SASL that succeeds still registers
    {'cfg': 2, 'secure': True, 'seq': [[0, ['*', 'LS', 'sasl batch']], 'ACKALL', [1, ['+']], [2, 903, ['n', 'ok']], [2, 376, ['n', 'end']]]},
    {'cfg': 2, 'secure': True, 'seq': [[0, ['*', 'LS', 'sasl']], 'ACKALL', [1, ['+']], [2, 904, ['n', 'failed']], [2, 376, ['n', 'end']]]},
    {'cfg': 1, 'secure': False, 'seq': [[0, ['*', 'LS', 'sts=port=6697']]]},
    {'cfg': 1, 'secure': True, 'seq': [[0, ['*', 'LS', 'sts=port=6697,duration=300 batch']]]},
]


def run(ctx):
    mods = c08._mods()
    for cfgi, secure, seq, kind in sequences(ctx):
        orc = Oracle()
        fails = c08.run_sequence(ctx, mods, cfgi, secure, seq, kind=kind, oracle=orc)
        for f in fails:
            if f['kind'] in ('required-bypassed', 'sts-stored-insecure', 'sts-no-upgrade', 'sts-not-stored', 'sts-invalid-stored'):
                ctx.fail(dict({k: v for k, v in f.items() if k != 'detail'}, cfg=cfgi, secure=secure, seq=seq), f['detail'])
    run_apply(ctx, mods)
    run_mixin(ctx, mods)
    run_starttls(ctx, mods)


def replay(ctx, inp):
    mods = c08._mods()
    sub = type(ctx)(ctx.pid, ctx.tier, ctx.seed, {'model_ok': False})
    if 'mix' in inp:
        steps, fails = run_mixin_history(sub, mods, inp['mix'], model=False)
        for f in fails:
            if f['kind'] == inp.get('kind'):
                return f['detail']
        return None
    if 'seq' in inp:
        fails = c08.run_sequence(sub, mods, inp['cfg'], inp['secure'], inp['seq'], model=False, oracle=Oracle())
        for f in fails:
            if f['kind'] == inp.get('kind'):
                return f['detail']
        return None
    if 'policy' in inp:
        irclib, conf, ircmsgs, ircutils, ircdb, drivers = mods
        host = 'irc.example.org'
        net = ircdb.networks.getNetwork('test')
        saved = (dict(net.stsPolicies), dict(net.lastDisconnectTimes), drivers.time.time)
        try:
            net.stsPolicies.clear(); net.lastDisconnectTimes.clear()
            net.stsPolicies[host] = inp['policy']
            if inp['last'] is not None:
                net.lastDisconnectTimes[host] = inp['last']
            drivers.time.time = lambda: inp['now']
            mixin = drivers.ServersMixin.__new__(drivers.ServersMixin)
            mixin.networkName = 'test'
            r = mixin._applyStsPolicy(drivers.Server(host, 6667, 0, False))
            rp = ref_policy(inp['policy'], True)
            if rp is not None and (inp['last'] is None or inp['now'] <= inp['last'] + rp[1]) and not (r.port == rp[0] and r.force_tls_verification):
                return 'stored policy not applied: next server %r' % (r,)
        finally:
            net.stsPolicies.clear(); net.stsPolicies.update(saved[0])
            net.lastDisconnectTimes.clear(); net.lastDisconnectTimes.update(saved[1])
            drivers.time.time = saved[2]
    return None


def shrink(ctx, inp):
    if 'seq' not in inp:
        return inp
    from lib.shrink import shrink_seq
    mods = c08._mods()

    def fails(seq):
        sub = type(ctx)(ctx.pid, ctx.tier, ctx.seed, {'model_ok': False})
        return any(f['kind'] == inp['kind'] for f in c08.run_sequence(sub, mods, inp['cfg'], inp['secure'], seq, model=False, oracle=Oracle()))
    seq = shrink_seq(inp['seq'], fails, budget=100)
    sub = type(ctx)(ctx.pid, ctx.tier, ctx.seed, {'model_ok': False})
    fs = [f for f in c08.run_sequence(sub, mods, inp['cfg'], inp['secure'], seq, model=False, oracle=Oracle()) if f['kind'] == inp['kind']]
    return dict(inp, seq=seq, step=fs[0]['step'], acked=fs[0].get('acked'), in_sasl=fs[0].get('in_sasl')) if fs else inp
