"""C15 — configuration values survive save/reload; bad values are rejected atomically."""
import itertools, os, re, sys, warnings
import boot
from lib import wire
from lib.shrink import shrink_seq

sys.path.insert(0, os.path.join(os.path.dirname(os.path.abspath(__file__)), 'tables'))
import t15  # noqa: E402

TABLES = ['T15']
RULE = ('(1) primitives: every string over a 14-letter hostile alphabet up to length 3 (quick) / 4 (thorough) + generated longer ones through '
        'unicode_escape encode/decode, repr, safeEval, String.set, String.__str__; (2) names: generated lists of registry names through join/split; '
        '(3) every registry value class of src/registry.py and src/conf.py (inventory regenerated, unknown class = error): generated texts through X.set '
        '(accepted and rejected), then the accepted value is written by the real registry.close to a scratch file, read by the real '
        'registry.open_registry(clear=True) and set on a fresh instance; (4) hostile file texts through open_registry; (5) histories of '
        'set/setValue/reset/getSpecific on a channel value at global, network, channel and network+channel level, with a save/reload at the end; '
        '(6) generations: several variables (camelCase and lower-case names, nested ones, global/network/channel flavour) registered on a private group with the REAL '
        'conf.registerGlobalValue/registerNetworkValue/registerChannelValue, settings made in generation 0, then k times: load the previous file into registry._cache, '
        'register again, optionally read some values, save -- the saved lines and the values read are compared with the model (loader cache + registration scan) and '
        'between generations (a session that sets nothing must save what it loaded); one history runs on the real supybot.conf tree with one process per session. '
        '(9) the plugin API: histories of PluginMixin.setRegistryValue / registryValue (both networks live, one not connected, channels and a non-channel) on a fresh '
        'channel variable of the real conf.supybot.plugins tree; every (network, channel) pair is read back and the node names of the saved file are checked. '
        '(8) reload in the running bot: histories with set / read / reset (the Config plugin reset commands, re-stated) / save / reload (open_registry without clear) '
        'and the API route (node._setValue(parent.value, inherited=True), with the parent changing afterwards) inside a session and across restarts, on the real conf.registerChannelValue; saved lines and values read are compared with the timestamp model; directly: a value '
        'that was reset is not written again unless it is set again or a file that still has it is re-read. '
        '(7) NormalizedString: long values (words with #, hyphens, long URLs, escapes; a #token at every position of a 24-word sentence for three name lengths) '
        'saved by the real close(), the wrapped physical lines / reader result / reloaded value compared with the model and the reload checked directly. '
        'Each case runs on the implementation and on the extracted model and is diffed; the property clauses (reload equality, file loads, rejected set '
        'leaves the value, specific-value resolution) are evaluated directly on the implementation.  non-trivial = distinct input other than the empty text')
TRUSTED = ['textwrap.wrap is not modelled: for NormalizedString the chunks the real call returned are recorded and handed to the model (normalize, set, the wrapped value lines and the reader are modelled)',
           'float()/repr(float), json, perlReToPythonRe: classes built on them (Float family, Json, Regexp, Servers, Databases, Banmask, HttpProxy, SocketTimeout) are checked on the implementation only, not modelled',
           'class-specific validators in setValue (ircutils.isNick/isChannel/isUserHostmask, utils.net.isIP, template test, prefix-char test) enter the model as an explicit verdict bit computed on the real class',
           'str.isspace / str.isprintable tables and string.printable are regenerated from the running CPython',
           'utils.safeEval is modelled for one string literal (escape decoding included); texts with more tokens after the literal, \\N{..} escapes and non-ASCII digits are outside the model (reported by the model as such, not compared)',
           'str.lower is modelled on ASCII; cased non-ASCII letters are only generated for classes that do not lower-case',
           'reject-atomic table: set()/setValue() bodies are translated from the AST into check/error/assign programs (harness/tables/t15.py, fail-closed); '
           'Value._setValue is the primitive "assign" (its callbacks, registered by plugins, are assumed not to raise); the call defaultHttpHeaders(None, None) '
           'that follows the store in conf.HttpRequestLanguage/HttpUserAgents is whitelisted as non-raising',
           'Config.reset channel/network are re-stated in the harness (3 lines each) because the plugin commands need a live bot']
ASSUMPTIONS = ['world.testing/log.testing off; locale encoding UTF-8; integers within 62 bits on the model wire',
               'private registry.Group trees and a scratch file; registry._cache/_lastModified are restored after every load']
LEVEL_TEXT = ('Coq theorems over an executable Gallina model of src/registry.py (names, unicode_escape codec, repr/string-literal evaluation, value classes, '
              'value lines of close(), the reader open_registry(), the Value tree with _makeChild/_setValue/getSpecific, the loader cache with the register*Value scans of src/conf.py): name split/join round trip and '
              'save/reload round trips proved for all inputs on decidable domains with refuting witnesses outside them (finding C15.F23 remains; C15.F16, F22, F24, F25, F26, F27, F28, F29, F31 are repaired); the model is tied to '
              'the source by a regenerated class inventory + constant tables and by a differential run against the real registry/conf classes on every check.')
LEVEL_NOTE = ('Trusted: Coq kernel, table extractor, extraction + OCaml driver, the Python harness; CPython primitives listed in trusted_base; '
              'Python code is modelled not verified.  NOT MODELLED (direct oracle on the implementation only): the 31 value classes defined outside '
              'src/registry.py and src/conf.py (src/log.py, src/callbacks.py, src/ircdb.py, plugins/*) -- they are in the regenerated inventory and in the '
              'reject-atomic table, but their set/__str__ are not modelled class by class; Float family, Json, Regexp, Servers, Databases, Banmask, HttpProxy, '
              'SocketTimeout; textwrap.wrap (chunks are an input).  NOT COVERED: user-specific values (conf.registerUserValue / userdata.conf) are modelled at the level of the cache scan only and '
              'checked by four probes (the second loop of Group.setName is not modelled); what registry.close() swallows when the lazy reload of a hand-edited, '
              'invalid value raises while saving (the harness only checks that nothing is swallowed for files the bot wrote); values written through the plugin '
              'API under a non-channel name or for a network that is not connected are saved but invisible to reads (mirrored, not judged); rfc1459 case folding '
              'of channel names ([]\\~ vs {}|^: the registry folds with str.lower only); the locale encoding of open() vs the UTF-8 writer for non-ASCII help '
              'comments; Windows (os.linesep in wrapped values; the repaired C15.F33 is checked with os.name patched); reload histories are generated for scalar classes only, and for classes whose __str__ goes through self() (Boolean, Integer family, lists) '
              'histories with an in-process reload are checked by the direct oracle only: _makeChild(str(parent)) lazily reloads the parent when a child is created, '
              'which the session model (tensure) does not represent.')
TECHNIQUE = 'Coq proof (induction over strings / operation histories) + regenerated tables and class inventory + extracted-model differential correspondence'
EXPLANATION = 'C15: registry save/reload, reject-atomic and specific-value model of src/registry.py; theorems in coq/C15/Props.v'

warnings.simplefilter('ignore')
ALPHA = ['"', "'", '\\', ' ', ':', '#', 'a', 'n', 'x', '0', '\n', '\t', '\xe9', '\x00']
EXTRA = ['.', '\r', '\x7f', '\x0b', '\u20ac', '\U0001f600', '\xa0', '\u2028', 'N', 'u', 'U', '{', '}', '7', ',', '$', 'T', '1', '-', '_', '\u0660', 'b', '!', '@', '%', 's']
_PRINTABLE = None


# ---------------------------------------------------------------- implementation access
class M:
    pass


def mods():
    if not hasattr(M, 'registry'):
        boot.boot()
        import supybot.registry as registry, supybot.conf as conf, supybot.utils as utils, supybot.world as world, supybot.ircutils as ircutils
        M.registry, M.conf, M.utils, M.world, M.ircutils = registry, conf, utils, world, ircutils
        # registry.close() catches every non-I/O exception of value.serialize(), calls registry.exception() and goes on:
        # the value line is silently left out.  Recorded here; every save in this harness checks that nothing was swallowed.
        M.swallowed = []
        registry.exception = lambda s_: M.swallowed.append(str(s_))
        M.inv = t15.inventory(strict=False)     # the strict shape check is gen_T15's (reported as a broken obligation)
        M.fn = os.path.join(boot.boot(), 'c15_scratch.conf')

        class OnlySomeT(registry.OnlySomeStrings):
            validStrings = ('', 'Foo', 'bar', 'BAR', 'a b')

        class TemplatedT(registry.TemplatedString):
            requiredTemplates = ['text']
        M.extra = {'registry.OnlySomeStrings': OnlySomeT, 'registry.TemplatedString': TemplatedT}
        _load_extra_classes(M)
    return M


_SITES = []


def reset_sites():
    if not _SITES:
        _SITES.append(t15.config_reset_sites())
    return _SITES[0]


def config_reset(base, a):
    """plugins/Config/plugin.py, reset channel [network] / reset network, re-stated FOLLOWING THE SOURCE: each of the three
    reset statements re-seeds the node with the expression the source uses (netgroup.value / group.value) and forgets the
    cached text iff the source does (t15.config_reset_sites; the strict shape is pinned by t15.config_reset_forgets)"""
    r = mods().registry
    sites = reset_sites()

    def seed(k, netgroup):
        expr = sites[k][0]
        if expr == 'netgroup.value' and netgroup is not None:
            return netgroup.value
        if expr == 'group.value':
            return base.value
        raise RuntimeError('plugins/Config: reset statement %d re-seeds from %r, which the harness cannot follow' % (k, expr))

    def forget(node, k):
        if sites[k][1]:
            r._cache.pop(node._name, None)
    if a[0] == 'nc':
        netgroup = base.get(':' + a[1])
        changroup = netgroup.get(a[2])
        changroup._setValue(seed(0, netgroup), inherited=True)
        forget(changroup, 0)
        changroup = base.get(a[2])
        changroup._setValue(seed(1, None), inherited=True)
        forget(changroup, 1)
    elif a[0] == 'c':
        changroup = base.get(a[1])
        changroup._setValue(seed(1, None), inherited=True)
        forget(changroup, 1)
    elif a[0] == 'n':
        changroup = base.get(':' + a[1])
        changroup._setValue(seed(2, None), inherited=True)
        forget(changroup, 2)


def take_swallowed():
    m = mods()
    out = list(m.swallowed)
    del m.swallowed[:]
    return out


class keep_cache:
    """restore registry._cache / _lastModified: the booted configuration is not disturbed"""
    def __enter__(self):
        r = mods().registry
        self.saved = (dict(r._cache.data), r._lastModified)

    def __exit__(self, *a):
        r = mods().registry
        r._cache.data.clear()
        r._cache.data.update(self.saved[0])
        r._lastModified = self.saved[1]


def _load_extra_classes(m):
    """the value classes defined outside src/registry.py and src/conf.py: import their modules (src/*.py, the plugins'
    config.py / plugin.py) and take a default from an instance registered in the real configuration tree"""
    import importlib, contextlib, io
    import supybot.plugin as plugin
    m.ext_cls, m.ext_default = {}, {}
    for q, kind, *_ in m.inv:
        mod, name = q.rsplit('.', 1)
        if mod in ('registry', 'conf'):
            continue
        try:
            if os.path.exists(os.path.join(boot.REPO, 'src', mod + '.py')):
                obj = importlib.import_module('supybot.' + mod)
            else:
                pname = mod.split('.')[0]
                with contextlib.redirect_stdout(io.StringIO()):
                    pm = plugin.loadPluginModule(pname)
                obj = getattr(pm, 'plugin' if mod.endswith('.plugin') else 'config')
            m.ext_cls[q] = getattr(obj, name)
        except Exception:
            continue
    insts = {}
    for (n_, v_) in m.conf.supybot.getValues(getChildren=True):
        insts.setdefault(type(v_), v_)
    for q, c in m.ext_cls.items():
        if c in insts:
            m.ext_default[q] = insts[c]._default


def cls_of(q):
    m = mods()
    if q in m.extra:
        return m.extra[q]
    mod, name = q.rsplit('.', 1)
    if mod not in ('registry', 'conf'):
        return m.ext_cls[q]
    return getattr(m.registry if mod == 'registry' else m.conf, name)


# sample defaults: a value every class accepts in its constructor
DEFAULTS = {'conf.ValidNick': 'nick', 'conf.ValidNickAllowingPercentS': 'nick', 'conf.ValidChannel': '#chan', 'conf.ValidHostmask': 'a!b@c',
            'conf.SocksProxy': 'h:1', 'conf.DatabaseRecordTemplatedString': '$text', 'registry.TemplatedString': '$text',
            'conf.ValidSaslMechanism': 'plain', 'conf.ValidBrackets': '[]', 'conf.ValidDriverModule': 'default',
            'registry.PositiveInteger': 1, 'conf.SocketTimeout': 10, 'registry.PositiveFloat': 1.0, 'registry.Probability': 0.5,
            'registry.Float': 0.0, 'registry.Json': 'null', 'registry.Regexp': '', 'conf.HttpProxy': '', 'conf.ValidQuotes': '"',
            'registry.StringSurroundedBySpaces': ' x ', 'registry.StringWithSpaceOnRight': 'x '}
INT_LO = {'registry.Integer': None, 'registry.NonNegativeInteger': 0, 'registry.PositiveInteger': 1}
SETS = {'registry.SpaceSeparatedSetOfStrings', 'registry.CommaSeparatedSetOfStrings', 'conf.Networks', 'conf.SpaceSeparatedSetOfChannels'}
FOLDED = {'conf.Networks', 'conf.SpaceSeparatedSetOfChannels'}


def kind_of(q):
    return dict((x[0], x[1]) for x in mods().inv)[q]


def default_of(q):
    if q in DEFAULTS:
        return DEFAULTS[q]
    if q in mods().ext_default:
        return mods().ext_default[q]
    k = kind_of(q)
    return {'boolean': False, 'integer': 0, 'spacelist': [], 'commalist': []}.get(k, '')


def fresh(q):
    return cls_of(q)(default_of(q), '')


def wire_kind(q):
    k = kind_of(q)
    if k == 'string':
        return [0, []]
    if k == 'surround':
        return [1, []]
    if k == 'spaceright':
        return [2, []]
    if k == 'onlysome':
        return [3, list(cls_of(q).validStrings)]
    if k == 'raw':
        return [4, []]
    if k == 'boolean':
        return [5, []]
    if k == 'integer':
        return [6, wire.opt(INT_LO[q])]
    if k == 'spacelist':
        return [7, q in SETS]
    if k == 'commalist':
        return [8, q in SETS]
    return None


def canon(q, v):
    """canonical, JSON-able form of a live value"""
    m = mods()
    if isinstance(v, bool):
        return [1, v]
    if isinstance(v, int):
        return [2, v]
    if isinstance(v, str):
        return [0, v]
    if isinstance(v, (list, tuple)) and all(isinstance(x, str) for x in v):
        return [3, list(v)]
    if isinstance(v, (set, frozenset, m.ircutils.IrcSet)):
        xs = list(v)
        if q in FOLDED:
            xs = [m.ircutils.toLower(x) for x in xs]
        return [3, sorted(set(xs))]
    if isinstance(v, float):
        return [9, repr(v)]
    if v is None:
        return [9, None]
    if isinstance(v, tuple) and len(v) == 2 and isinstance(v[0], str):   # Regexp
        return [9, v[0]]
    return [9, repr(v)]


def canon_model(q, pv):
    """decoded model pv -> same canonical form"""
    m = mods()
    t, p = pv[0], pv[1]
    if t == 0:
        return [0, wire.s(p)]
    if t == 1:
        return [1, bool(p)]
    if t == 2:
        return [2, p]
    xs = wire.ls(p)
    if q in SETS:
        if q in FOLDED:
            xs = [m.ircutils.toLower(x) for x in xs]
        xs = sorted(set(xs))
    return [3, xs]


def to_wire_pv(c):
    return [c[0], c[1]]


def exn_name(e):
    m = mods()
    if isinstance(e, m.registry.InvalidRegistryValue):
        return 'InvalidRegistryValue'
    if isinstance(e, m.registry.InvalidRegistryFile):
        return 'ValueError'
    if isinstance(e, UnicodeError):
        return 'UnicodeError'
    return type(e).__name__


def validator_bits(q, text):
    """verdicts of the class-specific setValue validators on the candidate value(s): explicit inputs of the model"""
    m = mods()
    k = kind_of(q)
    cls = cls_of(q)

    def accepts(c, v, via_ctor=False):
        try:
            if via_ctor:
                c(v, '')
            else:
                inst = c(default_of(q), '')
                inst.setValue(v)
            return True
        except Exception:      # InvalidRegistryValue, or whatever the validator itself raises (e.g. ValueError on NUL)
            return False
    if k == 'string':
        try:
            p = m.registry.String('', '')
            p.set(text)
            return [accepts(cls, p.value)]
        except Exception:
            return [True]
    if k == 'raw':
        return [accepts(cls, text)]
    if k in ('spacelist', 'commalist'):
        toks = text.split() if k == 'spacelist' else re.split(r'\s*,\s*', text)
        return [accepts(cls.Value, t, True) for t in toks] + [True]
    return [True]


# ---------------------------------------------------------------- known-finding classes
_MRO = {}


def inherits(q, base):
    """by the regenerated class table (t15), not by name: is [base] among the ancestors of inventory class q?"""
    if not _MRO:
        classes = t15._classes()
        memo = {}
        for x, *_ in mods().inv:
            try:
                _MRO[x] = t15._mro(x, classes, memo)
            except Exception:
                _MRO[x] = [x]
    return base in _MRO.get(q, [q])


def cls_comma_set(inp):
    """C15.F23: every inventory class that inherits the set()/__str__ of registry.CommaSeparatedSetOfStrings"""
    return (inp.get('op') == 'reload' and inherits(inp['cls'], 'registry.CommaSeparatedSetOfStrings') and inp['value'][0] == 3
            and any(x != x.strip() for x in inp['value'][1]))


def cls_blank_phrases(inp):
    """C15.F34: plugins/BadWords LastModifiedCommaSeparatedSetOfStrings.set maps a blank text to the empty set, but a set
    whose elements are all empty/blank is written as a blank text"""
    return (inp.get('op') == 'reload' and inherits(inp['cls'], 'BadWords.LastModifiedCommaSeparatedSetOfStrings') and inp['value'][0] == 3
            and len(inp['value'][1]) > 0 and ', '.join(inp['value'][1]).strip() == '')


CLASSES = {'comma_set_edge_blank': cls_comma_set, 'badwords_blank_phrases': cls_blank_phrases}

# witnesses of repaired defects (findings/C15.json "fixed"): run first on every check, nothing attributes them to a finding
CORPUS_FIXED = [
    {'op': 'reload', 'cls': 'registry.String', 'var': 'v', 'value': [0, '"'], 'text': '\'"\'', 'cur': None},          # C15.F16
    {'op': 'reload', 'cls': 'registry.String', 'var': 'v', 'value': [0, '"a"'], 'text': '\'"a"\'', 'cur': None},      # C15.F16
    {'op': 'reload', 'cls': 'conf.ValidPrefixChars', 'var': 'v', 'value': [0, '"'], 'text': '\'"\'', 'cur': None},    # C15.F16
    {'op': 'tree', 'cls': 'registry.String', 'init': [0, '"'], 'ops': [['get', ['c', '#a']]]},                        # C15.F16
    {'op': 'reload', 'cls': 'registry.String', 'var': '#x\\', 'value': [0, 'abc'], 'text': 'abc', 'cur': None},       # C15.F22
    {'op': 'reload', 'cls': 'registry.String', 'var': 'v\\', 'value': [0, 'a: b'], 'text': 'a: b', 'cur': None},      # C15.F22
    {'op': 'reload', 'cls': 'conf.Databases', 'var': 'v', 'value': [3, ['x\\']], 'text': 'x\\', 'cur': None},        # C15.F24
    {'op': 'reload', 'cls': 'conf.Databases', 'var': 'v', 'value': [3, ['\xe9']], 'text': '\xe9', 'cur': None},        # C15.F24
    {'op': 'set', 'cls': 'conf.SocketTimeout', 'cur': None, 'text': '12345678901234'},                                # C15.F25
    {'op': 'names', 'names': ['a\\', 'b']},                                                                          # C15.F26
    {'op': 'names', 'names': ['var', ':n\\', '#c']},                                                                 # C15.F26
    {'op': 'gens', 'vars': [{'ns': ['reply', 'mores'], 'flavor': 'channel', 'cls': 'registry.Boolean'}],                 # C15.F27
     'gens': [[['set', 0, ['n', 'neta'], 'False'], ['read', 0, ['n', 'neta']]], [], [['read', 0, ['n', 'neta']]]], 'final_reads': 1},
    {'op': 'gens', 'vars': [{'ns': ['networks', 'neta', 'saslUser'], 'flavor': 'network', 'cls': 'registry.String'}],    # C15.F27
     'gens': [[['set', 0, ['n', 'netb'], 'x y'], ['read', 0, ['n', 'netb']]], [], [], [['read', 0, ['n', 'netb']]]], 'final_reads': 1},
    {'op': 'norm', 'var': 'someLongName',                                                                             # C15.F28: a blank inside the URL
     'text': 'go to https://example.org/a/very/long/path/that/does/not/fit/on/one/line/of/the/file/at/all/really ok'},
    {'op': 'norm', 'var': 'someLongName', 'text': 'www wwww wwwww ww wwwwww www www wwww wwwww well-known tail words here'},  # C15.F28: well- known
    {'op': 'norm', 'var': 'aVeryLongVariableNameThatLeavesLittleRoomForTheValue01234567', 'text': 'caf\xe9'},            # C15.F28: cut inside \xe9, file unloadable
    {'op': 'norm', 'var': 'aVeryLongVariableNameThatLeavesLittleRoomForTheValue01234567', 'text': 'ab\\cd'},            # C15.F28: cut inside a doubled backslash
    {'op': 'tgens', 'vars': [{'ns': ['reply', 'mores', 'maximum'], 'flavor': 'channel', 'cls': 'registry.PositiveInteger'}],   # C15.F29
     'gens': [[['set', 0, ['g'], '20'], ['set', 0, ['c', '#chan'], '33']],
              [['reset', 0, ['c', '#chan']], ['save'], ['reload'], ['read', 0, ['c', '#chan']]]]},
    {'op': 'tgens', 'vars': [{'ns': ['reply', 'inPrivate'], 'flavor': 'channel', 'cls': 'registry.Boolean'}],                # C15.F29
     'gens': [[['set', 0, ['g'], 'False'], ['set', 0, ['n', 'neta'], 'True'], ['set', 0, ['nc', 'neta', '#chan'], 'True']],
              [['reset', 0, ['nc', 'neta', '#chan']], ['reset', 0, ['n', 'neta']], ['save'], ['reload'], ['read', 0, ['nc', 'neta', '#chan']], ['read', 0, ['n', 'neta']]]]},
    {'op': 'norm', 'var': 'x' * 70, 'text': 'welcome to the channel'},                                                  # C15.F31: name of 79 characters
    {'op': 'norm', 'var': '#' + 'c' * 64, 'text': 'w'},                                                                  # C15.F31: name of exactly 74 characters
    {'op': 'norm', 'var': '#' + 'a-rather-long-channel-name' * 4, 'text': ''},                                          # C15.F31: even the empty value
    {'op': 'reload', 'cls': 'registry.Json', 'var': 'v', 'value': [0, '"a"'], 'text': '"a"', 'cur': None},              # C15.F16: Json is not quoted
]


# ---------------------------------------------------------------- (1) primitives
def impl_prims(s):
    m = mods()
    out = []
    try:
        out.append(m.registry.encoder(s)[0].decode())
    except Exception as e:
        out.append(None)
    try:
        out.append(('ok', m.registry.decoder(s)[0]))
    except Exception as e:
        out.append(('raise', exn_name(e)))
    out.append(repr(s))
    if s[:1] in ('"', "'"):
        try:
            r = m.utils.safeEval(s)
            out.append(('ok', r) if isinstance(r, str) else ('raise', 'notstr'))
        except ValueError:
            out.append(('raise', 'ValueError'))
        except Exception as e:
            out.append(('raise', type(e).__name__))
    else:
        out.append(None)
    p = m.registry.String('', '')
    try:
        p.set(s)
        out.append(('ok', p.value))
    except Exception as e:
        out.append(('raise', exn_name(e)))
    q = m.registry.String('', '')
    q.setValue(s)
    out.append(str(q))
    return out


def check_prim(ctx, s, mo, kind):
    inp = {'op': 'prim', 's': s}
    ctx.case(kind, inp, nontrivial=bool(s))
    im = impl_prims(s)
    if mo is None:
        return
    has_sur = any(0xd800 <= ord(c) <= 0xdfff for c in s)
    mm = [wire.s(mo[0]), wire.r(mo[1], wire.s), wire.s(mo[2]), wire.r(mo[3], wire.s), wire.r(mo[4], wire.s), wire.s(mo[5])]
    names = ['unicode_escape encode', 'unicode_escape decode', 'repr', 'safeEval', 'String.set', 'String.__str__']
    for i, nm in enumerate(names):
        if im[i] is None or mm[i] == ('raise', 'OtherError'):
            continue
        if mm[i] != im[i]:
            ctx.disagree(inp, mm[i], im[i], nm)
    # law used by the proofs, on the implementation: decode(encode(s)) = s
    if not has_sur or True:
        m = mods()
        if m.registry.decoder(m.registry.encoder(s)[0].decode())[0] != s:
            ctx.fail(inp, 'unicode_escape decode(encode(s)) != s')


# ---------------------------------------------------------------- (2) names
def check_names(ctx, ns, mo):
    m = mods()
    inp = {'op': 'names', 'names': ns}
    ctx.case('names', inp)
    j = m.registry.join(ns)
    try:
        sp = ('ok', m.registry.split(j))
    except Exception as e:
        sp = ('raise', exn_name(e))
    if mo is not None:
        mm = [wire.s(mo[0]), wire.r(mo[1], wire.ls)]
        if mm[1] != ('raise', 'OtherError') and mm != [j, sp]:
            ctx.disagree(inp, mm, [j, sp], 'join / split(join)')
    # direct: split inverts join for every non-empty list of encodable names
    if ns and sp != ('ok', ns) and not any(0xd800 <= ord(c) <= 0xdfff for n in ns for c in n):
        ctx.fail(inp, 'split(join(%r)) = %r (joined: %r)' % (ns, sp, j))


def check_split(ctx, text, mo):
    m = mods()
    inp = {'op': 'split', 'text': text}
    ctx.case('split-hostile', inp)
    try:
        sp = ('ok', m.registry.split(text))
    except Exception as e:
        sp = ('raise', exn_name(e))
    if mo is not None:
        mm = wire.r(mo, wire.ls)
        if mm != ('raise', 'OtherError') and mm != sp:
            ctx.disagree(inp, mm, sp, 'registry.split')


# ---------------------------------------------------------------- (3) classes: set, save, reload
def impl_set(q, cur_text, text):
    """fresh instance, optionally pre-set, then .set(text).  returns (outcome, canon value after, str, serialize)"""
    inst = fresh(q)
    if cur_text is not None:
        inst.set(cur_text)
    before = canon(q, inst.value)
    try:
        inst.set(text)
        out = ('ok', canon(q, inst.value))
    except Exception as e:
        out = ('raise', exn_name(e))
    return inst, before, out


def save_reload(q, var, setter, helptext=''):
    """real close -> file -> real open_registry(clear=True) -> fresh instance.  returns dict"""
    m = mods()
    r = m.registry
    res = {}
    with keep_cache():
        root = r.Group()
        root.setName('verifc15')
        inst = cls_of(q)(default_of(q), helptext)
        root.register(var, inst)
        setter(inst)
        res['saved'] = canon(q, inst.value)
        res['name'] = inst._name
        take_swallowed()
        r.close(root, m.fn)
        res['swallowed'] = take_swallowed()
        with open(m.fn, newline='') as f:
            text = f.read()
        res['lines'] = [l for l in text.split('\n') if l.strip() and not l.startswith('#')]
        try:
            r.open_registry(m.fn, clear=True)
        except Exception as e:
            res['load'] = ('raise', exn_name(e))
            return res
        res['load'] = ('ok', [[k, v] for (k, v) in r._cache.data.values()])
        root2 = r.Group()
        root2.setName('verifc15')
        inst2 = cls_of(q)(default_of(q), helptext)
        try:
            root2.register(var, inst2)
            res['reloaded'] = ('ok', canon(q, inst2.value))
        except Exception as e:
            res['reloaded'] = ('raise', exn_name(e))
    return res


def check_class_text(ctx, q, cur_text, text, var, mouts):
    """one text on one class: set (accept/reject) + save/reload of the accepted value"""
    m = mods()
    k = kind_of(q)
    modelled = wire_kind(q) is not None
    inp = {'op': 'set', 'cls': q, 'cur': cur_text, 'text': text}
    ctx.case('set:' + k.split(':')[0], inp, nontrivial=bool(text))
    try:
        inst, before, out = impl_set(q, cur_text, text)
    except Exception:
        return        # cur_text itself not accepted: nothing to check
    # clause: a rejected text raises and leaves the previous value in force
    if out[0] == 'raise':
        after = canon(q, inst.value)
        if after != before:
            ctx.fail(inp, 'rejected set (%s) changed the value from %r to %r' % (out[1], before, after))
    if modelled and mouts is not None and mouts[0] is not None:
        mo = mouts[0]
        mr = wire.r(mo[0], lambda p: canon_model(q, p))
        if mr != ('raise', 'OtherError'):
            io = out if out[0] == 'ok' else ('raise', 'InvalidRegistryValue')   # which error is raised is not part of the property
            if mr != io:
                ctx.disagree(inp, mr, io, '%s.set' % q)
            elif out[0] == 'ok':
                ms, mz = wire.s(mo[1][0]), wire.s(mo[1][1])
                istr, iser = str(inst), inst.serialize()
                if q in SETS:
                    fold = (lambda xs: sorted(set(m.ircutils.toLower(x) for x in xs))) if q in FOLDED else sorted
                    if fold(ms.split()) != fold(istr.split()) and fold(ms.split(', ')) != fold(istr.split(', ')):
                        ctx.disagree(inp, ms, istr, '%s.__str__ (as a set)' % q)
                elif [ms, mz] != [istr, iser]:
                    ctx.disagree(inp, [ms, mz], [istr, iser], '%s.__str__/serialize' % q)
    if out[0] != 'ok':
        return
    # save / reload of the accepted value
    val = out[1]
    inp2 = {'op': 'reload', 'cls': q, 'var': var, 'value': val, 'text': text, 'cur': cur_text}
    ctx.case('reload:' + k.split(':')[0], inp2)
    res = do_reload(ctx, inp2)
    if modelled and mouts is not None and mouts[1] is not None and q not in SETS and val[0] != 9:
        mo = mouts[1]
        mline = wire.s(mo[0])
        ilines = '\n'.join(res['lines']) + '\n'
        mload = wire.r(mo[1], lambda l: [[wire.s(kv[0]), wire.s(kv[1])] for kv in l])
        mrel = wire.r(mo[2], lambda p: canon_model(q, p))
        if mline != ilines:
            ctx.disagree(inp2, mline, ilines, 'value line written by close()')
        elif mload != ('raise', 'OtherError') and mload != res['load']:
            ctx.disagree(inp2, mload, res['load'], 'open_registry of the saved file')
        elif res['load'][0] == 'ok' and mrel != ('raise', 'OtherError') and mrel != res['reloaded']:
            ctx.disagree(inp2, mrel, res['reloaded'], 'value after reload')


def do_reload(ctx, inp):
    """direct oracle of the save/reload clause; records failures on ctx; returns the raw result"""
    q = inp['cls']

    def setter(inst):
        if inp.get('cur') is not None:
            inst.set(inp['cur'])
        inst.set(inp['text'])
    res = save_reload(q, inp['var'], setter, inp.get('help', ''))
    if res.get('swallowed'):
        ctx.fail(inp, 'registry.close() swallowed an exception while writing the value (the line is left out): %r' % res['swallowed'][:2])
    elif res['load'][0] == 'raise':
        ctx.fail(inp, 'the saved file does not load: %s; lines %r' % (res['load'][1], res['lines']))
    elif res['reloaded'][0] == 'raise':
        ctx.fail(inp, 'the saved value is rejected on reload (%s); lines %r' % (res['reloaded'][1], res['lines']))
    elif res['reloaded'][1] != res['saved']:
        ctx.fail(inp, 'saved %r, reloaded %r; lines %r' % (res['saved'], res['reloaded'][1], res['lines']))
    return res


# ---------------------------------------------------------------- (4) hostile files
def check_file(ctx, text, mo):
    m = mods()
    inp = {'op': 'file', 'text': text}
    ctx.case('file-hostile', inp, nontrivial=bool(text))
    with keep_cache():
        with open(m.fn, 'w', newline='', encoding='utf-8') as f:
            f.write(text)
        try:
            m.registry.open_registry(m.fn, clear=True)
            io = ('ok', {k: v for k, (_, v) in m.registry._cache.data.items()})
        except Exception as e:
            io = ('raise', exn_name(e))
    if mo is not None:
        mr = wire.r(mo, lambda l: [[wire.s(kv[0]), wire.s(kv[1])] for kv in l])
        if mr[0] == 'ok':
            d = {}
            for k, v in mr[1]:
                d[k.lower()] = v
            mr = ('ok', d)
        if mr != ('raise', 'OtherError') and mr != io:
            ctx.disagree(inp, mr, io, 'open_registry(text)')


# ---------------------------------------------------------------- (5) value tree
NETS = ['neta', 'netb']
CHANS = ['#a', '#b']


class FakeIrc:
    def __init__(self, n):
        self.network = n


def addr_wire(a):
    return [0] if a == ['g'] else ([1, a[1]] if a[0] == 'c' else ([2, ':' + a[1]] if a[0] == 'n' else [3, ':' + a[1], a[2]]))


def tree_wire(inp):
    ops = []
    for o in inp['ops']:
        if o[0] == 'set':
            ops.append([0, addr_wire(o[1]), o[2]])
        elif o[0] == 'setvalue':
            ops.append([1, addr_wire(o[1]), to_wire_pv(o[2])])
        elif o[0] == 'reset':
            ops.append([2, addr_wire(o[1])])
        else:
            ops.append([3, addr_wire(o[1])])
    q = inp['cls']
    return [6, [wire_kind(q), to_wire_pv(canon(q, default_of(q))), to_wire_pv(inp['init']), ops]]


def py_value(c):
    return c[1]


def run_tree(ctx, inp, mo):
    """history on a private channel value; correspondence + direct oracle (spec = explicit-settings map)"""
    m = mods()
    r, conf = m.registry, m.conf
    q = inp['cls']
    fakes = [FakeIrc(n) for n in NETS]
    m.world.ircs.extend(fakes)
    outs = []
    fails = []
    try:
        with keep_cache():
            root = r.Group()
            root.setName('verifc15t')
            base = cls_of(q)(default_of(q), '')
            conf.registerChannelValue(root, 'var', base)
            base.setValue(py_value(inp['init']))
            spec = {('g',): inp['init']}

            def node(a):
                if a[0] == 'g':
                    return base
                if a[0] == 'c':
                    return base.get(a[1])
                if a[0] == 'n':
                    return base.get(':' + a[1])
                return base.get(':' + a[1]).get(a[2])

            def resolve(a):
                if a[0] == 'nc':
                    for k in (('nc', a[1], a[2]), ('n', a[1]), ('c', a[2]), ('g',)):
                        if k in spec:
                            return spec[k]
                if tuple(a) in spec:
                    return spec[tuple(a)]
                return spec[('g',)]

            def snapshot():
                return {k: resolve(list(k)) for k in [('g',)] + [('c', c) for c in CHANS] + [('n', n) for n in NETS]
                        + [('nc', n, c) for n in NETS for c in CHANS]}
            for i, o in enumerate(inp['ops']):
                a = o[1]
                try:
                    if o[0] == 'set':
                        n_ = node(a)
                        try:
                            n_.set(o[2])
                            spec[tuple(a)] = canon(q, n_.value)
                            outs.append(('ok', canon(q, n_.value)))
                        except r.InvalidRegistryValue:
                            outs.append(('raise', 'InvalidRegistryValue'))
                            fails.append((i, 'rejected'))
                    elif o[0] == 'setvalue':
                        n_ = node(a)
                        n_.setValue(py_value(o[2]))
                        spec[tuple(a)] = canon(q, n_.value)
                        outs.append(('ok', canon(q, n_.value)))
                    elif o[0] == 'reset':
                        # plugins/Config/plugin.py: reset channel / reset network
                        if a[0] == 'nc':
                            config_reset(base, a)
                            spec.pop(('nc', a[1], a[2]), None)
                            spec.pop(('c', a[2]), None)
                            outs.append(('ok', canon(q, base.value)))
                        elif a[0] == 'c':
                            config_reset(base, a)
                            spec.pop(('c', a[1]), None)
                            outs.append(('ok', canon(q, base.value)))
                        elif a[0] == 'n':
                            config_reset(base, a)
                            spec.pop(('n', a[1]), None)
                            outs.append(('ok', canon(q, base.value)))
                        else:
                            outs.append(('ok', canon(q, base.value)))
                    else:
                        net = a[1] if a[0] in ('n', 'nc') else None
                        chan = a[1] if a[0] == 'c' else (a[2] if a[0] == 'nc' else None)
                        v = base.getSpecific(network=net, channel=chan)()
                        got = canon(q, v)
                        outs.append(('ok', got))
                        want = resolve(a)
                        if got != want:
                            fails.append((i, 'getSpecific%r = %r, the settings in force say %r' % (tuple(a), got, want)))
                except r.InvalidRegistryValue:
                    outs.append(('raise', 'InvalidRegistryValue'))
                    if o[0] != 'set':
                        fails.append((i, '%s%r raised InvalidRegistryValue' % (o[0], tuple(a))))
            # save / reload point: every address resolves as before
            if inp.get('reload', True):
                want = {}
                for k in snapshot():
                    net = k[1] if k[0] in ('n', 'nc') else None
                    chan = k[1] if k[0] == 'c' else (k[2] if k[0] == 'nc' else None)
                    try:
                        want[k] = canon(q, base.getSpecific(network=net, channel=chan)())
                    except r.InvalidRegistryValue:
                        want[k] = 'raise'
                take_swallowed()
                r.close(root, m.fn)
                sw = take_swallowed()
                if sw:
                    fails.append((len(inp['ops']), 'registry.close() swallowed an exception (a line is left out): %r' % sw[:2]))
                try:
                    r.open_registry(m.fn, clear=True)
                    root2 = r.Group()
                    root2.setName('verifc15t')
                    base2 = cls_of(q)(default_of(q), '')
                    conf.registerChannelValue(root2, 'var', base2)
                    for k, w in want.items():
                        net = k[1] if k[0] in ('n', 'nc') else None
                        chan = k[1] if k[0] == 'c' else (k[2] if k[0] == 'nc' else None)
                        try:
                            g = canon(q, base2.getSpecific(network=net, channel=chan)())
                        except r.InvalidRegistryValue:
                            g = 'raise'
                        if g != w:
                            fails.append((len(inp['ops']), 'after save/reload getSpecific%r = %r, before %r' % (k, g, w)))
                            break
                except r.InvalidRegistryFile as e:
                    fails.append((len(inp['ops']), 'the saved file does not load: %s' % e))
                except r.InvalidRegistryValue as e:
                    fails.append((len(inp['ops']), 'the saved file is rejected while registering: %s' % e))
    finally:
        for f in fakes:
            m.world.ircs.remove(f)
    real_fails = [f for f in fails if f[1] != 'rejected']
    if mo is not None:
        mm = [wire.r(x, lambda p: canon_model(q, p)) for x in mo]
        if mm != outs and ('raise', 'OtherError') not in mm:
            ctx.disagree(inp, mm, outs, 'tree history outcomes')
    return real_fails


def check_tree(ctx, inp, mo):
    ctx.case('tree:' + kind_of(inp['cls']), inp)
    fails = run_tree(ctx, inp, mo)
    if fails:
        ctx.fail(inp, 'op %d: %s' % fails[0])


# ---------------------------------------------------------------- (6) generations: load / register / (read) / save, repeatedly
GROOT = 'verifc15g'
FLAVORS = {'global': 0, 'network': 1, 'channel': 2}


def gaddr_wire(a):
    return addr_wire(a)


def gens_wire(inp):
    decls = []
    for v in inp['vars']:
        q = v['cls']
        decls.append([[GROOT] + v['ns'], FLAVORS[v['flavor']], wire_kind(q), to_wire_pv(canon(q, default_of(q)))])
    gens = []
    for ops in inp['gens']:
        gens.append([[0, o[1], gaddr_wire(o[2]), o[3]] if o[0] == 'set' else [1, o[1], gaddr_wire(o[2])] for o in ops])
    return [7, [decls, gens]]


def file_lines(fn):
    with open(fn, newline='') as f:
        text = f.read()
    return sorted(l for l in text.split('\n') if l.strip() and not l.startswith('#'))


def real_generation(inp, g, prev_file, out_file):
    """one session on private groups built with the real conf.register*Value functions.
    returns ('ok', lines, reads) | ('raise', name)"""
    m = mods()
    r, conf = m.registry, m.conf
    fakes = [FakeIrc(n) for n in NETS]
    m.world.ircs.extend(fakes)
    try:
        with keep_cache():
            if prev_file is None:
                r._cache.data.clear()
            else:
                r.open_registry(prev_file, clear=True)
            root = r.Group()
            root.setName(GROOT)
            nodes = []
            for v in inp['vars']:
                grp = root
                for comp in v['ns'][:-1]:
                    grp = conf.registerGroup(grp, comp)
                val = cls_of(v['cls'])(default_of(v['cls']), '')
                reg = {'global': conf.registerGlobalValue, 'network': conf.registerNetworkValue, 'channel': conf.registerChannelValue}[v['flavor']]
                nodes.append(reg(grp, v['ns'][-1], val))
            reads = []
            saves = []
            cur_file = prev_file
            for o in inp['gens'][g]:
                if o[0] == 'save':
                    take_swallowed()
                    r.close(root, out_file)
                    if take_swallowed():
                        raise RuntimeError('registry.close() swallowed an exception (a line is left out)')
                    cur_file = out_file
                    saves.append(file_lines(out_file))
                    continue
                if o[0] == 'reload':
                    # plugins/Config/plugin.py _reload(): registry.open_registry(world.registryFilename)  -- no clear
                    if cur_file is None:
                        cur_file = m.fn + '.gempty'
                        open(cur_file, 'w').close()
                    r.open_registry(cur_file)
                    continue
                base = nodes[o[1]]
                a = o[2]
                q = inp['vars'][o[1]]['cls']
                if o[0] == 'inherit':
                    # the registry API, as plugins and scripts use it: the node takes its parent's value again
                    node_ = base.get(a[1]) if a[0] == 'c' else base.get(':' + a[1])
                    node_._setValue(base.value, inherited=True)
                elif o[0] == 'reset':
                    # plugins/Config/plugin.py: reset channel [network] / reset network (shape pinned by t15.config_reset_forgets)
                    # the harness follows the source: each of the three reset statements forgets the cached text iff the source does
                    config_reset(base, a)
                elif o[0] == 'set':
                    n_ = base if a[0] == 'g' else (base.get(a[1]) if a[0] == 'c' else (base.get(':' + a[1]) if a[0] == 'n' else base.get(':' + a[1]).get(a[2])))
                    try:
                        n_.set(o[3])
                    except r.InvalidRegistryValue:
                        pass          # a rejected text: the value stays
                else:
                    net = a[1] if a[0] in ('n', 'nc') else None
                    chan = a[1] if a[0] == 'c' else (a[2] if a[0] == 'nc' else None)
                    reads.append(canon(q, base.getSpecific(network=net, channel=chan)()))
            take_swallowed()
            r.close(root, out_file)
            if take_swallowed():
                raise RuntimeError('registry.close() swallowed an exception (a line is left out)')
            saves.append(file_lines(out_file))
            return ('ok', file_lines(out_file), reads, saves, root)
    except Exception as e:
        return ('raise', exn_name(e))
    finally:
        for f in fakes:
            m.world.ircs.remove(f)


def run_gens(ctx, inp, mo):
    """several generations; returns list of failure strings (direct oracle) and records disagreements"""
    m = mods()
    fails = []
    outs = []
    prev = None
    for g in range(len(inp['gens'])):
        fn = m.fn + '.g%d' % (g % 2)
        res = real_generation(inp, g, prev, fn)
        outs.append(res)
        if res[0] == 'raise':
            fails.append('generation %d: the session raised %s' % (g, res[1]))
            break
        prev = fn
    # direct oracle: a session that sets nothing saves what it loaded; the settings read back equal in every generation
    ok = [o for o in outs if o[0] == 'ok']
    for g in range(1, len(ok)):
        if not any(o[0] == 'set' for o in inp['gens'][g]) and ok[g][1] != ok[g - 1][1]:
            lost = [l for l in ok[g - 1][1] if l not in ok[g][1]]
            extra = [l for l in ok[g][1] if l not in ok[g - 1][1]]
            fails.append('generation %d saved a different file than it loaded: lost %r, new %r' % (g, lost[:4], extra[:4]))
            break
    if len(ok) >= 2 and inp.get('final_reads'):
        # the trailing reads of generation 0 and of the last generation are the same list of addresses
        k = inp['final_reads']
        if ok[0][2][-k:] != ok[-1][2][-k:] and not fails:
            fails.append('values read back in generation %d differ from generation 0: %r vs %r' % (len(ok) - 1, ok[-1][2][-k:], ok[0][2][-k:]))
    if mo is not None:
        mm = []
        for x in mo:
            rr = wire.r(x, lambda pr: pr)
            if rr[0] == 'raise':
                mm.append(('raise', 'InvalidRegistryValue' if rr[1] == 'InvalidRegistryValue' else rr[1]))
            else:
                lines = sorted('%s: %s' % (wire.s(kv[0]), m.registry.encoder(wire.s(kv[1]))[0].decode()) for kv in rr[1][0])
                vals = rr[1][1]
                mm.append(('ok', lines, vals))
        cmp_impl = []
        for i, o in enumerate(outs):
            cmp_impl.append(o)
        same = len(mm) == len(cmp_impl)
        if same:
            for a, b, in zip(mm, cmp_impl):
                if a[0] != b[0]:
                    same = False
                elif a[0] == 'ok':
                    qs = [inp['vars'][o[1]]['cls'] for g_ in [0] for o in []]
                    if a[1] != b[1]:
                        same = False
        if same:
            # read values: decode with the class of each read
            for g, (a, b) in enumerate(zip(mm, cmp_impl)):
                if a[0] == 'ok':
                    rq = [inp['vars'][o[1]]['cls'] for o in inp['gens'][g] if o[0] == 'read']
                    av = [canon_model(q, v) for q, v in zip(rq, a[2])]
                    if av != b[2]:
                        same = False
        if not same and ('raise', 'OtherError') not in [x[:2] for x in mm]:
            ctx.disagree(inp, [x[:2] for x in mm], [x[:2] for x in cmp_impl], 'generations: saved lines / values read')
    return fails


def check_gens(ctx, inp, mo):
    ctx.case('generations', inp)
    fails = run_gens(ctx, inp, mo)
    if fails:
        ctx.fail(inp, fails[0])


GVARS = [(['reply', 'mores'], 'channel', 'registry.Boolean'), (['reply', 'mores', 'maximum'], 'channel', 'registry.PositiveInteger'),
         (['reply', 'whenAddressedBy', 'chars'], 'channel', 'registry.String'), (['reply', 'inPrivate'], 'channel', 'registry.Boolean'),
         (['reply', 'format', 'list', 'maximumItems'], 'channel', 'registry.Integer'), (['plugins', 'Foo', 'bar'], 'channel', 'registry.SpaceSeparatedListOfStrings'),
         (['Ident'], 'global', 'registry.String'), (['nick', 'alternates'], 'global', 'registry.SpaceSeparatedListOfStrings'),
         (['networks', 'neta', 'saslUser'], 'network', 'registry.String'), (['protocols', 'irc', 'umodes'], 'network', 'registry.String'),
         (['a.b', 'c:d'], 'channel', 'registry.String'), (['quotes'], 'channel', 'registry.String')]
GTEXTS = {'registry.Boolean': ['True', 'False', 'on'], 'registry.PositiveInteger': ['3', '50'], 'registry.Integer': ['4', '-1'],
          'registry.String': ['!%', 'x y', '"', "it's", '', 'a: b', '\\'], 'registry.SpaceSeparatedListOfStrings': ['a b', '', '#x y']}
GCHANS = ['#chan', '#Other', '&x', '#a.b']


def ggen(rng, with_net_only=False):
    picks = rng.sample(GVARS, rng.randint(1, 5))
    picks.sort(key=lambda v: GVARS.index(v))           # parents are registered before nested variables
    vars_ = [{'ns': ns, 'flavor': fl, 'cls': q} for ns, fl, q in picks]
    sets, addrs = [], []
    for i, v in enumerate(vars_):
        for _ in range(rng.randint(0, 3)):
            if v['flavor'] == 'global':
                a = ['g']
            elif v['flavor'] == 'network':
                a = rng.choice([['g'], ['n', rng.choice(NETS)]]) if with_net_only else ['g']
            else:
                t = rng.random()
                a = ['c', rng.choice(GCHANS)] if t < 0.45 else (['nc', rng.choice(NETS), rng.choice(GCHANS)] if t < 0.85 else
                                                                 (['n', rng.choice(NETS)] if with_net_only else ['g']))
            sets.append(['set', i, a, rng.choice(GTEXTS[v['cls']])])
            addrs.append((i, a))
    final = [['read', i, a] for i, a in addrs]
    gens = [sets + final]
    for g in range(rng.randint(1, 3)):
        reads = [['read', i, a] for i, a in addrs if rng.random() < 0.2]
        gens.append(reads if g < 1 or rng.random() < 0.7 else reads)
    gens[-1] = gens[-1] + final
    return {'op': 'gens', 'vars': vars_, 'gens': gens, 'final_reads': len(final)}


CORPUS_GENS = [
    {'op': 'gens', 'vars': [{'ns': ['reply', 'whenAddressedBy', 'chars'], 'flavor': 'channel', 'cls': 'registry.String'}],
     'gens': [[['set', 0, ['c', '#chan'], '!%'], ['set', 0, ['nc', 'neta', '#other'], '+'], ['read', 0, ['c', '#chan']], ['read', 0, ['nc', 'neta', '#other']]],
              [], [['read', 0, ['c', '#chan']], ['read', 0, ['nc', 'neta', '#other']]]], 'final_reads': 2},
    {'op': 'gens', 'vars': [{'ns': ['reply', 'mores'], 'flavor': 'channel', 'cls': 'registry.Boolean'},
                            {'ns': ['reply', 'mores', 'maximum'], 'flavor': 'channel', 'cls': 'registry.PositiveInteger'}],
     'gens': [[['set', 0, ['c', '#chan'], 'False'], ['set', 1, ['c', '#chan'], '3'], ['read', 0, ['c', '#chan']], ['read', 1, ['c', '#chan']]],
              [], [], [['read', 0, ['c', '#chan']], ['read', 1, ['c', '#chan']]]], 'final_reads': 2},
]

# the real configuration tree of supybot.conf, one process per session (conf can be built once per process)
REAL_CASES = [['supybot.reply.mores', None, '#chan', 'False'], ['supybot.reply.mores', 'test', '#chan', 'False'],
              ['supybot.reply.inPrivate', None, '#chan', 'True'], ['supybot.reply.whenAddressedBy.chars', None, '#chan', '!%'],
              ['supybot.reply.whenAddressedBy.chars', 'test', '#other', '+'], ['supybot.reply.format.list.maximumItems', None, '#chan', '4'],
              ['supybot.replies.success', 'test', '#chan', 'Done: it worked.'], ['supybot.commands.quotes', None, '#chan', "'"]]
SESSION_SRC = r"""
import json, os, sys
repo, tmp, n, cases = sys.argv[1], sys.argv[2], int(sys.argv[3]), json.loads(sys.argv[4])
os.chdir(tmp); sys.path.insert(0, repo)
import supybot.registry as registry
files = [os.path.join(tmp, 's%d.conf' % i) for i in range(8)]
registry.open_registry(files[n - 1])
import supybot.conf as conf
conf.supybot.flush.setValue(False)
def node(name, net, chan):
    g = conf.supybot
    for part in name.split('.')[1:]:
        g = g.get(part)
    if net:
        g = g.get(':' + net)
    return g.get(chan) if chan else g
vals = None
if n == 1:
    for name, net, chan, text in cases:
        node(name, net, chan).set(text)
if n == 1 or n == int(sys.argv[5]):
    vals = [repr(node(name, net, chan)()) for name, net, chan, text in cases]
registry.close(conf.supybot, files[n])
keys = set()
for name, net, chan, text in cases:
    keys.add(node(name, net, chan)._name)
lines = sorted(l.rstrip('\n') for l in open(files[n]) if l.split(': ')[0] in keys)
print('RESULT ' + json.dumps({'vals': vals, 'lines': lines}))
"""


def check_real_gens(ctx, inp):
    import subprocess, tempfile, shutil, json as _json
    ctx.case('generations-real-conf', inp)
    tmp = tempfile.mkdtemp(prefix='c15s_', dir=os.path.dirname(mods().fn))
    try:
        for sub in ('data', 'conf', 'logs', 'backup'):
            os.makedirs(os.path.join(tmp, sub))
        with open(os.path.join(tmp, 's0.conf'), 'w') as f:
            f.write('supybot.directories.data: %(t)s/data\nsupybot.directories.conf: %(t)s/conf\nsupybot.directories.log: %(t)s/logs\n'
                    'supybot.directories.backup: %(t)s/backup\nsupybot.networks.test.server: x\nsupybot.nick: test\nsupybot.log.stdout: False\n' % {'t': tmp})
        last = inp['sessions']
        res = []
        for n in range(1, last + 1):
            p = subprocess.run([sys.executable, '-c', SESSION_SRC, boot.REPO, tmp, str(n), _json.dumps(inp['cases']), str(last)],
                               stdout=subprocess.PIPE, stderr=subprocess.PIPE, text=True, env=dict(os.environ, PYTHONHASHSEED='0'))
            out = [l for l in p.stdout.split('\n') if l.startswith('RESULT ')]
            if p.returncode != 0 or not out:
                ctx.fail(inp, 'session %d of the real configuration failed: %s' % (n, p.stderr[-300:]))
                return
            res.append(_json.loads(out[0][7:]))
        for n in range(1, last):
            if res[n]['lines'] != res[0]['lines']:
                lost = [l for l in res[0]['lines'] if l not in res[n]['lines']]
                ctx.fail(inp, 'session %d (load, touch nothing, save) dropped lines of the configuration: %r' % (n + 1, lost[:5]))
                return
        if res[-1]['vals'] != res[0]['vals']:
            ctx.fail(inp, 'values after %d restarts %r differ from the values set %r' % (last - 1, res[-1]['vals'], res[0]['vals']))
    finally:
        shutil.rmtree(tmp, True)



# ---------------------------------------------------------------- (7) NormalizedString: wrapped value lines
NWORDS = ['see', 'the', 'well-known', 'docs', '#chan', '#12', 'a-b-c', 'at', 'https://example.org/a/very/long/path/that/does/not/fit/on/one/line/of/the/file',
          'caf\xe9', 'x\\', '"q"', 'a:', ':', 'it\'s', 'and', 'then', 'more', 'words', '#', '##x', 'end-', '-', 'e€€€€€€€€', 'ok', '\\',
          'supercalifragilisticexpialidocious-antidisestablishmentarianism', '#fifth', 'mother-in-law', '\U0001f600\U0001f600\U0001f600']
NVARS = ['v', 'someLongName', 'replies.x', 'a#b', 'aVeryLongVariableNameThatLeavesLittleRoomForTheValue01234567', 'x' * 70,
         '#' + 'c' * 64, ':' + 'n' * 65, '#' + 'a-rather-long-channel-name' * 4, 'y' * 199]
LONGVARS = ['#' + 'c' * 70, ':' + 'network' * 12, 'v' * 100, '#' + 'long-channel-' * 15, 'X' * 199, ':net\\' + 'n' * 70]


def norm_chunks(inst):
    """the chunks textwrap.wrap hands back to NormalizedString.serialize (recorded from the real call)"""
    import textwrap as _tw
    m = mods()
    rec = []
    real = m.registry.textwrap.wrap

    def spy(*a, **k):
        r_ = real(*a, **k)
        rec.append(list(r_))
        return r_
    m.registry.textwrap.wrap = spy
    try:
        inst.serialize()
    except Exception:
        pass                 # textwrap refused the width: close() will log it and leave the line out
    finally:
        m.registry.textwrap.wrap = real
    return rec[-1] if rec else []


def norm_case(var, text):
    """real run: set, chunks, save, load, reload.  returns dict or None when the text is rejected"""
    m = mods()
    r = m.registry
    out = {}
    with keep_cache():
        root = r.Group()
        root.setName('verifc15')
        inst = r.NormalizedString('', '')
        root.register(var, inst)
        try:
            inst.set(text)
            out['set'] = ('ok', inst.value)
        except r.InvalidRegistryValue:
            out['set'] = ('raise', 'InvalidRegistryValue')
            return out
        out['name'] = inst._name
        out['s0'] = r.Value.serialize(inst)
        out['chunks'] = norm_chunks(inst)
        take_swallowed()
        r.close(root, m.fn)
        out['swallowed'] = take_swallowed()
        with open(m.fn, newline='') as f:
            raw = f.read()
        out['text'] = ''.join(l + '\n' for l in raw.split('\n') if l.strip() and not l.startswith('#'))
        try:
            r.open_registry(m.fn, clear=True)
            out['load'] = ('ok', [[k, v] for (k, v) in r._cache.data.values()])
        except Exception as e:
            out['load'] = ('raise', exn_name(e))
            return out
        root2 = r.Group()
        root2.setName('verifc15')
        inst2 = r.NormalizedString('', '')
        try:
            root2.register(var, inst2)
            out['reloaded'] = ('ok', inst2.value)
        except Exception as e:
            out['reloaded'] = ('raise', exn_name(e))
    return out


def check_norm(ctx, var, text, mo):
    inp = {'op': 'norm', 'var': var, 'text': text}
    ctx.case('normalized-wrapped', inp, nontrivial=bool(text))
    try:
        res = norm_case(var, text)
    except ValueError as e:          # textwrap: invalid width (name longer than the line)
        ctx.fail(inp, 'saving raised %r' % (e,))
        return
    if mo is not None and res['set'][0] == 'ok':
        mtext, mload = wire.s(mo[0]), wire.r(mo[1], lambda l: [[wire.s(kv[0]), wire.s(kv[1])] for kv in l])
        mrel, mset, ms0 = wire.r(mo[2], wire.s), wire.r(mo[3], wire.s), wire.s(mo[4])
        other = ('raise', 'OtherError')
        if mset != other and mset != res['set']:
            ctx.disagree(inp, mset, res['set'], 'NormalizedString.set')
        elif ms0 != res['s0']:
            ctx.disagree(inp, ms0, res['s0'], 'text handed to textwrap.wrap')
        elif mtext != res['text']:
            ctx.disagree(inp, mtext, res['text'], 'wrapped value lines written by close()')
        elif mload != other and mload != res['load']:
            ctx.disagree(inp, mload, res['load'], 'open_registry of the wrapped lines')
        elif res['load'][0] == 'ok' and mrel != other and mrel != res.get('reloaded'):
            ctx.disagree(inp, mrel, res.get('reloaded'), 'NormalizedString value after reload')
    elif mo is not None and res['set'][0] == 'raise':
        mset = wire.r(mo[3], wire.s)
        if mset[0] == 'ok':
            ctx.disagree(inp, mset, res['set'], 'NormalizedString.set')
    if res['set'][0] != 'ok':
        return
    # direct oracle: nothing swallowed while saving; the file loads, and loads the value that was saved
    if res.get('swallowed'):
        ctx.fail(inp, 'registry.close() swallowed an exception while writing the value (the line is left out): %r' % res['swallowed'][:2])
    elif res['load'][0] == 'raise':
        ctx.fail(inp, 'the saved file does not load: %s; lines %r' % (res['load'][1], res['text']))
    elif res['reloaded'][0] == 'raise':
        ctx.fail(inp, 'the saved value is rejected on reload (%s); lines %r' % (res['reloaded'][1], res['text']))
    elif res['reloaded'][1] != res['set'][1]:
        ctx.fail(inp, 'saved %r, reloaded %r; lines %r' % (res['set'][1], res['reloaded'][1], res['text']))
    elif len(res['load'][1]) != 1:
        ctx.fail(inp, 'the file of one variable loads as %d entries: %r' % (len(res['load'][1]), res['load'][1]))


def norm_wire(var, text):
    """model case: needs the implementation's value and the recorded chunks"""
    try:
        res = norm_case(var, text)
    except ValueError:
        return None
    if res['set'][0] != 'ok' or res.get('chunks') is None:
        return [8, [mods().registry.join(['verifc15', var]), [], '', text, '']]
    return [8, [res['name'], res['chunks'], '', text, res['set'][1]]]


def gnorm(rng):
    n = rng.randint(3, 28)
    words = [rng.choice(NWORDS[:8] + NWORDS[15:19]) if rng.random() < 0.6 else rng.choice(NWORDS) for _ in range(n)]
    return rng.choice(NVARS[:5] if rng.random() < 0.6 else NVARS), ' '.join(words)


CORPUS_NORM = [('someLongName', 'please join #channel and then #other and then #third and then #fourth and #fifth ok'),
               ('v', ''), ('v', 'short'), ('someLongName', '"quoted value that is long enough to be wrapped over more than one line of the file ok"'),
               ('someLongName', 'see the well-known documentation at the usual place for all the details you need-now and then more words')]



# ---------------------------------------------------------------- (8) reload in a running bot, reset, timestamps
TOPS = {'set': 0, 'read': 1, 'reset': 2, 'save': 3, 'reload': 4, 'forget': 5, 'inherit': 6}




def tgens_wire(inp):
    decls = []
    for v in inp['vars']:
        q = v['cls']
        decls.append([[GROOT] + v['ns'], FLAVORS[v['flavor']], wire_kind(q), to_wire_pv(canon(q, default_of(q)))])
    gens = []
    for ops in inp['gens']:
        ws = []
        for o in ops:
            if o[0] in ('save', 'reload'):
                ws.append([TOPS[o[0]], 0, [0]])
            elif o[0] == 'set':
                ws.append([0, o[1], addr_wire(o[2]), o[3]])
            else:
                ws.append([TOPS[o[0]], o[1], addr_wire(o[2])])
        gens.append(ws)
    return [9, [decls, gens]]


def addr_name(inp, i, a):
    """the full registry name of the node at address a of variable i"""
    m = mods()
    comps = [GROOT] + inp['vars'][i]['ns'] + ([] if a[0] == 'g' else ([a[1]] if a[0] == 'c' else ([':' + a[1]] if a[0] == 'n' else [':' + a[1], a[2]])))
    return m.registry.join(comps)


def run_tgens(ctx, inp, mo):
    """generations with save / reload / reset inside a session.  Direct oracle: a specific value that has been
    reset follows the general value: its line is not written again -- until it is set again, or the file that still
    has it is re-read (a reload before the reset was saved legitimately brings it back)"""
    m = mods()
    fails, outs = [], []
    prev = None
    state = {}            # (var, addr) -> 'unsaved' | 'saved'   (reset, and not set since)
    for g in range(len(inp['gens'])):
        fn = m.fn + '.g%d' % (g % 2)
        res = real_generation(inp, g, prev, fn)
        outs.append(res[:3])
        if res[0] == 'raise':
            fails.append('generation %d: the session raised %s' % (g, res[1]))
            break
        prev = fn
        si = 0
        for k in state:
            state[k] = 'saved'          # a new process: the cache was rebuilt from the file, which no longer has the line
        ops = inp['gens'][g] + [['save']]
        for o in ops:
            if o[0] == 'set':
                state.pop((o[1], tuple(o[2])), None)
            elif o[0] == 'reset':
                state[(o[1], tuple(o[2]))] = 'unsaved'
                if o[2][0] == 'nc':
                    state[(o[1], ('c', o[2][2]))] = 'unsaved'
            elif o[0] == 'inherit':
                # through the API the cached text is not forgotten: the node must follow its parent until the file is re-read
                state[(o[1], tuple(o[2]))] = 'api'
            elif o[0] == 'reload':
                for k in [k for k, v in state.items() if v in ('unsaved', 'api')]:
                    del state[k]
            elif o[0] == 'save':
                lines = res[3][si]
                si += 1
                names = set(l.split(': ', 1)[0].lower() for l in lines)
                for (i, a), st in sorted(state.items()):
                    if addr_name(inp, i, list(a)).lower() in names and not fails:
                        fails.append('generation %d: %r of variable %d was reset (%s) but its line is written again: %r'
                                     % (g, a, i, st, [l for l in lines if l.lower().startswith(addr_name(inp, i, list(a)).lower() + ': ')]))
                for k in state:
                    if state[k] == 'unsaved':
                        state[k] = 'saved'
    # outside the session model: for classes whose __str__ goes through self() (Value.__str__, SeparatedListOf.__str__),
    # creating a child after an in-process reload lazily reloads the PARENT first (_makeChild uses str(parent)); the model's
    # tensure reads the parent's raw value.  Such histories are checked by the direct oracle only.
    strcalls = any(wire_kind(v['cls'])[0] in (5, 6, 7, 8) for v in inp['vars'])
    if mo is not None and strcalls and any(o[0] == 'reload' for ops_ in inp['gens'] for o in ops_):
        mo = None
    if mo is not None:
        mm = []
        for x in mo:
            rr = wire.r(x, lambda pr: pr)
            if rr[0] == 'raise':
                mm.append(('raise', rr[1]))
            else:
                mm.append(('ok', sorted('%s: %s' % (wire.s(kv[0]), m.registry.encoder(wire.s(kv[1]))[0].decode()) for kv in rr[1][0]), rr[1][1]))
        same = len(mm) == len(outs)
        if same:
            for g, (a, b) in enumerate(zip(mm, outs)):
                if a[0] != b[0] or (a[0] == 'ok' and a[1] != b[1]):
                    same = False
                elif a[0] == 'ok':
                    rq = [inp['vars'][o[1]]['cls'] for o in inp['gens'][g] if o[0] == 'read']
                    if [canon_model(q, v) for q, v in zip(rq, a[2])] != b[2]:
                        same = False
        if not same and ('raise', 'OtherError') not in [x[:2] for x in mm]:
            ctx.disagree(inp, [x[:3] for x in mm], [x[:3] for x in outs], 'generations with reload/reset: saved lines / values read')
    return fails


def check_tgens(ctx, inp, mo):
    ctx.case('generations-reload-reset', inp)
    fails = run_tgens(ctx, inp, mo)
    if fails:
        ctx.fail(inp, fails[0])


TVARS = [(['reply', 'mores', 'maximum'], 'channel', 'registry.PositiveInteger'), (['reply', 'whenAddressedBy', 'chars'], 'channel', 'registry.String'),
         (['reply', 'inPrivate'], 'channel', 'registry.Boolean'), (['quotes'], 'channel', 'registry.String')]


def gtgen(rng, allow_stale=False):
    picks = rng.sample(TVARS, rng.randint(1, 2))
    picks.sort(key=lambda v: TVARS.index(v))
    vars_ = [{'ns': ns, 'flavor': fl, 'cls': q} for ns, fl, q in picks]

    def addr():
        t = rng.random()
        return ['c', rng.choice(GCHANS[:2])] if t < 0.5 else (['nc', rng.choice(NETS), rng.choice(GCHANS[:2])] if t < 0.8 else ['n', rng.choice(NETS)])
    g0, addrs = [], []
    for i, v in enumerate(vars_):
        g0.append(['set', i, ['g'], rng.choice(GTEXTS[v['cls']][:2])])
        for _ in range(rng.randint(1, 3)):
            a = addr()
            g0.append(['set', i, a, rng.choice(GTEXTS[v['cls']][:3])])
            addrs.append((i, a))
    gens = [g0]
    for _ in range(rng.randint(1, 2)):
        ops = []
        reset_saved = False
        for _ in range(rng.randint(2, 7)):
            t = rng.random()
            i, a = rng.choice(addrs)
            if t < 0.2:
                if allow_stale or not reset_saved:
                    ops.append(['reload'])
            elif t < 0.35:
                ops.append(['reset', i, a])
            elif t < 0.45:
                if a[0] in ('c', 'n'):
                    ops.append(['inherit', i, a])
                    if rng.random() < 0.6:
                        ops.append(['set', i, ['g'], rng.choice(GTEXTS[vars_[i]['cls']][:2])])
                        ops.append(['read', i, a])
            elif t < 0.6:
                ops.append(['save'])
                reset_saved = reset_saved or any(o[0] == 'reset' for o in ops)
            elif t < 0.75:
                ops.append(['set', i, rng.choice([a, ['g']]), rng.choice(GTEXTS[vars_[i]['cls']][:3])])
            else:
                ops.append(['read', i, rng.choice([a, ['g']])])
        if not allow_stale and any(o[0] == 'reset' for o in ops):
            reset_saved = True
        gens.append(ops)
        if reset_saved and not allow_stale:
            # later generations of this history must not reload (the end-of-generation save stored the reset)
            for extra in range(rng.randint(0, 1)):
                gens.append([o for o in [['read', i, a] for i, a in addrs] if rng.random() < 0.5])
            break
    inp = {'op': 'tgens', 'vars': vars_, 'gens': gens}
    return inp


CORPUS_TGENS = [
    # /tmp/mut/C15_7/demo.py: reload; the API reset (no cache pop); the general value changes (propagation); read; save
    {'op': 'tgens', 'vars': [{'ns': ['reply', 'mores', 'maximum'], 'flavor': 'channel', 'cls': 'registry.PositiveInteger'}],
     'gens': [[['set', 0, ['g'], '20'], ['set', 0, ['c', '#chan'], '33']],
              [['reload'], ['inherit', 0, ['c', '#chan']], ['set', 0, ['g'], '7'], ['read', 0, ['c', '#chan']], ['read', 0, ['g']]],
              [['read', 0, ['c', '#chan']]]]},
    {'op': 'tgens', 'vars': [{'ns': ['reply', 'inPrivate'], 'flavor': 'channel', 'cls': 'registry.Boolean'}],
     'gens': [[['set', 0, ['g'], 'False'], ['set', 0, ['n', 'neta'], 'True']],
              [['reload'], ['inherit', 0, ['n', 'neta']], ['read', 0, ['n', 'neta']], ['save']]]},
    # propagation alone: an unset child gets the parent's new value after a reload and keeps following it
    {'op': 'tgens', 'vars': [{'ns': ['quotes'], 'flavor': 'channel', 'cls': 'registry.String'}],
     'gens': [[['set', 0, ['g'], 'a'], ['read', 0, ['c', '#chan']]],
              [['read', 0, ['c', '#chan']], ['reload'], ['set', 0, ['g'], 'b'], ['read', 0, ['c', '#chan']], ['read', 0, ['g']]]]},
    # the seeded C15_7 shape: the file has a channel value; reload in the running bot; reset before anything reads it; read; save
    {'op': 'tgens', 'vars': [{'ns': ['reply', 'mores', 'maximum'], 'flavor': 'channel', 'cls': 'registry.PositiveInteger'}],
     'gens': [[['set', 0, ['g'], '20'], ['set', 0, ['c', '#chan'], '33']],
              [['reload'], ['reset', 0, ['c', '#chan']], ['set', 0, ['g'], '7'], ['read', 0, ['c', '#chan']], ['read', 0, ['g']]],
              [['read', 0, ['c', '#chan']]]]},
    {'op': 'tgens', 'vars': [{'ns': ['reply', 'inPrivate'], 'flavor': 'channel', 'cls': 'registry.Boolean'}],
     'gens': [[['set', 0, ['n', 'neta'], 'True'], ['set', 0, ['nc', 'neta', '#chan'], 'True']],
              [['reload'], ['reset', 0, ['nc', 'neta', '#chan']], ['read', 0, ['nc', 'neta', '#chan']], ['reset', 0, ['n', 'neta']], ['read', 0, ['n', 'neta']]]]},
    # reload re-reads an edited (here: saved after a set) file: the new value is taken at the next read
    {'op': 'tgens', 'vars': [{'ns': ['quotes'], 'flavor': 'channel', 'cls': 'registry.String'}],
     'gens': [[['set', 0, ['c', '#chan'], 'a']], [['set', 0, ['c', '#chan'], 'b'], ['save'], ['reload'], ['read', 0, ['c', '#chan']]]]},
]
# C15.F29 witness (known finding): reset, save, reload, read
WITNESS_F29 = {'op': 'tgens', 'vars': [{'ns': ['reply', 'mores', 'maximum'], 'flavor': 'channel', 'cls': 'registry.PositiveInteger'}],
               'gens': [[['set', 0, ['g'], '20'], ['set', 0, ['c', '#chan'], '33']],
                        [['reset', 0, ['c', '#chan']], ['save'], ['reload'], ['read', 0, ['c', '#chan']]]]}



# ---------------------------------------------------------------- (9) the plugin API: setRegistryValue / registryValue
API_PLUGIN = 'VerifC15'
API_LIVE = ['neta', 'netb']          # networks with a live Irc object; 'netc' has none
API_NETS = ['neta', 'netb', 'netc', None]
API_CHANS = ['#a', '#b', 'notachannel', None]
API_VALUES = {'registry.String': ['x', 'y', 'it\'s', '', 'a b'], 'registry.Boolean': [True, False], 'registry.Integer': [0, 5, -3]}
_API_N = [0]


class _FakePlugin:
    def name(self):
        return API_PLUGIN


def run_api(ctx, inp, mo):
    """history through PluginMixin.setRegistryValue / registryValue on a fresh channel variable of the real
    conf.supybot.plugins tree.  Direct oracle: a write lands on exactly the node asked for -- afterwards every
    (network, channel) pair reads the most specific setting in force, and the saved file names exactly those nodes"""
    m = mods()
    r, conf = m.registry, m.conf
    import supybot.callbacks as callbacks
    q = inp['cls']
    fakes = [FakeIrc(n) for n in API_LIVE]
    m.world.ircs.extend(fakes)
    _API_N[0] += 1
    var = 'v%d' % _API_N[0]
    fails, outs = [], []
    plug = _FakePlugin()
    try:
        with keep_cache():
            r._cache.data.clear()
            pg = conf.registerPlugin(API_PLUGIN)
            base = conf.registerChannelValue(pg, var, cls_of(q)(default_of(q), ''))
            base.setValue(py_value(inp['init']))
            spec = {('g',): inp['init']}

            def exact(net, chan):
                return ('nc', net, chan) if net and chan else (('n', net) if net else (('c', chan) if chan else ('g',)))

            def resolve(net, chan):
                chan = chan if chan and m.ircutils.isChannel(chan) else None
                net = net if net and net.lower() in API_LIVE else None
                a = exact(net, chan)
                if a[0] == 'nc':
                    for k in (a, ('n', net), ('c', chan), ('g',)):
                        if k in spec:
                            return spec[k]
                return spec.get(a, spec[('g',)])
            for i, o in enumerate(inp['ops']):
                try:
                    if o[0] == 'wreg':
                        callbacks.PluginMixin.setRegistryValue(plug, var, py_value(o[3]), channel=o[2], network=o[1])
                        spec[exact(o[1], o[2])] = o[3]
                        outs.append(('ok', o[3]))
                    else:
                        got = canon(q, callbacks.PluginMixin.registryValue(plug, var, channel=o[2], network=o[1]))
                        outs.append(('ok', got))
                        want = resolve(o[1], o[2])
                        if got != want and not fails:
                            fails.append('op %d: registryValue(network=%r, channel=%r) = %r, the settings written say %r' % (i, o[1], o[2], got, want))
                except r.InvalidRegistryValue:
                    outs.append(('raise', 'InvalidRegistryValue'))
            # the saved file names exactly the nodes written
            take_swallowed()
            r.close(base, m.fn)
            if take_swallowed() and not fails:
                fails.append('registry.close() swallowed an exception (a line is left out)')
            names = sorted(l.split(': ', 1)[0] for l in file_lines(m.fn))
            want_names = sorted(r.join(['supybot', 'plugins', API_PLUGIN, var] + ([] if k == ('g',) else ([k[1]] if k[0] == 'c' else ([':' + k[1]] if k[0] == 'n' else [':' + k[1], k[2]]))))
                                for k in spec if k != ('g',))
            if names != want_names and not fails:
                fails.append('the saved file has the nodes %r, the nodes written are %r' % (names, want_names))
            pg.unregister(var)
    finally:
        for f in fakes:
            m.world.ircs.remove(f)
    if mo is not None:
        mm = [wire.r(x, lambda pv_: canon_model(q, pv_)) for x in mo]
        if mm != outs and ('raise', 'OtherError') not in mm:
            ctx.disagree(inp, mm, outs, 'plugin API history outcomes')
    return fails


def api_wire(inp):
    q = inp['cls']
    ops = []
    for o in inp['ops']:
        if o[0] == 'wreg':
            ops.append([0, o[1] or '', o[2] or '', to_wire_pv(o[3])])
        else:
            ops.append([1, o[1] or '', o[2] or ''])
    return [10, [wire_kind(q), to_wire_pv(canon(q, default_of(q))), to_wire_pv(inp['init']), API_LIVE, ops]]


def check_api(ctx, inp, mo):
    ctx.case('plugin-api', inp)
    fails = run_api(ctx, inp, mo)
    if fails:
        ctx.fail(inp, fails[0])


def gapi(rng):
    q = rng.choice(sorted(API_VALUES))
    cz = lambda v: canon(q, v)
    ops = []
    for _ in range(rng.randint(1, 5)):
        net, chan = rng.choice(API_NETS), rng.choice(API_CHANS)
        if rng.random() < 0.6:
            ops.append(['wreg', net, chan, cz(rng.choice(API_VALUES[q]))])
        else:
            ops.append(['rreg', net, chan])
    for net in ('neta', 'netb', 'netc', None):
        for chan in ('#a', '#b', None):
            ops.append(['rreg', net, chan])
    return {'op': 'api', 'cls': q, 'init': cz(rng.choice(API_VALUES[q])), 'ops': ops}


CORPUS_API = [
    # network+channel write seen from a second network with a channel of the same name
    {'op': 'api', 'cls': 'registry.String', 'init': [0, 'general'],
     'ops': [['wreg', 'neta', '#a', [0, 'x']], ['rreg', 'netb', '#a'], ['rreg', 'neta', '#a'], ['rreg', None, '#a'], ['rreg', None, None]]},
    # a write for a network without a live Irc object must not touch the general value
    {'op': 'api', 'cls': 'registry.Integer', 'init': [2, 1],
     'ops': [['wreg', 'netc', None, [2, 7]], ['rreg', None, None], ['rreg', 'neta', None], ['rreg', 'neta', '#a']]},
    {'op': 'api', 'cls': 'registry.Boolean', 'init': [1, False],
     'ops': [['wreg', None, '#a', [1, True]], ['wreg', 'netb', None, [1, True]], ['rreg', 'neta', '#a'], ['rreg', 'netb', '#b'], ['rreg', 'neta', '#b']]},
]



# ---------------------------------------------------------------- two probes outside the generated streams
def check_winbool(ctx, replaying=False):
    """log.BooleanRequiredFalseOnWindows (supybot.log.stdout.colorized): on Windows `True` is rejected -- after it was stored"""
    import os as _os
    m = mods()
    inp = {'op': 'winbool', 'text': 'True'}
    ctx.case('windows-only', inp)
    c = m.ext_cls.get('log.BooleanRequiredFalseOnWindows')
    if c is None:
        return
    inst = c(False, '')
    saved = _os.name
    try:
        _os.name = 'nt'
        try:
            inst.set('True')
            rejected = False
        except m.registry.InvalidRegistryValue:
            rejected = True
    finally:
        _os.name = saved
    if rejected and inst.value is not False:
        ctx.fail(inp, 'with os.name == "nt": set("True") is rejected but the value is now %r' % (inst.value,))


def check_uservalue(ctx, inp=None):
    """a user-specific value (PluginMixin.setUserValue -> userdata.conf) across a restart and an untouched save"""
    m = mods()
    r, conf = m.registry, m.conf
    if inp is None:
        for inp_ in ({'op': 'uservalue', 'id': '42', 'value': 'hello user 42'}, {'op': 'uservalue', 'id': '7', 'value': '"'},
                     {'op': 'uservalue', 'id': '1234567', 'value': 'a: b'}, {'op': 'uservalue', 'id': '0', 'value': ''}):
            check_uservalue(ctx, inp_)
        return
    ctx.case('user-value', inp)
    with keep_cache():
        r._cache.data.clear()

        def build():
            pg = conf.registerGroup(conf.users.plugins, 'VerifC15U')
            v = r.String('dflt', '')
            conf.registerUserValue(pg, 'greeting', v)
            return v
        try:
            v = build()
            v.get(inp['id']).setValue(inp['value'])          # what setUserValue does
            r.close(conf.users, m.fn)
            first = [l for l in file_lines(m.fn) if 'VerifC15U' in l]
            conf.users.plugins.unregister('VerifC15U')
            r.open_registry(m.fn, clear=True)
            build()
            r.close(conf.users, m.fn)                        # the next flush; nobody read the value
            second = [l for l in file_lines(m.fn) if 'VerifC15U' in l]
        finally:
            try:
                conf.users.plugins.unregister('VerifC15U')
            except Exception:
                pass
    if second != first:
        ctx.fail(inp, 'after a restart and a save without a read the user value is gone: saved %r, then %r' % (first, second))



# ---------------------------------------------------------------- generators
def gstr(rng, maxlen=8, alpha=None):
    alpha = alpha or (ALPHA + EXTRA)
    return ''.join(rng.choice(alpha) for _ in range(rng.randint(0, maxlen)))


def gtext_for(rng, q):
    """mostly-valid text for a class, sometimes hostile"""
    k = kind_of(q).split(':')[0]
    h = rng.random() < 0.3
    if h:
        return gstr(rng, 6)
    if k == 'boolean':
        return rng.choice(['True', 'false', ' ON ', 'off', 'enable', 'Disabled', '1', '0', 'toggle', ' Toggle', 'yes', '', 'tru', '\xa0on\u2028'])
    if k == 'integer' or q in ('conf.SocketTimeout',):
        return rng.choice(['0', '1', '-1', '42', ' 7 ', '+5', '1_000', '007', '-0', '', 'x', '1__0', '_1', '1_', '--1', '12345678901234', '0x10', '1.5', '\t3\n', '+', '-', '1 2'])
    if k in ('string', 'surround', 'spaceright', 'raw', 'oracle') or k == 'onlysome':
        pool = ['', 'abc', ' x ', 'x ', ' x', 'a b', '"', "'", '"a"', "'a'", '"a', 'a"', '""', "''", '"\\n"', '"a\\', '\\', 'x\\', 'a: b', 'a#b', '#a', '\xe9',
                '\n', ' \n', 'a\nb', '\t', ' \xe9 ', '"\\x41"', '"\\u00e9"', '"\\101"', '"\\q"', '"a" "b"', '"a", "b"', '"""a"""', "'it''s'", '"\\N{DASH}"',
                'nick', 'ni[ck]', '#chan', '#chan,key', '#a,b,c', 'a!b@c', '*!*@*', 'h:1', 'h:x', '1.2.3.4', '::1', '@!', '@a', '$text', '${text} x', '$textx',
                'plain', 'PLAIN', 'external', '[]', '<>', '(', 'default', 'Socket', 'socket', 'Foo', 'foo', 'bar', 'BAR', 'a b', 'nick%s', '%s', '"`\'', '`',
                '1.5', '-2', 'nan', 'inf', '1e400', '0.5', '{"a": 1}', '[1, 2]', 'null', '{', 'm/a/', '/a/i', 'm/(/', '/', 'http://x', 'en-US', 'h:80',
                'DEBUG', 'info', 'Critical', '10', '5', 'simple', 'nastyCharacters', 'active', 'moderate', 'off', 'newestFirst', 'asInFeed', ':) :(', 'owner -admin',
                '-owner', '$topic ($nick)', '$value', '$key could be $value', '--help', '-a', 'a--b', 'en', 'fr', 'tiny', 'x0', 'ur1',
                'conf', '/tmp/x', 'anydbm cdb', 'sqlite3', 'irc.example.org:6697', '[::1]:6667', 'host', 'exact', 'Exact nick', 'bogus']
        return rng.choice(pool)
    if k == 'spacelist':
        pool = ['a', 'b', '"', "'a'", 'a,b', '\xe9', '\\', 'x\\', '#a', '#b', '#A', 'nick', 'ni,ck', 'plain', 'bogus', '1.2.3.4', 'nick%s', 'neta', 'NetA', 'a:b', 'a#', '']
        sep = rng.choice([' ', ' ', '  ', '\t', '\n', '\xa0'])
        return rng.choice(['', ' ', '']) + sep.join(rng.choice(pool) for _ in range(rng.randint(0, 4))) + rng.choice(['', ' '])
    if k == 'commalist':
        pool = ['a', 'b c', '', ' ', '"', 'x\\', '\xe9', 'a  b', "'a'", 'Mozilla/5.0 (X11; Linux)']
        sep = rng.choice([',', ', ', ' ,', ' , ', ',,', '\t,\n'])
        return rng.choice(['', ' ']) + sep.join(rng.choice(pool) for _ in range(rng.randint(0, 4))) + rng.choice(['', ' '])
    return gstr(rng, 6)


def gvar(rng):
    if rng.random() < 0.3:
        return rng.choice(LONGVARS)       # channel / network style nodes with names of 70-200 characters
    return rng.choice(['v', 'v', 'v', 'Var', 'a:b', 'a.b', '#chan', ':net', 'x\xe9', 'a\\b', 'v\\', 'a\\:', '#x\\', 'a,b', '"', "a'", '\U0001f600'])


def gname(rng):
    return rng.choice(['a', 'supybot', 'a.b', 'a:b', '#chan', ':net', 'a\\', '\\', 'a\\.b', '\\.', '\\:', 'a\\\\', '.', ':', '', 'x\xe9y', '\n', 'a b', '\x00', '\u20ac',
                       '\U0001f600', '\\x41', 'a\\n', '..', '.\\', '\\\\.', 'N{', '\ud800'])


def gaddr(rng):
    t = rng.random()
    if t < 0.15:
        return ['g']
    if t < 0.4:
        return ['c', rng.choice(CHANS)]
    if t < 0.65:
        return ['n', rng.choice(NETS)]
    return ['nc', rng.choice(NETS), rng.choice(CHANS)]


TREE_VALUES = {'registry.String': (['abc', '', 'x y', ' s ', 'a: b', '\xe9', '\\', '"q', 'it\'s', 'a"b'], ['abc', '"x y"', "' s '", '\\', 'a"b', 'q"']),
               'registry.Boolean': ([True, False], ['True', 'off', 'toggle', 'bogus', '']),
               'registry.Integer': ([0, 5, -3], ['1', '-2', 'x', ' 7 ', '']),
               'registry.PositiveInteger': ([1, 5], ['1', '-2', '0', 'x', ' 7 ']),
               'registry.SpaceSeparatedListOfStrings': ([[], ['a'], ['a', 'b']], ['', 'a', 'a b', ' b  c ']),
               'conf.ValidPrefixChars': (['@', '', '!@'], ['@', '!', '"@"', '', "'!'"]),
               }
HOSTILE_TREE = {'registry.String': (['"', "'", '"a"', "''"], ["'\"'", '"\'"', '\'"a"\''])}


def gtree(rng, q, hostile=False):
    vals, texts = TREE_VALUES[q]
    if hostile and q in HOSTILE_TREE:
        vals = vals + HOSTILE_TREE[q][0]
        texts = texts + HOSTILE_TREE[q][1]
    cz = lambda v: canon(q, v)
    ops = []
    for _ in range(rng.randint(1, 9)):
        t = rng.random()
        if t < 0.3:
            ops.append(['set', gaddr(rng), rng.choice(texts)])
        elif t < 0.5:
            ops.append(['setvalue', gaddr(rng), cz(rng.choice(vals))])
        elif t < 0.65:
            ops.append(['reset', gaddr(rng)])
        else:
            ops.append(['get', gaddr(rng)])
    for n in NETS:
        for c in CHANS:
            ops.append(['get', ['nc', n, c]])
    ops += [['get', ['c', c]] for c in CHANS] + [['get', ['n', n]] for n in NETS] + [['get', ['g']]]
    return {'op': 'tree', 'cls': q, 'init': cz(rng.choice(vals)), 'ops': ops}


CORPUS_STR = ['"', "'", '"a"', "'a'", '""', '\\', 'x\\', 'a: b', ' x ', '\n', ' \n', '\xe9', 'a#b', '"\\', '"\\"', '"a" "b"', '\x00 ', ' \x7f', '\xa0x', 'x\xa0',
              '"\\N{DASH}"', '"\\x4"', '"\\u12"', '"\\400"', '"\\8"', '"\\\n"', '"a\rb"', '\ud800', '"\ud800"', ' \ud800', '"\\U00110000"', '"\\U0010ffff"', '\U0010ffff ']
CORPUS_TREE = [
    # three levels, all different; reset the network+channel value: it must show the NETWORK's value again
    {'op': 'tree', 'cls': 'registry.String', 'init': [0, 'general'],
     'ops': [['set', ['n', 'neta'], 'net'], ['set', ['nc', 'neta', '#a'], 'netchan'], ['reset', ['nc', 'neta', '#a']], ['get', ['nc', 'neta', '#a']],
             ['get', ['nc', 'netb', '#a']], ['get', ['c', '#a']], ['get', ['n', 'neta']], ['set', ['n', 'neta'], 'net2'], ['get', ['nc', 'neta', '#a']],
             ['set', ['g'], 'general2'], ['get', ['nc', 'neta', '#a']], ['get', ['c', '#a']], ['reset', ['n', 'neta']], ['get', ['nc', 'neta', '#a']]]},
    {'op': 'tree', 'cls': 'registry.Integer', 'init': [2, 1],
     'ops': [['set', ['n', 'neta'], '2'], ['set', ['c', '#a'], '3'], ['set', ['nc', 'neta', '#a'], '4'], ['reset', ['nc', 'neta', '#a']],
             ['get', ['nc', 'neta', '#a']], ['get', ['c', '#a']], ['get', ['nc', 'netb', '#a']]]},
    {'op': 'tree', 'cls': 'registry.String', 'init': [0, '"'], 'ops': [['get', ['c', '#a']]]},
    {'op': 'tree', 'cls': 'registry.String', 'init': [0, '"a"'], 'ops': [['get', ['nc', 'neta', '#a']], ['get', ['g']]]},
    {'op': 'tree', 'cls': 'conf.ValidPrefixChars', 'init': [0, '"'], 'ops': [['get', ['nc', 'neta', '#a']]]},
    {'op': 'tree', 'cls': 'registry.String', 'init': [0, 'x'], 'ops': [['set', ['n', 'neta'], 'y'], ['get', ['nc', 'neta', '#a']], ['setvalue', ['g'], [0, 'z']],
                                                                        ['get', ['nc', 'neta', '#a']], ['get', ['nc', 'netb', '#a']], ['reset', ['n', 'neta']], ['get', ['nc', 'neta', '#a']]]},
]
CORPUS_FILES = ['a: b\\\n  #c\\\n  d\ne: f\n', ' #x\na: b\n', 'a: b\\\n\t# c\nd: e\n', '', 'a: b\n', 'a: b', 'a:b\n', '# c\n\na: b\n', 'a: b\\\nc\n', 'a: b\\\\\nc: d\n', 'a\\: b: c\n', 'A: 1\na: 2\n', ' a : b \n', 'a: \n', 'a:  x \n', 'x\n',
                'a: \\x4\n', 'a: \\\n', 'a: b\r\nc: d\r', 'a: \\u00e9\xe9\n', 'a: b\n\\\n', ': v\n', 'a: b: c\n', '\xa0\na: 1\n', 'a: 1\n \n#\nb: 2\n', 'a: \\N{DASH}\n',
                'a\\\\: b\n', 'k: v\\', 'a: b\n\x0c\nc: d\n', 'a:\xa0b\n', 'a: "\\""\n', 'a: 1\\\n\\\n2\n']


# ---------------------------------------------------------------- run / replay
def run(ctx):
    import socket, contextlib, io
    old = socket.getdefaulttimeout()
    try:
        with contextlib.redirect_stdout(io.StringIO()):       # ircdb.DefaultCapabilities.setValue print()s a warning
            _run(ctx)
            check_winbool(ctx)
            check_uservalue(ctx)
    finally:
        socket.setdefaulttimeout(old)


def _run(ctx):
    m = mods()
    rng = ctx.rng
    # (0) witnesses of repaired defects
    for inp in CORPUS_FIXED:
        ctx.case('corpus-fixed', inp)
        if inp['op'] == 'reload':
            do_reload(ctx, inp)
        elif inp['op'] == 'names':
            check_names(ctx, inp['names'], None)
        elif inp['op'] == 'tgens':
            fails = run_tgens(ctx, inp, None)
            if fails:
                ctx.fail(inp, fails[0])
        elif inp['op'] == 'norm':
            sub = type(ctx)(ctx.pid, ctx.tier, ctx.seed, {'model_ok': False})
            check_norm(sub, inp['var'], inp['text'], None)
            for f in sub.failures:
                ctx.fail(inp, f['detail'])
        elif inp['op'] == 'gens':
            fails = run_gens(ctx, inp, None)
            if fails:
                ctx.fail(inp, fails[0])
        elif inp['op'] == 'set':
            sub = type(ctx)(ctx.pid, ctx.tier, ctx.seed, {'model_ok': False})
            check_class_text(sub, inp['cls'], inp.get('cur'), inp['text'], 'v', None)
            for f in sub.failures:
                if f['input'].get('op') == 'set':
                    ctx.fail(inp, f['detail'])
        else:
            fails = run_tree(ctx, inp, None)
            if fails:
                ctx.fail(inp, 'op %d: %s' % fails[0])
    # (1) primitives
    strs = [(s, 'prim-corpus') for s in CORPUS_STR]
    maxlen = 3 if ctx.scale == 1 else 4
    for n in range(0, maxlen + 1):
        al = ALPHA if n <= 3 else ALPHA[:9]
        for t in itertools.product(al, repeat=n):
            strs.append((''.join(t), 'prim-exhaustive-len%d' % n))
    ctx.exhaustive = True
    ctx.notes.append('strings over %r exhaustive up to length %d through encode/decode/repr/safeEval/String.set/__str__' % (''.join(ALPHA), maxlen))
    for _ in range(ctx.n(2500)):
        s = gstr(rng, 10)
        if rng.random() < 0.4 and s:
            qq = rng.choice('"\'')
            s = qq + s + qq
        strs.append((s, 'prim-generated'))
    outs = ctx.model([[2, s] for s, _ in strs])
    for (s, kind), mo in zip(strs, outs):
        check_prim(ctx, s, mo, kind)
    # (2) names
    nss = [[gname(rng) for _ in range(rng.randint(1, 4))] for _ in range(ctx.n(1500))]
    nss += [[a, b] for a in ['a', 'a\\', '\\', 'a.b', ':n', '#c\\', '\\.', ''] for b in ['b', '\\b', '.b', '#c', '']]
    nss = [ns for ns in nss if not any(0xd800 <= ord(c) <= 0xdfff for n in ns for c in n)] + [['\ud800', 'a']]
    outs = ctx.model([[0, ns] for ns in nss])
    for ns, mo in zip(nss, outs):
        check_names(ctx, ns, mo)
    texts = [gstr(rng, 8, ['.', '\\', ':', 'a', 'x', '4', '1', 'n', 'u', '0', '\xe9', 'U']) for _ in range(ctx.n(1500))]
    outs = ctx.model([[1, t] for t in texts])
    for t, mo in zip(texts, outs):
        check_split(ctx, t, mo)
    # (3) every class of the regenerated inventory
    cases = []
    for q, kind, *_ in m.inv:
        if kind == 'abstract':
            continue
        ext = q.rsplit('.', 1)[0] not in ('registry', 'conf')
        if ext and (q not in m.ext_cls or q not in m.ext_default):
            continue                      # no instance registered anywhere: nothing the bot can save (e.g. an abstract base)
        per = ctx.n(40 if ext else (60 if kind.startswith('oracle') else 110))
        for i in range(per):
            text = gtext_for(rng, q)
            cur = gtext_for(rng, q) if rng.random() < 0.25 else None
            var = gvar(rng) if rng.random() < 0.3 else 'v'
            cases.append((q, cur, text, var))
    for s in CORPUS_STR + ['"\'"', '\'"\'', '\'"a"\'', '"\'a\'"']:
        if not any(0xd800 <= ord(c) <= 0xdfff for c in s):
            cases.append(('registry.String', None, s, 'v'))
            cases.append(('registry.String', None, s, 'v\\'))
    for t in itertools.product(ALPHA[:11], repeat=2):
        cases.append(('registry.String', None, repr(''.join(t)), 'v'))
    # model batch 1: set
    wk = {}
    set_cases, idx = [], []
    pre = []
    for (q, cur, text, var) in cases:
        k = wire_kind(q)
        if k is None:
            pre.append(None); continue
        try:
            inst = fresh(q)
            if cur is not None:
                inst.set(cur)
            curv = canon(q, inst.value)
        except Exception:
            pre.append(None); continue
        if curv[0] == 9:
            pre.append(None); continue
        oks = validator_bits(q, text)
        pre.append((k, curv, oks))
        idx.append(len(pre) - 1)
        set_cases.append([3, [k, to_wire_pv(curv), oks, text]])
    souts = ctx.model(set_cases)
    smap = dict(zip(idx, souts))
    # model batch 2: reload of the accepted value (needs the implementation's accepted value and full name)
    rel_cases, ridx = [], []
    accepted = {}
    for i, (q, cur, text, var) in enumerate(cases):
        if pre[i] is None:
            continue
        try:
            inst, before, out = impl_set(q, cur, text)
        except Exception:
            continue
        if out[0] == 'ok' and out[1][0] != 9:
            k, curv, oks = pre[i]
            name = m.registry.join(['verifc15', var])
            fr = canon(q, fresh(q).value)
            # validator verdicts for the text read back = str(value) (same class, same candidate)
            try:
                oks2 = validator_bits(q, str(inst))
            except Exception:
                oks2 = [True]
            rel_cases.append([4, [k, name, to_wire_pv(fr), oks2, to_wire_pv(out[1])]])
            ridx.append(i)
    routs = ctx.model(rel_cases)
    rmap = dict(zip(ridx, routs))
    for i, (q, cur, text, var) in enumerate(cases):
        mo = (smap.get(i), rmap.get(i)) if i in smap else None
        check_class_text(ctx, q, cur, text, var, mo)
    # (4) hostile files
    files = list(CORPUS_FILES)
    for _ in range(ctx.n(1200)):
        parts = []
        for _ in range(rng.randint(1, 4)):
            t = rng.random()
            if t < 0.5:
                parts.append(rng.choice(['a', 'B', 'a.b', 'a\\:', 'x y', '#c', '']) + rng.choice([': ', ': ', ':', ' : ', ':  ']) + gstr(rng, 5, ['\\', 'x', '4', 'n', ' ', ':', '"', '\xe9', 'u', '0', '#']))
            elif t < 0.6:
                parts.append('#' + gstr(rng, 4))
            elif t < 0.65:
                parts.append(rng.choice([' ', '  ', '\t', '\xa0']) + '#' + gstr(rng, 4, ['a', ':', ' ', '\\']))
            elif t < 0.8:
                parts.append(gstr(rng, 4, [' ', '\t', '\xa0', '\\', 'a', ':']))
            else:
                parts.append(gstr(rng, 6, ['\\', 'a', ':', ' ', '\r']))
        files.append(rng.choice(['\n', '\n', '\r\n', '\\\n', '\n\n']).join(parts) + rng.choice(['', '\n']))
    outs = ctx.model([[5, t] for t in files])
    for t, mo in zip(files, outs):
        check_file(ctx, t, mo)
    # (5) trees
    trees = list(CORPUS_TREE)
    for q in TREE_VALUES:
        for i in range(ctx.n(120)):
            trees.append(gtree(rng, q, hostile=(i % 6 == 0)))
    outs = ctx.model([tree_wire(t) for t in trees])
    for t, mo in zip(trees, outs):
        check_tree(ctx, t, mo)
    # (6) generations
    gl = list(CORPUS_GENS)
    for i in range(ctx.n(150)):
        gl.append(ggen(rng, with_net_only=(i % 2 == 0)))
    outs = ctx.model([gens_wire(g) for g in gl])
    for g, mo in zip(gl, outs):
        check_gens(ctx, g, mo)
    check_real_gens(ctx, {'op': 'real_gens', 'cases': REAL_CASES, 'sessions': 3})
    # (9) the plugin API
    al = list(CORPUS_API)
    for _ in range(ctx.n(150)):
        al.append(gapi(rng))
    outs = ctx.model([api_wire(g) for g in al])
    for g, mo in zip(al, outs):
        check_api(ctx, g, mo)
    # (8) reload in the running bot, reset, timestamps
    tl = list(CORPUS_TGENS) + [WITNESS_F29]
    for i in range(ctx.n(120)):
        tl.append(gtgen(rng, allow_stale=(i % 2 == 0)))
    outs = ctx.model([tgens_wire(g) for g in tl])
    for g, mo in zip(tl, outs):
        check_tgens(ctx, g, mo)
    # (7) NormalizedString: long values wrapped over several physical lines, '#word' at every position
    nl = list(CORPUS_NORM)
    base = 'alpha beta gamma delta epsilon zeta eta theta iota kappa lambda mu nu xi omicron pi rho sigma tau upsilon phi chi psi omega'.split()
    for var in ('v', 'someLongName', 'replies.x'):
        for i in range(len(base) + 1):
            nl.append((var, ' '.join(base[:i] + ['#tok%d' % i] + base[i:])))
    for _ in range(ctx.n(150)):
        nl.append(gnorm(rng))
    wires = [norm_wire(v, t) for v, t in nl]
    outs = ctx.model([w for w in wires if w is not None])
    it = iter(outs)
    for (v, t), w in zip(nl, wires):
        check_norm(ctx, v, t, next(it) if w is not None else None)


def replay(ctx, inp):
    mods()
    sub = type(ctx)(ctx.pid, ctx.tier, ctx.seed, {'model_ok': False})
    op = inp.get('op')
    if op == 'prim':
        check_prim(sub, inp['s'], None, 'replay')
    elif op == 'names':
        check_names(sub, inp['names'], None)
    elif op == 'set':
        check_class_text(sub, inp['cls'], inp.get('cur'), inp['text'], inp.get('var', 'v'), None)
        sub.failures = [f for f in sub.failures if f['input'].get('op') == 'set']
    elif op == 'reload':
        do_reload(sub, inp)
    elif op == 'tree':
        check_tree(sub, inp, None)
    elif op == 'winbool':
        check_winbool(sub)
    elif op == 'uservalue':
        check_uservalue(sub, inp)
    elif op == 'api':
        check_api(sub, inp, None)
    elif op == 'tgens':
        check_tgens(sub, inp, None)
    elif op == 'norm':
        check_norm(sub, inp['var'], inp['text'], None)
    elif op == 'gens':
        check_gens(sub, inp, None)
    elif op == 'real_gens':
        check_real_gens(sub, inp)
    return sub.failures[0]['detail'] if sub.failures else None


def shrink(ctx, inp):
    if inp.get('op') == 'api':
        ops = shrink_seq(inp['ops'], lambda o: replay(ctx, dict(inp, ops=o)) is not None, budget=80)
        return dict(inp, ops=ops)
    if inp.get('op') == 'tgens':
        cur = inp
        for g in range(len(cur['gens']) - 1, 0, -1):
            ops = shrink_seq(cur['gens'][g], lambda o, g=g: replay(ctx, dict(cur, gens=cur['gens'][:g] + [o] + cur['gens'][g + 1:])) is not None, budget=40)
            cand = dict(cur, gens=cur['gens'][:g] + [ops] + cur['gens'][g + 1:])
            if replay(ctx, cand) is not None:
                cur = cand
        return cur
    if inp.get('op') == 'norm':
        words = shrink_seq(inp['text'].split(' '), lambda w: replay(ctx, dict(inp, text=' '.join(w))) is not None, budget=80)
        return dict(inp, text=' '.join(words))
    if inp.get('op') == 'gens':
        cur = inp
        g0 = shrink_seq(cur['gens'][0], lambda o: replay(ctx, dict(cur, gens=[o] + cur['gens'][1:], final_reads=0)) is not None, budget=60)
        if replay(ctx, dict(cur, gens=[g0] + cur['gens'][1:], final_reads=0)) is not None:
            cur = dict(cur, gens=[g0] + cur['gens'][1:], final_reads=0)
        return cur
    if inp.get('op') == 'tree':
        ops = shrink_seq(inp['ops'], lambda o: replay(ctx, dict(inp, ops=o)) is not None, budget=120)
        return dict(inp, ops=ops)
    if inp.get('op') in ('set', 'reload'):
        t = shrink_seq(inp['text'], lambda s: replay(ctx, dict(inp, text=s, **({'value': None} if False else {}))) is not None, budget=80)
        out = dict(inp, text=t)
        if inp['op'] == 'reload':
            try:
                _, _, o = impl_set(inp['cls'], inp.get('cur'), t)
                if o[0] == 'ok':
                    out['value'] = o[1]
            except Exception:
                return inp
        return out
    return inp
