"""C12 — long replies are split without losing, inventing or overflowing text."""
import os, re, signal, textwrap
import boot
from lib import wire
from lib.shrink import shrink_seq

TABLES = ['T12']
RULE = ('unit level: corpus + seeded strings (ASCII / 2-,3-,4-byte characters, mIRC bold/underline/reverse/reset/colour codes incl. colour 0, '
        'words longer than a line, tabs/newlines/multiple blanks, hyphens, Unicode digits) run through str.encode, TextWrapper._split_chunks, '
        'utils.str.byteTextWrap, ircutils.FormatParser, ircutils.wrap, ircutils.stripFormatting and through the extracted model, diffed; '
        'live level: a booted bot (Owner, Misc + a 6-line reply plugin) answers a command with the generated string under generated settings '
        '(reply.mores, mores.length/maximum/instant, Misc.mores, withNickPrefix, withNoticeWhenPrivate, bot hostmask 10..63 bytes, channel / '
        'private target, sender nick 1..30; private=/to=/notice= keywords; `more <nick>` by another user; the bot learning its hostmask from its own JOIN and being renamed by server NICK messages), then `more` is sent until exhaustion; the whole transcript taken from takeMsg() is diffed against '
        'the model transcript and the property (<=512 bytes once prefixed, visible text in order, remaining-count suffixes) is evaluated on it.  '
        'non-trivial = distinct input whose text is non-empty')
TRUSTED = ['textwrap.TextWrapper()._split_chunks enters byteTextWrap/wrap_w as an explicit word-list input (any list; the theorems only use '
           'concat words = munge s, which is checked against CPython on every case); the closed instance split_chunks (runs of blanks / '
           'non-blanks) is compared with CPython on hyphen-free text',
           'str.isdigit/int table regenerated from CPython (coq/gen/T12.v)',
           'utf8 encoder coq/C12/Model.v:utf8 compared with str.encode on every generated string']
ASSUMPTIONS = ['world.testing/log.testing off; Python asserts enabled',
               'no lone surrogates at the live level; repr() of a text with CR/LF/NUL is CPython\'s, given to the model as an input',
               'reply() is modelled for a final, non-nested reply without action/notice/private/to keywords; flood protection off',
               'model-side non-termination (size smaller than one character) is represented by Raise OtherError and compared with an '
               'interrupted implementation call']
LEVEL_TEXT = ('Coq theorems over an executable Gallina model of utils.str.byteTextWrap/splitBytes, ircutils.FormatContext/FormatParser/wrap, '
              'NestedCommandsIrcProxy.reply (incl. private=/to=/notice= keywords, _getTarget, _makeReply) and Misc.more, mirroring the repaired code: '
              'byteTextWrap terminates for size>=4, every chunk fits and the chunks concatenate to the words; the more-sequence is the chunk list in order '
              'with the remaining count; END TO END for plain text (C12_reply_plain_end_to_end): for every reply configuration (channel or query, '
              'private=/to=/notice= keywords), every mores setting in plain_dom and every non-empty text without control codes, the relayed lines are one '
              'per chunk, each within 512 bytes once prefixed and untouched by takeMsg, the chunks are non-empty contiguous pieces spelling the (munged) text, '
              'cut only at allowedLength*maximum characters; for formatted text every chunk fits and the visible text is preserved on the decidable domain '
              'safe_cuts (no chunk starts with a digit/comma), refuted outside (F14); the more-reserve holds '
              'for 1..99 pending; FormatContext.size covers start/end; parse is total.  Tied to the source by regenerated constants/shapes and a differential '
              'run at unit level and against a live bot on every check.')
LEVEL_NOTE = ('Trusted: Coq kernel, gen_tables.py, extraction + OCaml driver, the Python harness, CPython textwrap/str.encode (explicit inputs / compared). '
              'Partial: the formatted-text theorems require text whose only blanks are spaces (munge s = s) and the sufficient predicate '
              '"no chunk starts with a digit or comma"; both end-to-end theorems bound the number of chunks by 100 through a computed clause. '
              'Modelled, not verified / not modelled (gap audit): irc.error() replies are never split (finding F46, scenario only); the pending chunks are '
              'keyed by user@host on one network-wide class attribute, so users sharing a user@host -- or the same user@host on two networks -- share them '
              '(F47, scenario only; the model has one owner and one peer with distinct user@host); a change of the bot\'s own visible host (CHGHOST, 396) '
              'is not followed by irc.prefix (F48; C12_prefix_tracks assumes user and host fixed); action replies and noLengthCheck=True are not split by design and not modelled; nested replies, '
              'irc.replies(), outFilter callbacks of plugins, the +draft/reply tag (message-tags) and are outside the live model; the translated words are inputs '
              '(the four shipped locales are exercised through supybot.i18n\'s own .po parser, not through supybot.language, because a source tree '
              'does not carry the core locales where i18n looks for them); for reply.mores.length below the reserve + 4 + formatting overhead only '
              'termination and the 512-byte bound are checked: byteTextWrap then returns, but a chunk may be one character wider than asked '
              'and an empty chunk may appear before or after a character wider than the width.')
TECHNIQUE = 'Coq proof (induction over the wrap loop with a fuel/measure invariant) + regenerated tables + extracted-model differential correspondence incl. live bot'
EXPLANATION = 'C12: model of byteTextWrap/wrap/reply/more; theorems in coq/C12/Props.v'

OTHER = 'OtherError'


class Hang(Exception):
    pass


_alarms = [0]


def _alarm(signum, frame):
    _alarms[0] += 1
    raise Hang()


def guarded(f, secs, repeat=False):
    """run f() under an interval timer; ('raise', OtherError) if it does not return in time.  With repeat the
    timer fires again and again: the bot swallows the exception and may hang again in its error reply; every
    firing is counted, and the result is a failure if any happened"""
    old = signal.signal(signal.SIGALRM, _alarm)
    before = _alarms[0]
    signal.setitimer(signal.ITIMER_REAL, secs, secs if repeat else 0)
    try:
        r = f()
        if _alarms[0] != before:
            return ('raise', OTHER)
        return ('ok', r)
    except Hang:
        return ('raise', OTHER)
    except UnicodeError:
        return ('raise', 'UnicodeError')
    except Exception as e:
        return ('raise', type(e).__name__)
    finally:
        signal.setitimer(signal.ITIMER_REAL, 0)
        signal.signal(signal.SIGALRM, old)


_mods = {}


def mods():
    if not _mods:
        boot.boot()
        import supybot.ircutils as ircutils
        import supybot.utils as utils
        _mods['ircutils'], _mods['utils'] = ircutils, utils
    return _mods['ircutils'], _mods['utils']


def split_chunks(text):
    return textwrap.TextWrapper()._split_chunks(text)


def munge(text):
    return textwrap.TextWrapper()._munge_whitespace(text)


# --------------------------------------------------------------------------
# generators
LETTERS = 'abcdefghijklmnopqrstuvwxyzABCDEFGH'
MB = ['é', 'ü', '€', '中', '😀', ' ', ' ']
FMT = ['\x02', '\x1f', '\x16', '\x0f', '\x1d']


def color(rng, zero=False):
    if zero:
        return rng.choice(['\x030', '\x0300', '\x030,0', '\x035,0', '\x0300,00', '\x030,5', '\x03,0'])
    f = rng.randint(1, 15)
    k = rng.random()
    if k < 0.5:
        return '\x03%d' % f
    if k < 0.7:
        return '\x03%02d' % f
    return '\x03%d,%d' % (f, rng.randint(1, 15))


def gen_word(rng, kind, maxlen):
    n = rng.choice([1, 2, 3, 5, 8, 12]) if rng.random() < 0.8 else rng.randint(1, maxlen)
    mb = kind in ('mb', 'hostile', 'fmt', 'color0', 'junction') and rng.random() < 0.4
    out = []
    for _ in range(n):
        if mb and rng.random() < 0.3:
            out.append(rng.choice(MB))
        else:
            out.append(rng.choice(LETTERS))
    w = ''.join(out)
    if kind in ('fmt', 'color0', 'junction', 'hostile') and rng.random() < 0.3:
        code = rng.choice(FMT) if rng.random() < 0.5 else color(rng, zero=(kind == 'color0' and rng.random() < 0.5))
        w = code + w       # a letter follows the code: no digit/comma adjacency
    if kind == 'junction' and rng.random() < 0.3:
        i = rng.randrange(len(w) + 1)
        w = w[:i] + rng.choice(['\x03', '\x031', '\x0312', '\x031,1', ',5', '7', '12', ',', '\x0315,15']) + w[i:]
    if kind == 'hostile' and rng.random() < 0.4:
        i = rng.randrange(len(w) + 1)
        w = w[:i] + rng.choice(['\x03', '\x0399', '\x0316', '\x031,', '\x03,', '\x03,5', ',', '1', '0', '\x03٣', '٣', '\x03²', '\x031,²', '\x0f', '\x01',
                                '\x030', '\x03\x03', '\x02\x02', '\x031,99', '\x0307,015']) + w[i:]
    return w


def gen_text(rng, kind, nwords, maxword):
    parts = []
    for i in range(nwords):
        parts.append(gen_word(rng, kind, maxword))
        if kind in ('ws', 'hostile') and rng.random() < 0.3:
            parts.append(rng.choice(['  ', '\t', ' \t ', '\n', '\x0b', '\x0c', '   ', '\r']))
        elif kind == 'hyphen' and rng.random() < 0.5:
            parts.append(rng.choice(['-', '--', ' - ', '-a-', ' -- ']))
        else:
            parts.append(' ')
    return ''.join(parts[:-1])


# --------------------------------------------------------------------------
# class predicates of the known findings (computed from the input only)
def safe_text(t):
    """what the reply is once it is a valid IRC argument: the text itself, or repr() of it (CR, LF, NUL)"""
    return t if not any(c in t for c in '\r\n\x00') else repr(t)


def _text(inp):
    if inp.get('op') == 'live':
        return safe_text(inp['s'])      # reply() splits the safe text
    return inp.get('s', inp.get('text', ''))


def junction(inp):
    """class of the known finding F14: some chunk boundary of this reply touches a colour sequence -- a chunk ends inside
    \\x03[N[N]][,[N[N]]] and the next one starts with a digit or comma, or a chunk that starts with a digit or comma is
    re-opened after a colour prefix.  Computed with the implementation's own parser and byteTextWrap."""
    ircutils, utils = mods()
    if inp.get('op') == 'live':
        allowed = live_allowed(inp)
        set_language(inp.get('lang'))
        text, length = _text(inp)[:max(0, allowed * inp['maximum'])], allowed - more_reserve()
    else:
        text, length = inp['text'], inp['size']
    full = _text(inp)
    if len(full) > len(text) and (full[len(text)].isdecimal() or full[len(text)] == ',') \
            and re.search('\x03\\d{0,2}(,\\d{0,2})?$', text):
        return True     # the maximumLength truncation itself cuts inside a colour sequence
    p = ircutils.FormatParser(text)
    p.parse()
    r = guarded(lambda: utils.str.byteTextWrap(text, length - p.max_context_size), 5)
    if r[0] != 'ok':
        return False
    raw = r[1]
    context = None
    for i, chunk in enumerate(raw):
        if context is not None and (context.fg is not None or context.bg is not None) and chunk[:1] and chunk[0] in '0123456789,':
            return True
        if i + 1 < len(raw) and raw[i + 1][:1] and (raw[i + 1][0].isdecimal() or raw[i + 1][0] == ',') \
                and re.search('\x03\\d{0,2}(,\\d{0,2})?$', chunk):
            return True
        context = ircutils.FormatParser(context.start(chunk) if context is not None else chunk).parse()
    return False


CLASSES = {
    'color_digit_junction': lambda inp: inp.get('op') != 'scenario' and junction(inp),
    'error_reply_not_split': lambda inp: inp.get('op') == 'scenario' and inp['scenario'] == 'long_error',
    'mores_shared_by_userhost': lambda inp: inp.get('op') == 'scenario' and inp['scenario'] == 'shared_userhost',
    'own_host_change_not_followed': lambda inp: inp.get('op') == 'scenario' and inp['scenario'] == 'chghost',
}


# --------------------------------------------------------------------------
# unit level
def unit_inputs(ctx):
    rng = ctx.rng
    cases = []   # (kind, text, size)
    corpus = [('', 10), ('a', 4), ('hello world', 5), ('héllo wörld', 4), ('😀😀😀', 4), ('😀😀😀', 5), ('a\tb', 8), ('a  b   c', 3),
              ('\x030' + 'a' * 30 + ' ' + 'b' * 30, 32), ('\x02' + 'a' * 30 + ' ' + 'b' * 30, 32),
              ('\x03' + '12' * 20, 9), ('\x0312' + 'a' * 20 + ' ,5 bb', 26), ('\x031aaaa 2bbbbbb', 12), ('\x03²aaaaaaaaaaa bbbbbbbbbbb', 12),
              ('\x03٣aaaaaaaaaaa bbbbbbbbbbb', 12), ('é', 1), ('ab', 0), ('ab', -3), ('a-b-c well-known e--f', 6), ('\x031,2aa \x03bb \x0fcc', 8),
              ('x\ud800y', 10), ('\x035,0aaaa bbbb cccc', 12), ('\x03,0aaaaaa bbbbbb', 8), ('\x02\x1f\x16\x034,5aaaaaaaaaaaaaa bbbbbbbbbbbbbbbb', 24)]
    for t, n in corpus:
        cases.append(('corpus', t, n))
    for kind, base in (('plain', 500), ('mb', 500), ('ws', 300), ('fmt', 700), ('color0', 300), ('junction', 500), ('hostile', 700), ('hyphen', 200)):
        for _ in range(ctx.n(base)):
            nwords = rng.choice([1, 2, 3, 5, 8, 13])
            size = rng.choice([4, 5, 6, 8, 10, 13, 16, 20, 24, 32, 40, 64])
            if kind in ('fmt', 'color0', 'junction', 'hostile'):
                size = rng.choice([16, 18, 20, 24, 27, 32, 40, 64])
            if rng.random() < 0.08:
                size = rng.randint(-3, 3)
            cases.append((kind, gen_text(rng, kind, nwords, 2 * max(size, 4) + 3), size))
    return cases


def ctx_tuple(c):
    return [wire.opt(c.fg), wire.opt(c.bg), int(c.bold), int(c.reverse), int(c.underline)]


def unit_oracle(ctx, inp, text, size, impl_btw, impl_wrap, ircutils):
    """the property clauses that make sense below the reply level"""
    if impl_btw[0] == 'ok':
        chunks = impl_btw[1]
        if size >= 4 and any(len(c.encode()) > size for c in chunks):
            ctx.fail(inp, 'byteTextWrap chunk over %d bytes: %r' % (size, [len(c.encode()) for c in chunks]))
        if ''.join(chunks) != munge(text):       # for every width, also below one character
            ctx.fail(inp, 'byteTextWrap lost/invented text: %r' % chunks)
    elif impl_btw != ('raise', 'UnicodeError'):
        ctx.fail(inp, 'byteTextWrap(text, %d) did not return: %r' % (size, impl_btw))
    if impl_wrap[0] == 'ok':
        chunks = impl_wrap[1]
        over = [len(c.encode()) for c in chunks if len(c.encode()) > size]
        if over and size >= 16:
            ctx.fail(inp, 'wrap(s, %d) chunk of %r bytes' % (size, over))
        vis = ''.join(ircutils.stripFormatting(c) for c in chunks)      # each chunk is a message of its own
        if vis != ircutils.stripFormatting(munge(text)) and size >= 16:
            ctx.fail(inp, 'wrap changed the visible text: %r vs %r' % (vis, ircutils.stripFormatting(munge(text))))
    elif impl_wrap[1] != 'UnicodeError':
        ctx.fail(inp, 'wrap(s, %d) did not return: %s' % (size, impl_wrap[1]))


def run_unit(ctx, cases, ircutils, utils):
    texts = [t for _, t, _ in cases]
    words = [split_chunks(t) for t in texts]
    enc_ok = []
    for t in texts:
        try:
            t.encode()
            enc_ok.append(True)
        except UnicodeError:
            enc_ok.append(False)
    m0 = ctx.model([[0, t] for t in texts])
    m1 = ctx.model([[1, t] for t in texts])
    m2 = ctx.model([[2, [w, n]] for (_, t, n), w in zip(cases, words)])
    m3 = ctx.model([[3, [w, t, n]] for (_, t, n), w in zip(cases, words)])
    m4 = ctx.model([[4, t] for t in texts])
    m6 = ctx.model([[6, t] for t in texts])
    m7 = ctx.model([[7, [t, n]] for (_, t, n) in cases])
    hangs = 0
    for idx, (kind, text, size) in enumerate(cases):
        inp = {'op': 'unit', 'text': text, 'size': size}
        ctx.case('unit-' + kind, inp, nontrivial=bool(text))
        w = words[idx]
        # contract of the word splitter on every text
        if ''.join(w) != munge(text) or any((' ' in c) and c.strip(' ') for c in w):
            ctx.disagree(inp, 'contract', w, '_split_chunks contract (concat = munge, no mixed chunk)')
        if m0[idx] is None:
            continue
        # utf8
        if enc_ok[idx]:
            b = list(text.encode())
            if m0[idx][0] != b or m0[idx][1] != len(b) or m0[idx][2] != 0:
                ctx.disagree(inp, m0[idx], b, 'utf8')
        elif m0[idx][2] != 1:
            ctx.disagree(inp, m0[idx], 'UnicodeEncodeError', 'utf8 surrogate')
        # munge / splitter
        if wire.s(m1[idx][0]) != munge(text):
            ctx.disagree(inp, wire.s(m1[idx][0]), munge(text), '_munge_whitespace')
        if '-' not in text and wire.ls(m1[idx][1]) != w:
            ctx.disagree(inp, wire.ls(m1[idx][1]), w, '_split_chunks (hyphen-free)')
        # byteTextWrap
        mb = wire.r(m2[idx], wire.ls)
        mw = wire.r(m3[idx], wire.ls)
        predicted_hang = mb == ('raise', OTHER) or mw == ('raise', OTHER)
        if hangs >= 6 and size < 16:
            # the implementation already failed to return several times on narrow widths: enough witnesses
            ctx.dist['unit-hang-skipped'] += 1
            continue
        if predicted_hang and hangs >= 40:
            ctx.dist['unit-hang-skipped'] += 1
            continue
        tmo = 0.15 if predicted_hang else (0.4 if size < 16 else 3)
        ib = guarded(lambda: utils.str.byteTextWrap(text, size), tmo)
        hangs += ib == ('raise', OTHER)
        if ib != mb:
            ctx.disagree(inp, mb, ib, 'byteTextWrap')
        # FormatParser
        def parse():
            p = ircutils.FormatParser(text)
            c = p.parse()
            return [ctx_tuple(c), p.max_context_size]
        ip = guarded(parse, 10)
        mp = wire.r(m4[idx])
        if ip != mp:
            ctx.disagree(inp, mp, ip, 'FormatParser.parse')
        # wrap
        iw = guarded(lambda: ircutils.wrap(text, size), tmo)
        if iw != mw:
            ctx.disagree(inp, mw, iw, 'ircutils.wrap')
        if '-' not in text and wire.r(m7[idx], wire.ls) != iw:
            ctx.disagree(inp, wire.r(m7[idx], wire.ls), iw, 'ircutils.wrap (model splitter)')
        # stripFormatting
        if enc_ok[idx] and wire.s(m6[idx]) != ircutils.stripFormatting(text):
            ctx.disagree(inp, wire.s(m6[idx]), ircutils.stripFormatting(text), 'stripFormatting')
        unit_oracle(ctx, inp, text, size, ib, iw, ircutils)


# --------------------------------------------------------------------------
# live bot
_bot = {}
NO_MORE = "That's all, there is no more."
ERR = 'An error has occurred'
NO_CMD = "You haven't asked me a command" 


def bot():
    if _bot:
        return _bot
    boot.boot()
    import supybot.conf as conf, supybot.irclib as irclib, supybot.ircmsgs as ircmsgs, supybot.plugin as plugin
    import supybot.callbacks as callbacks

    class Emit(callbacks.Plugin):
        """replies with the string handed over by the harness"""
        payload = 'x'
        kw = {}

        def emit(self, irc, msg, args):
            irc.reply(Emit.payload, **Emit.kw)
    Emit.__module__ = 'Emit'
    conf.supybot.abuse.flood.command.setValue(False)
    conf.supybot.abuse.flood.command.invalid.setValue(False)
    irc = irclib.Irc('test')
    while irc.takeMsg():
        pass
    for name in ('Owner', 'Misc'):
        plugin.loadPluginClass(irc, plugin.loadPluginModule(name))
    irc.addCallback(Emit(irc))
    _bot.update(irc=irc, conf=conf, ircmsgs=ircmsgs, Emit=Emit, n=0)
    return _bot


def drain(irc):
    out = []
    while True:
        m = irc.takeMsg()
        if m is None:
            # (takeMsg is firewalled: an exception inside it also gives None, with messages still queued)
            if irc.fastqueue or irc.queue:
                continue
            return out
        if m.command in ('PRIVMSG', 'NOTICE'):
            out.append(str(m))


LOCALES = ('fr', 'fi', 'de', 'it')


def set_language(lang):
    """what an installed bot with supybot.language = lang has: the core translations of locales/<lang>.po, read by
    supybot.i18n's own parser (from a source tree the core .po files are not on the path i18n looks at)"""
    import supybot.callbacks as callbacks
    callbacks._.translations = {}
    if lang and lang != 'en':
        with open(os.path.join(boot.REPO, 'locales', '%s.po' % lang), encoding='utf8') as f:
            callbacks._._parse(f)


def more_words():
    import supybot.callbacks as callbacks
    return str(callbacks._('more message')), str(callbacks._('more messages'))


def more_reserve():
    return max(len(('(XX %s)' % w).encode()) for w in more_words()) + 3


def live_allowed(inp):
    if inp['length']:
        return inp['length']
    bl = lambda x: len(x.encode())
    return 512 - 14 - bl(inp['botprefix']) - bl(reserve_recipient(inp)) - ((bl(inp.get('kwTo') or inp['nick']) + 2) if inp['prefixNick'] else 0)


def reserve_recipient(inp):
    """the recipient reply() reserves room for: it asks _makeReply (repair of F43)"""
    return reply_env(inp)[0]


def reply_env(inp):
    """what _makeReply() really does: (target, nick prefix, command)"""
    irc = bot()['irc']
    public = not inp['private']
    to = inp.get('kwTo')
    to_pub = bool(to) and irc.isChannel(to)
    priv = inp.get('kwPrivate', False) or inp.get('confInPrivate', False)
    t0 = inp['chan'] if public else inp['nick']
    t1 = (to if to_pub else t0) if to else t0
    target = (to or inp['nick']) if priv else t1
    tpub = to_pub if priv else ((to_pub or public) if to else public)
    pref = ((to or inp['nick']) + ': ') if (inp['prefixNick'] and not priv and tpub and not to_pub) else ''
    notice = inp.get('kwNotice', False) or inp.get('confWithNotice', False) or (not tpub and inp['noticePriv'])
    return target, pref, 'NOTICE' if notice else 'PRIVMSG'


def live_run(inp, max_rounds=400):
    """returns (public?, transcript: list of rounds, each a list of str(msg)); with inp['ops'] (a string over
    A = the owner's `more`, N = another user's `more <owner's nick>`, B = that user's `more`) the rounds are
    [first] + one per op + the owner's `more` until exhaustion, and inp['_ops'] is set to the ops really run"""
    b = bot()
    alarms0 = _alarms[0]
    irc, conf, ircmsgs = b['irc'], b['conf'], b['ircmsgs']
    b['n'] += 1
    import supybot.callbacks as callbacks
    callbacks.NestedCommandsIrcProxy._mores.clear()
    botnick = inp['botprefix'].split('!')[0]
    if inp.get('rename'):
        # the bot learns its hostmask from its own JOIN and is renamed by the server: irc.prefix is whatever
        # Irc.feedMsg / Irc.doNick make of it; inp['botprefix'] is the hostmask the SERVER prepends afterwards
        nicks, userhost = inp['rename'], inp['botprefix'].split('!', 1)[1]
        assert nicks[-1] == botnick
        irc.nick = nicks[0]
        irc.prefix = '%s!%s@%s' % (nicks[0], 'limnoria', 'unset.domain')     # as Irc.reset() leaves it
        irc.feedMsg(ircmsgs.IrcMsg(':%s!%s JOIN %s' % (nicks[0], userhost, inp['chan'])))
        for cur, new in zip(nicks, nicks[1:]):
            irc.feedMsg(ircmsgs.IrcMsg(':%s!%s NICK %s' % (cur, userhost, new)))
        drain(irc)
        inp['_ident'] = [irc.nick, irc.prefix]
    else:
        irc.prefix = inp['botprefix']
        irc.nick = botnick
    r = conf.supybot.reply
    r.mores.setValue(inp['mores'])
    r.mores.length.setValue(inp['length'])
    r.mores.maximum.setValue(inp['maximum'])
    r.mores.instant.setValue(inp['instant'])
    r.withNickPrefix.setValue(inp['prefixNick'])
    r.withNoticeWhenPrivate.setValue(inp['noticePriv'])
    r.inPrivate.setValue(inp.get('confInPrivate', False))
    r.withNotice.setValue(inp.get('confWithNotice', False))
    kw = {}
    if inp.get('kwPrivate'):
        kw['private'] = True
    if inp.get('kwTo'):
        kw['to'] = inp['kwTo']
    if inp.get('kwNotice'):
        kw['notice'] = True
    b['Emit'].kw = kw
    conf.supybot.plugins.Misc.mores.setValue(inp['number'])
    set_language(inp.get('lang'))
    frm = '%s!u%d@h.example' % (inp['nick'], b['n'])
    to = botnick if inp['private'] else inp['chan']
    public = irc.isChannel(to)
    b['Emit'].payload = inp['s']
    drain(irc)
    rounds = []
    irc.feedMsg(ircmsgs.privmsg(to, '@emit', prefix=frm))
    rounds.append(drain(irc))
    if _alarms[0] != alarms0:
        raise Hang()
    peer = 'zed!p%d@peer.example' % b['n']
    ops = list(inp.get('ops', ''))
    errors = (NO_MORE, NO_CMD, "Sorry, I can't find any mores", 'has no public mores')
    for op in ops:
        if op == 'A':
            irc.feedMsg(ircmsgs.privmsg(to, '@more', prefix=frm))
        elif op == 'N':
            irc.feedMsg(ircmsgs.privmsg(to, '@more %s' % inp['nick'], prefix=peer))
        else:
            irc.feedMsg(ircmsgs.privmsg(to, '@more', prefix=peer))
        out = drain(irc)
        if _alarms[0] != alarms0:
            raise Hang()        # the watchdog fired inside the bot (and was swallowed there): give up
        rounds.append([] if len(out) == 1 and any(e in out[0] for e in errors) else out)
    for _ in range(max_rounds):
        irc.feedMsg(ircmsgs.privmsg(to, '@more', prefix=frm))
        out = drain(irc)
        if _alarms[0] != alarms0:
            raise Hang()        # the watchdog fired inside the bot (and was swallowed there): give up
        ops.append('A')
        if len(out) == 1 and (NO_MORE in out[0] or NO_CMD in out[0]):
            rounds.append([])
            break
        rounds.append(out)
    if 'ops' in inp:
        inp['_ops'] = ''.join(ops)
    return public, rounds


def live_wire(inp, public, times):
    botnick = inp['botprefix'].split('!')[0]
    cfg = [inp['botprefix'], botnick if inp['private'] else inp['chan'], inp['nick'], public, inp['prefixNick'],
           inp['noticePriv'], inp['mores'], inp['length'], inp['maximum'], inp['instant'],
           inp.get('kwPrivate', False), inp.get('confInPrivate', False), wire.opt(inp.get('kwTo')),
           bool(inp.get('kwTo')) and bot()['irc'].isChannel(inp['kwTo']), inp.get('kwNotice', False),
           inp.get('confWithNotice', False)] + list(more_words())
    if 'ops' in inp:
        return [8, [cfg, inp['s'], inp['number'], ['ANB'.index(o) for o in inp['_ops']], repr(inp['s'])]]
    return [5, [cfg, inp['s'], inp['number'], times, repr(inp['s'])]]


class _Suffix(object):
    """' \\x02(N <more message(s)>)\\x02' at the end, in the bot's current language; group(2) is the word used"""
    def search(self, text):
        one, many = more_words()
        return re.search(' \x02\\((\\d+) (%s|%s)\\)\x02$' % (re.escape(many), re.escape(one)), text)


SUFFIX = _Suffix()


def dews(s):
    return re.sub(r'[\t\n\x0b\x0c\r \x01]+', '', s)       # \x01 is stripped on purpose by _makeReply (stripCtcp)


def live_oracle(ctx, inp, public, rounds, ircutils):
    """the property text on the transcript"""
    if not inp['mores']:
        return      # splitting switched off by the administrator: nothing to check
    if inp['length'] and inp['length'] > live_allowed(dict(inp, length=0)):
        return      # a configured chunk length larger than what a line can carry: the administrator's choice
    msgs = [m for r in rounds for m in r]
    text = safe_text(inp['s'])      # the reply as sent: the text, or repr() of it when it is not a valid IRC argument
    if msgs and ERR in msgs[0] and ERR not in inp['s']:
        ctx.fail(inp, 'the reply was lost: %r' % msgs[0][:120])
        return
    if any(len(r) == 0 for r in rounds[:-1]) or not msgs:
        ctx.fail(inp, 'empty round before exhaustion / no reply')
        return
    head = ':' + inp['botprefix'] + ' '
    over = [len((head + m).encode()) for m in msgs if len((head + m).encode()) > 512]
    if over:
        ctx.fail(inp, 'relayed line of %r bytes (> 512)' % over)
    if 0 < inp['length'] < more_reserve() + 4 + 16:
        return      # a chunk length below reserve + 4 + formatting overhead: only that the bot answers within 512 bytes
    target, pref, _cmd = reply_env(inp)
    texts = []
    for i, m in enumerate(msgs):
        mo = re.match(r'(PRIVMSG|NOTICE) (\S+) :(.*)\r\n$', m, re.S)
        if not mo or mo.group(2) != target:
            ctx.fail(inp, 'unexpected message %r' % m[:80])
            return
        p = mo.group(3)
        if pref:
            if not p.startswith(pref):
                ctx.fail(inp, 'nick prefix missing in %r' % p[:40])
                return
            p = p[len(pref):]
        remaining = len(msgs) - 1 - i
        sm = SUFFIX.search(p)
        if remaining == 0:
            if sm and not SUFFIX.search(text):
                ctx.fail(inp, 'last message announces %s more' % sm.group(1))
        else:
            if not sm or int(sm.group(1)) != remaining or sm.group(2) != more_words()[remaining != 1]:
                ctx.fail(inp, 'message %d: suffix %r but %d remain' % (i, sm.group(0) if sm else None, remaining))
                return
            p = p[:sm.start()]
        texts.append(p)
    want = ircutils.stripFormatting(munge(text)).strip('\x01')
    got = [ircutils.stripFormatting(t) for t in texts]
    g, w = dews(''.join(got)), dews(want)
    if len(msgs) >= inp['maximum']:     # the configured maximum number of chunks was reached: truncation allowed
        ok = w.startswith(g)
    else:
        ok = (g == w)
    if not ok:
        k = next((j for j in range(min(len(g), len(w))) if g[j] != w[j]), min(len(g), len(w)))
        ctx.fail(inp, 'visible text differs at %d: got ..%r, want ..%r (%d vs %d chars, %d msgs)' % (k, g[max(0, k - 10):k + 15], w[max(0, k - 10):k + 15], len(g), len(w), len(msgs)))
    elif len(msgs) > 1 and any(t.strip() and t.strip() not in ircutils.stripFormatting(munge(text)) for t in got):
        ctx.fail(inp, 'a chunk is not a verbatim piece of the reply')


def gen_live(rng, kind):
    host = 'h' * rng.choice([1, 5, 20, 40, 50]) + '.ex'
    user = rng.choice(['u', 'user', 'limnoria1'])
    botnick = rng.choice(['test', 'b', 'LongBotNick12345'])
    botprefix = '%s!%s@%s' % (botnick, user, host)
    if len(botprefix) > 63 + len(botnick) + len(user) + 2:
        botprefix = botprefix[:90]
    nick = rng.choice(['a', 'alice', 'N' * 16, 'x' * 30, 'bob'])
    chan = rng.choice(['#c', '#chan', '#' + 'c' * 30, '&local', '#a.b'])
    inp = {'op': 'live', 'kind': kind, 'botprefix': botprefix, 'nick': nick, 'chan': chan,
           'private': rng.random() < 0.2, 'prefixNick': rng.random() < 0.7, 'noticePriv': rng.random() < 0.7,
           'mores': True, 'length': 0, 'maximum': 50, 'instant': 1, 'number': 1}
    k = rng.random()
    if k < 0.25:
        inp['length'] = rng.choice([80, 100, 150, 200, 300, 350])
        if inp['length'] > live_allowed(inp) and rng.random() < 0.8:
            inp['length'] = 100
    if rng.random() < 0.3:
        inp['maximum'] = rng.choice([1, 2, 3, 5, 10, 12, 100])
    if rng.random() < 0.3:
        inp['instant'] = rng.choice([2, 3, 5, 20])
    if rng.random() < 0.3:
        inp['number'] = rng.choice([2, 3, 7])
    if rng.random() < 0.04:
        inp['mores'] = False
    if kind == 'keywords':
        # private= / to= / notice= replies, mostly given in a channel, by senders with nicks of 1..30
        # characters, channel names of 2..30
        inp['nick'] = 'n' * rng.choice([1, 2, 5, 9, 16, 22, 30])
        inp['chan'] = '#' + 'c' * rng.choice([1, 2, 4, 8, 15, 29])
        inp['private'] = rng.random() < 0.15
        k2 = rng.random()
        if k2 < 0.45:
            inp['kwPrivate'] = True
            if rng.random() < 0.4:
                inp['kwTo'] = 'z' * rng.choice([1, 3, 9, 20, 30])
        elif k2 < 0.7:
            inp['kwTo'] = rng.choice(['z' * rng.choice([1, 3, 9, 20, 30]), '#' + 'o' * rng.choice([1, 5, 12, 29])])
        elif k2 < 0.8:
            inp['confInPrivate'] = True
        if rng.random() < 0.3:
            inp['kwNotice'] = True
        if rng.random() < 0.1:
            inp['confWithNotice'] = True
        if rng.random() < 0.75:
            inp['prefixNick'] = True
        if inp['length'] > live_allowed(dict(inp, length=0)):
            inp['length'] = 0
    allowed = live_allowed(inp)
    if kind == 'nonascii':
        inp['chan'] = rng.choice(['#é', '#日本語チャンネル', '#' + 'ü' * 20])
        tk = 'plain'
    elif kind == 'privnick':
        inp.update(private=True, prefixNick=False, nick='x' * 30, botprefix='b!' + botprefix.split('!')[1])
        tk = 'plain'
    else:
        tk = kind
    nchunks = rng.choice([1, 1, 2, 2, 3, 4, 6, 9]) if kind != 'many' else rng.choice([10, 11, 12, 15, 25, 55])
    if kind == 'many':
        tk = rng.choice(['plain', 'mb'])
    if kind == 'keywords':
        tk = rng.choice(['plain', 'plain', 'mb'])
        nchunks = rng.choice([2, 3, 4])
    if kind == 'tiny':
        # an owner set supybot.reply.mores.length to something smaller than the suffix reserve, or than a character
        inp.update(mores=True, length=rng.choice([1, 2, 5, 10, 20, 21, 22, 23, 24, 25, 26, 30, 40]), instant=1, number=rng.choice([1, 1, 5]))
        tk = rng.choice(['plain', 'mb', 'fmt'])
        nchunks = 1
    if kind == 'unsafe':
        # texts that are not valid IRC arguments (NUL, CR, LF): reply() sends repr() of them, which is longer
        inp.update(mores=True, length=0)
        tk = rng.choice(['plain', 'mb', 'fmt', 'hostile'])
        nchunks = rng.choice([1, 1, 2, 3, 4])
    if kind == 'locale':
        # an installed bot speaking French / Finnish / German / Italian: translated '(N more messages)'
        inp.update(lang=rng.choice(LOCALES), mores=True, length=0)
        tk = rng.choice(['plain', 'mb'])
        nchunks = rng.choice([3, 4, 11, 12])
    if kind == 'rename':
        # the server renames the bot (longer / shorter nick) after it learnt its hostmask from its own JOIN
        inp.update(private=rng.random() < 0.15, mores=True, length=0)
        nicks = ['b' * rng.choice([1, 4, 9])]
        for _ in range(rng.choice([1, 1, 2])):
            nicks.append(rng.choice(['B', 'Bot', 'Limnoria_', 'R' * 16, 'Z' * 30])[:rng.choice([1, 3, 9, 16, 30])] + str(len(nicks)))
        inp['rename'] = nicks
        inp['botprefix'] = nicks[-1] + '!' + inp['botprefix'].split('!', 1)[1]
        tk = rng.choice(['plain', 'mb'])
        nchunks = rng.choice([2, 3, 4])
    if kind == 'nickmore':
        # another user looks at the owner's pending chunks with `more <nick>`, interleaved with her own `more`
        inp.update(private=False, mores=True)
        inp['ops'] = ''.join(rng.choice('AANNB') for _ in range(rng.choice([2, 3, 5, 8])))
        tk = rng.choice(['plain', 'mb', 'fmt'])
        nchunks = rng.choice([3, 4, 6, 9])
    target_bytes = int(allowed * nchunks * rng.uniform(0.5, 1.0)) if kind != 'tiny' else rng.choice([30, 60, 120])
    maxword = rng.choice([12, 12, 12, 40, allowed + 50, 3 * allowed])
    if tk == 'junction' or kind in ('rename', 'locale'):
        maxword = rng.choice([allowed + 50, 2 * allowed])
    words, total = [], 0
    while total < target_bytes:
        w = gen_word(rng, tk, maxword)
        words.append(w)
        total += len(w.encode()) + 1
    sep = ' '
    s = sep.join(words)
    if tk == 'ws':
        s = re.sub(' ', lambda m: rng.choice([' ', ' ', '  ', '\t', '   ']), s)
    if kind == 'unsafe':
        for _ in range(rng.choice([1, 2, 5, 12])):
            i = rng.randrange(len(s) + 1)
            s = s[:i] + rng.choice(['\x00', '\x00', '\x00\x02', '\r', '\n', '\x00\\', "\x00'", '\x00"']) + s[i:]
    inp['s'] = s
    return inp


# witnesses of the repaired defects C12.F40, F42, F41, F13, F12 (must stay green), then F14's
SCENARIOS = [{'op': 'scenario', 'scenario': 'long_error', 's': 'EEEEEEEEEEEEEEEEEEEEEEEEEEEEEEEEEEEEEEEEEEEEEEEEEEEEEEEEEEEEEEEEEEEEEEEEEEEEEEEEEEEEEEEEEEEEEEEEEEEEEEEEEEEEEEEEEEEEEEEEEEEEEEEEEEEEEEEEEEEEEEEEEEEEEEEEEEEEEEEEEEEEEEEEEEEEEEEEEEEEEEEEEEEEEEEEEEEEEEEEEEEEEEEEEEEEEEEEEEEEEEEEEEEEEEEEEEEEEEEEEEEEEEEEEEEEEEEEEEEEEEEEEEEEEEEEEEEEEEEEEEEEEEEEEEEEEEEEEEEEEEEEEEEEEEEEEEEEEEEEEEEEEEEEEEEEEEEEEEEEEEEEEEEEEEEEEEEEEEEEEEEEEEEEEEEEEEEEEEEEEEEEEEEEEEEEEEEEEEEEEEEEEEEEEEEEEEEEEEEEEEEEEEEEEEEEEEEEEEEEEEEEEEEEEEEEEEEEEEEEEEEEEEEEEEEEEEEEEEEEEEEEEEEEEEEEEEEEEEEEEEEEEEEEEEEEEEEEEEEEEEEEEEEEEEEEEEEEEEEEEEEEEEEEEEEEEEEEEEEEEEEEEEEEEEEEEEEEEEEEEEEEEEEEEEEEEEEEEEEEEEEEEEEEEEEEEEEEEEEEEEEEEEEEEEEEEEEEEEEEEEEEEEEEEEEEEEEEEEEEEEEEEEEEEEEEEEEEEEEEEEEEEEEEEEEEEEEEEEEEEEEEEEEEEEEEEEEEEEEEEEEEEEEEEEEEEEEEEEEEEEEEEEEEEEEEEEEEEEEEEEEEEEEEEEEEEEEEEEEEEEEEEEEEEEEEEEEEEEEEEEEEEEEEEEEEEEEEEEEEEEEEEEEEEEEEEEEEEEEEEEEEEEEEEEEEEEEEEEEEEEEEEEEEEEEEEEEEEEEEEEEEEEEEEEEEEEEEEEEE'}, {'op': 'scenario', 'scenario': 'shared_userhost', 's': 'AAAAAAAAAAAAAAAAAAAAAAAAAAAAAAAAAAAAAAAAAAAAAAAAAAAAAAAAAAAAAAAAAAAAAAAAAAAAAAAAAAAAAAAAAAAAAAAAAAAAAAAAAAAAAAAAAAAAAAAAAAAAAAAAAAAAAAAAAAAAAAAAAAAAAAAAAAAAAAAAAAAAAAAAAAAAAAAAAAAAAAAAAAAAAAAAAAAAAAAAAAAAAAAAAAAAAAAAAAAAAAAAAAAAAAAAAAAAAAAAAAAAAAAAAAAAAAAAAAAAAAAAAAAAAAAAAAAAAAAAAAAAAAAAAAAAAAAAAAAAAAAAAAAAAAAAAAAAAAAAAAAAAAAAAAAAAAAAAAAAAAAAAAAAAAAAAAAAAAAAAAAAAAAAAAAAAAAAAAAAAAAAAAAAAAAAAAAAAAAAAAAAAAAAAAAAAAAAAAAAAAAAAAAAAAAAAAAAAAAAAAAAAAAAAAAAAAAAAAAAAAAAAAAAAAAAAAAAAAAAAAAAAAAAAAAAAAAAAAAAAAAAAAAAAAAAAAAAAAAAAAAAAAAAAAAAAAAAAAAAAAAAAAAAAAAAAAAAAAAAAAAAAAAAAAAAAAAAAAAAAAAAAAAAAAAAAAAAAAAAAAAAAAAAAAAAAAAAAAAAAAAAAAAAAAAAAAAAAAAAAAAAAAAAAAAAAAAAAAAAAAAAAAAAAAAAAAAAAAAAAAAAAAAAAAAAAAAAAAAAAAAAAAAAAAAAAAAAAAAAAAAAAAAAAAAAAAAAAAAAAAAAAAAAAAAAAAAAAAAAAAAAAAAAAAAAAAAAAAAAAAAAAAAAAAAAAAAAAAAAAAAAAAAAAAAAAAAAAAAAAAAAAAAAAAAAAAAAAAAAAAAAAAAAAAAAAAAAAAAAAAAAAAAAAAAAAAAAAAAAAAAAAAAAAAAAAAAAAAAAAAAAAAAAAAAAAAAAAAAAAAAAAAAAAAAAAAAAAAAAAAAAAAAAAAAAAAAAAAAAAAAAAAAAAAAAAAAAAAAAAAAAAAAAAAAAAAAAAAAAAAAAAAAAAAAAAAAAAAAAAAAAAAAAAAAAAAAAAAAAAAAAAAAAAAAAAAAAAAAAAAAAAAAAAAAAAAAAAAAAAAAAAAAAAAAAAAAAAAAAAAAAAAAAAAAAAAAAAAAAAAAAAAAAAAAAAAAAAAAAAAAAAAAAAAAAAAAAAAAAAAAAAAAAAAAAAAAAAAAAAAAAAAAAAAAAAAAAAAAA', 'other': 'BBBBBBBBBBBBBBBBBBBBBBBBBBBBBBBBBBBBBBBBBBBBBBBBBBBBBBBBBBBBBBBBBBBBBBBBBBBBBBBBBBBBBBBBBBBBBBBBBBBBBBBBBBBBBBBBBBBBBBBBBBBBBBBBBBBBBBBBBBBBBBBBBBBBBBBBBBBBBBBBBBBBBBBBBBBBBBBBBBBBBBBBBBBBBBBBBBBBBBBBBBBBBBBBBBBBBBBBBBBBBBBBBBBBBBBBBBBBBBBBBBBBBBBBBBBBBBBBBBBBBBBBBBBBBBBBBBBBBBBBBBBBBBBBBBBBBBBBBBBBBBBBBBBBBBBBBBBBBBBBBBBBBBBBBBBBBBBBBBBBBBBBBBBBBBBBBBBBBBBBBBBBBBBBBBBBBBBBBBBBBBBBBBBBBBBBBBBBBBBBBBBBBBBBBBBBBBBBBBBBBBBBBBBBBBBBBBBBBBBBBBBBBBBBBBBBBBBBBBBBBBBBBBBBBBBBBBBBBBBBBBBBBBBBBBBBBBBBBBBBBBBBBBBBBBBBBBBBBBBBBBBBBBBBBBBBBBBBBBBBBBBBBBBBBBBBBBBBBBBBBBBBBBBBBBBBBBBBBBBBBBBBBBBBBBBBBBBBBBBBBBBBBBBBBBBBBBBBBBBBBBBBBBBBBBBBBBBBBBBBBBBBBBBBBBBBBBBBBBBBBBBBBBBBBBBBBBBBBBBBBBBBBBBBBBBBBBBBBBBBBBBBBBBBBBBBBBBBBBBBBBBBBBBBBBBBBBBBBBBBBBBBBBBBBBBBBBBBBBBBBBBBBBBBBBBBBBBBBBBBBBBBBBBBBBBBBBBBBBBBBBBBBBBBBBBBBBBBBBBBBBBBBBBBBBBBBBBBBBBBBBBBBBBBBBBBBBBBBBBBBBBBBBBBBBBBBBBBBBBBBBBBBBBBBBBBBBBBBBBBBBBBBBBBBBBBBBBBBBBBBBBBBBBBBBBBBBBBBBBBBBBBBBBBBBBBBBBBBBBBBBBBBBBBBBBBBBBBBBBBBBBBBBBBBBBBBBBBBBBBBBBBBBBBBBBBBBBBBBBBBBBBBBBBBBBBBBBBBBBBBBBBBBBBBBBBBBBBBBBBBBBBBBBBBBBBBBBBBBBBBBBBBBBBBBBBBBBBBBBBBBBBBBBBBBBBBBBBBBBBBBBBBBBBBBBBBBBBBBBBBBBBBBBBBBBBBBBBBBBBBBBBBBBBBBBBBBBBBBBBBBBBBBBBBBBBBBBBBBBB'}, {'op': 'scenario', 'scenario': 'chghost', 'how': 'chghost', 'host': 'a.very.long.cloak.example.org/bot/limnoria', 's': 'yyyyyyyyyyyyyyyyyyyyyyyyyyyyyyyyyyyyyyyyyyyyyyyyyyyyyyyyyyyyyyyyyyyyyyyyyyyyyyyyyyyyyyyyyyyyyyyyyyyyyyyyyyyyyyyyyyyyyyyyyyyyyyyyyyyyyyyyyyyyyyyyyyyyyyyyyyyyyyyyyyyyyyyyyyyyyyyyyyyyyyyyyyyyyyyyyyyyyyyyyyyyyyyyyyyyyyyyyyyyyyyyyyyyyyyyyyyyyyyyyyyyyyyyyyyyyyyyyyyyyyyyyyyyyyyyyyyyyyyyyyyyyyyyyyyyyyyyyyyyyyyyyyyyyyyyyyyyyyyyyyyyyyyyyyyyyyyyyyyyyyyyyyyyyyyyyyyyyyyyyyyyyyyyyyyyyyyyyyyyyyyyyyyyyyyyyyyyyyyyyyyyyyyyyyyyyyyyyyyyyyyyyyyyyyyyyyyyyyyyyyyyyyyyyyyyyyyyyyyyyyyyyyyyyyyyyyyyyyyyyyyyyyyyyyyyyyyyyyyyyyyyyyyyyyyyyyyyyyyyyyyyyyyyyyyyyyyyyyyyyyyyyyyyyyyyyyyyyyyyyyyyyyyyyyyyyyyyyyyyyyyyyyyyyyyyyyyyyyyyyyyyyyyyyyyyyyyyyyyyyyyyyyyyyyyyyyyyyyyyyyyyyyyyyyyyyyyyyyyyyyyyyyyyyyyyyyyyyyyyyyyyyyyyyyyyyyyyyyyyyyyyyyyyyyyyyyyyyyyyyyyyyyyyyyyyyyyyyyyyyyyyyyyyyyyyyyyyyyyyyyyyyyyyyyyyyyyyyyyyyyyyyyyyyyyyyyyyyyyyyyyyyyyyyyyyyyyyyyyyyyyyyyyyyyyyyyyyyyyyyyyyyyyyyyyyyyyyyyyyyyyyyyyyyyyyyyyyyyyyyyyyyyyyyyyyyyyyyyyyyyyyyyyyyyyyyyyyyyyyyyyyyyyyyyyyyyyyyyyyyyyyyyyyyyyyyyyyyyyyyyyyyyyyyyyyyyyyyyyyyyyyyyyyyyyyyyyyyyyyyyyyyyyyyyyyyyyyyyyyyyyyyyyyyyyyyyyyyyyyyyyyyyyyyyyyyyyyyyyyyyyyyyyyyyyyyyyyyyyyyyyyyyyyyyyyyyyyyyyyyyyyyyyyyyyyyyyyyyyyyyyyyyyyyyyyyyyyyyyyyyyyyyyyyyyyyyyyyyyyyyyyyyyyyyyyyyyyyyyyyyyyyyyyyyyyyyyyyyyy'}, {'op': 'scenario', 'scenario': 'chghost', 'how': '396', 'host': 'a.very.long.cloak.example.org/bot/limnoria', 's': 'yyyyyyyyyyyyyyyyyyyyyyyyyyyyyyyyyyyyyyyyyyyyyyyyyyyyyyyyyyyyyyyyyyyyyyyyyyyyyyyyyyyyyyyyyyyyyyyyyyyyyyyyyyyyyyyyyyyyyyyyyyyyyyyyyyyyyyyyyyyyyyyyyyyyyyyyyyyyyyyyyyyyyyyyyyyyyyyyyyyyyyyyyyyyyyyyyyyyyyyyyyyyyyyyyyyyyyyyyyyyyyyyyyyyyyyyyyyyyyyyyyyyyyyyyyyyyyyyyyyyyyyyyyyyyyyyyyyyyyyyyyyyyyyyyyyyyyyyyyyyyyyyyyyyyyyyyyyyyyyyyyyyyyyyyyyyyyyyyyyyyyyyyyyyyyyyyyyyyyyyyyyyyyyyyyyyyyyyyyyyyyyyyyyyyyyyyyyyyyyyyyyyyyyyyyyyyyyyyyyyyyyyyyyyyyyyyyyyyyyyyyyyyyyyyyyyyyyyyyyyyyyyyyyyyyyyyyyyyyyyyyyyyyyyyyyyyyyyyyyyyyyyyyyyyyyyyyyyyyyyyyyyyyyyyyyyyyyyyyyyyyyyyyyyyyyyyyyyyyyyyyyyyyyyyyyyyyyyyyyyyyyyyyyyyyyyyyyyyyyyyyyyyyyyyyyyyyyyyyyyyyyyyyyyyyyyyyyyyyyyyyyyyyyyyyyyyyyyyyyyyyyyyyyyyyyyyyyyyyyyyyyyyyyyyyyyyyyyyyyyyyyyyyyyyyyyyyyyyyyyyyyyyyyyyyyyyyyyyyyyyyyyyyyyyyyyyyyyyyyyyyyyyyyyyyyyyyyyyyyyyyyyyyyyyyyyyyyyyyyyyyyyyyyyyyyyyyyyyyyyyyyyyyyyyyyyyyyyyyyyyyyyyyyyyyyyyyyyyyyyyyyyyyyyyyyyyyyyyyyyyyyyyyyyyyyyyyyyyyyyyyyyyyyyyyyyyyyyyyyyyyyyyyyyyyyyyyyyyyyyyyyyyyyyyyyyyyyyyyyyyyyyyyyyyyyyyyyyyyyyyyyyyyyyyyyyyyyyyyyyyyyyyyyyyyyyyyyyyyyyyyyyyyyyyyyyyyyyyyyyyyyyyyyyyyyyyyyyyyyyyyyyyyyyyyyyyyyyyyyyyyyyyyyyyyyyyyyyyyyyyyyyyyyyyyyyyyyyyyyyyyyyyyyyyyyyyyyyyyyyyyyyyyyyyyyyyyyyyyyyyyyyyyyyyyyyyyyyyyyyyyyyyyyyyyyyyyyyyyyy'}]

LIVE_CORPUS = [
    {'op': 'live', 'kind': 'corpus', 'botprefix': 'test!user@host.example', 'nick': 'alice', 'chan': '#chan', 'private': False, 'prefixNick': True, 'noticePriv': True, 'mores': True, 'length': 10, 'maximum': 50, 'instant': 1, 'number': 1, 's': 'hello world hello world hello world hello world hello world '},   # old witnesses of C12.F49 (repaired): mores.length below the reserve / below a character used to hang the bot
    {'op': 'live', 'kind': 'corpus', 'botprefix': 'test!user@host.example', 'nick': 'alice', 'chan': '#chan', 'private': False, 'prefixNick': True, 'noticePriv': True, 'mores': True, 'length': 24, 'maximum': 50, 'instant': 1, 'number': 1, 's': '😀😀😀 😀😀😀 😀😀😀 😀😀😀 😀😀😀 😀😀😀 😀😀😀 😀😀😀 😀😀😀 '},
    {'op': 'live', 'kind': 'corpus', 'botprefix': 'test!user@host.example', 'nick': 'alice', 'chan': '#chan', 'private': False, 'prefixNick': True, 'noticePriv': True, 'mores': True, 'length': 0, 'maximum': 50, 'instant': 1, 'number': 1, 's': 'lorem\x00\x02ipsum dolor sit amet lorem\x00\x02ipsum dolor sit amet lorem\x00\x02ipsum dolor sit amet lorem\x00\x02ipsum dolor sit amet lorem\x00\x02ipsum dolor sit amet lorem\x00\x02ipsum dolor sit amet lorem\x00\x02ipsum dolor sit amet lorem\x00\x02ipsum dolor sit amet lorem\x00\x02ipsum dolor sit amet lorem\x00\x02ipsum dolor sit amet lorem\x00\x02ipsum dolor sit amet lorem\x00\x02ipsum dolor sit amet lorem\x00\x02ipsum dolor sit amet lorem\x00\x02ipsum dolor sit amet lorem\x00\x02ipsum dolor sit amet lorem\x00\x02ipsum dolor sit amet lorem\x00\x02ipsum dolor sit amet lorem\x00\x02ipsum dolor sit amet lorem\x00\x02ipsum dolor sit amet lorem\x00\x02ipsum dolor sit amet lorem\x00\x02ipsum dolor sit amet lorem\x00\x02ipsum dolor sit amet lorem\x00\x02ipsum dolor sit amet lorem\x00\x02ipsum dolor sit amet lorem\x00\x02ipsum dolor sit amet lorem\x00\x02ipsum dolor sit amet lorem\x00\x02ipsum dolor sit amet lorem\x00\x02ipsum dolor sit amet lorem\x00\x02ipsum dolor sit amet lorem\x00\x02ipsum dolor sit amet lorem\x00\x02ipsum dolor sit amet lorem\x00\x02ipsum dolor sit amet lorem\x00\x02ipsum dolor sit amet lorem\x00\x02ipsum dolor sit amet lorem\x00\x02ipsum dolor sit amet lorem\x00\x02ipsum dolor sit amet lorem\x00\x02ipsum dolor sit amet lorem\x00\x02ipsum dolor sit amet lorem\x00\x02ipsum dolor sit amet lorem\x00\x02ipsum dolor sit amet lorem\x00\x02ipsum dolor sit amet lorem\x00\x02ipsum dolor sit amet lorem\x00\x02ipsum dolor sit amet lorem\x00\x02ipsum dolor sit amet lorem\x00\x02ipsum dolor sit amet lorem\x00\x02ipsum dolor sit amet lorem\x00\x02ipsum dolor sit amet lorem\x00\x02ipsum dolor sit amet lorem\x00\x02ipsum dolor sit amet lorem\x00\x02ipsum dolor sit amet lorem\x00\x02ipsum dolor sit amet lorem\x00\x02ipsum dolor sit amet lorem\x00\x02ipsum dolor sit amet lorem\x00\x02ipsum dolor sit amet lorem\x00\x02ipsum dolor sit amet lorem\x00\x02ipsum dolor sit amet lorem\x00\x02ipsum dolor sit amet lorem\x00\x02ipsum dolor sit amet lorem\x00\x02ipsum dolor sit amet lorem\x00\x02ipsum dolor sit amet'},   # not a valid IRC argument (NUL): repr() must be taken BEFORE measuring and wrapping
    {'op': 'live', 'kind': 'corpus', 'botprefix': 'test!user@host.example', 'nick': 'alice', 'chan': '#chan', 'private': False, 'prefixNick': True, 'noticePriv': True, 'mores': True, 'length': 0, 'maximum': 50, 'instant': 1, 'number': 1, 's': 'yyyyyyyyyyyyyyyyyyyyyyyyyyyyyyyyyyyyyyyyyyyyyyyyyyyyyyyyyyyyyyyyyyyyyyyyyyyyyyyyyyyyyyyyyyyyyyyyyyyyyyyyyyyyyyyyyyyyyyyyyyyyyyyyyyyyyyyyyyyyyyyyyyyyyyyyyyyyyyyyyyyyyyyyyyyyyyyyyyyyyyyyyyyyyyyyyyyyyyyyyyyyyyyyyyyyyyyyyyyyyyyyyyyyyyyyyyyyyyyyyyyyyyyyyyyyyyyyyyyyyyyyyyyyyyyyyyyyyyyyyyyyyyyyyyyyyyyyyyyyyyyyyyyyyyyyyyyyyyyyyyyyyyyyyyyyyyyyyyyyyyyyyyyyyyyyyyyyyyyyyyyyyyyyyyyyyyyyyyyyyyyyyyyyyyyyyyyyyyyyyyyyyyyyyyyyyyyyyyyyyyyyyyyyyy\x00\x00\x00\x00\x00\x00\x00\x00'},
    {'op': 'live', 'kind': 'corpus', 'botprefix': 'test!user@host.example', 'nick': 'alice', 'chan': '#chan', 'private': False, 'prefixNick': True, 'noticePriv': True, 'mores': True, 'length': 0, 'maximum': 50, 'instant': 1, 'number': 1, 's': 'a\nb\rc a\nb\rc a\nb\rc a\nb\rc a\nb\rc a\nb\rc a\nb\rc a\nb\rc a\nb\rc a\nb\rc a\nb\rc a\nb\rc a\nb\rc a\nb\rc a\nb\rc a\nb\rc a\nb\rc a\nb\rc a\nb\rc a\nb\rc a\nb\rc a\nb\rc a\nb\rc a\nb\rc a\nb\rc a\nb\rc a\nb\rc a\nb\rc a\nb\rc a\nb\rc a\nb\rc a\nb\rc a\nb\rc a\nb\rc a\nb\rc a\nb\rc a\nb\rc a\nb\rc a\nb\rc a\nb\rc a\nb\rc a\nb\rc a\nb\rc a\nb\rc a\nb\rc a\nb\rc a\nb\rc a\nb\rc a\nb\rc a\nb\rc a\nb\rc a\nb\rc a\nb\rc a\nb\rc a\nb\rc a\nb\rc a\nb\rc a\nb\rc a\nb\rc a\nb\rc a\nb\rc a\nb\rc a\nb\rc a\nb\rc a\nb\rc a\nb\rc a\nb\rc a\nb\rc a\nb\rc a\nb\rc a\nb\rc a\nb\rc a\nb\rc a\nb\rc a\nb\rc a\nb\rc a\nb\rc a\nb\rc a\nb\rc a\nb\rc a\nb\rc a\nb\rc a\nb\rc a\nb\rc a\nb\rc a\nb\rc a\nb\rc a\nb\rc a\nb\rc a\nb\rc a\nb\rc a\nb\rc a\nb\rc a\nb\rc a\nb\rc a\nb\rc a\nb\rc a\nb\rc a\nb\rc a\nb\rc a\nb\rc a\nb\rc a\nb\rc a\nb\rc a\nb\rc a\nb\rc a\nb\rc a\nb\rc a\nb\rc a\nb\rc a\nb\rc a\nb\rc a\nb\rc a\nb\rc a\nb\rc a\nb\rc a\nb\rc a\nb\rc a\nb\rc a\nb\rc a\nb\rc a\nb\rc a\nb\rc a\nb\rc a\nb\rc a\nb\rc a\nb\rc a\nb\rc a\nb\rc a\nb\rc a\nb\rc a\nb\rc a\nb\rc a\nb\rc a\nb\rc a\nb\rc a\nb\rc a\nb\rc a\nb\rc a\nb\rc a\nb\rc a\nb\rc a\nb\rc a\nb\rc a\nb\rc a\nb\rc a\nb\rc a\nb\rc a\nb\rc a\nb\rc a\nb\rc a\nb\rc a\nb\rc a\nb\rc a\nb\rc a\nb\rc a\nb\rc a\nb\rc a\nb\rc a\nb\rc a\nb\rc a\nb\rc a\nb\rc a\nb\rc a\nb\rc a\nb\rc a\nb\rc a\nb\rc a\nb\rc a\nb\rc a\nb\rc a\nb\rc a\nb\rc a\nb\rc a\nb\rc a\nb\rc a\nb\rc a\nb\rc a\nb\rc a\nb\rc a\nb\rc a\nb\rc a\nb\rc a\nb\rc a\nb\rc a\nb\rc a\nb\rc a\nb\rc a\nb\rc a\nb\rc a\nb\rc a\nb\rc a\nb\rc a\nb\rc a\nb\rc a\nb\rc a\nb\rc a\nb\rc a\nb\rc a\nb\rc '},
    {'op': 'live', 'kind': 'corpus', 'botprefix': 'test!user@host.example', 'nick': 'alice', 'chan': '#chan', 'private': False, 'prefixNick': True, 'noticePriv': True, 'mores': True, 'length': 0, 'maximum': 50, 'instant': 1, 'number': 1, 's': 'yyyyyyyyyyyyyyyyyyyyyyyyyyyyyyyyyyyyyyyyyyyyyyyyyyyyyyyyyyyyyyyyyyyyyyyyyyyyyyyyyyyyyyyyyyyyyyyyyyyyyyyyyyyyyyyyyyyyyyyyyyyyyyyyyyyyyyyyyyyyyyyyyyyyyyyyyyyyyyyyyyyyyyyyyyyyyyyyyyyyyyyyyyyyyyyyyyyyyyyyyyyyyyyyyyyyyyyyyyyyyyyyyyyyyyyyyyyyyyyyyyyyyyyyyyyyyyyyyyyyyyyyyyyyyyyyyyyyyyyyyyyyyyyyyyyyyyyyyyyyyyyyyyyyyyyyyyyyyyyyyyyyyyyyyyyyyyyyyyyyyyyyyyyyyyyyyyyyyyyyyyyyyyyyyyyyyyyyyyyyyyyyyyyyyyyyyyyyyyyyyyyyyyyyyyyyyyyyyyyyyyyyyyyyyyyyyyyyyyyyyyyyyyyyyyyyyyyyyyyyyyyyyyyyyyyyyyyyyyyyyyyyyyyyyyyyyyyyyyyyyyyyyyyyyyyyyyyyyyyyyyyyyyyyyyyyyyyyyyyyyyyyyyyyyyyyyyyyyyyyyyyyyyyyyyyyyyyyyyyyyyyyyyyyyyyyyyyyyyyyyyyyyyyyyyyyyyyyyyyyyyyyyyyyyyyyyyyyyyyyyyyyyyyyyyyyyyyyyyyyyyyyyyyyyyyyyyyyyyyyyyyyyyyyyyyyyyyyyyyyyyyyyyyyyyyyyyyyyyyyyyyyyyyyyyyyyyyyyyyyyyyyyyyyyyyyyyyyyyyyyyyyyyyyyyyyyyyyyyyyyyyyyyyyyyyyyyyyyyyyyyyyyyyyyyyyyyyyyyyyyyyyyyyyyyyyyyyyyyyyyyyyyyyyyyyyyyyyyyyyyyyyyyyyyyyyyyyyyyyyyyyyyyyyyyyyyyyyyyyyyyyyyyyyyyyyyyyyyyyyyyyyyyyyyyyyyyyyyyyyyyyyyyyyyyyyyyyyyyyyyyyyyyyyyyyyyyyyyyyyyyyyyyyyyyyyyyyyyyyyyyyyyyyyyyyyyyyyyyyyyyyyyyyyyyyyyyyyyyyyyyyyyyyyyyyyyyyyyyyyyyyyyyyyyyyyyyyyyyyyyyyyyyyyyyyyyyyyyyyyyyyyyyyyyyyyyyyyyyyyyyyyyyyyyyyyyyyyyyyyyyyyyyyyyyyyyyyyyyyyyyyyyyyyyyyyyyyyyyyyyyyyyyyyyyyyyyyyyyyyyyyyyyyyyyyyyyyyyyyyyyyyyyyyyyyyyyyyyyyyyyyyyyyyyyyyyyyyyyyyyyyyyyyyyyyyyyyyyyyyyyyyyyyyyyyyyyyyyyyyyyyyyyyyyyyyyyyyyyyyyyyyyyyyyyyyyyyyyyyyyyyyyyyyyyyyyyyyyyyyyyyyyyyyyyyyyyyyyyyyyyyyyyyyyyyyyyyyyyyyyyyyyyyyyyyyyyyyyyyyyyyyyyyyyyyyyyyyyyyyyyyyyyyyyyyyyyyyyyyyyyyyyyyyyyyyyyyyyyyyyyyyyyyyyyyyyyyyyyyyyyyyyyyyyyyyyyyyyyyyyyyyyyyyyyyyyyyyyyyyyyyyyyyyyyyyyyyyyyyyyyyyyyyyyyyyyyyyyyyyyyyyyyyyyyyyyyyyyyyyyyyyyyyyyyyyyyyyyyyyyyyyyyyyyyyyyyyyyyyyyyyyyyyyyyyyyyyyyyyyyyyyyyyyyyyyyyyyyyyyyyyyyyyyyyyyyyyyyyyyyyyyyyyyyyyyyyyyyyyyyyyyyyyyyyyyyyyyyyyyyyyyyyyyyyyyyyyyyyyyyyyyyyyyyyyyyyyyyyyyyyyyyyyyyyyyyyyyyyyyyyyyyyyyyyyyyyyyyyyyyyyyyyyyyyyyyyyyyyyyyyyyyyyyyyyyyyyyyyyyyyyyyyyyyyyyyyyyyyyyyyyyyyyyyyyyyyyyyyyyyyyyyyyyyyyyyyyyyyyyyyyyyyyyyyyyyyyyyyyyyyyyyyyyyyyyyyyyyyyyyyyyyyyyyyyyyyyyyyyyyyyyyyyyyyyyyyyyyyyyyyyyyyyyyyyyyyyyyyyyyyyyyyyyyyyyyyyyyyyyyyyyyyyyyyyyyyyyyyyyyyyyyyyyyyyyyyyyyyyyyyyyyyyyyyyyyyyyyyyyyyyyyyyyyyyyyyyyyyyyyyyyyyyyyyyyyyyyyyyyyyyyyyyyyyyyyyyyyyyyyyyyyyyyyyyyyyyyyyyyyyyyyyyyyyyyyyyyyyyyyyyyyyyyyyyyyyyyyyyyyyyyyyyyyyyyyyyyyyyyyyyyyyyyyyyyyyyyyyyyyyyyyyyyyyyyyyyyyyyyyyyyyyyyyyyyyyyyyyyyyyyyyyyyyyyyyyyyyyyyyyyyyyyyyyyyyyyyyyyyyyyyyyyyyyyyyyyyyyyyyyyyyyyyyyyyyyyyyyyyyyyyyyyyyyyyyyyyyyyyyyyyyyyyyyyyyyyyyyyyyyyyyyyyyyyyyyyyyyyyyyyyyyyyyyyyyyyyyyyyyyyyyyyyyyyyyyyyyyyyyyyyyyyyyyyyyyyyyyyyyyyyyyyyyyyyyyyyyyyyyyyyyyyyyyyyyyyyyyyyyyyyyyyyyyyyyyyyyyyyyyyyyyyyyyyyyyyyyyyyyyyyyyyyyyyyyyyyyyyyyyyyyyyyyyyyyyyyyyyyyyyyyyyyyyyyyyyyyyyyyyyyyyyyyyyyyyyyyyyyyyyyyyyyyyyyyyyyyyyyyyyyyyyyyyyyyyyyyyyyyyyyyyyyyyyyyyyyyyyyyyyyyyyyyyyyyyyyyyyyyyyyyyyyyyyyyyyyyyyyyyyyyyyyyyyyyyyyyyyyyyyyyyyyyyyyyyyyyyyyyyyyyyyyyyyyyyyyyyyyyyyyyyyyyyyyyyyyyyyyyyyyyyyyyyyyyyyyyyyyyyyyyyyyyyyyyyyyyyyyyyyyyyyyyyyyyyyyyyyyyyyyyyyyyyyyyyyyyyyyyyyyyyyyyyyyyyyyyyyyyyyyyyyyyyyyyyyyyyyyyyyyyyyyyyyyyyyyyyyyyyyyyyyyyyyyyyyyyyyyyyyyyyyyyyyyyyyyyyyyyyyyyyyyyyyyyyyyyyyyyyyyyyyyyyyyyyyyyyyyyyyyyyyyyyyyyyyyyyyyyyyyyyyyyyyyyyyyyyyyyyyyyyyyyyyyyyyyyyyyyyyyyyyyyyyyyyyyyyyyyyyyyyyyyyyyyyyyyyyyyyyyyyyyyyyyyyyyyyyyyyyyyyyyyyyyyyyyyyyyyyyyyyyyyyyyyyyyyyyyyyyyyyyyyyyyyyyyyyyyyyyyyyyyyyyyyyyyyyyyyyyyyyyyyyyyyyyyyyyyyyyyyyyyyyyyyyyyyyyyyyyyyyyyyyyyyyyyyyyyyyyyyyyyyyyyyyyyyyyyyyyyyyyyyyyyyyyyyyyyyyyyyyyyyyyyyyyyyyyyyyyyyyyyyyyyyyyyyyyyyyyyyyyyyyyyyyyyyyyyyyyyyyyyyyyyyyyyyyyyyyyyyyyyyyyyyyyyyyyyyyyyyyyyyyyyyyyyyyyyyyyyyyyyyyyyyyyyyyyyyyyyyyyyyyyyyyyyyyyyyyyyyyyyyyyyyyyyyyyyyyyyyyyyyyyyyyyyyyyyyyyyyyyyyyyyyyyyyyyyyyyyyyyyyyyyyyyyyyyyyyyyyyyyyyyyyyyyyyyyyyyyyyyyyyyyyyyyyyyyyyyyyyyyyyyyyyyyyyyyyyyyyyyyyyyyyyyyyyyyyyyyyyyyyyyyyyyyyyyyyyyyyyyyyyyyyyyyyyyyyyyyyyyyyyyyyyyyyyyyyyyyyyyyyyyyyyyyyyyyyyyyyyyyyyyyyyyyyyyyyyyyyyyyyyyyyyyyyyyyyyyyyyyyyyyyyyyyyyyyyyyyyyyyyyyyyyyyyyyyyyyyyyyyyyyyyyyyyyyyyyyyyyyyyyyyyyyyyyyyyyyyyyyyyyyyyyyyyyyyyyyyyyyyyyyyyyyyyyyyyyyyyyyyyyyyyyyyyyyyyyyyyyyyyyyyyyyyyyyyyyyyyyyyyyyyyyyyyyyyyyyyyyyyyyyyyyyyyyyyyyyyyyyyyyyyyyyyyyyyyyyyyyyyyyyyyyyyyyyyyyyyyyyyyyyyyyyyyyyyyyyyyyyyyyyyyyyyyyyyyyyyyyyyyyyyyyyyyyyyyyyyyyyyyyyyyyyyyyyyyyyyyyyyyyyyyyyyyyyyyyyyyyyyyyyyyyyyyyyyyyyyyyyyyyyyyyyyyyyyyyyyyyyyyyyyyyyyyyyyyyyyyyyyyyyyyyyyyyyyyyyyyyyyyyyyyyyyyyyyyyyyyyyyyyyyyyyyyyyyyyyyyyyyyyyyyyyyyyyyyyyyyyyyyyyyyyyyyyyyyyyyyyyyyyyyyyyyyyyyyyyyyyyyyyyyyyyyyyyyyyyyyyyyyyyyyyyyyyyyyyyyyyyyyyyyyyyyyyyyyyyyyyyyyyyyyyyyyyyyyyyyyyyyyyyyyyyyyyyyyyyyyyyyyyyyyyyyyyyyyyyyyyyyyyyyyyyyyyyyyyyyyyyyyyyyyyyyyyyyyyyyyyyyyyyyyyyyyyyyyyyyyyyyyyyyyyyyyyyyyyyyyyyyyyyyyyyyyyyyyyyyyyyyyyyyyyyyyyyyyyyyyyyyyyyyyyyyyyyyyyyyyyyyyyyyyyyyyyyyyyyyyyyyyyyyyyyyyyyyyyyyyyyyyyyyyyyyyyyyyyyyyyyyyyyyyyyyyyyyyyyyyyyyyyyyyyyyyyyyyyyyyyyyyyyyyyyyyyyyyyyyyyyyyyyyyyyyyyyyyyyyyyyyyyyyyyyyyyyyyyyyyyyyyyyyyyyyyyyyyyyyyyyyyyyyyyyyyyyyyyyyyyyyyyyyyyyyyyyyyyyyyyyyyyyyyyyyyyyyyyyyyyyyyyyyyyyyyyyyyyyyyyyyyyyyyyyyyyyyyyyyyyyyyyyyyyyyyyyyyyyyyyyyyyyyyyyyyyyyyyyyyyyyyyyyyyyyyyyyyyyyyyyyyyyyyyyyyyyyyyyyyyyyyyyyyyyyyyyyyyyyyyyyyyyyyyyyyyyyyyyyyyyyyyyyyyyyyyyyyyyyyyyyyyyyyyyyyyyyyyyyyyyyyyyyyyyyyyyyyyyyyyyyyyyyyyyyyyyyyyyyyyyyyyyyyyyyyyyyyyyyyyyyyyyyyyyyyyyyyyyyyyyyyyyyyyyyyyyyyyyyyyyyyyyyyyyyyyyyyyyyyyyyyyyyyyyyyyyyyyyyyyyyyyyyyyyyyyyyyyyyyyyyyyyyyyyyyyyyyyyyyyyyyyyyyyyyyyyyyyyyyyyyyyyyyyyyyyyyyyyyyyyyyyyyyyyyyyyyyyyyyyyyyyyyyyyyyyyyyyyyyyyyyyyyyyyyyyyyyyyyyyyyyyyyyyyyyyyyyyyyyyyyyyyyyyyyyyyyyyyyyyyyyyyyyyyyyyyyyyyyyyyyyyyyyyyyyyyyyyyyyyyyyyyyyyyyyyyyyyyyyyyyyyyyyyyyyyyyyyyyyyyyyyyyyyyyyyyyyyyyyyyyyyyyyyyyyyyyyyyyyyyyyyyyyyyyyyyyyyyyyyyyyyyyyyyyyyyyyyyyyyyyyyyyyyyyyyyyyyyyyyyyyyyyyyyyyyyyyyyyyyyyyyyyyyyyyyyyyyyyyyyyyyyyyyyyyyyyyyyyyyyyyyyyyyyyyyyyyyyyyyyyyyyyyyyyyyyyyyyyyyyyyyyyyyyyyyyyyyyyyyyyyyyyyyyyyyyyyyyyyyyyyyyyyyyyyyyyyyyyyyyyyyyyyyyyyyyyyyyyyyyyyyyyyyyyyyyyyyyyyyyyyyyyyyyyyyyyyyyyyyyyyyyyyyyyyyyyyyyyyyyyyyyyyyyyyyyyyyyyyyyyyyyyyyyyyyyyyyyyyyyyyyyyyyyyyyyyyyyyyyyyyyyyyyyyyyyyyyyyyyyyyyyyyyyyyyyyyyyyyyyyyyyyyyyyyyyyyyyyyyyyyyyyyyyyyyyyyyyyyyyyyyyyyyyyyyyyyyyyyyyyyyyyyyyyyyyyyyyyyyyyyyyyyyyyyyyyyyyyyyyyyyyyyyyyyyyyyyyyyyyyyyyyyyyyyyyy', 'lang': 'fr'},   # old witnesses of C12.F45 (repaired): French / Finnish '(N more messages)'
    {'op': 'live', 'kind': 'corpus', 'botprefix': 'test!user@host.example', 'nick': 'alice', 'chan': '#chan', 'private': False, 'prefixNick': True, 'noticePriv': True, 'mores': True, 'length': 0, 'maximum': 50, 'instant': 1, 'number': 1, 's': 'yyyyyyyyyyyyyyyyyyyyyyyyyyyyyyyyyyyyyyyyyyyyyyyyyyyyyyyyyyyyyyyyyyyyyyyyyyyyyyyyyyyyyyyyyyyyyyyyyyyyyyyyyyyyyyyyyyyyyyyyyyyyyyyyyyyyyyyyyyyyyyyyyyyyyyyyyyyyyyyyyyyyyyyyyyyyyyyyyyyyyyyyyyyyyyyyyyyyyyyyyyyyyyyyyyyyyyyyyyyyyyyyyyyyyyyyyyyyyyyyyyyyyyyyyyyyyyyyyyyyyyyyyyyyyyyyyyyyyyyyyyyyyyyyyyyyyyyyyyyyyyyyyyyyyyyyyyyyyyyyyyyyyyyyyyyyyyyyyyyyyyyyyyyyyyyyyyyyyyyyyyyyyyyyyyyyyyyyyyyyyyyyyyyyyyyyyyyyyyyyyyyyyyyyyyyyyyyyyyyyyyyyyyyyyyyyyyyyyyyyyyyyyyyyyyyyyyyyyyyyyyyyyyyyyyyyyyyyyyyyyyyyyyyyyyyyyyyyyyyyyyyyyyyyyyyyyyyyyyyyyyyyyyyyyyyyyyyyyyyyyyyyyyyyyyyyyyyyyyyyyyyyyyyyyyyyyyyyyyyyyyyyyyyyyyyyyyyyyyyyyyyyyyyyyyyyyyyyyyyyyyyyyyyyyyyyyyyyyyyyyyyyyyyyyyyyyyyyyyyyyyyyyyyyyyyyyyyyyyyyyyyyyyyyyyyyyyyyyyyyyyyyyyyyyyyyyyyyyyyyyyyyyyyyyyyyyyyyyyyyyyyyyyyyyyyyyyyyyyyyyyyyyyyyyyyyyyyyyyyyyyyyyyyyyyyyyyyyyyyyyyyyyyyyyyyyyyyyyyyyyyyyyyyyyyyyyyyyyyyyyyyyyyyyyyyyyyyyyyyyyyyyyyyyyyyyyyyyyyyyyyyyyyyyyyyyyyyyyyyyyyyyyyyyyyyyyyyyyyyyyyyyyyyyyyyyyyyyyyyyyyyyyyyyyyyyyyyyyyyyyyyyyyyyyyyyyyyyyyyyyyyyyyyyyyyyyyyyyyyyyyyyyyyyyyyyyyyyyyyyyyyyyyyyyyyyyyyyyyyyyyyyyyyyyyyyyyyyyyyyyyyyyyyyyyyyyyyyyyyyyyyyyyyyyyyyyyyyyyyyyyyyyyyyyyyyyyyyyyyyyyyyyyyyyyyyyyyyyyyyyyyyyyyyyyyyyyyyyyyyyyyyyyyyyyyyyyyyyyyyyyyyyyyyyyyyyyyyyyyy', 'lang': 'fi'},
    {'op': 'live', 'kind': 'corpus', 'botprefix': 'LongerBotNick_123456!user@host.example', 'nick': 'alice', 'chan': '#chan', 'private': False, 'prefixNick': True, 'noticePriv': True, 'mores': True, 'length': 0, 'maximum': 50, 'instant': 1, 'number': 1, 's': 'yyyyyyyyyyyyyyyyyyyyyyyyyyyyyyyyyyyyyyyyyyyyyyyyyyyyyyyyyyyyyyyyyyyyyyyyyyyyyyyyyyyyyyyyyyyyyyyyyyyyyyyyyyyyyyyyyyyyyyyyyyyyyyyyyyyyyyyyyyyyyyyyyyyyyyyyyyyyyyyyyyyyyyyyyyyyyyyyyyyyyyyyyyyyyyyyyyyyyyyyyyyyyyyyyyyyyyyyyyyyyyyyyyyyyyyyyyyyyyyyyyyyyyyyyyyyyyyyyyyyyyyyyyyyyyyyyyyyyyyyyyyyyyyyyyyyyyyyyyyyyyyyyyyyyyyyyyyyyyyyyyyyyyyyyyyyyyyyyyyyyyyyyyyyyyyyyyyyyyyyyyyyyyyyyyyyyyyyyyyyyyyyyyyyyyyyyyyyyyyyyyyyyyyyyyyyyyyyyyyyyyyyyyyyyyyyyyyyyyyyyyyyyyyyyyyyyyyyyyyyyyyyyyyyyyyyyyyyyyyyyyyyyyyyyyyyyyyyyyyyyyyyyyyyyyyyyyyyyyyyyyyyyyyyyyyyyyyyyyyyyyyyyyyyyyyyyyyyyyyyyyyyyyyyyyyyyyyyyyyyyyyyyyyyyyyyyyyyyyyyyyyyyyyyyyyyyyyyyyyyyyyyyyyyyyyyyyyyyyyyyyyyyyyyyyyyyyyyyyyyyyyyyyyyyyyyyyyyyyyyyyyyyyyyyyyyyyyyyyyyyyyyyyyyyyyyyyyyyyyyyyyyyyyyyyyyyyyyyyyyyyyyyyyyyyyyyyyyyyyyyyyyyyyyyyyyyyyyyyyyyyyyyyyyyyyyyyyyyyyyyyyyyyyyyyyyyyyyyyyyyyyyyyyyyyyyyyyyyyyyyyyyyyyyyyyyyyyyyyyyyyyyyyyyyyyyyyyyyyyyyyyyyyyyyyyyyyyyyyyyyyyyyyyyyyyyyyyyyyyyyyyyyyyyyyyyyyyyyyyyyyyyyyyyyyyyyyyyyyyyyyyyyyyyyyyyyyyyyyyyyyyyyyyyyyyyyyyyyyyyyyyyyyyyyyyyyyyyyyyyyyyyyyyyyyyyyyyyyyyyyyyyyyyyyyyyyyyyyyyyyyyyyyyyyyyyyyyyyyyyyyyyyyyyyyyyyyyyyyyyyyyyyyyyyyyyyyyyyyyyyyyyyyyyyyyyyyyyyyyyyyyyyyyyyyyyyyyyyyyyyyyyyyyyyyyyyyyyyyyyyyyyyyyyyyyyyyyyyyyyyyyyyyyyyyyyyyyyyyyyyyyyyyyyyyyyyyyyyyyyyyyyyyyyyyyyyyyyyyyyyyyyyyyyyyyyyyyyyyyyyyyyyyyyyyyyyyyyyyyyyyyyyyyyyyyyyyyyyyyyyyyyyyyyyyyyyyyyyyyyyyyyyyyyyyyyyyyyyyyyyyyyyyyyyyyyyyyyyyyyyyyyyyyyyyyyyyyyyyyyyyyyyyyyyyyyyyyyyyyyyyyyyyyyyyyyyyyyyyyyyyyyyyyyyyyyyyyyyyyyyyyyyyyyyyyyyyyyyyyyyyyyyyyyyyyyyyyyyyyy', 'rename': ['b', 'LongerBotNick_123456']},   # the bot is renamed to a longer nick after its own JOIN: chunks must be sized for the new hostmask
    {'op': 'live', 'kind': 'corpus', 'botprefix': 'LongerBotNick_123456!user@host.example', 'nick': 'alice', 'chan': '#chan', 'private': False, 'prefixNick': True, 'noticePriv': True, 'mores': True, 'length': 0, 'maximum': 50, 'instant': 1, 'number': 1, 's': 'http://example.org/qqqqqqqqqqqqqqqqqqqqqqqqqqqqqqqqqqqqqqqqqqqqqqqqqqqqqqqqqqqqqqqqqqqqqqqqqqqqqqqqqqqqqqqqqqqqqqqqqqqqqqqqqqqqqqqqqqqqqqqqqqqqqqqqqqqqqqqqqqqqqqqqqqqqqqqqqqqqqqqqqqqqqqqqqqqqqqqqqqqqqqqqqqqqqqqqqqqqqqqqqqqqqqqqqqqqqqqqqqqqqqqqqqqqqqqqqqqqqqqqqqqqqqqqqqqqqqqqqqqqqqqqqqqqqqqqqqqqqqqqqqqqqqqqqqqqqqqqqqqqqqqqqqqqqqqqqqqqqqqqqqqqqqqqqqqqqqqqqqqqqqqqqqqqqqqqqqqqqqqqqqqqqqqqqqqqqqqqqqqqqqqqqqqqqqqqqqqqqqqqqqqqqqqqqqqqqqqqqqqqqqqqqqqqqqqqqqqqqqqqqqqqqqqqqqqqqqqqqqqqqqqqqqqqqqqqqqqqqqqqqqqqqqqqqqqqqqqqqqqqqqqqqqqqqqqqqqqqqqqqqqqqqqqqqqqqqqqqqqqqqqqqqqqqqqqqqqqqqqqqqqqqqqqqqqqqqqqqqqqqqqqqqqqqqqqqqqqqqqqq http://example.org/qqqqqqqqqqqqqqqqqqqqqqqqqqqqqqqqqqqqqqqqqqqqqqqqqqqqqqqqqqqqqqqqqqqqqqqqqqqqqqqqqqqqqqqqqqqqqqqqqqqqqqqqqqqqqqqqqqqqqqqqqqqqqqqqqqqqqqqqqqqqqqqqqqqqqqqqqqqqqqqqqqqqqqqqqqqqqqqqqqqqqqqqqqqqqqqqqqqqqqqqqqqqqqqqqqqqqqqqqqqqqqqqqqqqqqqqqqqqqqqqqqqqqqqqqqqqqqqqqqqqqqqqqqqqqqqqqqqqqqqqqqqqqqqqqqqqqqqqqqqqqqqqqqqqqqqqqqqqqqqqqqqqqqqqqqqqqqqqqqqqqqqqqqqqqqqqqqqqqqqqqqqqqqqqqqqqqqqqqqqqqqqqqqqqqqqqqqqqqqqqqqqqqqqqqqqqqqqqqqqqqqqqqqqqqqqqqqqqqqqqqqqqqqqqqqqqqqqqqqqqqqqqqqqqqqqqqqqqqqqqqqqqqqqqqqqqqqqqqqqqqqqqqqqqqqqqqqqqqqqqqqqqqqqqqqqqqqqqqqqqqqqqqqqqqqqqqqqqqqqqqqqqqqqqqqqqqqqqqqqqqqqqqqqqqqqqqqqqqqqq http://example.org/qqqqqqqqqqqqqqqqqqqqqqqqqqqqqqqqqqqqqqqqqqqqqqqqqqqqqqqqqqqqqqqqqqqqqqqqqqqqqqqqqqqqqqqqqqqqqqqqqqqqqqqqqqqqqqqqqqqqqqqqqqqqqqqqqqqqqqqqqqqqqqqqqqqqqqqqqqqqqqqqqqqqqqqqqqqqqqqqqqqqqqqqqqqqqqqqqqqqqqqqqqqqqqqqqqqqqqqqqqqqqqqqqqqqqqqqqqqqqqqqqqqqqqqqqqqqqqqqqqqqqqqqqqqqqqqqqqqqqqqqqqqqqqqqqqqqqqqqqqqqqqqqqqqqqqqqqqqqqqqqqqqqqqqqqqqqqqqqqqqqqqqqqqqqqqqqqqqqqqqqqqqqqqqqqqqqqqqqqqqqqqqqqqqqqqqqqqqqqqqqqqqqqqqqqqqqqqqqqqqqqqqqqqqqqqqqqqqqqqqqqqqqqqqqqqqqqqqqqqqqqqqqqqqqqqqqqqqqqqqqqqqqqqqqqqqqqqqqqqqqqqqqqqqqqqqqqqqqqqqqqqqqqqqqqqqqqqqqqqqqqqqqqqqqqqqqqqqqqqqqqqqqqqqqqqqqqqqqqqqqqqqqqqqqqqqqqqqqqqqq', 'rename': ['LongerBotNick_1', 'x', 'LongerBotNick_123456']},
    {'op': 'live', 'kind': 'corpus', 'botprefix': 'test!user@host.example', 'nick': 'alice', 'chan': '#chan', 'private': False, 'prefixNick': True, 'noticePriv': True, 'mores': True, 'length': 0, 'maximum': 50, 'instant': 1, 'number': 1, 's': 'w000w000w000w000w000w000w000w000w000w000w000w000w000w000w000w000w000w000w000w000 w001w001w001w001w001w001w001w001w001w001w001w001w001w001w001w001w001w001w001w001 w002w002w002w002w002w002w002w002w002w002w002w002w002w002w002w002w002w002w002w002 w003w003w003w003w003w003w003w003w003w003w003w003w003w003w003w003w003w003w003w003 w004w004w004w004w004w004w004w004w004w004w004w004w004w004w004w004w004w004w004w004 w005w005w005w005w005w005w005w005w005w005w005w005w005w005w005w005w005w005w005w005 w006w006w006w006w006w006w006w006w006w006w006w006w006w006w006w006w006w006w006w006 w007w007w007w007w007w007w007w007w007w007w007w007w007w007w007w007w007w007w007w007 w008w008w008w008w008w008w008w008w008w008w008w008w008w008w008w008w008w008w008w008 w009w009w009w009w009w009w009w009w009w009w009w009w009w009w009w009w009w009w009w009 w010w010w010w010w010w010w010w010w010w010w010w010w010w010w010w010w010w010w010w010 w011w011w011w011w011w011w011w011w011w011w011w011w011w011w011w011w011w011w011w011 w012w012w012w012w012w012w012w012w012w012w012w012w012w012w012w012w012w012w012w012 w013w013w013w013w013w013w013w013w013w013w013w013w013w013w013w013w013w013w013w013 w014w014w014w014w014w014w014w014w014w014w014w014w014w014w014w014w014w014w014w014 w015w015w015w015w015w015w015w015w015w015w015w015w015w015w015w015w015w015w015w015 w016w016w016w016w016w016w016w016w016w016w016w016w016w016w016w016w016w016w016w016 w017w017w017w017w017w017w017w017w017w017w017w017w017w017w017w017w017w017w017w017 w018w018w018w018w018w018w018w018w018w018w018w018w018w018w018w018w018w018w018w018 w019w019w019w019w019w019w019w019w019w019w019w019w019w019w019w019w019w019w019w019 w020w020w020w020w020w020w020w020w020w020w020w020w020w020w020w020w020w020w020w020 w021w021w021w021w021w021w021w021w021w021w021w021w021w021w021w021w021w021w021w021 w022w022w022w022w022w022w022w022w022w022w022w022w022w022w022w022w022w022w022w022 w023w023w023w023w023w023w023w023w023w023w023w023w023w023w023w023w023w023w023w023 w024w024w024w024w024w024w024w024w024w024w024w024w024w024w024w024w024w024w024w024 w025w025w025w025w025w025w025w025w025w025w025w025w025w025w025w025w025w025w025w025 w026w026w026w026w026w026w026w026w026w026w026w026w026w026w026w026w026w026w026w026 w027w027w027w027w027w027w027w027w027w027w027w027w027w027w027w027w027w027w027w027 w028w028w028w028w028w028w028w028w028w028w028w028w028w028w028w028w028w028w028w028 w029w029w029w029w029w029w029w029w029w029w029w029w029w029w029w029w029w029w029w029 w030w030w030w030w030w030w030w030w030w030w030w030w030w030w030w030w030w030w030w030 w031w031w031w031w031w031w031w031w031w031w031w031w031w031w031w031w031w031w031w031 w032w032w032w032w032w032w032w032w032w032w032w032w032w032w032w032w032w032w032w032 w033w033w033w033w033w033w033w033w033w033w033w033w033w033w033w033w033w033w033w033 w034w034w034w034w034w034w034w034w034w034w034w034w034w034w034w034w034w034w034w034 w035w035w035w035w035w035w035w035w035w035w035w035w035w035w035w035w035w035w035w035 w036w036w036w036w036w036w036w036w036w036w036w036w036w036w036w036w036w036w036w036 w037w037w037w037w037w037w037w037w037w037w037w037w037w037w037w037w037w037w037w037 w038w038w038w038w038w038w038w038w038w038w038w038w038w038w038w038w038w038w038w038 w039w039w039w039w039w039w039w039w039w039w039w039w039w039w039w039w039w039w039w039', 'ops': 'NA'},   # old witness of C12.F44 (repaired): zed's `more alice`, then alice's own `more`
    {'op': 'live', 'kind': 'corpus', 'botprefix': 'test!user@host.example', 'nick': 'alice', 'chan': '#chan', 'private': False, 'prefixNick': True, 'noticePriv': True, 'mores': True, 'length': 0, 'maximum': 50, 'instant': 1, 'number': 2, 's': 'w000w000w000w000w000w000w000w000w000w000w000w000w000w000w000w000w000w000w000w000 w001w001w001w001w001w001w001w001w001w001w001w001w001w001w001w001w001w001w001w001 w002w002w002w002w002w002w002w002w002w002w002w002w002w002w002w002w002w002w002w002 w003w003w003w003w003w003w003w003w003w003w003w003w003w003w003w003w003w003w003w003 w004w004w004w004w004w004w004w004w004w004w004w004w004w004w004w004w004w004w004w004 w005w005w005w005w005w005w005w005w005w005w005w005w005w005w005w005w005w005w005w005 w006w006w006w006w006w006w006w006w006w006w006w006w006w006w006w006w006w006w006w006 w007w007w007w007w007w007w007w007w007w007w007w007w007w007w007w007w007w007w007w007 w008w008w008w008w008w008w008w008w008w008w008w008w008w008w008w008w008w008w008w008 w009w009w009w009w009w009w009w009w009w009w009w009w009w009w009w009w009w009w009w009 w010w010w010w010w010w010w010w010w010w010w010w010w010w010w010w010w010w010w010w010 w011w011w011w011w011w011w011w011w011w011w011w011w011w011w011w011w011w011w011w011 w012w012w012w012w012w012w012w012w012w012w012w012w012w012w012w012w012w012w012w012 w013w013w013w013w013w013w013w013w013w013w013w013w013w013w013w013w013w013w013w013 w014w014w014w014w014w014w014w014w014w014w014w014w014w014w014w014w014w014w014w014 w015w015w015w015w015w015w015w015w015w015w015w015w015w015w015w015w015w015w015w015 w016w016w016w016w016w016w016w016w016w016w016w016w016w016w016w016w016w016w016w016 w017w017w017w017w017w017w017w017w017w017w017w017w017w017w017w017w017w017w017w017 w018w018w018w018w018w018w018w018w018w018w018w018w018w018w018w018w018w018w018w018 w019w019w019w019w019w019w019w019w019w019w019w019w019w019w019w019w019w019w019w019 w020w020w020w020w020w020w020w020w020w020w020w020w020w020w020w020w020w020w020w020 w021w021w021w021w021w021w021w021w021w021w021w021w021w021w021w021w021w021w021w021 w022w022w022w022w022w022w022w022w022w022w022w022w022w022w022w022w022w022w022w022 w023w023w023w023w023w023w023w023w023w023w023w023w023w023w023w023w023w023w023w023 w024w024w024w024w024w024w024w024w024w024w024w024w024w024w024w024w024w024w024w024 w025w025w025w025w025w025w025w025w025w025w025w025w025w025w025w025w025w025w025w025 w026w026w026w026w026w026w026w026w026w026w026w026w026w026w026w026w026w026w026w026 w027w027w027w027w027w027w027w027w027w027w027w027w027w027w027w027w027w027w027w027 w028w028w028w028w028w028w028w028w028w028w028w028w028w028w028w028w028w028w028w028 w029w029w029w029w029w029w029w029w029w029w029w029w029w029w029w029w029w029w029w029 w030w030w030w030w030w030w030w030w030w030w030w030w030w030w030w030w030w030w030w030 w031w031w031w031w031w031w031w031w031w031w031w031w031w031w031w031w031w031w031w031 w032w032w032w032w032w032w032w032w032w032w032w032w032w032w032w032w032w032w032w032 w033w033w033w033w033w033w033w033w033w033w033w033w033w033w033w033w033w033w033w033 w034w034w034w034w034w034w034w034w034w034w034w034w034w034w034w034w034w034w034w034 w035w035w035w035w035w035w035w035w035w035w035w035w035w035w035w035w035w035w035w035 w036w036w036w036w036w036w036w036w036w036w036w036w036w036w036w036w036w036w036w036 w037w037w037w037w037w037w037w037w037w037w037w037w037w037w037w037w037w037w037w037 w038w038w038w038w038w038w038w038w038w038w038w038w038w038w038w038w038w038w038w038 w039w039w039w039w039w039w039w039w039w039w039w039w039w039w039w039w039w039w039w039', 'ops': 'NABAB'},
    {'op': 'live', 'kind': 'corpus', 'botprefix': 'test!limnoria@bot.users.example.org', 'nick': 'a_rather_long_nickname', 'chan': '#c', 'private': False, 'prefixNick': True, 'noticePriv': True, 'mores': True, 'length': 0, 'maximum': 50, 'instant': 1, 'number': 1, 'kwPrivate': True, 's': 'yyyyyyyyyyyyyyyyyyyyyyyyyyyyyyyyyyyyyyyyyyyyyyyyyyyyyyyyyyyyyyyyyyyyyyyyyyyyyyyyyyyyyyyyyyyyyyyyyyyyyyyyyyyyyyyyyyyyyyyyyyyyyyyyyyyyyyyyyyyyyyyyyyyyyyyyyyyyyyyyyyyyyyyyyyyyyyyyyyyyyyyyyyyyyyyyyyyyyyyyyyyyyyyyyyyyyyyyyyyyyyyyyyyyyyyyyyyyyyyyyyyyyyyyyyyyyyyyyyyyyyyyyyyyyyyyyyyyyyyyyyyyyyyyyyyyyyyyyyyyyyyyyyyyyyyyyyyyyyyyyyyyyyyyyyyyyyyyyyyyyyyyyyyyyyyyyyyyyyyyyyyyyyyyyyyyyyyyyyyyyyyyyyyyyyyyyyyyyyyyyyyyyyyyyyyyyyyyyyyyyyyyyyyyyyyyyyyyyyyyyyyyyyyyyyyyyyyyyyyyyyyyyyyyyyyyyyyyyyyyyyyyyyyyyyyyyyyyyyyyyyyyyyyyyyyyyyyyyyyyyyyyyyyyyyyyyyyyyyyyyyyyyyyyyyyyyyyyyyyyyyyyyyyyyyyyyyyyyyyyyyyyyyyyyyyyyyyyyyyyyyyyyyyyyyyyyyyyyyyyyyyyyyyyyyyyyyyyyyyyyyyyyyyyyyyyyyyyyyyyyyyyyyyyyyyyyyyyyyyyyyyyyyyyyyyyyyyyyyyyyyyyyyyyyyyyyyyyyyyyyyyyyyyyyyyyyyyyyyyyyyyyyyyyyyyyyyyyyyyyyyyyyyyyyyyyyyyyyyyyyyyyyyyyyyyyyyyyyyyyyyyyyyyyyyyyyyyyyyyyyyyyyyyyyyyyyyyyyyyyyyyyyyyyyyyyyyyyyyyyyyyyyyyyyyyyyyyyyyyyyyyyyyyyyyyyyyyyyyyyyyyyyyyyyyyyyyyyyyyyyyyyyyyyyyyyyyyyyyyyyyyyyyyyyyyyyyyyyyyyyyyyyyyyyyyyyyyyyyyyyyyyyyyyyyyyyyyyyyyyyyyyyyyyyyyyyyyyyyyyyyyyyyyyyyyyyyyyyyyyyyyyyyyyyyyyyyyyyyyyyyyyyyyyyyyyyyyyyyyyyyyyyyyyyyyyyyyyyyyyyyyyyyyyyyyyyyyyyyyyyyyyyyyyyyyyyyyyyyyyyyyyyyyyyyyyyyyyyyyyyyyyyyyyyyyyyyyyyyyyyyyyyyyyyyyyyyyyyyyyyyyyyyyyyyyyyyyyyyyyyyyyyyyyyyyyyyyyyyyyyyyyyyyyyyyyyyyyyyyyyyyyyyyyyyyyyyyyyyyyyyyyyyyyyyyyyyyyyyyy'},   # private=True in a channel, long nick: fits only thanks to the nick-prefix reserve
    {'op': 'live', 'kind': 'corpus', 'botprefix': 'test!limnoria@bot.users.example.org', 'nick': 'a_rather_long_nickname', 'chan': '#c', 'private': False, 'prefixNick': True, 'noticePriv': True, 'mores': True, 'length': 0, 'maximum': 50, 'instant': 1, 'number': 1, 'kwPrivate': True, 's': 'wordwordword wordwordword wordwordword wordwordword wordwordword wordwordword wordwordword wordwordword wordwordword wordwordword wordwordword wordwordword wordwordword wordwordword wordwordword wordwordword wordwordword wordwordword wordwordword wordwordword wordwordword wordwordword wordwordword wordwordword wordwordword wordwordword wordwordword wordwordword wordwordword wordwordword wordwordword wordwordword wordwordword wordwordword wordwordword wordwordword wordwordword wordwordword wordwordword wordwordword wordwordword wordwordword wordwordword wordwordword wordwordword wordwordword wordwordword wordwordword wordwordword wordwordword wordwordword wordwordword wordwordword wordwordword wordwordword wordwordword wordwordword wordwordword wordwordword wordwordword wordwordword wordwordword wordwordword wordwordword wordwordword wordwordword wordwordword wordwordword wordwordword wordwordword wordwordword wordwordword wordwordword wordwordword wordwordword wordwordword wordwordword wordwordword wordwordword wordwordword wordwordword wordwordword wordwordword wordwordword wordwordword wordwordword wordwordword wordwordword wordwordword wordwordword wordwordword wordwordword wordwordword wordwordword wordwordword wordwordword wordwordword wordwordword wordwordword wordwordword wordwordword wordwordword wordwordword wordwordword wordwordword wordwordword wordwordword wordwordword wordwordword wordwordword'},
    {'op': 'live', 'kind': 'corpus', 'botprefix': 'test!limnoria@bot.users.example.org', 'nick': 'a_rather_long_nickname', 'chan': '#c', 'private': False, 'prefixNick': False, 'noticePriv': True, 'mores': True, 'length': 0, 'maximum': 50, 'instant': 1, 'number': 1, 'kwPrivate': True, 's': 'yyyyyyyyyyyyyyyyyyyyyyyyyyyyyyyyyyyyyyyyyyyyyyyyyyyyyyyyyyyyyyyyyyyyyyyyyyyyyyyyyyyyyyyyyyyyyyyyyyyyyyyyyyyyyyyyyyyyyyyyyyyyyyyyyyyyyyyyyyyyyyyyyyyyyyyyyyyyyyyyyyyyyyyyyyyyyyyyyyyyyyyyyyyyyyyyyyyyyyyyyyyyyyyyyyyyyyyyyyyyyyyyyyyyyyyyyyyyyyyyyyyyyyyyyyyyyyyyyyyyyyyyyyyyyyyyyyyyyyyyyyyyyyyyyyyyyyyyyyyyyyyyyyyyyyyyyyyyyyyyyyyyyyyyyyyyyyyyyyyyyyyyyyyyyyyyyyyyyyyyyyyyyyyyyyyyyyyyyyyyyyyyyyyyyyyyyyyyyyyyyyyyyyyyyyyyyyyyyyyyyyyyyyyyyyyyyyyyyyyyyyyyyyyyyyyyyyyyyyyyyyyyyyyyyyyyyyyyyyyyyyyyyyyyyyyyyyyyyyyyyyyyyyyyyyyyyyyyyyyyyyyyyyyyyyyyyyyyyyyyyyyyyyyyyyyyyyyyyyyyyyyyyyyyyyyyyyyyyyyyyyyyyyyyyyyyyyyyyyyyyyyyyyyyyyyyyyyyyyyyyyyyyyyyyyyyyyyyyyyyyyyyyyyyyyyyyyyyyyyyyyyyyyyyyyyyyyyyyyyyyyyyyyyyyyyyyyyyyyyyyyyyyyyyyyyyyyyyyyyyyyyyyyyyyyyyyyyyyyyyyyyyyyyyyyyyyyyyyyyyyyyyyyyyyyyyyyyyyyyyyyyyyyyyyyyyyyyyyyyyyyyyyyyyyyyyyyyyyyyyyyyyyyyyyyyyyyyyyyyyyyyyyyyyyyyyyyyyyyyyyyyyyyyyyyyyyyyyyyyyyyyyyyyyyyyyyyyyyyyyyyyyyyyyyyyyyyyyyyyyyyyyyyyyyyyyyyyyyyyyyyyyyyyyyyyyyyyyyyyyyyyyyyyyyyyyyyyyyyyyyyyyyyyyyyyyyyyyyyyyyyyyyyyyyyyyyyyyyyyyyyyyyyyyyyyyyyyyyyyyyyyyyyyyyyyyyyyyyyyyyyyyyyyyyyyyyyyyyyyyyyyyyyyyyyyyyyyyyyyyyyyyyyyyyyyyyyyyyyyyyyyyyyyyyyyyyyyyyyyyyyyyyyyyyyyyyyyyyyyyyyyyyyyyyyyyyyyyyyyyyyyyyyyyyyyyyyyyyyyyyyyyyyyyyyyyyyyyyyyyyyyyyyyyyyyyyyyyyyyyyyyyyyyyyyyyyyyyyyyyyyyyyyyyyyyyyyyyyyyyyyyyyyyyyyyyyyyyyyyy'},   # old witness of C12.F43 (repaired)
    {'op': 'live', 'kind': 'corpus', 'botprefix': 'test!limnoria@bot.users.example.org', 'nick': 'a', 'chan': '#c', 'private': False, 'prefixNick': True, 'noticePriv': True, 'mores': True, 'length': 0, 'maximum': 50, 'instant': 1, 'number': 1, 'kwTo': 'bbbbbbbbbbbbbbbbbbbbbbbbb', 's': 'yyyyyyyyyyyyyyyyyyyyyyyyyyyyyyyyyyyyyyyyyyyyyyyyyyyyyyyyyyyyyyyyyyyyyyyyyyyyyyyyyyyyyyyyyyyyyyyyyyyyyyyyyyyyyyyyyyyyyyyyyyyyyyyyyyyyyyyyyyyyyyyyyyyyyyyyyyyyyyyyyyyyyyyyyyyyyyyyyyyyyyyyyyyyyyyyyyyyyyyyyyyyyyyyyyyyyyyyyyyyyyyyyyyyyyyyyyyyyyyyyyyyyyyyyyyyyyyyyyyyyyyyyyyyyyyyyyyyyyyyyyyyyyyyyyyyyyyyyyyyyyyyyyyyyyyyyyyyyyyyyyyyyyyyyyyyyyyyyyyyyyyyyyyyyyyyyyyyyyyyyyyyyyyyyyyyyyyyyyyyyyyyyyyyyyyyyyyyyyyyyyyyyyyyyyyyyyyyyyyyyyyyyyyyyyyyyyyyyyyyyyyyyyyyyyyyyyyyyyyyyyyyyyyyyyyyyyyyyyyyyyyyyyyyyyyyyyyyyyyyyyyyyyyyyyyyyyyyyyyyyyyyyyyyyyyyyyyyyyyyyyyyyyyyyyyyyyyyyyyyyyyyyyyyyyyyyyyyyyyyyyyyyyyyyyyyyyyyyyyyyyyyyyyyyyyyyyyyyyyyyyyyyyyyyyyyyyyyyyyyyyyyyyyyyyyyyyyyyyyyyyyyyyyyyyyyyyyyyyyyyyyyyyyyyyyyyyyyyyyyyyyyyyyyyyyyyyyyyyyyyyyyyyyyyyyyyyyyyyyyyyyyyyyyyyyyyyyyyyyyyyyyyyyyyyyyyyyyyyyyyyyyyyyyyyyyyyyyyyyyyyyyyyyyyyyyyyyyyyyyyyyyyyyyyyyyyyyyyyyyyyyyyyyyyyyyyyyyyyyyyyyyyyyyyyyyyyyyyyyyyyyyyyyyyyyyyyyyyyyyyyyyyyyyyyyyyyyyyyyyyyyyyyyyyyyyyyyyyyyyyyyyyyyyyyyyyyyyyyyyyyyyyyyyyyyyyyyyyyyyyyyyyyyyyyyyyyyyyyyyyyyyyyyyyyyyyyyyyyyyyyyyyyyyyyyyyyyyyyyyyyyyyyyyyyyyyyyyyyyyyyyyyyyyyyyyyyyyyyyyyyyyyyyyyyyyyyyyyyyyyyyyyyyyyyyyyyyyyyyyyyyyyyyyyyyyyyyyyyyyyyyyyyyyyyyyyyyyyyyyyyyyyyyyyyyyyyyyyyyyyyyyyyyyyyyyyyyyyyyyyyyyyyyyyyyyyyyyyyyyyyyyyyyyyyyyyyyyyyyyyyyyyyyyyyyyyyyyyyyyyyyyyyyyyyyyyyyyyyyyyyyyyyyyyyyyyyyyyyyy'},   # old witness of C12.F43, to= variant (repaired)
    {'op': 'live', 'kind': 'corpus', 'botprefix': 'test!user@host.example', 'nick': 'alice', 'chan': '#chan', 'private': False, 'prefixNick': True, 'noticePriv': True, 'mores': True, 'length': 0, 'maximum': 50, 'instant': 1, 'number': 1, 's': '\x03²yyyyyyyyyyyyyyyyyyyyyyyyyyyyyyyyyyyyyyyyyyyyyyyyyy yyyyyyyyyyyyyyyyyyyyyyyyyyyyyyyyyyyyyyyyyyyyyyyyyy yyyyyyyyyyyyyyyyyyyyyyyyyyyyyyyyyyyyyyyyyyyyyyyyyy yyyyyyyyyyyyyyyyyyyyyyyyyyyyyyyyyyyyyyyyyyyyyyyyyy yyyyyyyyyyyyyyyyyyyyyyyyyyyyyyyyyyyyyyyyyyyyyyyyyy yyyyyyyyyyyyyyyyyyyyyyyyyyyyyyyyyyyyyyyyyyyyyyyyyy yyyyyyyyyyyyyyyyyyyyyyyyyyyyyyyyyyyyyyyyyyyyyyyyyy yyyyyyyyyyyyyyyyyyyyyyyyyyyyyyyyyyyyyyyyyyyyyyyyyy yyyyyyyyyyyyyyyyyyyyyyyyyyyyyyyyyyyyyyyyyyyyyyyyyy yyyyyyyyyyyyyyyyyyyyyyyyyyyyyyyyyyyyyyyyyyyyyyyyyy yyyyyyyyyyyyyyyyyyyyyyyyyyyyyyyyyyyyyyyyyyyyyyyyyy yyyyyyyyyyyyyyyyyyyyyyyyyyyyyyyyyyyyyyyyyyyyyyyyyy'},   # C12.F40
    {'op': 'live', 'kind': 'corpus', 'botprefix': 'test!user@host.example', 'nick': 'alice_in_wonderland', 'chan': '#chan', 'private': True, 'prefixNick': False, 'noticePriv': True, 'mores': True, 'length': 0, 'maximum': 50, 'instant': 1, 'number': 1, 's': 'yyyyyyyyyyyyyyyyyyyyyyyyyyyyyyyyyyyyyyyyyyyyyyyyyyyyyyyyyyyyyyyyyyyyyyyyyyyyyyyyyyyyyyyyyyyyyyyyyyyyyyyyyyyyyyyyyyyyyyyyyyyyyyyyyyyyyyyyyyyyyyyyyyyyyyyyyyyyyyyyyyyyyyyyyyyyyyyyyyyyyyyyyyyyyyyyyyyyyyyyyyyyyyyyyyyyyyyyyyyyyyyyyyyyyyyyyyyyyyyyyyyyyyyyyyyyyyyyyyyyyyyyyyyyyyyyyyyyyyyyyyyyyyyyyyyyyyyyyyyyyyyyyyyyyyyyyyyyyyyyyyyyyyyyyyyyyyyyyyyyyyyyyyyyyyyyyyyyyyyyyyyyyyyyyyyyyyyyyyyyyyyyyyyyyyyyyyyyyyyyyyyyyyyyyyyyyyyyyyyyyyyyyyyyyyyyyyyyyyyyyyyyyyyyyyyyyyyyyyyyyyyyyyyyyyyyyyyyyyyyyyyyyyyyyyyyyyyyyyyyyyyyyyyyyyyyyyyyyyyyyyyyyyyyyyyyyyyyyyyyyyyyyyyyyyyyyyyyyyyyyyyyyyyyyyyyyyyyyyyyyyyyyyyyyyyyyyyyyyyyyyyyyyyyyyyyyyyyyyyyyyyyyyyyyyyyyyyyyyyyyyyyyyyyyyyyyyyyyyyyyyyyyyyyyyyyyyyyyyyyyyyyyyyyyyyyyyyyyyyyyyyyyyyyyyyyyyyyyyyyyyyyyyyyyyyyyyyyyyyyyyyyyyyyyyyyyyyyyyyyyyyyyyyyyyyyyyyyyyyyyyyyyyyyyyyyyyyyyyyy'},   # C12.F42
    {'op': 'live', 'kind': 'corpus', 'botprefix': 'test!user@host.example', 'nick': 'alice', 'chan': '#ééé', 'private': False, 'prefixNick': True, 'noticePriv': True, 'mores': True, 'length': 0, 'maximum': 50, 'instant': 1, 'number': 1, 's': 'yyyyyyyyyyyyyyyyyyyyyyyyyyyyyyyyyyyyyyyyyyyyyyyyyyyyyyyyyyyyyyyyyyyyyyyyyyyyyyyyyyyyyyyyyyyyyyyyyyyyyyyyyyyyyyyyyyyyyyyyyyyyyyyyyyyyyyyyyyyyyyyyyyyyyyyyyyyyyyyyyyyyyyyyyyyyyyyyyyyyyyyyyyyyyyyyyyyyyyyyyyyyyyyyyyyyyyyyyyyyyyyyyyyyyyyyyyyyyyyyyyyyyyyyyyyyyyyyyyyyyyyyyyyyyyyyyyyyyyyyyyyyyyyyyyyyyyyyyyyyyyyyyyyyyyyyyyyyyyyyyyyyyyyyyyyyyyyyyyyyyyyyyyyyyyyyyyyyyyyyyyyyyyyyyyyyyyyyyyyyyyyyyyyyyyyyyyyyyyyyyyyyyyyyyyyyyyyyyyyyyyyyyyyyyyyyyyyyyyyyyyyyyyyyyyyyyyyyyyyyyyyyyyyyyyyyyyyyyyyyyyyyyyyyyyyyyyyyyyyyyyyyyyyyyyyyyyyyyyyyyyyyyyyyyyyyyyyyyyyyyyyyyyyyyyyyyyyyyyyyyyyyyyyyyyyyyyyyyyyyyyyyyyyyyyyyyyyyyyyyyyyyyyyyyyyyyyyyyyyyyyyyyyyyyyyyyyyyyyyyyyyyyyyyyyyyyyyyyyyyyyyyyyyyyyyyyyyyyyyyyyyyyyyyyyyyyyyyyyyyyyyyyyyyyyyyyyyyyyyyyyyyyyyyyyyyyyyyyyyyyyyyyyyyyyyyyyyyyyyyyyyyyyyyyyyyyyyyyyyyyyyyyyyyyyyyyyyyyyyy'},   # C12.F41
    {'op': 'live', 'kind': 'corpus', 'botprefix': 'test!user@host.example', 'nick': 'alice', 'chan': '#chan', 'private': False, 'prefixNick': True, 'noticePriv': True, 'mores': True, 'length': 0, 'maximum': 50, 'instant': 1, 'number': 1, 's': '\x030yyyyyyyyyyyyyyyyyyyyyyyyyyyyyyyyyyyyyyyyyyyyyyyyyyyyyyyyyyyyyyyyyyyyyyyyyyyyyyyyyyyyyyyyyyyyyyyyyyyyyyyyyyyyyyyyyyyyyyyyyyyyyyyyyyyyyyyyyyyyyyyyyyyyyyyyyyyyyyyyyyyyyyyyyyyyyyyyyyyyyyyyyyyyyyyyyyyyyyyyyyyyyyyyyyyyyyyyyyyyyyyyyyyyyyyyyyyyyyyyyyyyyyyyyyyyyyyyyyyyyyyyyyyyyyyyyyyyyyyyyyyyyyyyyyyyyyyyyyyyyyyyyyyyyyyyyyyyyyyyyyyyyyyyyyyyyyyyyyyyyyyyyyyyyyyyyyyyyyyyyyyyyyyyyyyyyyyyyyyyyyyyyyyyyyyyyyyyyyyyyyyyyyyyyyyyyyyyyyyyyyyyyyyyyyyyyyyyyyyyyyyyyyyyyyyyyyyyyyyyyyyyyyyyyyyyyyyyyyyyyyyyyyyyyyyyyyyyyyyyyyyyyyyyyyyyyyyyyyyyyyyyyyyyyyyyyyyyyyyyyyyyyyyyyyyyyyyyyyyyyyyyyyyyyyyyyyyyyyyyyyyyyyyyyyyyyyyyyyyyyyyyyyyyyyyyyyyyyyyyyyyyyyyyyyyyyyyyyyyyyyyyyyyyyyyyyyyyyyyyyyyyyyyyyyyyyyyyyyyyyyyyyyyyyyyyyyyyyyyyyyyyyyyyyyyyyyyyyyyyyyyyyyyyyyyyyyyyyyyyyyyyyyyyyyyyyyyyyyyyyyyyyyyyyyyyyyyyyyyyyyyyyyyyyyyyyyyyyyyyyyyyyyyyyyyyyyyyyyyyyyyyyyyyyyyyyyyyyyyyyyyyyyyyyyyyyyyyyyyyyyyyyyyyyyyyyyyyyyyyyyyyyyyyyyyyyyyyyyyyyyyyyyyyyyyyyyyyyyyyyyyyyyyyyyyyyyyyyyyyyyyyyyyyyyyyyyyyyyyyyyyyyyyyyyyyyyyyyyyyyyyyyyyyyyyyyyyyyyyyyyyyyyyyyyyyyyyyyyyyyyyyyyyyyyyyyyyyyyyyyyyyyyyyyyyyyyyyyyyyyyyyyyyyyyyyyyyyyyyyyyyyyyyyyyyyyyyyyyyyyyyyyyyyyyyyyyyyyyyyyyyyyyyyyyyyyyyyyyyyyyyyyyyyyyyyyyyyyyyyyyyyyyyyyyyyyyyyyyyyyyyyyyyyyyyyyyyyyyyy'},   # C12.F13
    {'op': 'live', 'kind': 'corpus', 'botprefix': 'test!user@host.example', 'nick': 'alice', 'chan': '#chan', 'private': False, 'prefixNick': True, 'noticePriv': True, 'mores': True, 'length': 0, 'maximum': 50, 'instant': 1, 'number': 1, 's': 'yyyyyyyyyyyyyyyyyyyyyyyyyyyyyyyyyyyyyyyyyyyyyyyyyyyyyyyyyyyyyyyyyyyyyyyyyyyyyyyyyyyyyyyyyyyyyyyyyyyyyyyyyyyyyyyyyyyyyyyyyyyyyyyyyyyyyyyyyyyyyyyyyyyyyyyyyyyyyyyyyyyyyyyyyyyyyyyyyyyyyyyyyyyyyyyyyyyyyyyyyyyyyyyyyyyyyyyyyyyyyyyyyyyyyyyyyyyyyyyyyyyyyyyyyyyyyyyyyyyyyyyyyyyyyyyyyyyyyyyyyyyyyyyyyyyyyyyyyyyyyyyyyyyyyyyyyyyyyyyyyyyyyyyyyyyyyyyyyyyyyyyyyyyyyyyyyyyyyyyyyyyyyyyyyyyyyyyyyyyyyyyyyyyyyyyyyyyyyyyyyyyyyyyyyyyyyyyyyyyyyyyyyyyyyyyyyyyyyyyyyyyyyyy yyyyyyyyyyyyyyyyyyyyyyyyyyyyyyyyyyyyyyyyyyyyyyyyyyyyyyyyyyyyyyyyyyyyyyyyyyyyyyyyyyyyyyyyyyyyyyyyyyyyyyyyyyyyyyyyyyyyyyyyyyyyyyyyyyyyyyyyyyyyyyyyyyyyyyyyyyyyyyyyyyyyyyyyyyyyyyyyyyyyyyyyyyyyyyyyyyyyyyyyyyyyyyyyyyyyyyyyyyyyyyyyyyyyyyyyyyyyyyyyyyyyyyyyyyyyyyyyyyyyyyyyyyyyyyyyyyyyyyyyyyyyyyyyyyyyyyyyyyyyyyyyyyyyyyyyyyyyyyyyyyyyyyyyyyyyyyyyyyyyyyyyyyyyyyyyyyyyyyyyyyyyyyyyyyyyyyyyyyyyyyyyyyyyyyyyyyyyyyyyyyyyyyyyyyyyyyyyyyyyyyyyyyyyyyyyyyyyyyyyyyyyyyy yyyyyyyyyyyyyyyyyyyyyyyyyyyyyyyyyyyyyyyyyyyyyyyyyyyyyyyyyyyyyyyyyyyyyyyyyyyyyyyyyyyyyyyyyyyyyyyyyyyyyyyyyyyyyyyyyyyyyyyyyyyyyyyyyyyyyyyyyyyyyyyyyyyyyyyyyyyyyyyyyyyyyyyyyyyyyyyyyyyyyyyyyyyyyyyyyyyyyyyyyyyyyyyyyyyyyyyyyyyyyyyyyyyyyyyyyyyyyyyyyyyyyyyyyyyyyyyyyyyyyyyyyyyyyyyyyyyyyyyyyyyyyyyyyyyyyyyyyyyyyyyyyyyyyyyyyyyyyyyyyyyyyyyyyyyyyyyyyyyyyyyyyyyyyyyyyyyyyyyyyyyyyyyyyyyyyyyyyyyyyyyyyyyyyyyyyyyyyyyyyyyyyyyyyyyyyyyyyyyyyyyyyyyyyyyyyyyyyyyyyyyyyyy yyyyyyyyyyyyyyyyyyyyyyyyyyyyyyyyyyyyyyyyyyyyyyyyyyyyyyyyyyyyyyyyyyyyyyyyyyyyyyyyyyyyyyyyyyyyyyyyyyyyyyyyyyyyyyyyyyyyyyyyyyyyyyyyyyyyyyyyyyyyyyyyyyyyyyyyyyyyyyyyyyyyyyyyyyyyyyyyyyyyyyyyyyyyyyyyyyyyyyyyyyyyyyyyyyyyyyyyyyyyyyyyyyyyyyyyyyyyyyyyyyyyyyyyyyyyyyyyyyyyyyyyyyyyyyyyyyyyyyyyyyyyyyyyyyyyyyyyyyyyyyyyyyyyyyyyyyyyyyyyyyyyyyyyyyyyyyyyyyyyyyyyyyyyyyyyyyyyyyyyyyyyyyyyyyyyyyyyyyyyyyyyyyyyyyyyyyyyyyyyyyyyyyyyyyyyyyyyyyyyyyyyyyyyyyyyyyyyyyyyyyyyyyy yyyyyyyyyyyyyyyyyyyyyyyyyyyyyyyyyyyyyyyyyyyyyyyyyyyyyyyyyyyyyyyyyyyyyyyyyyyyyyyyyyyyyyyyyyyyyyyyyyyyyyyyyyyyyyyyyyyyyyyyyyyyyyyyyyyyyyyyyyyyyyyyyyyyyyyyyyyyyyyyyyyyyyyyyyyyyyyyyyyyyyyyyyyyyyyyyyyyyyyyyyyyyyyyyyyyyyyyyyyyyyyyyyyyyyyyyyyyyyyyyyyyyyyyyyyyyyyyyyyyyyyyyyyyyyyyyyyyyyyyyyyyyyyyyyyyyyyyyyyyyyyyyyyyyyyyyyyyyyyyyyyyyyyyyyyyyyyyyyyyyyyyyyyyyyyyyyyyyyyyyyyyyyyyyyyyyyyyyyyyyyyyyyyyyyyyyyyyyyyyyyyyyyyyyyyyyyyyyyyyyyyyyyyyyyyyyyyyyyyyyyyyyyy yyyyyyyyyyyyyyyyyyyyyyyyyyyyyyyyyyyyyyyyyyyyyyyyyyyyyyyyyyyyyyyyyyyyyyyyyyyyyyyyyyyyyyyyyyyyyyyyyyyyyyyyyyyyyyyyyyyyyyyyyyyyyyyyyyyyyyyyyyyyyyyyyyyyyyyyyyyyyyyyyyyyyyyyyyyyyyyyyyyyyyyyyyyyyyyyyyyyyyyyyyyyyyyyyyyyyyyyyyyyyyyyyyyyyyyyyyyyyyyyyyyyyyyyyyyyyyyyyyyyyyyyyyyyyyyyyyyyyyyyyyyyyyyyyyyyyyyyyyyyyyyyyyyyyyyyyyyyyyyyyyyyyyyyyyyyyyyyyyyyyyyyyyyyyyyyyyyyyyyyyyyyyyyyyyyyyyyyyyyyyyyyyyyyyyyyyyyyyyyyyyyyyyyyyyyyyyyyyyyyyyyyyyyyyyyyyyyyyyyyyyyyyyy yyyyyyyyyyyyyyyyyyyyyyyyyyyyyyyyyyyyyyyyyyyyyyyyyyyyyyyyyyyyyyyyyyyyyyyyyyyyyyyyyyyyyyyyyyyyyyyyyyyyyyyyyyyyyyyyyyyyyyyyyyyyyyyyyyyyyyyyyyyyyyyyyyyyyyyyyyyyyyyyyyyyyyyyyyyyyyyyyyyyyyyyyyyyyyyyyyyyyyyyyyyyyyyyyyyyyyyyyyyyyyyyyyyyyyyyyyyyyyyyyyyyyyyyyyyyyyyyyyyyyyyyyyyyyyyyyyyyyyyyyyyyyyyyyyyyyyyyyyyyyyyyyyyyyyyyyyyyyyyyyyyyyyyyyyyyyyyyyyyyyyyyyyyyyyyyyyyyyyyyyyyyyyyyyyyyyyyyyyyyyyyyyyyyyyyyyyyyyyyyyyyyyyyyyyyyyyyyyyyyyyyyyyyyyyyyyyyyyyyyyyyyyyy yyyyyyyyyyyyyyyyyyyyyyyyyyyyyyyyyyyyyyyyyyyyyyyyyyyyyyyyyyyyyyyyyyyyyyyyyyyyyyyyyyyyyyyyyyyyyyyyyyyyyyyyyyyyyyyyyyyyyyyyyyyyyyyyyyyyyyyyyyyyyyyyyyyyyyyyyyyyyyyyyyyyyyyyyyyyyyyyyyyyyyyyyyyyyyyyyyyyyyyyyyyyyyyyyyyyyyyyyyyyyyyyyyyyyyyyyyyyyyyyyyyyyyyyyyyyyyyyyyyyyyyyyyyyyyyyyyyyyyyyyyyyyyyyyyyyyyyyyyyyyyyyyyyyyyyyyyyyyyyyyyyyyyyyyyyyyyyyyyyyyyyyyyyyyyyyyyyyyyyyyyyyyyyyyyyyyyyyyyyyyyyyyyyyyyyyyyyyyyyyyyyyyyyyyyyyyyyyyyyyyyyyyyyyyyyyyyyyyyyyyyyyyyy yyyyyyyyyyyyyyyyyyyyyyyyyyyyyyyyyyyyyyyyyyyyyyyyyyyyyyyyyyyyyyyyyyyyyyyyyyyyyyyyyyyyyyyyyyyyyyyyyyyyyyyyyyyyyyyyyyyyyyyyyyyyyyyyyyyyyyyyyyyyyyyyyyyyyyyyyyyyyyyyyyyyyyyyyyyyyyyyyyyyyyyyyyyyyyyyyyyyyyyyyyyyyyyyyyyyyyyyyyyyyyyyyyyyyyyyyyyyyyyyyyyyyyyyyyyyyyyyyyyyyyyyyyyyyyyyyyyyyyyyyyyyyyyyyyyyyyyyyyyyyyyyyyyyyyyyyyyyyyyyyyyyyyyyyyyyyyyyyyyyyyyyyyyyyyyyyyyyyyyyyyyyyyyyyyyyyyyyyyyyyyyyyyyyyyyyyyyyyyyyyyyyyyyyyyyyyyyyyyyyyyyyyyyyyyyyyyyyyyyyyyyyyyy yyyyyyyyyyyyyyyyyyyyyyyyyyyyyyyyyyyyyyyyyyyyyyyyyyyyyyyyyyyyyyyyyyyyyyyyyyyyyyyyyyyyyyyyyyyyyyyyyyyyyyyyyyyyyyyyyyyyyyyyyyyyyyyyyyyyyyyyyyyyyyyyyyyyyyyyyyyyyyyyyyyyyyyyyyyyyyyyyyyyyyyyyyyyyyyyyyyyyyyyyyyyyyyyyyyyyyyyyyyyyyyyyyyyyyyyyyyyyyyyyyyyyyyyyyyyyyyyyyyyyyyyyyyyyyyyyyyyyyyyyyyyyyyyyyyyyyyyyyyyyyyyyyyyyyyyyyyyyyyyyyyyyyyyyyyyyyyyyyyyyyyyyyyyyyyyyyyyyyyyyyyyyyyyyyyyyyyyyyyyyyyyyyyyyyyyyyyyyyyyyyyyyyyyyyyyyyyyyyyyyyyyyyyyyyyyyyyyyyyyyyyyyyy yyyyyyyyyyyyyyyyyyyyyyyyyyyyyyyyyyyyyyyyyyyyyyyyyyyyyyyyyyyyyyyyyyyyyyyyyyyyyyyyyyyyyyyyyyyyyyyyyyyyyyyyyyyyyyyyyyyyyyyyyyyyyyyyyyyyyyyyyyyyyyyyyyyyyyyyyyyyyyyyyyyyyyyyyyyyyyyyyyyyyyyyyyyyyyyyyyyyyyyyyyyyyyyyyyyyyyyyyyyyyyyyyyyyyyyyyyyyyyyyyyyyyyyyyyyyyyyyyyyyyyyyyyyyyyyyyyyyyyyyyyyyyyyyyyyyyyyyyyyyyyyyyyyyyyyyyyyyyyyyyyyyyyyyyyyyyyyyyyyyyyyyyyyyyyyyyyyyyyyyyyyyyyyyyyyyyyyyyyyyyyyyyyyyyyyyyyyyyyyyyyyyyyyyyyyyyyyyyyyyyyyyyyyyyyyyyyyyyyyyyyyyyyy yyyyyyyyyyyyyyyyyyyyyyyyyyyyyyyyyyyyyyyyyyyyyyyyyyyyyyyyyyyyyyyyyyyyyyyyyyyyyyyyyyyyyyyyyyyyyyyyyyyyyyyyyyyyyyyyyyyyyyyyyyyyyyyyyyyyyyyyyyyyyyyyyyyyyyyyyyyyyyyyyyyyyyyyyyyyyyyyyyyyyyyyyyyyyyyyyyyyyyyyyyyyyyyyyyyyyyyyyyyyyyyyyyyyyyyyyyyyyyyyyyyyyyyyyyyyyyyyyyyyyyyyyyyyyyyyyyyyyyyyyyyyyyyyyyyyyyyyyyyyyyyyyyyyyyyyyyyyyyyyyyyyyyyyyyyyyyyyyyyyyyyyyyyyyyyyyyyyyyyyyyyyyyyyyyyyyyyyyyyyyyyyyyyyyyyyyyyyyyyyyyyyyyyyyyyyyyyyyyyyyyyyyyyyyyyyyyyyyyyyyyyyyyy'},   # C12.F12
    {'op': 'live', 'kind': 'corpus', 'botprefix': 'test!user@host.example', 'nick': 'alice', 'chan': '#chan', 'private': False, 'prefixNick': True, 'noticePriv': True, 'mores': True, 'length': 0, 'maximum': 50, 'instant': 1, 'number': 1, 's': 'aaaaaaaaaaaaaaaaaaaaaaaaaaaaaaaaaaaaaaaaaaaaaaaaaaaaaaaaaaaaaaaaaaaaaaaaaaaaaaaaaaaaaaaaaaaaaaaaaaaaaaaaaaaaaaaaaaaaaaaaaaaaaaaaaaaaaaaaaaaaaaaaaaaaaaaaaaaaaaaaaaaaaaaaaaaaaaaaaaaaaaaaaaaaaaaaaaaaaaaaaaaaaaaaaaaaaaaaaaaaaaaaaaaaaaaaaaaaaaaaaaaaaaaaaaaaaaaaaaaaaaaaaaaaaaaaaaaaaaaaaaaaaaaaaaaaaaaaaaaaaaaaaaaaaaaaaaaaaaaaaaaaaaaaaaaaaaaaaaaaaaaaaaaaaaaaaaaaaaaaaaaaaaaaaaaaaaaaaaaaaaaaaaaaaaaaaaaaaaaaaaaaaaaaaaaaaaaaaaaaaaaaaaaaaaaaaaaa\x0312bbbbbbbbbbbbbbbbbbbbbbbbbbbbbbbbbbbbbbbbbbbbbbbbbbbbbbbbbbbbbbbbbbbbbbbbbbbbbbbbbbbbbbbbbbbbbbbbbbbb'},   # C12.F14
    {'op': 'live', 'kind': 'corpus', 'botprefix': 'test!user@host.example', 'nick': 'alice', 'chan': '#chan', 'private': False, 'prefixNick': True, 'noticePriv': True, 'mores': True, 'length': 0, 'maximum': 50, 'instant': 1, 'number': 1, 's': '\x030yyyyyyyyyyyyyyyyyyyyyyyyyyyyyyyyyyyyyyyyyyyyyyyyyyyyyyyyyyyyyyyyyyyyyyyyyyyyyyyyyyyyyyyyyyyyyyyyyyyyyyyyyyyyyyyyyyyyyyyyyyyyyyyyyyyyyyyyyyyyyyyyyyyyyyyyyyyyyyyyyyyyyyyyyyyyyyyyyyyyyyyyyyyyyyyyyyyyyyyyyyyyyyyyyyyyyyyyyyyyyyy yyyyyyyyyyyyyyyyyyyyyyyyyyyyyyyyyyyyyyyyyyyyyyyyyyyyyyyyyyyyyyyyyyyyyyyyyyyyyyyyyyyyyyyyyyyyyyyyyyyyyyyyyyyyyyyyyyyyyyyyyyyyyyyyyyyyyyyyyyyyyyyyyyyyyyyyyyyyyyyyyyyyyyyyyyyyyyyyyyyyyyyyyyyyyyyyyyyyyyyyyyyyyyyyyyyyyyyyyyyyyyy yyyyyyyyyyyyyyyyyyyyyyyyyyyyyyyyyyyyyyyyyyyyyyyyyyyyyyyyyyyyyyyyyyyyyyyyyyyyyyyyyyyyyyyyyyyyyyyyyyyyyyyyyyyyyyyyyyyyyyyyyyyyyyyyyyyyyyyyyyyyyyyyyyyyyyyyyyyyyyyyyyyyyyyyyyyyyyyyyyyyyyyyyyyyyyyyyyyyyyyyyyyyyyyyyyyyyyyyyyyyyyy yyyyyyyyyyyyyyyyyyyyyyyyyyyyyyyyyyyyyyyyyyyyyyyyyyyyyyyyyyyyyyyyyyyyyyyyyyyyyyyyyyyyyyyyyyyyyyyyyyyyyyyyyyyyyyyyyyyyyyyyyyyyyyyyyyyyyyyyyyyyyyyyyyyyyyyyyyyyyyyyyyyyyyyyyyyyyyyyyyyyyyyyyyyyyyyyyyyyyyyyyyyyyyyyyyyyyyyyyyyyyyy yyyyyyyyyyyyyyyyyyyyyyyyyyyyyyyyyyyyyyyyyyyyyyyyyyyyyyyyyyyyyyyyyyyyyyyyyyyyyyyyyyyyyyyyyyyyyyyyyyyyyyyyyyyyyyyyyyyyyyyyyyyyyyyyyyyyyyyyyyyyyyyyyyyyyyyyyyyyyyyyyyyyyyyyyyyyyyyyyyyyyyyyyyyyyyyyyyyyyyyyyyyyyyyyyyyyyyyyyyyyyyy yyyyyyyyyyyyyyyyyyyyyyyyyyyyyyyyyyyyyyyyyyyyyyyyyyyyyyyyyyyyyyyyyyyyyyyyyyyyyyyyyyyyyyyyyyyyyyyyyyyyyyyyyyyyyyyyyyyyyyyyyyyyyyyyyyyyyyyyyyyyyyyyyyyyyyyyyyyyyyyyyyyyyyyyyyyyyyyyyyyyyyyyyyyyyyyyyyyyyyyyyyyyyyyyyyyyyyyyyyyyyyy'},
]


def check_live(ctx, inp, ircutils, kind=None):
    ctx.case('live-' + (kind or inp.get('kind', 'x')), inp, nontrivial=bool(inp['s']))
    if _live_hangs[0] >= 3 and 0 < inp['length'] < 60:
        ctx.dist['live-hang-skipped'] += 1      # the bot already hung three times on tiny chunk lengths: enough witnesses
        return
    g = live_guarded(inp)
    if g[0] != 'ok':
        _live_hangs[0] += 1
        ctx.fail(inp, 'the bot did not answer: reply() was still running after %d s (%r)' % (WATCHDOG, g[1]))
        return
    public, rounds = g[1]
    times = len(rounds) - 1
    mo = ctx.model([live_wire(inp, public, times)])[0]
    if mo is not None:
        mr = wire.r(mo, lambda t: [wire.ls(x) for x in t])
        if mr[0] == 'ok':
            if mr[1] != rounds:
                k = next((j for j in range(min(len(mr[1]), len(rounds))) if mr[1][j] != rounds[j]), -1)
                ctx.disagree(inp, mr[1][k] if k >= 0 else len(mr[1]), rounds[k] if k >= 0 else len(rounds), 'live transcript, round %d' % k)
        else:
            flat = [m for r in rounds for m in r]
            if not (flat and ERR in flat[0]):
                ctx.disagree(inp, mr, rounds[:2], 'live: model raises, bot answered')
    if inp.get('rename'):
        # the model of Irc.feedMsg / Irc.doNick on the same events
        nicks, (user, host) = inp['rename'], inp['botprefix'].split('!', 1)[1].split('@', 1)
        evs = [[0, nicks[0], user, host, '']] + [[1, cur, user, host, new] for cur, new in zip(nicks, nicks[1:])]
        io = ctx.model([[9, [nicks[0], '%s!limnoria@unset.domain' % nicks[0], evs]]])[0]
        if io is not None and [wire.s(io[0]), wire.s(io[1])] != inp['_ident']:
            ctx.disagree(inp, [wire.s(io[0]), wire.s(io[1])], inp['_ident'], 'irc.nick / irc.prefix after own JOIN and NICK')
        if inp['_ident'] != [inp['botprefix'].split('!')[0], inp['botprefix']]:
            ctx.fail(inp, 'irc.nick / irc.prefix are %r but the server knows the bot as %r' % (inp['_ident'], inp['botprefix']))
    live_oracle(ctx, inp, public, owner_rounds(inp, rounds), ircutils)


# --------------------------------------------------------------------------
# boundary scenarios outside the reply()/more model (gap audit): each returns a failure detail or None
def scenario(inp):
    b = bot()
    irc, conf, ircmsgs = b['irc'], b['conf'], b['ircmsgs']
    import supybot.callbacks as callbacks
    callbacks.NestedCommandsIrcProxy._mores.clear()
    set_language(None)
    for name, val in (('mores', True), ('withNickPrefix', True), ('inPrivate', False), ('withNotice', False)):
        getattr(conf.supybot.reply, name).setValue(val)
    conf.supybot.reply.mores.length.setValue(0)
    conf.supybot.reply.mores.instant.setValue(1)
    conf.supybot.plugins.Misc.mores.setValue(1)
    irc.nick, irc.prefix = 'test', 'test!user@host.example'
    b['n'] += 1
    head = ':' + irc.prefix + ' '
    drain(irc)
    if inp['scenario'] == 'long_error':
        # irc.error() is a reply too, but it is never split: _truncateMsg cuts it, the relayed line is still too long
        if 'Err' not in b:
            class Err(callbacks.Plugin):
                text = ''

                def fail(self, irc, msg, args):
                    irc.error(Err.text)
            Err.__module__ = 'Err'
            irc.addCallback(Err(irc))
            b['Err'] = Err
        b['Err'].text = inp['s']
        irc.feedMsg(ircmsgs.privmsg('#chan', '@fail', prefix='alice!a%d@h.example' % b['n']))
        out = drain(irc)
        shown = ''.join(re.sub(r'^(PRIVMSG|NOTICE) \S+ :(alice: )?(Error: )?', '', m)[:-2] for m in out)
        over = [len((head + m).encode()) for m in out if len((head + m).encode()) > 512]
        if over or dews(inp['s']) not in dews(shown):
            return 'error reply: relayed line of %r bytes, %d of %d characters of the text shown' % (over, len(dews(shown)), len(dews(inp['s'])))
    elif inp['scenario'] == 'shared_userhost':
        # _mores is keyed by user@host: two users behind the same gateway share one pending list
        em = b['Emit']
        em.kw = {}
        mask = 'web@gateway%d.example' % b['n']
        em.payload = inp['s']
        irc.feedMsg(ircmsgs.privmsg('#chan', '@emit', prefix='alice!' + mask))
        drain(irc)
        em.payload = inp['other']
        irc.feedMsg(ircmsgs.privmsg('#chan', '@emit', prefix='bob!' + mask))
        drain(irc)
        irc.feedMsg(ircmsgs.privmsg('#chan', '@more', prefix='alice!' + mask))
        out = drain(irc)
        if not out or inp['s'][-40:-30] in inp['other'] or not any(x in out[0] for x in (inp['s'][500:520],)) :
            return "alice's `more` after bob's reply (same user@host) gives %r" % (out[0][:60] if out else None)
    elif inp['scenario'] == 'chghost':
        # the server changes the bot's visible host (CHGHOST / 396): irc.prefix keeps the old one
        irc.feedMsg(ircmsgs.IrcMsg(':test!user@host.example JOIN #chan'))
        if inp['how'] == 'chghost':
            irc.feedMsg(ircmsgs.IrcMsg(':test!user@host.example CHGHOST user %s' % inp['host']))
        else:
            irc.feedMsg(ircmsgs.IrcMsg(':irc.example 396 test %s :is now your visible host' % inp['host']))
        drain(irc)
        head = ':test!user@%s ' % inp['host']
        b['Emit'].kw = {}
        b['Emit'].payload = inp['s']
        irc.feedMsg(ircmsgs.privmsg('#chan', '@emit', prefix='alice!a%d@h.example' % b['n']))
        out = drain(irc)
        over = [len((head + m).encode()) for m in out if len((head + m).encode()) > 512]
        if over:
            return 'after the host change irc.prefix is %r; relayed line of %r bytes' % (irc.prefix, over)
    return None


WATCHDOG = 4
_live_hangs = [0]


def live_guarded(inp):
    """live_run under a repeating watchdog: a reply() that never returns is interrupted (again and again: the
    bot's own error reply may hang too), so the check itself cannot hang"""
    g = guarded(lambda: live_run(inp, max_rounds=(700 if 0 < inp['length'] < 60 else 400)), WATCHDOG, repeat=True)
    if g[0] != 'ok':
        irc = bot()['irc']
        guarded(lambda: drain(irc), WATCHDOG, repeat=True)
    return g


def owner_rounds(inp, rounds):
    """the rounds of the reply's owner: the first answer and the outputs of her own `more` commands"""
    if 'ops' not in inp:
        return rounds
    mine = [rounds[0]] + [r for o, r in zip(inp['_ops'], rounds[1:]) if o == 'A']
    while len(mine) > 2 and not mine[-1] and not mine[-2]:      # `more` after exhaustion: one empty answer is enough
        mine.pop()
    return mine


def run(ctx):
    ircutils, utils = mods()
    for inp in LIVE_CORPUS:          # witnesses of the repaired defects first
        check_live(ctx, inp, ircutils)
    for inp in SCENARIOS:            # boundary scenarios (known findings F46-F48)
        ctx.case('scenario-' + inp['scenario'], inp)
        d = scenario(inp)
        if d:
            ctx.fail(inp, d)
    run_unit(ctx, unit_inputs(ctx), ircutils, utils)
    rng = ctx.rng
    plan = (('plain', 120), ('mb', 100), ('ws', 60), ('fmt', 120), ('color0', 40), ('junction', 60), ('hostile', 80), ('many', 20),
            ('nonascii', 15), ('privnick', 15), ('keywords', 150), ('nickmore', 80), ('rename', 60), ('locale', 40), ('unsafe', 80), ('tiny', 40))
    for kind, base in plan:
        for _ in range(ctx.n(base)):
            check_live(ctx, gen_live(rng, kind), ircutils)


def replay(ctx, inp):
    ircutils, utils = mods()
    sub = type(ctx)(ctx.pid, ctx.tier, ctx.seed, {'model_ok': False})
    if inp['op'] == 'scenario':
        return scenario(inp)
    if inp['op'] == 'unit':
        text, size = inp['text'], inp['size']
        ib = guarded(lambda: utils.str.byteTextWrap(text, size), 5)
        iw = guarded(lambda: ircutils.wrap(text, size), 5)
        unit_oracle(sub, inp, text, size, ib, iw, ircutils)
    else:
        inp = dict(inp)
        g = live_guarded(inp)
        if g[0] != 'ok':
            return 'the bot did not answer: reply() was still running after %d s (%r)' % (WATCHDOG, g[1])
        public, rounds = g[1]
        if inp.get('rename') and inp['_ident'] != [inp['botprefix'].split('!')[0], inp['botprefix']]:
            sub.fail(inp, 'irc.nick / irc.prefix are %r but the server knows the bot as %r' % (inp['_ident'], inp['botprefix']))
        live_oracle(sub, inp, public, owner_rounds(inp, rounds), ircutils)
    return sub.failures[0]['detail'] if sub.failures else None


def shrink(ctx, inp):
    if inp['op'] == 'scenario':
        return inp
    key = 's' if inp['op'] == 'live' else 'text'
    d0 = replay(ctx, inp)
    if not d0:
        return inp
    tag = str(d0)[:18]

    def fails(t):
        d = replay(ctx, dict(inp, **{key: t}))
        return d is not None and str(d)[:18] == tag
    # words first, then characters
    words = inp[key].split(' ')
    small = shrink_seq(words, lambda ws: fails(' '.join(ws)), budget=120)
    t = ' '.join(small)
    if len(t) <= 200:
        t = shrink_seq(t, fails, budget=200)
    return dict(inp, **{key: t})
