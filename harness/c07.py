"""C07 — no line from the server can kill the connection loop or stop later processing."""
import datetime, os, re, socket, ssl, sys
import boot
from lib import wire
from lib.shrink import shrink_seq

TABLES = ['T05', 'T07']
RULE = ('each case = a byte stream cut into recv() chunks (plus recv faults: timeout, SSL timeout, close, socket.error) + a fault '
        'script for the test plugins (inFilter/__call__/outFilter of up to 3 callbacks raise on demand, return None, or ask for a '
        'reconnect), a faulty IrcState.addMsg and a fault-raising Irc handler (XBOOM <code>).  The real SocketDriver (built with '
        '__new__, fake conn with a real readable fd) + real irclib.Irc are registered in drivers._drivers and drivers.run() is '
        'called once per chunk.  Observed: exception class leaving driver.run() per call, driver still in _drivers, PONG payloads '
        'written to the socket, the plugin call log, the lines given to feedMsg, connected, inbuffer — all diffed against the '
        'extracted model.  Streams: corpus, structured mostly-valid server traffic, hostile grammar (parse-clean and malformed), '
        'random bytes / invalid UTF-8, lines whose echoed fields (PING argument with and without ":", JOIN channel, NICK, CAP, 433, '
        'AUTHENTICATE) carry latin-1 / lone continuation bytes / overlong forms / encoded surrogates / NUL, random chunking; the real '
        'decode_raw_line runs inside the real _read and the real encode of the outgoing messages (Irc._truncateMsg inside takeMsg, data.encode() in _sendIfMsgs) on the real send path.  Direct oracle: nothing escapes, driver stays registered, a final '
        'well-formed PING is answered.  non-trivial = distinct case with at least one complete non-blank line')
TRUSTED = ['utils.str.decode_raw_line enters the model as a Section variable (any total function bytes->str); in the run the REAL function '
           'decodes the real bytes inside SocketDriver._read and the REAL encodes run on the send path; the model is given the '
           'graph of the real function on the lines of the case and models both send-side encodes (Irc._truncateMsg under the takeMsg '
           'firewall: the message is dropped; data.encode() in _sendIfMsgs: an escape point, unreachable after the first); the '
           'extractor checks decode_raw_line only uses the error handlers strict/replace; charade is not installed so only the utf-8 '
           'strict/replace branches run; outgoing messages other than PONG are not in the model (a failure to send them shows as an '
           'escape in the direct oracle and as a disagreement)',
           'datetime.strptime enters as Section variable vt (the harness evaluates the real strptime on the time tag of each line)',
           'conn.recv outcomes are explicit inputs (data / b"" / socket.timeout / SSLError / socket.error); conn.send accepts everything; '
           'select.select sees an always-readable pipe fd',
           'SocketDriver.reconnect/_handleSocketError are reduced to "connected := False" (reconnect is stubbed on the instance and recorded); '
           'EAGAIN counting, zombie drivers, Irc.zombie, the ping timer (protocols.irc.ping off) and outFilters that drop or rewrite '
           'messages are outside the model',
           'Irc handlers other than doPing and the _nickSetters bookkeeping are arbitrary functions in the model; in the run their '
           'outcome (raised or not, asked to reconnect or not) is observed through a passive first callback and supplied to the model',
           'BaseException-only exceptions (SystemExit/KeyboardInterrupt; a test class Boom) are modelled and diffed but exempt from the '
           'direct oracle: they are requests to stop, not plugin faults']
ASSUMPTIONS = ['world.testing/log.testing off (log.firewall re-raises under testing)', 'one driver, one network, throttleTime 0',
               'handlers and callbacks touch the driver only through driver.reconnect(); they do not call irc.die()/driver.die()']
LEVEL_TEXT = ('Coq theorems over an executable exception-flow model of drivers.run / SocketDriver.run,_read,_sendIfMsgs / drivers.parseMsg '
              '(= the C05 parser model) / log.firewall / Irc.feedMsg,takeMsg,doPing with handlers, IrcState.addMsg and plugin callbacks as '
              'arbitrary state-mutating, raising functions: the firewall lets nothing but a BaseException of an Irc handler out of feedMsg; '
              'for EVERY byte stream, chunking and recv fault sequence the driver stays registered and nothing leaves driver.run() '
              '(full statement since the repairs of C07.F4 — per-line try/except in _read — and C05.F3 — TypeError in IrcMsg.__init__: '
              'the parser model raises only MalformedIrcMsg and the guard table catches it), provided decode_raw_line yields no lone '
              'surrogate; a PING after any prefix of bytes is answered; the domain also says what the send side assumes: every echoed PONG payload is '
              'encodable (no lone surrogate), which a decode_raw_line restricted to strict/replace guarantees.  The except-clause lists of _read, drivers.run, log.firewall, feedMsg and the '
              '__firewalled__ dictionaries are regenerated from the source on every run; the model is run beside the real driver + Irc.')
LEVEL_NOTE = ('Trusted: Coq kernel, gen_tables.py/t07.py, extraction + OCaml driver, the Python harness; decode_raw_line, strptime, recv and '
              'handler outcomes are explicit inputs; Python code is modelled, not verified.  NOT MODELLED (gap audit; probed on the real '
              'code where possible, none contradicted the property): (1) the reconnect path — SocketDriver.reconnect/connect, Irc.reset, '
              'scheduleReconnect — is reduced to connected:=False; probes with ERROR/STS-triggered real reconnects and raising '
              'callback.reset() were clean, but an exception raised inside reconnect() between `connected = False` and '
              'scheduleReconnect() (operator configuration errors, not server bytes) leaves the driver registered and never reconnecting, '
              'or removed when it comes from SocketDriver.run; (2) outgoing messages other than PONG (replies of real plugins, the emulated '
              'echo that re-enters feedMsg from takeMsg, the asserts on re-sent received messages) — no stock plugin is loaded, callbacks '
              'are scripted; (3) non-raising faults of plugins: blocking, infinite reply loops on the emulated echo (with throttleTime 0), '
              'outFilters that drop/rewrite the PONG, irc.die()/driver.die(), Irc.zombie; (4) the ping timer of takeMsg (protocols.irc.ping '
              'is off in the run); (5) the charade branch of decode_raw_line (charade is not installed; its detector calls sit outside the '
              'per-line guard of _read); (6) recv exceptions with empty args (e.args[0] in the handlers of _read / _handleSocketError), '
              'EAGAIN counting, partial sends; (7) more than one driver: SocketDriver._select reads for every instance, so what leaves one '
              'network\'s _read (only a BaseException after the repairs) is blamed on the driver whose run() called it; (8) tag/state '
              'bookkeeping of Irc handlers other than doPing, _nickSetters and the ISUPPORT entries read by _tagMsg is an arbitrary '
              'function in the model (its outcome is observed, not predicted); (9) unbounded inbuffer growth on a stream without newline.')
TECHNIQUE = 'Coq proof (invariant over the run of drivers.run() calls, induction over lines/callbacks) + regenerated except-clause/firewall tables + extracted-model differential run'
EXPLANATION = 'C07: exception-flow model of the connection loop; theorems in coq/C07/Props.v'

FMT = '%Y-%m-%dT%H:%M:%S.%fZ'
NAME = 'verif-c07-driver'
_env = {}


class Boom(BaseException):
    """a BaseException that is not an Exception (stands for SystemExit/KeyboardInterrupt)"""


def mk_exc(code):
    ircmsgs = _env['ircmsgs']
    return {1: IndexError('x'), 2: ValueError('x'), 3: KeyError('x'), 4: TypeError('x'), 5: AssertionError('x'),
            6: AttributeError('x'), 7: UnicodeError('x'), 8: ircmsgs.MalformedIrcMsg('x'), 9: SyntaxError('x'),
            12: RuntimeError('x'), 20: OSError(104, 'reset'), 21: socket.timeout('timed out'),
            22: ssl.SSLError('The read operation timed out'), 23: ssl.SSLError('other'), 24: Boom('x')}[code]


def exc_code(e):
    ircmsgs = _env['ircmsgs']
    if isinstance(e, ssl.SSLError):
        return 22 if e.args and e.args[0] == 'The read operation timed out' else 23
    if isinstance(e, socket.timeout):
        return 21
    if isinstance(e, OSError):
        return 20
    if not isinstance(e, Exception):
        return 24
    for code, cls in ((8, ircmsgs.MalformedIrcMsg), (7, UnicodeError), (1, IndexError), (3, KeyError), (2, ValueError),
                      (4, TypeError), (5, AssertionError), (6, AttributeError), (9, SyntaxError)):
        if isinstance(e, cls):
            return code
    return 12


def env():
    if _env:
        return _env
    boot.boot()
    import supybot.conf as conf, supybot.irclib as irclib, supybot.drivers as drivers, supybot.ircmsgs as ircmsgs
    import supybot.world as world, supybot.log as log
    import supybot.drivers.Socket as S
    from supybot.utils.str import decode_raw_line
    conf.supybot.protocols.irc.ping.setValue(False)
    conf.supybot.drivers.poll.setValue(0.0001)
    # logging ON (boot switches it off): supybot.log.Logger._log runs every message through utils.str.format before any
    # handler sees it, so a log call on the read path is code that can raise.  Level DEBUG = every log call formats.
    import logging
    logging.disable(logging.NOTSET)
    lg = logging.getLogger('supybot')
    for h in list(lg.handlers):
        lg.removeHandler(h)
    lg.addHandler(logging.NullHandler())
    lg.propagate = False
    lg.setLevel(logging.DEBUG)
    r, w = os.pipe()
    os.write(w, b'x')
    _env.update(conf=conf, irclib=irclib, drivers=drivers, ircmsgs=ircmsgs, world=world, log=log, S=S,
                decode=decode_raw_line, fd=r, fdw=w)

    class H:           # per-case observation record
        pass
    _env['H'] = H

    class FakeConn:
        def __init__(self):
            self.item = None
            self.sent = b''
            self._closed = False

        def recv(self, n):
            it, self.item = self.item, None
            assert it is not None, 'recv called twice in one drivers.run()'
            if it[0] == 'd':
                b = it[1].encode('latin-1')
                assert 0 < len(b) <= n
                return b
            if it[0] == 'c':
                return b''
            raise mk_exc(it[1])

        def send(self, b):
            self.sent += b
            return len(b)

        def close(self):
            pass

        def settimeout(self, t):
            pass

        def shutdown(self, *a):
            pass

        def fileno(self):
            return _env['fd']
    _env['FakeConn'] = FakeConn

    class Rec(irclib.IrcCallback):
        """passive first callback: sees a message iff the handler stage of feedMsg returned normally"""
        def name(self):
            return 'Rec'

        def inFilter(self, irc, msg):
            H.seen.add(H.cur)
            return msg

        def __call__(self, irc, msg):
            pass
    _env['Rec'] = Rec

    def make_testcb(base):
        """the scripted faulty callback, derived from [base]: irclib.IrcCallback (kind 'cb') or callbacks.Plugin (kind
        'plugin', what every real plugin derives from); the metaclass of [base] decides which of its methods get the firewall"""
        class TestCb(base):
            def __init__(self, i, spec):
                self.i, self.spec = i, spec

            def name(self):
                return 'T%d' % self.i

            def _do(self, irc, row):
                if row:
                    if row[1]:
                        H.stage = 'cb'
                        irc.driver.reconnect()
                    if row[2]:
                        raise mk_exc(row[2])

            def inFilter(self, irc, msg):
                n = H.cur
                if self.i == 0:
                    H.seen.add(n)       # callback 0 is passive: it sees a message iff the handler stage returned normally
                H.log.append([1, n, self.i])
                row = self.spec['in'].get(n)
                self._do(irc, row)
                if row and len(row) > 3 and not row[3]:
                    return None
                return msg

            def __call__(self, irc, msg):
                n = H.cur
                H.log.append([2, n, self.i])
                self._do(irc, self.spec['call'].get(n))

            def outFilter(self, irc, msg):
                if msg.command == 'PONG':
                    a = msg.args[0]
                    H.log.append([3, self.i] + [ord(c) for c in a])
                    trig, code = self.spec['out']
                    if code and (trig == 0 or a[:1] == chr(trig)):
                        raise mk_exc(code)
                return msg
        return TestCb
    import supybot.callbacks as callbacks
    _env['TestCb'] = make_testcb(irclib.IrcCallback)
    _env['TestPlugin'] = make_testcb(callbacks.Plugin)
    _env['TestRegexp'] = make_testcb(callbacks.PluginRegexp)
    _env['callbacks'] = callbacks

    class FaultyState(irclib.IrcState):
        def addMsg(self, irc, msg):
            row = H.addmsg.get(H.cur)
            if row:
                if row[1]:
                    H.stage = 'cb'
                    irc.driver.reconnect()
                if row[2]:
                    raise mk_exc(row[2])
            return irclib.IrcState.addMsg(self, irc, msg)
    _env['FaultyState'] = FaultyState

    class TIrc(irclib.Irc):
        def doXboom(self, msg):
            """an Irc handler that raises on demand: XBOOM <code> [r]"""
            if len(msg.args) > 1:
                self.driver.reconnect()
            raise mk_exc(int(msg.args[0]))
    _env['TIrc'] = TIrc
    return _env


XBOOM_CODES = (1, 2, 3, 4, 5, 6, 7, 8, 9, 12, 20, 21, 22, 23, 24)


def cb_class(poison, kind='cb'):
    """the test callback class; poison != 0: its objects have a property whose getter raises that exception, i.e. what
    Logger.exception's debug helper (utils.python.collect_extra_debug_data) meets when it inspects the `self` of a
    traceback frame of a faulty plugin (a @property over state that is not there yet)"""
    E = env()
    base = {'plugin': E['TestPlugin'], 'regexp': E['TestRegexp']}.get(kind, E['TestCb'])
    if not poison:
        return base
    cache = E.setdefault('pcls', {})
    if (poison, kind) not in cache:
        def broken_property(self):
            raise mk_exc(poison)
        cache[(poison, kind)] = type(base)('PoisonedCb%d' % poison, (base,), {'broken_property': property(broken_property)})
    return cache[(poison, kind)]


def decoder(inp):
    """the decode_raw_line of the case: the real one, or (inp['decode'] == 'se') a stand-in that yields lone surrogates, so that
    the real send path (Irc._truncateMsg under the takeMsg firewall, data.encode() in _sendIfMsgs) meets unencodable echoes"""
    if inp.get('decode') == 'se':
        return lambda b: b.decode('utf-8', 'surrogateescape')
    return env()['decode']


def run_impl(inp):
    """run one case on the real driver + Irc; returns the observation in the model's output format"""
    E = env()
    H, drivers, S, irclib = E['H'], E['drivers'], E['S'], E['irclib']
    H.cur, H.n, H.seen, H.log, H.fed, H.reconn, H.stage = -1, 0, set(), [], [], [], 'dispatch'
    H.addmsg = {r[0]: r for r in inp.get('addmsg', [])}
    cbs = [E['TestCb'](0, {'in': {}, 'call': {}, 'out': [0, 0]})]
    for i, spec in enumerate(inp.get('cbs', [])):
        cbs.append(cb_class(spec.get('poison', 0), spec.get('kind', 'cb'))(i + 1, {'in': {r[0]: r for r in spec['in']}, 'call': {r[0]: r for r in spec['call']},
                                   'out': spec['out']}))
    irc = E['TIrc']('test', callbacks=cbs)
    irc.state.__class__ = E['FaultyState']
    while irc.takeMsg() is not None:
        pass
    drv = S.SocketDriver.__new__(S.SocketDriver)
    drv.irc = irc
    irc.driver = drv
    conn = E['FakeConn']()
    drv.conn, drv.inbuffer, drv.outbuffer, drv.zombie, drv.connected = conn, b'', b'', False, True
    drv.eagains, drv.writeCheckTime, drv.nextReconnectTime, drv.currentDelay = 0, None, None, 10.0
    drv.networkName = 'test'
    drv.currentServer = drivers.Server('verif.invalid', 6667, None, False)
    drv.name = lambda: NAME

    def reconnect(*a, **k):
        H.reconn.append((H.cur, H.stage))
        drv.connected = False
    drv.reconnect = reconnect
    real_feed = irc.feedMsg

    def feed(msg, tag=True):
        H.cur = H.n
        H.n += 1
        H.stage = 'dispatch'
        H.fed.append((str(msg), msg.command, list(msg.args)))
        return real_feed(msg, tag=tag)
    irc.feedMsg = feed
    drivers._drivers.clear()
    drivers._deadDrivers.clear()
    del drivers._newDrivers[:]
    del S.SocketDriver._instances[:]
    S.SocketDriver._instances.append(drv)
    drivers._drivers[NAME] = drv
    escaped = []
    old_exc = drivers.log.exception

    def rec_exc(*a, **k):
        escaped.append(sys.exc_info()[1])
        return old_exc(*a, **k)          # the real log call of the handler still runs (it may raise)
    drivers.log.exception = rec_exc
    escapes, crashed = [], False
    old_dec = S.decode_raw_line
    S.decode_raw_line = decoder(inp) if inp.get('decode') else old_dec
    try:
        for it in inp['chunks']:
            if crashed or NAME not in drivers._drivers:
                break
            conn.item = it
            del escaped[:]
            try:
                drivers.run()
            except BaseException as e:      # an exception left drivers.run() itself
                crashed = True
                escapes.append(exc_code(e))
                continue
            escapes.append(exc_code(escaped[0]) if escaped else 0)
    finally:
        S.decode_raw_line = old_dec
        drivers.log.exception = old_exc
        alive = NAME in drivers._drivers
        drivers._drivers.clear()
        drivers._deadDrivers.clear()
        del S.SocketDriver._instances[:]
        if irc in E['world'].ircs:
            E['world'].ircs.remove(irc)
    def pongs_in(data):
        """payloads of the PONG lines in what was written; a line may carry tags (`@label=... PONG :x` once the server
        has ACKed labeled-response)"""
        out = []
        for l in data.decode('utf-8', 'replace').split('\r\n'):
            body = l.split(' ', 1)[1] if l.startswith('@') and ' ' in l else l
            if body.startswith('PONG '):
                out.append(E['ircmsgs'].IrcMsg(body).args[0] if body != 'PONG :' else '')
        return out
    pongs = pongs_in(conn.sent)
    stuck = pongs_in(drv.outbuffer)
    obs = {'alive': alive, 'crashed': crashed, 'escapes': escapes, 'pongs': pongs, 'log': H.log,
           'fed': [f[0][:-1] for f in H.fed], 'connected': bool(drv.connected), 'inbuf': drv.inbuffer.decode('latin-1'),
           'outbuf': stuck}
    sp = irc.state.supported
    obs['sup'] = [None if 'chantypes' not in sp else ('NONE' if sp['chantypes'] is None else sp['chantypes']),
                  None if 'channellen' not in sp else (sp['channellen'] is None),
                  None if 'statusmsg' not in sp else ('NONE' if sp['statusmsg'] is None else sp['statusmsg'])]
    # oracle inputs for the model: outcome of the Irc handler stage per feedMsg call
    rows = []
    recon_d = {n for n, st in H.reconn if st == 'dispatch'}
    for n, (_, cmd, args) in enumerate(H.fed):
        code = 0
        if n not in H.seen:
            code = 12
            if cmd.upper() == 'XBOOM' and args and args[0].isdigit() and int(args[0]) in XBOOM_CODES:
                code = int(args[0])
        # an in-filter of Rec is skipped too when addMsg ... no: addMsg faults are swallowed; Rec always runs then
        if code or n in recon_d:
            rows.append([n, 1 if n in recon_d else 0, code])
    obs['_dispatch'] = rows
    obs['_zombie'] = bool(irc.zombie)
    obs['_reconn'] = len(H.reconn)
    return obs


def stream_lines(inp):
    data = b''.join(it[1].encode('latin-1') for it in inp['chunks'] if it[0] == 'd')
    return data.split(b'\n')[:-1]


def strptime_ok(v):
    try:
        datetime.datetime.strptime(v, FMT)
        return True
    except (ValueError, TypeError):
        return False


def model_tables(inp):
    """graph of decode_raw_line on the lines of the case + the time-tag values strptime accepts"""
    E = env()
    dtab, vts = [], []
    dec = decoder(inp)
    for raw in set(stream_lines(inp)) | {b''}:
        s = dec(raw)
        if s != raw.decode('latin-1'):
            dtab.append([list(raw), s])
        s = s.strip()
        if s.startswith('@'):
            sec = s.split(' ', 1)[0][1:]
            try:
                v = E['ircmsgs']._parse_server_tags(sec).get('time')
            except Exception:
                v = None
            if v is not None and strptime_ok(v) and v not in vts:
                vts.append(v)
    return sorted(dtab), sorted(vts)


def wire_chunks(inp):
    out = []
    for it in inp['chunks']:
        if it[0] == 'd':
            out.append([0, list(it[1].encode('latin-1'))])
        elif it[0] == 'c':
            out.append([1])
        else:
            out.append([2, it[1]])
    return out


def wire_case(inp, dispatch_rows):
    dtab, vts = model_tables(inp)
    kc = {'cb': 0, 'plugin': 1, 'regexp': 2}
    cbs = [[[], [], [0, 0], 0, 0]] + [[spec['in'], spec['call'], spec['out'], spec.get('poison', 0), kc[spec.get('kind', 'cb')]]
                                      for spec in inp.get('cbs', [])]     # callback 0: passive, IrcCallback-derived
    return [0, [wire_chunks(inp), dtab, vts, dispatch_rows, inp.get('addmsg', []), cbs]]


def wire_dom(inp, op=1):
    dtab, vts = model_tables(inp)
    return [op, [wire_chunks(inp), dtab, vts]]


def dec_model(o):
    return {'alive': bool(o[0]), 'crashed': bool(o[1]), 'escapes': list(o[2]), 'pongs': wire.ls(o[3]),
            'log': [list(e) for e in o[4]], 'fed': wire.ls(o[5]), 'connected': bool(o[6]), 'inbuf': wire.s(o[7]),
            'outbuf': wire.ls(o[8]),
            'sup': [wire.o(o[9][0], lambda v: 'NONE' if v == [] else wire.s(v[0])), wire.o(o[9][1], bool),
                    wire.o(o[9][2], lambda v: 'NONE' if v == [] else wire.s(v[0]))]}


# ---------------------------------------------------------------- direct oracle
def legit_drop(inp, obs):
    """the connection was legitimately dropped: recv reported close / socket error, or the protocol/plugin asked to reconnect"""
    if any(it[0] == 'c' or (it[0] == 'r' and it[1] in (20, 23)) for it in inp['chunks']):
        return True
    return bool(obs['_reconn'])       # ERROR :closing link, STS, CAP errors, or a scripted plugin asked driver.reconnect()


def uses_base(inp):
    # conn.recv raising something that is not an OSError is not "bytes a server sends": correspondence only
    if any(it[0] == 'r' and it[1] not in (20, 21, 22, 23) for it in inp['chunks']):
        return True
    for spec in inp.get('cbs', []):
        if spec['out'][1] == 24 or any(r[2] == 24 for r in spec['in'] + spec['call']):
            return True
    if any(r[2] == 24 for r in inp.get('addmsg', [])):
        return True
    return any(re.match(rb'^\s*(:\S+ +)?xboom +:?24\b', l, re.I) for l in stream_lines(inp))


def oracle(inp, obs):
    """the property text, evaluated on the implementation's behaviour; returns a failure detail or None"""
    if uses_base(inp):
        return None
    bad = [c for c in obs['escapes'] if c]
    if obs['crashed']:
        return 'an exception left drivers.run() itself (code %s)' % obs['escapes'][-1]
    if bad:
        return 'exception %s escaped SocketDriver.run/_read into drivers.run; driver registered afterwards: %s' % (
            wire.EXN.get(bad[0], bad[0]), obs['alive'])
    if not obs['alive']:
        return 'driver no longer in drivers._drivers'
    tok = inp.get('final_ping')
    # (with a surrogate-yielding stand-in decoder an unencodable PONG ahead in the queue is dropped first and may delay the answer)
    if tok and not inp.get('decode') and not legit_drop(inp, obs) and tok not in obs['pongs']:
        return 'the final PING :%s was not answered (PONGs sent: %r)' % (tok, obs['pongs'][-3:])
    return None


# ---------------------------------------------------------------- classes of known findings
# none: C07.F4 and C07.F3 are repaired (findings/C07.json "fixed"); their witnesses head the corpus below, and
# nothing attributes a failure to them any more.
CLASSES = {}


# ---------------------------------------------------------------- generators
VALID = [':irc.srv 001 test :Welcome to the network test', ':irc.srv 002 test :Your host is irc.srv', ':irc.srv 004 test irc.srv v1 io nt',
         ':irc.srv 005 test CHANTYPES=# PREFIX=(ov)@+ CHANMODES=b,k,l,imnpst NICKLEN=30 :are supported by this server',
         ':irc.srv 375 test :- MOTD -', ':irc.srv 372 test :- hello', ':irc.srv 376 test :End of /MOTD command.',
         ':test!u@h JOIN #chan', ':irc.srv 353 test = #chan :test @op +voice other', ':irc.srv 366 test #chan :End of /NAMES list.',
         ':op!o@h MODE #chan +o test', ':op!o@h MODE #chan +b-l *!*@x', ':op!o@h KICK #chan other :bye', ':other!x@y PRIVMSG #chan :hello there',
         ':other!x@y PRIVMSG test :@ping', ':other!x@y NOTICE test :hi', ':other!x@y NICK newnick', ':other!x@y QUIT :gone',
         ':other!x@y PART #chan :bye', ':irc.srv 332 test #chan :the topic', ':irc.srv 333 test #chan op 1600000000',
         ':irc.srv CAP * LS :multi-prefix sasl=PLAIN account-notify', ':irc.srv CAP test ACK :multi-prefix', ':irc.srv CAP test NAK :sasl',
         'AUTHENTICATE +', ':irc.srv 903 test :SASL authentication successful', ':irc.srv 433 * test :Nickname is already in use.',
         ':irc.srv 352 test #chan u h irc.srv other H :0 real', ':irc.srv 315 test #chan :End', ':irc.srv 324 test #chan +nt',
         '@time=2020-01-02T03:04:05.678Z :other!x@y PRIVMSG #chan :tagged', '@msgid=abc;+x=y :other!x@y TAGMSG #chan',
         ':irc.srv PONG irc.srv :x', 'PING :irc.srv', ':irc.srv PING abc', 'ping :lower', ':test PING :frommynick', ':irc.srv 396 test host :is now your hidden host',
         ':other!x@y TOPIC #chan :new', ':other!x@y INVITE test #chan', ':other!x@y ACCOUNT acct', ':other!x@y CHGHOST u2 h2', ':other!x@y AWAY :brb',
         ':irc.srv BATCH +ref netsplit a b', ':irc.srv BATCH -ref', ':irc.srv 730 test :other!x@y', ':irc.srv FAIL CMD CODE :desc']
# parse-clean but semantically absurd (the property's quantifier)
ABSURD = ['001', '005', '353', '366', '332', '333', '376', '375', '372', '004', '250', '251', '266', 'MODE', 'MODE #chan', 'MODE #chan +o', 'MODE #chan +ooo a',
          ':x MODE #chan +b', ':x!y@z MODE #chan -', 'KICK', 'KICK #chan', ':a!b@c KICK', 'JOIN', ':a JOIN', 'PART', 'NICK', ':a!b@c NICK', 'QUIT', 'PRIVMSG', ':a PRIVMSG',
          ':a!b@c PRIVMSG #chan', 'NOTICE', 'TOPIC', ':a!b@c TOPIC #chan', 'CAP', 'CAP *', 'CAP * LS', 'CAP * ACK', 'CAP * NAK', 'CAP * LS *', 'CAP * NEW', 'CAP * DEL',
          'CAP * LS :=', 'CAP * LS :sasl= = ~', 'CAP * ACK :-x ~y =z', 'CAP * BOGUS :x', 'CAP * LIST', 'AUTHENTICATE', 'AUTHENTICATE :', 'AUTHENTICATE *', 'AUTHENTICATE %%%',
          '900', '903', '904', '908', '908 test', '433', '432', '437', '451', '464', '465', '470', '471', '473', '474', '475', ':s 353 test', ':s 353 test = #chan', ':s 353 test #chan :@',
          ':s 353 test = #chan :@ + @+', ':s 005 test', ':s 005 test PREFIX', ':s 005 test PREFIX= CHANMODES= :x', ':s 005 test PREFIX=(ov CHANMODES=a :x', ':s 005 test CHANMODES=a,b :x',
          ':s 005 test PREFIX=(ov)@ :x', ':s 005 test NICKLEN=abc CHANLIMIT=#: TARGMAX=x :y', ':s 352 test', ':s 352 test #c u', ':s 354 test', ':s 311 test', ':s 324 test', ':s 324 test #chan',
          ':s 329 test #chan x', ':s 333 test #chan', ':s 341', ':s 367 test #chan', ':s 730', ':s 731 test', 'BATCH', 'BATCH +', 'BATCH -nope', 'BATCH x', ':a!b@c ACCOUNT', ':a!b@c CHGHOST x',
          ':a!b@c AWAY', 'FAIL', 'WARN x', 'NOTE', 'PONG', 'ERROR', 'ERROR :x', 'WALLOPS', 'INVITE', ':a INVITE test', 'TAGMSG', '@+x TAGMSG', ':: PING', 'PING', ':x PING', ': PING x'[1:],
          '@a PING', '@a=b PING :', 'ping', 'pInG x y z', 'PINGX a', 'PIN G', ':\u00e9 PRIVMSG \u00e9 :\u00e9', '000', '999 a b c', '1 x', ':a!b@c 001', ':s MODE test', ':s MODE test +i',
          ':s 221 test', ':s 221 test +', ':test!u@h NICK', ':test!u@h PART', ':test!u@h KICK #chan', ':x!y@z KICK #chan test', ':test!u@h JOIN', ':test!u@h QUIT', ':s 001 other :x', ':s 376',
          'XBOOM 1', 'XBOOM 2', 'XBOOM 4', 'XBOOM 8', 'XBOOM 12', 'XBOOM 20', 'XBOOM 21', 'XBOOM 22', 'xboom 5', 'XBOOM 3 r']
# lines the parser rejects
MALFORMED = [':', '@', '@a', '@a ', ':x', ':x ', '@time=bad :x PING y', '@time :x PING y', '@a=b', ' :', ': ', '@ ', '@time= :x', ':\u00e9', '@time;a :x PING y', '@time=\\ :x PING y']
ALPHA = [' ', ':', '@', ';', '=', '\r', 'a', 'P', '1', '\\']


def cut(rng, data, faults=True):
    """random recv() chunking (1..1024 bytes) with occasional harmless recv faults"""
    chunks, i = [], 0
    while i < len(data):
        n = rng.choice([1, 2, 3, 7, 20, 50, 200, 1024, 1024])
        n = rng.randint(1, n)
        chunks.append(['d', data[i:i + n].decode('latin-1')])
        i += n
        if faults and rng.random() < 0.05:
            chunks.append(['r', rng.choice([21, 21, 22])])
    return chunks


def gen_script(rng, nlines, heavy):
    k = rng.choice([0, 1, 2, 3]) if heavy else rng.choice([0, 1])
    codes = [1, 2, 3, 4, 5, 6, 7, 8, 9, 12, 20, 21, 22, 23]
    cbs = []
    for _ in range(k):
        spec = {'in': [], 'call': [], 'out': [0, 0]}
        if heavy:
            for n in range(nlines):
                r = rng.random()
                if r < 0.15:
                    spec['in'].append([n, 0, rng.choice(codes), 1])
                elif r < 0.2:
                    spec['in'].append([n, 0, 0, 0])
                r = rng.random()
                if r < 0.2:
                    spec['call'].append([n, 0, rng.choice(codes)])
            if rng.random() < 0.4:
                spec['out'] = [rng.choice([0, ord('t'), ord('x')]), rng.choice(codes)]
        if heavy and rng.random() < 0.3:
            # an object with a property that raises when inspected; what this callback raises is an Exception subclass
            spec['poison'] = rng.choice([1, 2, 3, 4, 6, 12])
            for r in spec['in'] + spec['call']:
                if r[2] >= 20:
                    r[2] = 12
            if spec['out'][1] >= 20:
                spec['out'][1] = 12
        spec['kind'] = rng.choice(['cb', 'plugin', 'plugin', 'regexp'])      # both kinds of faulty callbacks, always
        cbs.append(spec)
    addmsg = [[n, 0, rng.choice(codes)] for n in range(nlines) if heavy and rng.random() < 0.1]
    return cbs, addmsg


def mk_case(rng, lines, heavy=True, final=True, faults=True, seps=None):
    data = b''
    for l in lines:
        b = l if isinstance(l, bytes) else l.encode('utf-8')
        data += b + (seps or rng.choice([b'\r\n', b'\r\n', b'\n']))
    inp = {'chunks': cut(rng, data, faults)}
    if final:
        tok = 'tok%d' % rng.randrange(10 ** 6)
        inp['final_ping'] = tok
        inp['chunks'].append(['d', 'PING :%s\r\n' % tok])
    inp['cbs'], inp['addmsg'] = gen_script(rng, len(lines) + 1, heavy)
    return inp


def hostile_bytes(rng):
    n = rng.randint(1, 40)
    pool = [0xff, 0xfe, 0xc3, 0x28, 0xa0, 0xe2, 0x82, 0xf0, 0x90, 0x80, 0x00, 0x01, 0x1c, 0x1f, 0x85, 0x20, 0x3a, 0x40, 0x50, 0x49, 0x4e, 0x47, 0x0d, 0x61]
    return bytes(rng.choice(pool) for _ in range(n)).replace(b'\n', b'')


# byte strings that are not (clean) UTF-8: latin-1 text, lone continuation bytes, truncated sequences, overlong forms,
# UTF-8-encoded surrogates (CESU), beyond U+10FFFF, BOM, NUL, C1 controls
ODD = [b'caf\xe9', b'\xe9', b'\x80', b'\xbf\xbf', b'\xc3', b'\xe2\x82', b'\xf0\x9f\x98', b'\xc0\x80', b'\xc1\xbf', b'\xe0\x80\x80',
       b'\xf0\x80\x80\x80', b'\xed\xa0\x80', b'\xed\xbf\xbf', b'\xed\xa0\xbd\xed\xb8\x80', b'\xf4\x90\x80\x80', b'\xf8\x88\x80\x80\x80',
       b'\xff', b'\xfe\xff', b'\xef\xbb\xbf', b'a\x00b', b'\x00', b'\xc2\x85', b'\xa0', b'na\xefve', b'\xc3\xa9\xe9', b'ok\xc3\xa9',
       b'\xe9\xc3\xa9', b'x\xff y', b'\x81\x8d\x8f\x90\x9d', b'\xdc\x80']


def odd(rng):
    return b''.join(rng.choice(ODD + [b'a', b'Z', b'-']) for _ in range(rng.randint(1, 3)))


def echo_line(rng):
    """a line one of whose fields the bot sends back (or stores and later sends), the field carrying odd bytes"""
    o = odd(rng)
    k = rng.randrange(14)
    if k < 5:
        pfx = rng.choice([b'', b'', b':irc.srv ', b':' + odd(rng).replace(b' ', b'') + b' '])
        return pfx + rng.choice([b'PING :', b'PING ', b'ping :', b'PiNg ']) + o
    if k == 5:
        return b'PING ' + o.replace(b' ', b'') + b' :' + odd(rng)
    if k == 6:
        return b':test!u@h JOIN #' + o.replace(b' ', b'')                  # bot asks MODE/WHO for the channel
    if k == 7:
        return b':test!u@h NICK :' + o.replace(b' ', b'')                  # own nick now carries the bytes
    if k == 8:
        return b':irc.srv 433 * ' + o.replace(b' ', b'') + b' :Nickname is already in use.'
    if k == 9:
        return b':irc.srv CAP * LS :' + o + b' sasl=' + o.replace(b' ', b'') + b' multi-prefix'
    if k == 10:
        return b':irc.srv CAP * ACK :' + o
    if k == 11:
        return b'AUTHENTICATE ' + o
    if k == 12:
        return b':irc.srv 001 ' + o.replace(b' ', b'') + b' :Welcome ' + o
    return b':' + o.replace(b' ', b'') + b'!u@h PRIVMSG test :\x01VERSION\x01'


# utils.str.format directives (and look-alikes): every log call formats its template with them
FMT_DIRS = ['%s', '%r', '%i', '%q', '%%', '%', '%p', '%L', '%n', '%S', '%t', '%T', '%u', '%v', '%b', '%h', '%f', '%.2f', '%5.1f', '%d', '%x',
       '%%s', '%\u0663.\u0663f', '%(a)s', '%1', '%.f']
# lines the parser rejects, carrying directives: they reach the log call of _read's per-line handler
MALFORMED_FMT = [':%s', '@%s', '@%r', ':%i ', '@time=%s PING :x', '@a=%q', '@%%', ':%', '@time=%.2f :x PING y', ':%s%r%i%q', '@%s ',
                 ':%5.1f', '@time=bad%s :x PING', ':%v', ':%L', '@%n', ':%%s', '@%(a)s', ':%\u0663.\u0663f', '@time :%s PING y']
# well-formed lines carrying directives in every field that some handler logs
CLEAN_FMT = ['PING :%s', 'PING %r', ':%s!u@h PRIVMSG #chan :%q %i', ':irc.srv 499 test :%s', ':irc.srv 401 test %s :No such nick %r',
             'ERROR :%s', ':irc.srv 005 test %s=%r :are supported', ':irc.srv CAP * LS :%s %q=%i', ':irc.srv 433 * %s :in use', 'NOTICE %s :%r',
             'XBOOM 12 %s', ':irc.srv 001 test :Welcome %s', ':%s 004 test %s %r io nt', ':irc.srv 376 test :%i', ':irc.srv 599 %s %r %i %q',
             ':irc.srv 432 * %s :Erroneous', ':irc.srv 437 * %s :unavailable', ':other!x@y NICK %s', ':test!u@h JOIN #%s', ':irc.srv 353 test = #%s :%r %i',
             ':irc.srv CAP * NAK :%s', 'AUTHENTICATE %s', ':irc.srv 904 test :%s', ':irc.srv 908 test %s :%r', '@%s=%r :x!y@z PRIVMSG test :%q',
             ':irc.srv FAIL %s %r :%i', ':irc.srv WARN %s %r :%i', ':irc.srv 470 test #%s #%r :fwd', ':irc.srv 900 test %s %r :%i', '%s', '%r %s', '%% %']


def fmt_line(rng):
    k = rng.random()
    if k < 0.35:
        return rng.choice(MALFORMED_FMT)
    if k < 0.7:
        return rng.choice(CLEAN_FMT)
    l = rng.choice(VALID + ABSURD + MALFORMED)
    for _ in range(rng.randint(1, 3)):
        i = rng.randrange(len(l) + 1)
        l = l[:i] + rng.choice(FMT_DIRS) + l[i:]
    return l


# ISUPPORT (005) tokens for the entries the per-message path reads before dispatch, with and without value
ISUP_TOKENS = ['CHANTYPES', 'chantypes', 'ChanTypes', 'CHANTYPES=', 'CHANTYPES=#', 'CHANTYPES=#&', 'CHANTYPES=t', 'CHANTYPES==', 'CHANTYPES=P#a',
               'CHANNELLEN', 'channellen', 'CHANNELLEN=', 'CHANNELLEN=50', 'CHANNELLEN=0', 'CHANNELLEN= 7 ', 'CHANNELLEN=+5', 'CHANNELLEN=1_0',
               'CHANNELLEN=abc', 'CHANNELLEN=-1', 'CHANNELLEN=1__0', 'CHANNELLEN=\u0663', 'CHANNELLEN=5.0', 'CHANNELLEN=_5', 'CHANNELLEN=0x10',
               'STATUSMSG', 'statusmsg', 'STATUSMSG=', 'STATUSMSG=@+', 'STATUSMSG=#', 'STATUSMSG=t@', 'PREFIX', 'NICKLEN', 'MODES', 'CHANMODES',
               'CHANTYPE', 'CHANTYPES2', 'XCHANTYPES', 'CHANTYPES\u212a', '=', '=x', 'WHOX', 'EXCEPTS', 'NETWORK=x']
AFTER_ISUP = ['PING :abc', 'PING #x', 'PING :#a b', 'PING t', 'PING :a,b', ':n!u@h PRIVMSG #chan :hi', ':n!u@h PRIVMSG @#chan :hi', ':n!u@h NOTICE +#chan :x',
              ':n!u@h NOTICE test :x', ':n!u@h PRIVMSG :  #c', ':n!u@h JOIN #chan', ':irc.srv 001 test :Welcome', 'PING :', 'PING', ':n!u@h PRIVMSG t#x :y',
              ':irc.srv 005 test CHANTYPES=# CHANNELLEN=50 :are supported', ':irc.srv 005 test CHANTYPES=# :are supported', 'PING \x07a', 'NOTICE']


# capability negotiation lines whose effect lasts: labeled-response tags every outgoing line, echo-message switches the
# emulated echo off, unrequested ACKs / sts ask for a reconnect
CAP_LINES = [':irc.srv CAP * LS :labeled-response echo-message batch', ':irc.srv CAP * LS :labeled-response', ':irc.srv CAP * LS * :echo-message',
             ':irc.srv CAP test ACK :labeled-response', ':irc.srv CAP test ACK :echo-message labeled-response', ':irc.srv CAP test ACK :echo-message',
             ':irc.srv CAP test NAK :labeled-response', ':irc.srv CAP * NEW :labeled-response', ':irc.srv CAP * DEL :labeled-response',
             ':irc.srv CAP test ACK :-labeled-response', ':irc.srv CAP * LS :sts=port=6697,duration=10', ':irc.srv CAP * LS :sts=port=x',
             ':irc.srv CAP * LS :sts', ':irc.srv CAP test ACK :batch', ':irc.srv BATCH +r labeled-response', '@batch=r;label=x :irc.srv PING :inb',
             ':irc.srv BATCH -r', '@label=abc :irc.srv ACK', '@label :irc.srv PING :lab']


def isup_line(rng):
    toks = [rng.choice(ISUP_TOKENS) for _ in range(rng.randint(0, 4))]
    k = rng.random()
    if k < 0.8:
        return ':irc.srv 005 test ' + ' '.join(toks) + (' ' if toks else '') + ':are supported by this server'
    if k < 0.9:
        return ':irc.srv 005 test ' + ' '.join(toks)                     # no trailing text: the last token is not a token
    return '005 ' + ' '.join(toks)


def mutate(rng, l):
    k = rng.random()
    if k < 0.3:
        i = rng.randrange(len(l) + 1)
        return l[:i] + rng.choice(ALPHA + ['@time', 'time=', ' :', '  ']) + l[i:]
    if k < 0.5 and l:
        i = rng.randrange(len(l))
        return l[:i] + l[i + 1:]
    if k < 0.6:
        return l[:rng.randrange(len(l) + 1)]
    if k < 0.7:
        return ' '.join(l.split(' ')[:rng.randint(1, 3)])
    return l


CORPUS = [
    # once the server has ACKed labeled-response every outgoing line, the PONG included, carries an @label tag
    {'chunks': [['d', ':s CAP * LS :labeled-response echo-message\r\n:s CAP test ACK :labeled-response echo-message\r\nPING :l1\r\n'],
                ['d', 'PING :after\r\n']], 'cbs': [{'in': [], 'call': [], 'out': [0, 12], 'kind': 'plugin'}], 'addmsg': [], 'final_ping': 'after'},
    # witness of the repaired finding C07.F46: a plugin (class derived from callbacks.Plugin) whose outFilter raises must not
    # make takeMsg drop every outgoing message
    {'chunks': [['d', 'PING :one\r\n'], ['d', 'PING :after\r\n']], 'addmsg': [], 'final_ping': 'after',
     'cbs': [{'in': [], 'call': [], 'out': [0, 12], 'kind': 'plugin'}]},
    {'chunks': [['d', ':n!u@h PRIVMSG #c :x\r\nPING :one\r\n'], ['d', 'PING :after\r\n']], 'addmsg': [], 'final_ping': 'after',
     'cbs': [{'in': [[0, 0, 12, 1], [1, 0, 2, 1]], 'call': [[0, 0, 3], [1, 0, 12]], 'out': [0, 1], 'kind': 'regexp'},
             {'in': [[0, 0, 4, 1]], 'call': [[1, 0, 6]], 'out': [111, 2], 'kind': 'plugin'}]},
    # a faulty plugin whose object has a property that raises when inspected (KeyError / ValueError / RuntimeError): its
    # __call__, inFilter and outFilter raise; every swallowing handler runs Logger.exception -> collect_extra_debug_data on it
    {'chunks': [['d', ':n!u@h PRIVMSG #c :x\r\n'], ['d', 'PING :after\r\n']], 'addmsg': [], 'final_ping': 'after',
     'cbs': [{'in': [], 'call': [[0, 0, 12]], 'out': [0, 0], 'poison': 3}]},
    {'chunks': [['d', ':n!u@h PRIVMSG #c :x\r\nPING :ta\r\n'], ['d', 'PING :after\r\n']], 'addmsg': [], 'final_ping': 'after',
     'cbs': [{'in': [[0, 0, 1, 1]], 'call': [], 'out': [0, 0], 'poison': 2}, {'in': [], 'call': [], 'out': [116, 3], 'poison': 12}]},
    # witness of the repaired finding C07.F45: an ISUPPORT token CHANTYPES without value must not stall the message path
    {'chunks': [['d', ':srv 005 test CHANTYPES :are supported\r\n'], ['d', 'PING :abc\r\n']], 'cbs': [], 'addmsg': [], 'final_ping': 'abc'},
    {'chunks': [['d', 'PING :before\r\n:srv 005 test CHANNELLEN chantypes=t# :are supported\r\nPING test\r\n:n!u@h PRIVMSG #c :x\r\n'],
                ['d', 'PING :test2\r\n']], 'cbs': [], 'addmsg': [], 'final_ping': 'test2'},
    # a rejected line carrying utils.str.format directives: the log call of _read's per-line handler formats it
    {'chunks': [['d', ':%s\r\n'], ['d', 'PING :after\r\n']], 'cbs': [], 'addmsg': [], 'final_ping': 'after'},
    {'chunks': [['d', '@%r\r\n@time=%.2f :x PING y\r\n:%i%q \r\nPING :%s\r\n'], ['d', 'PING :after\r\n']], 'cbs': [], 'addmsg': [],
     'final_ping': 'after'},
    # the witnesses of the repaired findings C07.F4 and C07.F3 (reported again as violations if they ever return)
    {'chunks': [['d', ':\r\n'], ['d', 'PING :after\r\n']], 'cbs': [], 'addmsg': [], 'final_ping': 'after'},
    {'chunks': [['d', '@time :x PING y\r\n'], ['d', 'PING :after\r\n']], 'cbs': [], 'addmsg': [], 'final_ping': 'after'},
    # witness of the repaired finding C05.F30: a prefix isUserHostmask accepts and the old splitHostmask could not split
    {'chunks': [['d', ':a!b@c!d PING :x\r\n'], ['d', 'PING :after\r\n']], 'cbs': [], 'addmsg': [], 'final_ping': 'after'},
    {'chunks': [['d', ':a!b@c@d!e PRIVMSG #c :x\r\n:!a!b@c!@ JOIN #c\r\nPING :b\r\n'], ['d', 'PING :after\r\n']], 'cbs': [], 'addmsg': [], 'final_ping': 'after'},
    {'chunks': [['d', ':\n']], 'cbs': [], 'addmsg': []},
    {'chunks': [['d', '@time :x PING y\r\n']], 'cbs': [], 'addmsg': []},
    {'chunks': [['d', 'PING :a\r\n:\r\nPING :b\r\n'], ['d', 'PING :c\r\n']], 'cbs': [], 'addmsg': [], 'final_ping': 'c'},
    {'chunks': [['d', '@a'], ['d', '\r'], ['d', '\n'], ['d', 'PING :c\r\n']], 'cbs': [], 'addmsg': [], 'final_ping': 'c'},
    {'chunks': [['d', 'PING\r\n001\r\nXBOOM 12\r\n:test PING :mine\r\nPING :c\r\n']], 'cbs': [], 'addmsg': [], 'final_ping': 'c'},
    {'chunks': [['d', 'XBOOM 24\r\n'], ['d', 'PING :c\r\n']], 'cbs': [], 'addmsg': []},
    {'chunks': [['d', 'ERROR :Closing link\r\nPING :x\r\n'], ['d', 'PING :c\r\n']], 'cbs': [], 'addmsg': [], 'final_ping': 'c'},
    {'chunks': [['r', 21], ['d', 'PING :a\r\n'], ['r', 22], ['d', 'PING :c\r\n']], 'cbs': [], 'addmsg': [], 'final_ping': 'c'},
    {'chunks': [['d', 'PING :a\r\n'], ['r', 20], ['d', 'PING :c\r\n']], 'cbs': [], 'addmsg': []},
    {'chunks': [['d', 'PING :a\r\n'], ['c'], ['d', 'PING :c\r\n']], 'cbs': [], 'addmsg': []},
    {'chunks': [['d', 'PING :ta\r\nPING :xb\r\nPING :c\r\n']], 'final_ping': 'c', 'addmsg': [[0, 0, 2]],
     'cbs': [{'in': [[0, 0, 1, 1], [1, 0, 0, 0]], 'call': [[0, 0, 12], [2, 0, 20]], 'out': [116, 2]},
             {'in': [[2, 0, 24, 1]], 'call': [[0, 0, 24]], 'out': [0, 0]}]},
    {'chunks': [['d', 'PING :ta\r\nPING :xb\r\n'], ['d', 'PING :c\r\n']], 'addmsg': [],
     'cbs': [{'in': [], 'call': [], 'out': [120, 24]}, {'in': [], 'call': [], 'out': [0, 3]}]},
    {'chunks': [['d', 'PRIVMSG #c :x\r\nPING :c\r\n']], 'final_ping': 'c', 'addmsg': [],
     'cbs': [{'in': [], 'call': [[0, 1, 0]], 'out': [0, 0]}]},
    {'chunks': [['d', '\xff\xfe PING \xc3\x28\r\n\x85\x1c\r\n\xa0\r\nPING :c\r\n']], 'cbs': [], 'addmsg': [], 'final_ping': 'c'},
    # invalid UTF-8 in a field the bot echoes (PING argument -> PONG): decode in _read, encode in _sendIfMsgs
    {'chunks': [['d', 'PING :caf\xe9\r\n'], ['d', 'PING :c\r\n']], 'cbs': [], 'addmsg': [], 'final_ping': 'c'},
    {'chunks': [['d', 'PING \x80\r\nPING :\xed\xa0\x80\r\nPING :\xc0\x80 \xf4\x90\x80\x80\r\n:\xff PING a\x00b\r\n'], ['d', 'PING :c\r\n']],
     'cbs': [], 'addmsg': [], 'final_ping': 'c'},
    {'chunks': [['d', ':test!u@h JOIN #caf\xe9\r\n:test!u@h NICK :\xe9\r\n'], ['d', 'PING :c\r\n']], 'cbs': [], 'addmsg': [], 'final_ping': 'c'},
    # a decoder yielding lone surrogates: the unencodable PONGs are dropped under the takeMsg firewall, one per _sendIfMsgs
    {'chunks': [['d', 'PING :caf\xe9\r\n'], ['d', 'PING :c\r\n']], 'cbs': [], 'addmsg': [], 'final_ping': 'c', 'decode': 'se'},
    {'chunks': [['d', 'PING :\xe9\r\nPING \x80\r\nPING :\xff\r\nPING :\xfe\r\nPING :ok\r\n'], ['d', 'PING :c\r\n'], ['r', 21]],
     'cbs': [], 'addmsg': [], 'final_ping': 'c', 'decode': 'se'},
]


def check_case(ctx, kind, inp, with_model=True):
    """returns (wire case or None, obs, inp)"""
    lines = stream_lines(inp)
    ctx.case(kind, inp, nontrivial=any(l.strip() for l in lines))
    obs = run_impl(inp)
    d = oracle(inp, obs)
    if d:
        ctx.fail(inp, d)
    if obs['_zombie']:
        ctx.disagree(inp, 'not zombie', 'irc.zombie set', 'Irc became a zombie: outside the model')
    return obs


def gen_cases(ctx):
    rng = ctx.rng
    cases = [('corpus', c) for c in CORPUS]
    for l in VALID + ABSURD:
        cases.append(('single-clean', mk_case(rng, [l], heavy=False, faults=False)))
    for l in MALFORMED:
        cases.append(('single-malformed', mk_case(rng, [l], heavy=False, faults=False)))
    for _ in range(ctx.n(800)):
        ls = [rng.choice(VALID) for _ in range(rng.randint(1, 12))]
        cases.append(('valid-stream', mk_case(rng, ls)))
    for _ in range(ctx.n(1500)):
        ls = []
        for _ in range(rng.randint(1, 10)):
            r = rng.random()
            ls.append(rng.choice(ABSURD) if r < 0.6 else (rng.choice(VALID) if r < 0.8 else ''))
        cases.append(('hostile-parseclean', mk_case(rng, ls)))
    for _ in range(ctx.n(800)):
        ls = [mutate(rng, rng.choice(VALID + ABSURD)) for _ in range(rng.randint(1, 8))]
        cases.append(('mutated', mk_case(rng, ls)))
    for _ in range(ctx.n(400)):
        ls = []
        for _ in range(rng.randint(1, 8)):
            r = rng.random()
            ls.append(rng.choice(MALFORMED) if r < 0.3 else rng.choice(ABSURD + VALID))
        cases.append(('hostile-malformed', mk_case(rng, ls)))
    for _ in range(ctx.n(400)):
        ls = [hostile_bytes(rng) if rng.random() < 0.7 else rng.choice(VALID) for _ in range(rng.randint(1, 6))]
        cases.append(('raw-bytes', mk_case(rng, ls)))
    for tok in ISUP_TOKENS:
        ls = [':irc.srv 005 test %s :are supported' % tok, rng.choice(AFTER_ISUP), rng.choice(AFTER_ISUP)]
        cases.append(('isupport-single', mk_case(rng, ls, heavy=False, faults=False)))
    for _ in range(ctx.n(500)):
        ls = []
        for _ in range(rng.randint(2, 8)):
            r = rng.random()
            ls.append(isup_line(rng) if r < 0.4 else (rng.choice(AFTER_ISUP) if r < 0.85 else rng.choice(VALID + ABSURD)))
        cases.append(('isupport', mk_case(rng, ls, heavy=rng.random() < 0.3)))
    for _ in range(ctx.n(300)):
        ls = [rng.choice(CAP_LINES) if rng.random() < 0.6 else rng.choice(AFTER_ISUP + VALID) for _ in range(rng.randint(2, 8))]
        cases.append(('cap-sequence', mk_case(rng, ls, heavy=rng.random() < 0.3)))
    for l in MALFORMED_FMT + CLEAN_FMT:
        cases.append(('format-single', mk_case(rng, [l], heavy=False, faults=False)))
    for _ in range(ctx.n(500)):
        ls = [fmt_line(rng) if rng.random() < 0.8 else rng.choice(VALID + ABSURD) for _ in range(rng.randint(1, 6))]
        cases.append(('format-directives', mk_case(rng, ls, heavy=rng.random() < 0.5)))
    for o in ODD:
        for head in (b'PING :', b'PING ', b':s PING x :'):
            cases.append(('echo-single', mk_case(rng, [head + o], heavy=False, faults=False)))
    for _ in range(ctx.n(500)):
        ls = [echo_line(rng) if rng.random() < 0.7 else rng.choice(VALID + ABSURD) for _ in range(rng.randint(1, 6))]
        cases.append(('echo-bytes', mk_case(rng, ls, heavy=rng.random() < 0.5)))
    for _ in range(ctx.n(300)):
        ls = [echo_line(rng) if rng.random() < 0.8 else rng.choice(VALID + ABSURD) for _ in range(rng.randint(1, 6))]
        inp = mk_case(rng, ls, heavy=rng.random() < 0.5)
        inp['decode'] = 'se'
        cases.append(('echo-surrogate-decoder', inp))
    for _ in range(ctx.n(300)):
        ls = [''.join(rng.choice(ALPHA) for _ in range(rng.randint(1, 5))) for _ in range(rng.randint(1, 6))]
        cases.append(('short-alphabet', mk_case(rng, ls, heavy=False)))
    # recv faults that legitimately drop the connection; BaseException from plugins (correspondence only)
    for _ in range(ctx.n(200)):
        ls = [rng.choice(VALID + ABSURD) for _ in range(rng.randint(1, 6))]
        inp = mk_case(rng, ls, final=False)
        j = rng.randrange(len(inp['chunks']) + 1)
        inp['chunks'].insert(j, rng.choice([['c'], ['r', 20], ['r', 23], ['r', 24], ['r', 2], ['r', 12]]))
        inp['chunks'].append(['d', 'PING :after\r\n'])
        cases.append(('recv-fault', inp))
    for _ in range(ctx.n(200)):
        ls = [rng.choice(VALID + ABSURD + ['XBOOM 24', 'PING :xq', 'PING :tq']) for _ in range(rng.randint(1, 6))]
        inp = mk_case(rng, ls, final=False)
        for spec in inp['cbs']:
            spec.pop('poison', None)        # the model attaches a poisoned traceback to Exception subclasses only
            if rng.random() < 0.5:
                spec['out'] = [rng.choice([0, 120, 116]), 24]
            for rows in (spec['in'], spec['call']):
                for r in rows:
                    if rng.random() < 0.3:
                        r[2] = 24
        inp['chunks'].append(['d', 'PING :after\r\n'])
        cases.append(('base-exception', inp))
    return cases


def run(ctx):
    env()
    cases = gen_cases(ctx)
    obss = []
    for kind, inp in cases:
        obss.append(check_case(ctx, kind, inp))
    check_format_scanner(ctx, cases)
    check_int_scanner(ctx)
    check_class_table(ctx)
    kinds = {}
    for _, inp in cases:
        for spec in inp.get('cbs', []):
            kinds[spec.get('kind', 'cb')] = kinds.get(spec.get('kind', 'cb'), 0) + 1
    ctx.notes.append('faulty callbacks run, by base class: irclib.IrcCallback %d (+1 passive per case), callbacks.Plugin %d, '
                     'callbacks.PluginRegexp %d' % (kinds.get('cb', 0), kinds.get('plugin', 0), kinds.get('regexp', 0)))
    outs = ctx.model([wire_case(inp, obs['_dispatch']) for (kind, inp), obs in zip(cases, obss)])
    for (kind, inp), obs, mo in zip(cases, obss, outs):
        if mo is None:
            continue
        if isinstance(mo, tuple):
            ctx.disagree(inp, mo[1], None, 'model error')
            continue
        m = dec_model(mo)
        o = {k: v for k, v in obs.items() if not k.startswith('_')}
        if m != o:
            diff = {k: (m[k], o[k]) for k in m if m[k] != o[k]}
            ctx.disagree(inp, {k: v[0] for k, v in diff.items()}, {k: v[1] for k, v in diff.items()}, 'observables ' + ','.join(sorted(diff)))


def check_format_scanner(ctx, cases):
    """the model's scanner of utils.str.format directives against the real _formatRe, on every line of the cases"""
    import supybot.utils.str as ustr
    lines = set()
    for _, inp in cases:
        dec = decoder(inp)
        for raw in stream_lines(inp):
            lines.add(dec(raw))
    lines |= set(FMT_DIRS) | {''.join(p) for p in __import__('itertools').product(['%', '.', '1', 'f', 's', '\u0663', 'x'], repeat=4)}
    lines = sorted(l for l in lines if '%' in l)
    outs = ctx.model([[3, l] for l in lines])
    for l, o in zip(lines, outs):
        if o is None:
            continue
        want = sum(1 for m in ustr._formatRe.finditer(l) if m.group(1) != '%')
        inp = {'op': 'format-scan', 'line': l}
        ctx.case('format-scanner', inp)
        if o != want:
            ctx.disagree(inp, o, want, 'argument-consuming directives of utils.str.format')


def check_class_table(ctx):
    """the regenerated class table (bases, C3 MRO) and the model's MetaFirewall merge against the real classes: the
    MRO the model uses is the real __mro__, and for a class derived from each base the methods the model says are
    firewalled are exactly those the real metaclass wrapped"""
    E = env()
    import supybot.irclib as irclib
    callbacks = E['callbacks']
    real = {'IrcCallback': (irclib.IrcCallback, E['TestCb']), 'Plugin': (callbacks.Plugin, E['TestPlugin']),
            'PluginRegexp': (callbacks.PluginRegexp, E['TestRegexp'])}
    names = sorted(real)
    outs = ctx.model([[5, n] for n in names])
    for n, o in zip(names, outs):
        if o is None:
            continue
        inp = {'op': 'class-table', 'line': n}
        ctx.case('class-table', inp)
        mro = [c.__name__ for c in real[n][0].__mro__]
        if wire.ls(o[0]) != mro:
            ctx.disagree(inp, wire.ls(o[0]), mro, 'MRO of ' + n)
        keys = set(wire.ls(o[1]))
        for meth in ('inFilter', '__call__', 'outFilter'):
            f = real[n][1].__dict__[meth]
            wrapped = any(getattr(g, '__code__', None) is not None and g.__code__.co_name == 'm' for g in _unwrap_chain(f))
            if wrapped != (meth in keys):
                ctx.disagree(inp, meth in keys, wrapped, 'log.firewall around %s of a class derived from %s' % (meth, n))


def _unwrap_chain(f):
    """f and the functions it closes over (MetaSynchronized wraps the firewalled function again)"""
    seen, todo = [], [f]
    while todo:
        g = todo.pop()
        if g in seen or not hasattr(g, '__code__'):
            continue
        seen.append(g)
        for c in (g.__closure__ or ()):
            try:
                todo.append(c.cell_contents)
            except ValueError:
                pass
    return seen


def check_int_scanner(ctx):
    """the model's int() (converter of CHANNELLEN) against the real one"""
    import itertools
    vals = sorted({t.split('=', 1)[1] for t in ISUP_TOKENS if '=' in t} |
                  {''.join(p) for n in range(0, 5) for p in itertools.product(['1', '0', '_', '+', '-', ' ', '\u0663', 'a', '\t', '.'], repeat=n)})
    outs = ctx.model([[4, v] for v in vals])
    for v, o in zip(vals, outs):
        if o is None:
            continue
        try:
            int(v)
            want = 1
        except ValueError:
            want = 0
        inp = {'op': 'int-scan', 'line': v}
        ctx.case('int-scanner', inp)
        if o != want:
            ctx.disagree(inp, o, want, 'int(value) succeeds')


def replay(ctx, inp):
    env()
    if inp.get('op') in ('format-scan', 'int-scan', 'class-table'):
        return None
    return oracle(inp, run_impl(inp))


def shrink(ctx, inp):
    """drop lines, then scripts, while the property still fails (the final PING stays)"""
    lines = stream_lines(inp)
    tok = inp.get('final_ping')
    fin = ('PING :%s\r' % tok).encode('latin-1') if tok else None
    if fin is not None and lines and lines[-1] == fin:
        lines = lines[:-1]

    def build(ls, cbs=inp.get('cbs', []), addmsg=inp.get('addmsg', [])):
        c = {'chunks': [['d', (l + b'\n').decode('latin-1')] for l in ls if len(l) < 1024], 'cbs': cbs, 'addmsg': addmsg}
        if inp.get('decode'):
            c['decode'] = inp['decode']
        if tok:
            c['final_ping'] = tok
            c['chunks'].append(['d', 'PING :%s\r\n' % tok])
        return c
    if any(it[0] != 'd' for it in inp['chunks']) or replay(ctx, build(lines)) is None:
        return inp
    small = shrink_seq(lines, lambda ls: replay(ctx, build(ls)) is not None, budget=150)
    if replay(ctx, build(small, [], [])) is not None:
        return build(small, [], [])
    return build(small)
