"""C16 — user, channel, ignore and network databases reload to exactly what was saved."""
import os, sys, types
import boot
from lib import wire
from lib.shrink import shrink_seq

TABLES = ['T16']
RULE = ('database states are built through the real ircdb API (newUser/setUser/addCapability/addHostmask/addNick/delUser..., '
        'getChannel/addBan/addIgnore/setChannel, getNetwork/addStsPolicy, IgnoresDB.add) on fresh dictionary instances with scratch '
        'file names from generated field values (spaces, tabs, blanks, control characters, CR/LF, non-ASCII, #, case variants) through '
        'random add/modify/delete sequences; real flush -> new instance open.  The flushed text is compared with the model writer, the '
        'reloaded state (and the swallowed exception, nextId, class-level creator variable) with the model reader, the domain predicate '
        'is evaluated by the extracted model, and dump-before = dump-after is evaluated directly.  A second, hostile stream feeds '
        'hand-made and mutated file texts to the real readers and the model readers.  Every other state case is saved under one configuration and '
        'loaded under another (supybot.protocols.irc.strictRfc off->on, on->off, on->on for channels/networks/ignores, with ban masks that addBan accepts '
        'only while strictRfc is off: extbans, masks without ! / @; databases.users.timeoutIdentification 0<->1 for users); the load-time strictRfc is an '
        'input of the model channel reader; the preferred encoding of the locale at load time (utf-8 / latin-1 / ascii, injected through the open() the readers call) '
        'is varied as well and is an input of the model (reread).  The dictionary under test is installed as ircdb.users while operations run, so refused operations '
        '(nick already owned by another account, duplicate hostmask without pre-check, invalid capability) are exercised, as are nicks the non-strict isNick lets through (newline, tab, other whitespace, empty); every addNick/removeNick call is '
        'also diffed against the model of the mutators.  non-trivial = distinct case with at least one record')
TRUSTED = ['str.isspace table, rfc1459 fold table, writer keywords and Creator method names are regenerated from the source (T16)',
           'configuration: T16.CONF_READ_* = options read by the code reachable from each reader / the writers (typed call graph over ircdb.py and '
           'unpreserve.py; calls into utils/ircutils/log are not followed, ircutils.py is checked to contain no conf access); the users reader reaches '
           'databases.users.timeoutIdentification (IrcUser.checkHostmask, only used for auth entries, which a loaded account does not have)',
           'modelled domain of primitives: str.lower()/re.I are ASCII-only in the model (generators avoid cased non-ASCII letters in names, '
           'commands and hostmasks); int()/float()/safeEval() are modelled for sign+ASCII digits(+fraction) and True/False/None/integers with trailing blanks or a # comment '
           '(generators avoid underscores, exponents, inf/nan, other literals); set iteration order is an input of the writer',
           'file encoding: utf-8 both ways (surrogates are not generated)']
ASSUMPTIONS = ['world.testing/log.testing off; fresh UsersDictionary/ChannelsDictionary/NetworksDictionary/IgnoresDB instances on scratch files',
               'IrcUserCreator.u / IrcChannelCreator.name / IrcNetworkCreator.name (class attributes) are part of the modelled state',
               'ignore expiries compared at whole seconds; networks without any policy/disconnect time are not counted as lost (net_expected)']
LEVEL_TEXT = ('Coq theorems over an executable Gallina model of the ircdb.py writers (preserve/flush) and of unpreserve.Reader.read driving the three '
              'Creator classes plus IgnoresDB.open/flush, on the full file text.  For every users / channels / networks / ignores database in a decidable '
              'domain (users_dom, chan_dom, net_dom, ign_dom: safe free-text fields, token fields, set-like fields stable under re-adding, keys distinct '
              'under folding, no load-time collision) the reader applied to the writer output returns exactly the saved state (users: sorted by id; '
              'channels: same flags, same capability set, same ban/ignore dictionaries; networks: every network holding a policy or disconnect time; '
              'ignores: the unexpired entries at whole seconds) and no exception stops the load; proved by induction over the record lists and the lines '
              'of a record.  Refuting witnesses outside the domains (newline in a name injects `capability owner`; blank name stops the load; leading '
              'blank / TAB mangled; hashed flag without password; ignore mask starting with #).  The model is tied to the source by regenerated tables '
              '(keywords, handler names, whitespace/fold tables, creator defaults) and by the differential run against the real dictionaries on every check.')
LEVEL_NOTE = ('Trusted: Coq kernel, gen_tables.py, extraction + OCaml driver, the Python harness; CPython primitives on their modelled domain; '
              'hostmask glob matching and the setUser collision handling are modelled and enter the users domain predicate.  The domain predicates are '
              'extracted and evaluated on every generated state: a round-trip failure inside a domain is always a VIOLATION, never a known finding.  '
              'Modelled but not verified / not modelled (gap audit): (1) decoding is modelled on the whole file, the real reader decodes in 8 KiB chunks '
              '(only matters for undecodable files, which the repaired readers never see); lone surrogates cannot be encoded: flush itself raises '
              'UnicodeEncodeError and nothing is saved any more (API only, not generated); (2) str.lower() / re.I are ASCII-only in the model: cased '
              'non-ASCII letters in names, channel keys and hostmasks are probed directly (lower() is idempotent on every code point, non-ASCII channel '
              'keys round-trip) but not differentially modelled; (3) the flush that open() performs after a successful load, the later flush that makes '
              'an aborted load permanent, reload() on a live instance (same open() on cleared dictionaries) and utils.file.AtomicFile (C17) are outside '
              'the model; (4) nextId: finding C16.k (not saved; falls back to the largest stored id); that nextId >= every stored id in every reachable state is '
              'taken from newUser/setUser, not proved; (5) auth (logins), IrcChannel.silences/exceptions/expiredBans are not persisted by design '
              'and outside the property text; (6) the conf sweep does not follow calls into utils/ircutils/log; (7) int()/float()/safeEval() are modelled '
              'on the subsets the writers produce (no exponents, underscores, non-ASCII digits); ignore expiries >= 0; (8) the mutators other than '
              'addNick/removeNick (addCapability, addHostmask, setUser refusal paths) are exercised by the generator but not modelled statement by statement.')
TECHNIQUE = 'Coq proof (induction over records and lines, reader invariant) + regenerated tables + extracted-model differential correspondence'
EXPLANATION = 'C16: writer/reader model of src/ircdb.py + src/unpreserve.py; theorems in coq/C16/Props.v'

_state = {}


def _ircdb():
    d = boot.boot()
    if 'ircdb' not in _state:
        import supybot.ircdb as ircdb
        _state['ircdb'] = ircdb
        _state['dir'] = d
        _state['n'] = 0
        _state['exc'] = []

        def rec(*a, **k):
            _state['exc'].append(sys.exc_info()[0].__name__ if sys.exc_info()[0] else 'logged')
        ircdb.log.exception = rec
        import builtins
        import supybot.unpreserve as unpreserve

        def locale_open(fn, *a, **k):
            # open() without encoding= uses the preferred encoding of the locale: an input of the check
            mode = a[0] if a else k.get('mode', 'r')
            if 'b' not in mode and k.get('encoding') is None:
                k['encoding'] = _state.get('locale_enc', 'utf-8')
            return builtins.open(fn, *a, **k)
        unpreserve.open = locale_open
        ircdb.open = locale_open
    return _state['ircdb']


def apply_cfg(c=None):
    """put the configuration options the readers/writers can reach (T16.CONF_READ_*) into a given state;
    no argument = the defaults"""
    import supybot.conf as conf
    c = c or {}
    conf.supybot.protocols.irc.strictRfc.setValue(bool(c.get('strict', False)))
    conf.supybot.databases.users.timeoutIdentification.setValue(int(c.get('timeout', 0)))
    _state['locale_enc'] = c.get('encoding', 'utf-8')


def cfg_of(inp, when):
    return (inp.get('cfg') or {}).get(when) or {}


def scratch(name):
    _state['n'] += 1
    return os.path.join(_state['dir'], 'conf', 'c16_%d_%s' % (_state['n'], name))


def read_text(fn):
    with open(fn, encoding='utf-8', newline='') as f:
        return f.read()


def write_text(fn, text):
    with open(fn, 'w', encoding='utf-8', newline='') as f:
        f.write(text)


# ---------------------------------------------------------------------------
# users
def dump_user(id, u):
    return [id, u.name, bool(u.ignore), bool(u.secure), bool(u.hashed), u.password,
            [str(c) for c in u.capabilities], [str(h) for h in u.hostmasks],
            [[n, list(v)] for n, v in u.nicks.items()], list(u.gpgkeys)]


def dump_users(d):
    return [dump_user(i, u) for i, u in d.users.items()]


def canon_user(u):
    return [u[0], u[1], u[2], u[3], u[4], u[5], sorted(u[6]), sorted(u[7]), sorted([n, v] for n, v in u[8]), u[9]]


def canon_users(dump):
    return sorted((canon_user(u) for u in dump), key=lambda u: (u[0] is None, u[0]))


def wire_user(u):
    return [wire.opt(u[0]), u[1], u[2], u[3], u[4], u[5], u[6], u[7], [[n, v] for n, v in u[8]], u[9]]


def dec_user(v):
    return [wire.o(v[0]), wire.s(v[1]), bool(v[2]), bool(v[3]), bool(v[4]), wire.s(v[5]), wire.ls(v[6]), wire.ls(v[7]),
            [[wire.s(nn[0]), wire.ls(nn[1])] for nn in v[8]], wire.ls(v[9])]


def new_users(ircdb):
    d = ircdb.UsersDictionary()
    d.open(scratch('users.conf'))       # missing file: EnvironmentError is logged, filename is set
    return d


def _taken(d, s):
    """users.getUserId(s) finds somebody (the pre-check of User.register / changename / hostmask add)"""
    try:
        d.getUserId(s)
        return True
    except KeyError:
        return False
    except ValueError:          # DuplicateHostmask
        return True


def apply_user_op(ircdb, d, op):
    """one API step, transactional the way the User plugin commands are: pre-check, mutate, setUser, roll back on DuplicateHostmask"""
    k = op[0]
    ids = list(d.users.keys())
    try:
        if k == 'reg':
            if _taken(d, op[1]) or (op[3] and _taken(d, op[3])):
                return
            u = d.newUser()
            u.name = op[1]
            u.password = op[2]
            try:
                if op[3]:
                    u.addHostmask(op[3])
                d.setUser(u)
            except (ValueError, AssertionError):
                d.delUser(u.id)
            return
        if k == 'new':
            d.newUser()
            return
        if not ids:
            return
        i = ids[op[1] % len(ids)]
        u = d.users[i]
        undo = None
        if k == 'cap':
            u.addCapability(op[2])
        elif k == 'uncap':
            u.removeCapability(op[2])
        elif k in ('host', 'host!'):
            if k == 'host' and (_taken(d, op[2]) or op[2] in u.hostmasks):
                return
            if op[2] in u.hostmasks:
                return
            u.addHostmask(op[2])
            undo = lambda: u.removeHostmask(op[2])
        elif k == 'unhost':
            u.removeHostmask(op[2])
        elif k in ('nick', 'unnick', 'unnick*'):
            if k == 'unnick*':          # remove a nick the account really has
                owned = [(n, v[0]) for n, v in u.nicks.items() if v]
                if not owned:
                    return
                op, k = ['unnick', op[1]] + list(owned[0]), 'unnick'
            log = _state.get('nicklog')
            rec = None
            if log is not None and len(log) < 600:
                import supybot.ircutils as ircutils
                rec = {'op': k, 'db': dump_users(d), 'user': dump_user(i, u), 'net': op[2], 'nick': op[3],
                       'valid': bool(ircutils.isNick(op[3]))}
            exc = None
            try:
                if k == 'nick':
                    u.addNick(op[2], op[3])
                else:
                    u.removeNick(op[2], op[3])
            except (KeyError, AssertionError, ValueError) as e:
                exc = type(e).__name__
            if rec is not None:
                rec['after'], rec['exc'] = dump_user(i, u), exc
                log.append(rec)
            if exc:
                return
        elif k == 'rename':
            if _taken(d, op[2]):
                return
            old = u.name
            u.name = op[2]
            undo = lambda: setattr(u, 'name', old)
        elif k == 'flag':
            u.ignore, u.secure = bool(op[2]), bool(op[3])
        elif k == 'pw':
            u.hashed, u.password = bool(op[2]), op[3]
        elif k == 'gpg':
            u.gpgkeys.append(op[2])
        elif k == 'del':
            d.delUser(i)
            return
        try:
            d.setUser(u)
        except ValueError:
            if undo:
                undo()
    except (KeyError, ValueError, AssertionError):
        pass


def load_users(ircdb, text, u0=None):
    """real UsersDictionary.open of a file holding text -> (dump, nextId, exception name, class-level u afterwards)"""
    fn = scratch('users.conf')
    write_text(fn, text)
    if u0 is None:
        ircdb.IrcUserCreator.u = None
    else:
        u = ircdb.IrcUser()
        u.id, u.name, u.ignore, u.secure, u.hashed, u.password = u0[0], u0[1], u0[2], u0[3], u0[4], u0[5]
        for c in u0[6]:
            set.add(u.capabilities, c)
        for h in u0[7]:
            u.hostmasks.add(h)
        for n, v in u0[8]:
            u.nicks[n] = list(v)
        u.gpgkeys = list(u0[9])
        ircdb.IrcUserCreator.u = u
    d = ircdb.UsersDictionary()
    _state['exc'] = []
    d.open(fn)
    exc = _state['exc'][0] if _state['exc'] else None
    cu = ircdb.IrcUserCreator.u
    after = None if cu is None else dump_user(cu.id, cu)
    ircdb.IrcUserCreator.u = None
    return dump_users(d), d.nextId, exc, after


def dec_load_users(out):
    ex = wire.o(out[2], lambda c: wire.EXN[c])
    return [dec_user(u) for u in out[0]], out[1], ex, wire.o(out[3], dec_user)


def canon_load(dump, nxt, exc, after):
    return [[canon_user(u) for u in dump], nxt, exc, None if after is None else canon_user(after)]


def users_case(ircdb, ops):
    """run ops on a fresh dictionary; returns (dump before, flushed text)"""
    d = new_users(ircdb)
    saved = ircdb.users
    ircdb.users = d          # IrcUser.addNick asks the global users.getUserFromNick whether the nick is taken
    try:
        for op in ops:
            apply_user_op(ircdb, d, op)
    finally:
        ircdb.users = saved
    d.flush()
    _state['nextid'] = d.nextId
    return dump_users(d), read_text(d.filename)


def users_oracle(ircdb, before, text, nextid=None):
    """the property text: reloading the flushed file gives the same accounts, loading does not stop;
    nextId is part of the saved state (an id must never be handed out twice)"""
    dump, nxt, exc, after = load_users(ircdb, text)
    if exc is not None:
        lost = len(before) - len(dump)
        return 'loading users.conf stopped part-way with %s: %d of %d accounts loaded' % (exc, len(dump), len(before)), dump
    a, b = canon_users(before), canon_users(dump)
    if a != b:
        for x in a:
            if x not in b:
                y = [z for z in b if z[0] == x[0]]
                return 'account %r reloaded as %r' % (x, y[0] if y else 'nothing (lost)'), dump
        return 'accounts added by reload: %r' % [z for z in b if z not in a], dump
    if nextid is not None and nxt != nextid:
        return 'nextId %d reloaded as %d: the next account would get the id of a deleted one' % (nextid, nxt), dump
    return None, dump


# class predicates work on the final state of the replayed operations
def _final(inp):
    key = wire.enc([str(inp)])
    if _state.get('final_key') != key:
        ircdb = _ircdb()
        apply_cfg(cfg_of(inp, 'save'))
        if inp.get('db') == 'users':
            _state['final'], ftext = users_case(ircdb, inp['ops'])
            _state['final_nextid'] = _state['nextid']
            # what the oracle says about this very state on the code under test (the C16.k class needs it: only a
            # failure that IS the nextId clause belongs to that finding, whatever else the history did)
            apply_cfg(cfg_of(inp, 'load'))
            try:
                _state['final_detail'] = users_oracle(ircdb, _state['final'], ftext, _state['final_nextid'])[0] or ''
            except Exception as e:
                _state['final_detail'] = 'oracle raised %r' % (e,)
            apply_cfg(cfg_of(inp, 'save'))
        elif inp.get('db') == 'channels':
            _state['final'] = chans_case(ircdb, inp['ops'])[0]
        elif inp.get('db') == 'ignores':
            _state['final'] = inp['ops']
        else:
            _state['final'] = None
        apply_cfg()
        _state['final_key'] = key
    return _state['final']


def _texts(u):
    # nick networks and nicks are validated by IrcUser.addNick since the repair C16.j: not free text
    return [u[1], u[5]] + u[6] + u[7] + u[9]


def has_newline(inp):
    return inp.get('db') == 'users' and any(('\n' in t or '\r' in t) for u in _final(inp) for t in _texts(u))


def blank_name(inp):
    return inp.get('db') == 'users' and any(u[1].strip() == '' for u in _final(inp))


def ws_mangled(inp):
    if inp.get('db') != 'users':
        return False
    for u in _final(inp):
        for t in [u[1]] + ([u[5]] if u[5] else []) + u[9]:
            if t[:1].isspace() or '\t' in t or t == '':
                return True
    return False


def name_hostmask(inp):
    import supybot.ircutils as ircutils
    return inp.get('db') == 'users' and any(ircutils.isUserHostmask(u[1]) for u in _final(inp))


def nextid_lower(inp):
    """class of finding C16.k: the history deleted the account with the highest id before the flush,
    so nextId is above every stored id"""
    if inp.get('db') != 'users':
        return False
    final = _final(inp)
    return (_state.get('final_nextid', 0) > max([u[0] for u in final] or [0])
            and _state.get('final_detail', '').startswith('nextId '))


def hashed_nopw(inp):
    return inp.get('db') == 'users' and any(u[4] and not u[5] for u in _final(inp))


def chan_default_removed(inp):
    if inp.get('db') != 'channels':
        return False
    ircdb = _ircdb()
    for _, c in _final(inp):
        for off in ircdb.IrcChannel.defaultOff:
            if off not in c[2] and '-' + off not in c[2]:
                return True
    return False


def _bad_rest(k):
    """a rest-of-line value the reader does not return unchanged"""
    return k == '' or k[0].isspace() or any(c in k for c in '\t\r\n')


def _bad_token(p):
    return p == '' or any(ch.isspace() for ch in p)


def chan_unsafe(inp):
    return inp.get('db') == 'channels' and any(_bad_rest(k) or any(_bad_token(p) for p, _ in c[3] + c[4])
                                               for k, c in _final(inp))


def net_unsafe(inp):
    return inp.get('db') == 'networks' and any(
        _bad_rest(op[1]) or (op[0] in ('sts', 'disc') and _bad_token(op[2])) or (op[0] == 'sts' and _bad_token(op[3]))
        for op in inp['ops'])


def ignore_unsafe(inp):
    return inp.get('db') == 'ignores' and any(op[0] == 'add' and (op[1].startswith('#') or '\n' in op[1]) for op in inp['ops'])


def _cls(f):
    # a failure inside the proved domain is never attributed to a known class
    return lambda inp: not inp.get('in_domain') and f(inp)


CLASSES = {k: _cls(f) for k, f in {
    'field_newline': has_newline, 'name_blank': blank_name, 'field_ws_mangled': ws_mangled,
    'hashed_without_password': hashed_nopw, 'name_hostmask_shaped': name_hostmask, 'nextid_above_stored_ids': nextid_lower,
    'chan_default_anticap_removed': chan_default_removed, 'chan_unsafe_token': chan_unsafe,
    'net_unsafe_token': net_unsafe, 'ignore_unsafe_hostmask': ignore_unsafe}.items()}

NAMES_SAFE = ['alice', 'Bob', 'x y', 'é', 'a#b', '#c', 'café au lait', 'n\x01', 'trail ', 'a b', 'CASE', 'zed',
              'a!b', 'a@b', 'x\x0c', 'x\x1cy', 'x y', 'x\x85', 'owner', 'name', 'user 7', 'q  q', '中文', '-', '0']
NAMES_HOSTILE = ['xxx!yyy@zzz', 'x\n  capability owner', ' ', '', ' lead', 'a\tb', '\t', 'x\ry', 'x\r\n  hostmask *!*@*', ' nb', '\x0bvt',
                 'a\nuser 9', ' ', 'x\n', '\nx', 'a\n\nb', 'a\n  name b', 'x\n  ignore True', '\x0c', 'x\n  bogus 1']
PASSWORDS = ['ab12|0f0f0f', 'pw', 'p w', 'sha|é', 'P#1']
PASSWORDS_HOSTILE = ['', ' p', 'a\tb', 'p\n  capability owner', 'p\r']
CAPS = ['owner', 'admin', '-admin', 'op', '-op', 'Trusted', '#chan,op', '#chan,-op', '#Chan,OP', 'a.b', 'é', '-x', 'x', '[y]', '{y}',
        '-owner', 'a b', '', '&c,voice', 'x\n']
HOSTS = ['xxx!yyy@*', 'al!ice@host', 'AL!ice@HOST', '*!*@host', 'bob!*@*.example', 'b[ob!x@y', 'b{ob!x@y', 'x!y@z', '*!*@*', 'n?ck!u@h', 'car!ol@hôte',
         'zz!yy@xx', 'nomask', 'a b!c@d', 'q!w@e\n', '#x!y@z', 'ab*!*@*', '*ab!*@*']
NETS = ['libera', 'Net2', 'n 3']
NICKS = ['alice', 'Al', 'bob_', '[x]', 'a b', '']
# nicks the non-strict ircutils.isNick lets through although the `nicks <network> a b c` line cannot hold them
NICKS_HOSTILE = ['x\n\tcapability\towner', 'alice\n', 'a\tb', '\talice', 'a\rb', 'a\x0bb', 'a\xa0b', 'a\x0c', 'x\u2028y', 'x\r\n  capability owner']
GPG = ['0xDEADBEEF', 'key with space', ' k', 'k\n  capability owner', 'A\tB']


def gen_user_ops(rng, hostile):
    names = NAMES_SAFE + (NAMES_HOSTILE if hostile else [])
    pws = PASSWORDS + (PASSWORDS_HOSTILE if hostile else [])
    ops = []
    for _ in range(rng.randint(1, 4)):
        ops.append(['reg', rng.choice(names), rng.choice(pws), rng.choice(HOSTS + ['', ''])])
    for _ in range(rng.randint(0, 8)):
        k = rng.random()
        i = rng.randrange(8)
        if k < 0.25:
            ops.append(['cap', i, rng.choice(CAPS)])
        elif k < 0.32:
            ops.append(['uncap', i, rng.choice(CAPS)])
        elif k < 0.44:
            ops.append(['host', i, rng.choice(HOSTS)])
        elif k < 0.47:
            ops.append(['host!', i, rng.choice(HOSTS)])
        elif k < 0.50:
            ops.append(['unhost', i, rng.choice(HOSTS)])
        elif k < 0.60:
            ops.append(['nick', i, rng.choice(NETS), rng.choice(NICKS + (NICKS_HOSTILE if hostile or rng.random() < 0.15 else []))])
        elif k < 0.62:
            ops.append(['unnick', i, rng.choice(NETS), rng.choice(NICKS)])
        elif k < 0.64:
            ops.append(['unnick*', i])
        elif k < 0.74:
            ops.append(['rename', i, rng.choice(names)])
        elif k < 0.82:
            ops.append(['flag', i, rng.random() < 0.5, rng.random() < 0.5])
        elif k < 0.88:
            ops.append(['pw', i, rng.random() < 0.5, rng.choice(pws)])
        elif k < 0.92:
            ops.append(['gpg', i, rng.choice(GPG if hostile else GPG[:2])])
        elif k < 0.96:
            ops.append(['del', i])
        elif hostile:
            ops.append(['new'])
        else:
            ops.append(['reg', rng.choice(names), rng.choice(pws), rng.choice(HOSTS + [''])])
    if rng.random() < 0.2:
        # two accounts claim the same nick on the same network: the second claim is refused
        a, net, nick = rng.randrange(4), rng.choice(NETS[:2]), rng.choice(NICKS[:4])
        ops += [['nick', a, net, nick], ['nick', a + 1, net, nick]]
    return ops


USER_LINES = ['user 1', 'user 2', 'user 3', 'user x', 'user -3', 'user 1 ', 'user', 'user  4', 'USER 5', '  name a', '  name b', '  name A',
              '  name', '  name  b ', '    name deep', '\tname tab', ' name one', '  ignore True', '  ignore False', '  ignore 0', '  ignore 12',
              '  ignore maybe', '  ignore None', '  ignore True# c', '  secure False\x0c', '  hashed #True', '  ignore True #', '  ignore Tr#ue', '  secure False', '  secure True ', '  hashed True', '  password p', '  password  two  ',
              '  capability owner', '  capability -owner', '  capability a b', '  capability #c,op', '  capability #c,-op', '  capability OP',
              '  capability -op', '  capability op', '  hostmask a!b@c', '  hostmask A!b@c', '  hostmask *!*@*', '  hostmask nomask',
              '  hostmask a*!*@*', '  hostmask [x!b@c', '  hostmask {x!b@c', '  nicks net a b', '  nicks net', '  nicks net ', '  nicks Net c',
              '  gpgkey K', '  bogus x', '  finish x', '  __init__ x', '  u x', '  users x', '  NAME up', '', '   ', '#c', '\x0c',
              '  name a\x0cb', '  name\x0bv', 'name top', '  user 9', '  name a!b@c', '  name q!w@e', '  name nb', '  name em']
CHAN_LINES = ['channel #a', 'channel #B', 'channel #a b', 'channel', 'channel #[x', 'channel #{x', '  lobotomized True', '  lobotomized False',
              '  lobotomized x', '  lobotomized True#x', '  defaultAllow False', '  defaultallow True', '  defaultAllow', '  capability op', '  capability -op',
              '  capability Voice', '  capability a b', '  capability x', '  ban a!b@c 0', '  ban a!b@c 12', '  ban a!b@c 12.7', '  ban a!b@c',
              '  ban a!b@c 1 2', '  ban a!b@c x', '  ignore q!w@e 5', '  ignore q!w@e -5', '  bogus 1', '  name x', '  c x', '  finish x', '',
              '    ban deep!a@b 3', 'lobotomized True', '  channel #z', '\tban t!a@b 3', '  ignore *!*@* +7']
NET_LINES = ['network a', 'network B', 'network', 'network a b', '  stsPolicy s duration=1,port=2', '  stspolicy t p', '  stsPolicy s', '  stsPolicy s p q',
             '  lastDisconnectTime s 12', '  lastDisconnectTime s x', '  lastDisconnectTime s 1.5', '  lastdisconnecttime t -3', '  bogus 1', '  net x',
             '  name x', '', 'stsPolicy top p', '    stsPolicy deep p', '  network c']
IGN_LINES = ['a!b@c 0', 'a!b@c', 'A!b@c 12', 'a!b@c 12.9', '#x!y@z 0', '# comment', 'nomask 0', 'a!b@c x', '  q!w@e 5 6', '', '   ', 'a!b@c -4',
             'a!b@c 0.0', '\x0ca!b@c 3', 'a!b@c\t7']


def gen_text(rng, vocab):
    n = rng.randint(1, 10)
    sep = rng.choice(['\n', '\n', '\n', '\r\n', '\r'])
    t = sep.join(rng.choice(vocab) for _ in range(n))
    if rng.random() < 0.7:
        t += sep
    return t


def mutate(rng, text):
    if not text:
        return text
    k = rng.random()
    i = rng.randrange(len(text) + 1)
    if k < 0.5:
        return text[:i] + rng.choice([' ', '\t', '\n', '\r', '#', 'x', '\x0c', '  ', ' ', 'A', '-', '1']) + text[i:]
    if k < 0.8:
        return text[:i] + text[i + 1:]
    lines = text.split('\n')
    j = rng.randrange(len(lines))
    return '\n'.join(lines[:j] + lines[j + 1:] + ([lines[j]] if k < 0.9 else []))


# ---------------------------------------------------------------------------
# channels
def dump_chan(c):
    return [bool(c.lobotomized), bool(c.defaultAllow), [str(x) for x in c.capabilities],
            [[k, v] for k, v in c.bans.items()], [[k, v] for k, v in c.ignores.items()]]


def dump_chans(d):
    return [[k, dump_chan(c)] for k, c in d.channels.items()]


def canon_chans(dump):
    return sorted([k, [c[0], c[1], sorted(c[2]), sorted(c[3]), sorted(c[4])]] for k, c in dump)


def dec_chan(v):
    return [bool(v[0]), bool(v[1]), wire.ls(v[2]), [[wire.s(p[0]), p[1]] for p in v[3]], [[wire.s(p[0]), p[1]] for p in v[4]]]


def apply_chan_op(ircdb, d, op):
    try:
        c = d.getChannel(op[1])
        k = op[0]
        if k == 'cap':
            c.addCapability(op[2])
        elif k == 'uncap':
            c.removeCapability(op[2])
        elif k == 'ban':
            c.addBan(op[2], op[3])
        elif k == 'unban':
            c.removeBan(op[2])
        elif k == 'ign':
            c.addIgnore(op[2], op[3])
        elif k == 'flags':
            c.lobotomized = bool(op[2])
            c.setDefaultCapability(bool(op[3]))
        d.setChannel(op[1], c)
    except (KeyError, ValueError, AssertionError):
        pass


def chans_case(ircdb, ops):
    d = ircdb.ChannelsDictionary()
    d.open(scratch('channels.conf'))
    for op in ops:
        apply_chan_op(ircdb, d, op)
    d.flush()
    return dump_chans(d), read_text(d.filename)


def load_chans(ircdb, text, n0=None):
    fn = scratch('channels.conf')
    write_text(fn, text)
    ircdb.IrcChannelCreator.name = n0
    d = ircdb.ChannelsDictionary()
    _state['exc'] = []
    d.open(fn)
    exc = _state['exc'][0] if _state['exc'] else None
    after = ircdb.IrcChannelCreator.name
    ircdb.IrcChannelCreator.name = None
    return dump_chans(d), exc, after


CHANS = ['#chan', '#Chan', '#CHAN', '#other', '&loc', '#[x]', '#{x}', '#é', '#a b', '#t\tb', ' #lead', '#nl\n  lobotomized True', '']
BANS = ['a!b@c', 'A!B@C', '*!*@host', 'q!w@e', 'x!y@z\n', 'né!u@h']
# masks IrcChannel.addBan accepts only while supybot.protocols.irc.strictRfc is off: extbans, masks without ! / @
LENIENT_BANS = ['$a:Troll', '~q:nick!*@*', 'nomask', '*', '$r:*bot*']


def gen_chan_ops(rng, hostile):
    chans = CHANS[:8] + (CHANS[8:] if hostile else [])
    ops = []
    for _ in range(rng.randint(1, 7)):
        k = rng.random()
        ch = rng.choice(chans)
        if k < 0.3:
            ops.append(['cap', ch, rng.choice(CAPS[:12] + ['voice', '-voice', 'halfop', 'protected', 'x'])])
        elif k < 0.4:
            ops.append(['uncap', ch, rng.choice(['-op', '-voice', 'op', 'x', '-halfop'] if hostile else ['x', 'op', 'admin'])])
        elif k < 0.6:
            ops.append(['ban', ch, rng.choice(BANS[:4] + BANS[5:] + LENIENT_BANS + (BANS[4:5] if hostile else [])),
                        rng.choice([0, 0, 1700000000, 5, 1700000000.7 if hostile else 6])])
        elif k < 0.65:
            ops.append(['unban', ch, rng.choice(BANS)])
        elif k < 0.8:
            ops.append(['ign', ch, rng.choice(BANS[:4] + BANS[5:] + LENIENT_BANS[:2] + (BANS[4:5] if hostile else [])), rng.choice([0, 99, 1700000001])])
        else:
            ops.append(['flags', ch, rng.random() < 0.5, rng.random() < 0.5])
    return ops


# ---------------------------------------------------------------------------
# networks
def dump_nets(d):
    return [[k, [[[s, p] for s, p in n.stsPolicies.items()], [[s, t] for s, t in n.lastDisconnectTimes.items()]]]
            for k, n in d.networks.items()]


def canon_nets(dump):
    return sorted([k, [sorted(n[0]), sorted(n[1])]] for k, n in dump if n[0] or n[1])


def dec_net(v):
    return [[[wire.s(p[0]), wire.s(p[1])] for p in v[0]], [[wire.s(p[0]), p[1]] for p in v[1]]]


def apply_net_op(ircdb, d, op):
    try:
        n = d.getNetwork(op[1])
        if op[0] == 'sts':
            n.addStsPolicy(op[2], op[3])
        elif op[0] == 'unsts':
            n.expireStsPolicy(op[2])
        elif op[0] == 'disc':
            n.lastDisconnectTimes[op[2]] = int(op[3])
    except (KeyError, ValueError, AssertionError):
        pass


def nets_case(ircdb, ops):
    d = ircdb.NetworksDictionary()
    d.open(scratch('networks.conf'))
    for op in ops:
        apply_net_op(ircdb, d, op)
    d.flush()
    return dump_nets(d), read_text(d.filename)


def load_nets(ircdb, text, n0=None):
    fn = scratch('networks.conf')
    write_text(fn, text)
    ircdb.IrcNetworkCreator.name = n0
    d = ircdb.NetworksDictionary()
    _state['exc'] = []
    d.open(fn)
    exc = _state['exc'][0] if _state['exc'] else None
    after = ircdb.IrcNetworkCreator.name
    ircdb.IrcNetworkCreator.name = None
    return dump_nets(d), exc, after


NETNAMES = ['libera', 'Libera', 'oftc', 'net[1]', 'net{1}', 'réseau']
SERVERS = ['irc.libera.chat', 'IRC.libera.chat', 'a.b', '[::1]']
POLICIES = ['duration=300,port=6697', 'port=6697', 'duration=0', 'p']


def gen_net_ops(rng, hostile):
    ops = []
    for _ in range(rng.randint(1, 6)):
        k = rng.random()
        n = rng.choice(NETNAMES + (['two words', ''] if hostile else []))
        if k < 0.5:
            ops.append(['sts', n, rng.choice(SERVERS), rng.choice(POLICIES + (['a b', ''] if hostile else []))])
        elif k < 0.6:
            ops.append(['unsts', n, rng.choice(SERVERS)])
        else:
            ops.append(['disc', n, rng.choice(SERVERS), rng.choice([0, 1700000000, 12])])
    return ops


# ---------------------------------------------------------------------------
# ignores
NOW = 1700000000


def fake_clock(ircdb):
    ircdb.time = types.SimpleNamespace(time=lambda: float(NOW))


def exp_wire(e):
    if isinstance(e, float):
        r = repr(e)
        ip, fp = r.split('.')
        return [int(ip), [fp]]
    return [int(e), []]


def ign_case(ircdb, ops):
    fake_clock(ircdb)
    d = ircdb.IgnoresDB()
    d.filename = scratch('ignores.conf')
    for op in ops:
        try:
            if op[0] == 'add':
                d.add(op[1], op[2])
            else:
                d.remove(op[1])
        except (KeyError, AssertionError):
            pass
    d.flush()
    return [[h, e] for h, e in d.hostmasks.items()], read_text(d.filename)


def load_ign(ircdb, text):
    fn = scratch('ignores.conf')
    write_text(fn, text)
    d = ircdb.IgnoresDB()
    try:
        d.open(fn)
    except UnicodeDecodeError:
        return [['!UnicodeDecodeError', -1]]
    return [[h, e] for h, e in d.hostmasks.items()]


IGN_HOSTS = ['a!b@c', 'A!B@C', '*!*@spam.example', 'q!w@e', 'né!u@h', '[x]!y@z']


def gen_ign_ops(rng, hostile):
    ops = []
    for _ in range(rng.randint(1, 6)):
        h = rng.choice(IGN_HOSTS + (['#x!y@z', 'x!y@z\n'] if hostile else []))
        if rng.random() < 0.85:
            ops.append(['add', h, rng.choice([0, 0, NOW + 100, NOW + 50.5, NOW - 10, NOW + 3.25, 5, NOW + 1])])
        else:
            ops.append(['del', h])
    return ops


# ---------------------------------------------------------------------------
def mk_inp(db, ops, cfg):
    inp = {'db': db, 'ops': ops}
    if cfg:
        inp['cfg'] = cfg
    return inp


def check_users_state(ctx, ircdb, ops, kind, batch, cfg=None):
    inp = mk_inp('users', ops, cfg)
    apply_cfg(cfg_of(inp, 'save'))
    before, text = users_case(ircdb, ops)
    nextid = _state['nextid']
    _state.setdefault('nextids', {})[id(before)] = nextid
    ctx.case(kind, inp, nontrivial=bool(before))
    apply_cfg(cfg_of(inp, 'load'))
    detail, after = users_oracle(ircdb, before, text, nextid)
    apply_cfg()
    batch.append(('users', inp, before, text, detail))
    return detail


def flush_batch(ctx, ircdb, batch):
    """correspondence for a batch of state cases (writer text, reader result, domain predicate)"""
    cases = []
    ENC = {'utf-8': 0, 'latin-1': 1, 'ascii': 2}
    need = [n for n, b in enumerate(batch) if cfg_of(b[1], 'load').get('encoding', 'utf-8') != 'utf-8']
    dec = ctx.model([[17, [ENC[cfg_of(batch[n][1], 'load')['encoding']], batch[n][3]]] for n in need])
    rtext = {}
    for n, o in zip(need, dec):
        if o is None:
            continue
        r = wire.r(o[1 if batch[n][0] == 'ignores' else 0], wire.s)
        rtext[n] = r[1] if r[0] == 'ok' else None
        if r[0] != 'ok':
            ctx.dist['model-says-undecodable'] += 1
    full = batch[:]
    batch[:] = [b for n, b in enumerate(full) if rtext.get(n, '') is not None]      # undecodable ones: oracle only
    rt = [rtext.get(n, b[3]) for n, b in enumerate(full) if rtext.get(n, '') is not None]
    for (db, inp, before, text, detail), mtext in zip(batch, rt):
        if db == 'users':
            cases += [[18, [_state.get('nextids', {}).get(id(before), 0), [wire_user(u) for u in before]]], [1, [[], mtext]],
                      [2, [wire_user(u) for u in before]]]
        elif db == 'channels':
            cases += [[3, [[k, c] for k, c in before]], [14, [bool(cfg_of(inp, 'load').get('strict')), [], mtext]],
                      [5, [[k, c] for k, c in before]]]
        elif db == 'networks':
            cases += [[6, [[k, n] for k, n in before]], [7, [[], mtext]], [8, [[k, n] for k, n in before]]]
        elif db == 'ignores':
            cases += [[9, [NOW, [[h, exp_wire(e)] for h, e in before]]], [10, mtext],
                      [11, [NOW, [[h, exp_wire(e)] for h, e in before]]]]
    outs = ctx.model(cases)
    i = 0
    for db, inp, before, text, detail in batch:
        apply_cfg(cfg_of(inp, 'load'))
        if db == 'users':
            w, r, dom = outs[i:i + 3]
            i += 3
            if w is None:
                continue
            if wire.s(w) != text:
                ctx.disagree(inp, wire.s(w), text, 'UsersDictionary.flush text')
            impl = canon_load(*load_users(ircdb, text))
            mod = canon_load(*dec_load_users(r))
            if impl != mod:
                ctx.disagree(inp, mod, impl, 'UsersDictionary.open of the flushed text')
            if dom == 1 and _state.get('nextids', {}).get(id(before), 0) != max([u[0] for u in before] or [0]):
                dom = 0
                ctx.dist['users-nextid-above-stored-ids'] += 1
            if dom == 1 and detail is not None:
                # inside the proved domain the property must hold: never attribute this to a known class
                ctx.fail(dict(inp, in_domain=True), 'inside users_dom: ' + detail)
            if dom == 1:
                ctx.dist['users-inside-domain'] += 1
            if dom == 0 and detail is None:
                ctx.dist['users-outside-domain-but-round-trips'] += 1
        elif db == 'channels':
            w, r, dom = outs[i:i + 3]
            i += 3
            if w is None:
                continue
            if dom == 1:
                ctx.dist['channels-inside-domain'] += 1
                if detail is not None:
                    ctx.fail(dict(inp, in_domain=True), 'inside the proved domain: ' + detail)
            elif detail is None:
                ctx.dist['channels-outside-domain-but-round-trips'] += 1
            if wire.s(w) != text:
                ctx.disagree(inp, wire.s(w), text, 'ChannelsDictionary.flush text')
            dump, exc, after = load_chans(ircdb, text)
            impl = [canon_chans_o(dump), exc, after]
            mod = [canon_chans_o([[wire.s(kv[0]), dec_chan(kv[1])] for kv in r[0]]), wire.o(r[1], lambda c: wire.EXN[c]), wire.o(r[2], wire.s)]
            if impl != mod:
                ctx.disagree(inp, mod, impl, 'ChannelsDictionary.open of the flushed text')
        elif db == 'networks':
            w, r, dom = outs[i:i + 3]
            i += 3
            if w is None:
                continue
            if dom == 1:
                ctx.dist['networks-inside-domain'] += 1
                if detail is not None:
                    ctx.fail(dict(inp, in_domain=True), 'inside the proved domain: ' + detail)
            elif detail is None:
                ctx.dist['networks-outside-domain-but-round-trips'] += 1
            if wire.s(w) != text:
                ctx.disagree(inp, wire.s(w), text, 'NetworksDictionary.flush text')
            dump, exc, after = load_nets(ircdb, text)
            impl = [dump, exc, after]
            mod = [[[wire.s(kv[0]), dec_net(kv[1])] for kv in r[0]], wire.o(r[1], lambda c: wire.EXN[c]), wire.o(r[2], wire.s)]
            if impl != mod:
                ctx.disagree(inp, mod, impl, 'NetworksDictionary.open of the flushed text')
        elif db == 'ignores':
            w, r, dom = outs[i:i + 3]
            i += 3
            if w is None:
                continue
            if dom == 1:
                ctx.dist['ignores-inside-domain'] += 1
                if detail is not None:
                    ctx.fail(dict(inp, in_domain=True), 'inside the proved domain: ' + detail)
            elif detail is None:
                ctx.dist['ignores-outside-domain-but-round-trips'] += 1
            if wire.s(w) != text:
                ctx.disagree(inp, wire.s(w), text, 'IgnoresDB.flush text')
            impl = load_ign(ircdb, text)
            mod = [[wire.s(p[0]), p[1]] for p in r]
            if impl != mod:
                ctx.disagree(inp, mod, impl, 'IgnoresDB.open of the flushed text')
    apply_cfg()
    del batch[:]
    log, _state['nicklog'] = _state.get('nicklog') or [], []
    outs = ctx.model([[15, [[wire_user(x) for x in r['db']], wire_user(r['user']), r['net'], r['nick'], r['valid']]] if r['op'] == 'nick'
                      else [16, [wire_user(r['user']), r['net'], r['nick']]] for r in log])
    for r, o in zip(log, outs):
        inp = {'db': 'nick-call', 'call': {k: r[k] for k in ('op', 'db', 'user', 'net', 'nick', 'valid')}}
        ctx.case('mutator-' + r['op'] + ('-refused' if r['exc'] else ''), inp)
        if o is None:
            continue
        mod, impl = [dec_user(o[0]), wire.o(o[1], lambda c: wire.EXN[c])], [r['after'], r['exc']]
        if mod != impl:
            ctx.disagree(inp, mod, impl, 'IrcUser.addNick/removeNick')


def canon_chans_o(dump):
    """channel dump with set-like capability lists sorted, dictionary order kept"""
    return [[k, [c[0], c[1], sorted(c[2]), c[3], c[4]]] for k, c in dump]


def chans_oracle(ircdb, before, text):
    dump, exc, _ = load_chans(ircdb, text)
    if exc is not None:
        return 'loading channels.conf stopped part-way with %s: %d of %d channels loaded' % (exc, len(dump), len(before))
    a, b = canon_chans(before), canon_chans(dump)
    if a != b:
        return 'channels %r reloaded as %r' % ([x for x in a if x not in b], [x for x in b if x not in a])
    return None


def nets_oracle(ircdb, before, text):
    dump, exc, _ = load_nets(ircdb, text)
    if exc is not None:
        return 'loading networks.conf stopped part-way with %s' % exc
    a, b = canon_nets(before), canon_nets(dump)
    if a != b:
        return 'networks %r reloaded as %r' % ([x for x in a if x not in b], [x for x in b if x not in a])
    return None


def ign_oracle(ircdb, before, text):
    want = sorted([h, int(e)] for h, e in before if (NOW < e or not e))
    got = sorted(load_ign(ircdb, text))
    if want != got:
        return 'ignores %r reloaded as %r' % ([x for x in want if x not in got], [x for x in got if x not in want])
    return None


def check_state(ctx, ircdb, db, ops, kind, batch, cfg=None):
    """cfg = {'save': {...}, 'load': {...}}: the configuration in force while the state is built and flushed,
    and the one in force when the file is loaded again (keys: strict, timeout; missing = default)"""
    inp = mk_inp(db, ops, cfg)
    if db == 'users':
        return check_users_state(ctx, ircdb, ops, kind, batch, cfg)
    case, oracle = {'channels': (chans_case, chans_oracle), 'networks': (nets_case, nets_oracle), 'ignores': (ign_case, ign_oracle)}[db]
    apply_cfg(cfg_of(inp, 'save'))
    before, text = case(ircdb, ops)
    ctx.case(kind, inp, nontrivial=bool(before))
    apply_cfg(cfg_of(inp, 'load'))
    detail = oracle(ircdb, before, text)
    apply_cfg()
    batch.append((db, inp, before, text, detail))
    return detail


def check_texts(ctx, ircdb, db, texts, kind):
    """hostile stream: arbitrary file texts through the real reader and the model reader"""
    if db == 'users':
        outs = ctx.model([[1, [wire.opt(None if u0 is None else wire_user(u0)), t]] for t, u0 in texts])
        for (t, u0), o in zip(texts, outs):
            inp = {'db': 'users-text', 'text': t, 'u0': u0}
            ctx.case(kind, inp, nontrivial=bool(t.strip()))
            if o is None:
                continue
            impl = canon_load(*load_users(ircdb, t, u0))
            mod = canon_load(*dec_load_users(o))
            if impl != mod:
                ctx.disagree(inp, mod, impl, 'UsersDictionary.open(text)')
    elif db == 'channels':
        stricts = [i % 3 == 2 for i in range(len(texts))]
        outs = ctx.model([[14, [st, wire.opt(n0), t]] for (t, n0), st in zip(texts, stricts)])
        for (t, n0), r, st in zip(texts, outs, stricts):
            inp = {'db': 'channels-text', 'text': t, 'n0': n0, 'strict_load': st}
            ctx.case(kind, inp, nontrivial=bool(t.strip()))
            if r is None:
                continue
            apply_cfg({'strict': st})
            dump, exc, after = load_chans(ircdb, t, n0)
            apply_cfg()
            impl = [canon_chans_o(dump), exc, after]
            mod = [canon_chans_o([[wire.s(kv[0]), dec_chan(kv[1])] for kv in r[0]]), wire.o(r[1], lambda c: wire.EXN[c]), wire.o(r[2], wire.s)]
            if impl != mod:
                ctx.disagree(inp, mod, impl, 'ChannelsDictionary.open(text)')
    elif db == 'networks':
        outs = ctx.model([[7, [wire.opt(n0), t]] for t, n0 in texts])
        for (t, n0), r in zip(texts, outs):
            inp = {'db': 'networks-text', 'text': t, 'n0': n0}
            ctx.case(kind, inp, nontrivial=bool(t.strip()))
            if r is None:
                continue
            dump, exc, after = load_nets(ircdb, t, n0)
            impl = [dump, exc, after]
            mod = [[[wire.s(kv[0]), dec_net(kv[1])] for kv in r[0]], wire.o(r[1], lambda c: wire.EXN[c]), wire.o(r[2], wire.s)]
            if impl != mod:
                ctx.disagree(inp, mod, impl, 'NetworksDictionary.open(text)')
    elif db == 'ignores':
        outs = ctx.model([[10, t] for t, _ in texts])
        for (t, _), r in zip(texts, outs):
            inp = {'db': 'ignores-text', 'text': t}
            ctx.case(kind, inp, nontrivial=bool(t.strip()))
            if r is None:
                continue
            impl = load_ign(ircdb, t)
            mod = [[wire.s(p[0]), p[1]] for p in r]
            if impl != mod:
                ctx.disagree(inp, mod, impl, 'IgnoresDB.open(text)')


CORPUS = [
    {'db': 'users', 'ops': [['reg', 'x\n  capability owner', 'ab12|0f', 'x!y@z']]},
    {'db': 'users', 'ops': [['reg', 'first', 'pw', 'a!b@c'], ['reg', ' ', 'pw', ''], ['reg', 'last', 'pw', 'q!w@e']]},
    {'db': 'users', 'ops': [['reg', ' lead', 'pw', '']]},
    {'db': 'users', 'ops': [['reg', 'a\tb', 'pw', '']]},
    {'db': 'users', 'ops': [['reg', 'al', 'pw', ''], ['nick', 0, 'libera', 'alice'], ['unnick', 0, 'libera', 'alice']]},
    {'db': 'users', 'ops': [['reg', 'al', '', '']]},
    {'db': 'users', 'ops': [['reg', 'al', 'pw', ''], ['new']]},
    {'db': 'users', 'ops': [['reg', 'alice', 'ab12|0f', 'al!ice@host'], ['reg', 'Bob', 'pw', '*!*@h2'], ['cap', 0, 'owner'], ['cap', 1, '#chan,op'],
                            ['nick', 1, 'libera', 'bob_'], ['gpg', 0, '0xDEADBEEF'], ['flag', 1, True, True]]},
    {'db': 'users', 'ops': [['reg', 'a', 'pw', 'ab*!*@*'], ['reg', 'b', 'pw', '*ab!*@*']]},
    {'db': 'channels', 'ops': [['cap', '#chan', 'op'], ['ban', '#Chan', 'a!b@c', 0], ['ban', '#chan', 'q!w@e', 1700000000], ['flags', '#CHAN', True, False]]},
    {'db': 'channels', 'ops': [['uncap', '#chan', '-op']]},
    {'db': 'networks', 'ops': [['sts', 'libera', 'irc.libera.chat', 'duration=300,port=6697'], ['disc', 'libera', 'irc.libera.chat', 1700000000],
                               ['sts', 'oftc', 'a.b', 'p']]},
    {'db': 'ignores', 'ops': [['add', 'a!b@c', 0], ['add', 'q!w@e', NOW + 50.5], ['add', 'A!B@C', NOW - 10]]},
    {'db': 'ignores', 'ops': [['add', '#x!y@z', 0]]},
    {'db': 'users', 'ops': [['reg', 'a', 'pw', ''], ['reg', 'b', 'pw', ''], ['nick', 0, 'libera', 'alice'], ['nick', 1, 'libera', 'alice']]},
    {'db': 'users', 'ops': [['reg', 'alice', 'pw', ''], ['reg', 'bob', 'pw', ''], ['reg', 'victim', 'pw', ''], ['del', 2]]},
    {'db': 'users', 'ops': [['reg', 'only', 'pw', ''], ['del', 0]]},
    {'db': 'users', 'ops': [['reg', 'plain', 'pw', ''], ['reg', 'later', 'pw', ''], ['nick', 0, 'libera', 'x\n\tcapability\towner']]},
    {'db': 'users', 'ops': [['reg', 'plain', 'pw', ''], ['nick', 0, 'libera', 'ok'], ['nick', 0, 'libera', 'a\tb'], ['nick', 0, 'libera', 'alice\n'],
                            ['nick', 0, 'libera', ''], ['nick', 0, 'libera', 'a\xa0b'], ['nick', 0, 'n 3', 'x'], ['nick', 0, '', 'x'], ['nick', 0, 'libera', 'fine']]},
    {'db': 'users', 'ops': [['reg', 'a', 'pw', 'x!y@z'], ['reg', 'b', 'pw', ''], ['host!', 1, 'x!y@z'], ['host!', 1, 'X!Y@Z'], ['cap', 1, 'a b'],
                            ['cap', 1, '-owner'], ['nick', 0, 'n 3', 'alice'], ['nick', 1, 'libera', 'a b'], ['unnick', 1, 'libera', 'nobody'],
                            ['nick', 0, 'libera', 'alice'], ['nick', 0, 'libera', 'alice'], ['nick', 1, 'Net2', 'alice'], ['nick', 1, 'libera', 'alice']]},
    {'db': 'users', 'ops': [['reg', 'one', 'pw', ''], ['reg', 'café', 'pw', 'né!u@h'], ['reg', 'three', 'pw', '']], 'cfg': {'load': {'encoding': 'latin-1'}}},
    {'db': 'users', 'ops': [['reg', 'one', 'pw', ''], ['reg', 'café', 'pw', ''], ['reg', 'three', 'pw', '']], 'cfg': {'load': {'encoding': 'ascii'}}},
    {'db': 'channels', 'ops': [['flags', '#é', True, True], ['ban', '#z', 'né!u@h', 0]], 'cfg': {'load': {'encoding': 'ascii'}}},
    {'db': 'networks', 'ops': [['sts', 'réseau', 'a.b', 'p']], 'cfg': {'load': {'encoding': 'latin-1'}}},
    {'db': 'ignores', 'ops': [['add', 'né!u@h', 0], ['add', 'a!b@c', 0]], 'cfg': {'load': {'encoding': 'ascii'}}},
    {'db': 'users', 'ops': [['reg', 'one', 'pw', ''], ['reg', 'xxx!yyy@zzz', 'pw', ''], ['reg', 'three', 'pw', ''], ['host', 0, 'xxx!yyy@*']]},
    {'db': 'channels', 'ops': [['ban', '#alpha', 'a!b@c', 0], ['ban', '#help', '$a:Troll', 0], ['flags', '#zeta', True, True]],
     'cfg': {'save': {'strict': False}, 'load': {'strict': True}}},
    {'db': 'channels', 'ops': [['ban', '#help', 'nomask', 1700000000], ['ban', '#help', '~q:nick!*@*', 0]],
     'cfg': {'save': {'strict': False}, 'load': {'strict': True}}},
    {'db': 'channels', 'ops': [['ban', '#help', 'a!b@c', 5], ['ign', '#help', 'q!w@e', 0]], 'cfg': {'save': {'strict': True}, 'load': {'strict': False}}},
    {'db': 'ignores', 'ops': [['add', 'a!b@c', 0], ['add', 'q!w@e', NOW + 50.5]], 'cfg': {'save': {'strict': False}, 'load': {'strict': True}}},
]
CORPUS_TEXTS = [
    ('users', 'user 1\n  name a\n  capability owner\n\nuser 2\n  name b\n', None),
    ('users', 'user 1\n  name \n\nuser 2\n  name b\n', None),
    ('users', 'user 1\n  name a\n  hostmask x!y@z\n\nuser 2\n  name b\n  hostmask X!y@z\n\n', None),
    ('users', 'user 1\n  name a\n\nuser 2\n  name A\n\nuser 3\n  name c\n', None),
    ('users', 'user 3\n  name late\n', [7, '', False, False, True, '', [], [], [], []]),
    ('users', 'user 1\r\n  name a\r  ignore 1\n\tname b\n', None),
    ('channels', 'channel #a\n  lobotomized False\n  defaultAllow True\n  capability op\n  ban a!b@c 12\n\nchannel #B\n  lobotomized True\n', None),
    ('channels', 'channel #a\n  ban x\n', 'stale'),
    ('networks', 'network a\n\nnetwork b\n  stsPolicy s p\n\n', None),
    ('networks', '  stsPolicy s p\n', 'stale'),
    ('ignores', 'a!b@c 0\n#x!y@z 0\nA!b@c 12.9\nbad\n', None),
]


def run(ctx):
    ircdb = _ircdb()
    rng = ctx.rng
    batch = []
    _state['nicklog'] = []
    for c in CORPUS:
        d = check_state(ctx, ircdb, c['db'], c['ops'], 'corpus-' + c['db'], batch, c.get('cfg'))
        if d:
            ctx.fail(c, d)
    flush_batch(ctx, ircdb, batch)
    for db in ('users', 'channels', 'networks', 'ignores'):
        check_texts(ctx, ircdb, db, [(t, u0) for d, t, u0 in CORPUS_TEXTS if d == db], 'corpus-text-' + db)
    gens = {'users': gen_user_ops, 'channels': gen_chan_ops, 'networks': gen_net_ops, 'ignores': gen_ign_ops}
    budget = {'users': 600, 'channels': 600, 'networks': 600, 'ignores': 600}
    texts = {db: [] for db in gens}
    for db, gen in gens.items():
        for n in range(ctx.n(budget[db])):
            hostile = (n % 3 == 2)
            ops = gen(rng, hostile)
            cfg, tag = None, ''
            if n % 2 == 1:
                # save under one configuration, load under another
                if db in ('channels', 'ignores', 'networks'):
                    sv, ld = rng.choice([(False, True), (False, True), (True, False), (True, True)])
                    cfg, tag = {'save': {'strict': sv}, 'load': {'strict': ld}}, '-strictRfc:%s->%s' % ('on' if sv else 'off', 'on' if ld else 'off')
                    enc = rng.choice(['utf-8', 'latin-1', 'ascii'])
                    if enc != 'utf-8':
                        cfg['load']['encoding'], tag = enc, tag + '-locale:' + enc
                else:
                    sv, ld = rng.choice([(0, 1), (1, 0), (1, 1)])
                    cfg, tag = {'save': {'timeout': sv}, 'load': {'timeout': ld, 'strict': rng.random() < 0.5}}, '-cfg-varied'
                    enc = rng.choice(['utf-8', 'latin-1', 'ascii'])
                    if enc != 'utf-8':
                        cfg['load']['encoding'], tag = enc, tag + '-locale:' + enc
            d = check_state(ctx, ircdb, db, ops, db + ('-hostile' if hostile else '-valid') + tag, batch, cfg)
            if d:
                ctx.fail(mk_inp(db, ops, cfg), d)
            if n % 4 == 0:
                t = batch[-1][3]
                for _ in range(rng.randint(1, 3)):
                    t = mutate(rng, t)
                texts[db].append((t, None))
            if len(batch) >= 200:
                flush_batch(ctx, ircdb, batch)
        flush_batch(ctx, ircdb, batch)
    vocab = {'users': USER_LINES, 'channels': CHAN_LINES, 'networks': NET_LINES, 'ignores': IGN_LINES}
    stale_u = [9, 'stale', False, True, False, 'pw', ['admin'], ['s!t@ale'], [['net', ['n']]], ['k']]
    for db in gens:
        for n in range(ctx.n(300)):
            t = gen_text(rng, vocab[db])
            pre = None
            if n % 10 == 9:
                pre = {'users': rng.choice([stale_u, [None, '', False, False, False, '', [], [], [], []], [4, '', False, False, True, '', [], [], [], []]]),
                       'channels': rng.choice(['#stale', '']), 'networks': rng.choice(['stale', '']), 'ignores': None}[db]
            texts[db].append((t, pre))
        check_texts(ctx, ircdb, db, texts[db], 'text-' + db)
    # primitives: glob / isUserHostmask
    import supybot.ircutils as ircutils
    alpha = ['a', 'A', '*', '?', '!', '@', '[', '{', ' ', '\n', '\\', '|']
    pairs = [(''.join(rng.choice(alpha) for _ in range(rng.randint(0, 5))), ''.join(rng.choice(alpha) for _ in range(rng.randint(0, 6))))
             for _ in range(ctx.n(1500))]
    go = ctx.model([[12, [p, s]] for p, s in pairs])
    ho = ctx.model([[13, s] for _, s in pairs])
    for (p, s), g, h in zip(pairs, go, ho):
        inp = {'db': 'prim', 'pattern': p, 'string': s}
        ctx.case('primitive', inp)
        if g is None:
            continue
        ig, ih = bool(ircutils._hostmaskPatternEqual(p, s)), bool(ircutils.isUserHostmask(s))
        if (bool(g), bool(h)) != (ig, ih):
            ctx.disagree(inp, [g, h], [ig, ih], 'hostmaskPatternEqual / isUserHostmask')
    ircutils._patternCache.clear()


def replay(ctx, inp):
    ircdb = _ircdb()
    db = inp.get('db')
    sub = type(ctx)(ctx.pid, ctx.tier, ctx.seed, {'model_ok': False})
    if db in ('users', 'channels', 'networks', 'ignores'):
        return check_state(sub, ircdb, db, inp['ops'], 'replay', [], inp.get('cfg'))
    return None


def shrink(ctx, inp):
    if inp.get('db') not in ('users', 'channels', 'networks', 'ignores'):
        return inp
    extra = {k: v for k, v in inp.items() if k not in ('db', 'ops')}
    ops = shrink_seq(inp['ops'], lambda o: replay(ctx, dict(extra, db=inp['db'], ops=o)) is not None, budget=120)
    return dict({'db': inp['db'], 'ops': ops}, **extra)
