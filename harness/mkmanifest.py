#!/usr/bin/env python3
"""Regenerate MANIFEST.json from the table below (kept here so that the manifest is always schema-valid)."""
import json, os
ROOT = os.path.dirname(os.path.dirname(os.path.abspath(__file__)))
ALL = ['C%02d' % i for i in range(1, 21)]

import glob, importlib, sys
sys.path.insert(0, os.path.join(ROOT, 'harness'))
CHECKS = {}
for f in sorted(glob.glob(os.path.join(ROOT, 'harness', 'c[0-9][0-9].py'))):
    pid = 'C' + os.path.basename(f)[1:3]
    mod = importlib.import_module(os.path.basename(f)[:-3])
    if not getattr(mod, 'CLAIMED', True):
        continue
    CHECKS[pid] = dict(text=mod.LEVEL_TEXT, note=mod.LEVEL_NOTE, technique=mod.TECHNIQUE, ref='5/' + pid)

NOT_YET = 'check not built yet in this session (planned, see DESIGN.md section 5)'


def main():
    checks = []
    for pid in ALL:
        if pid not in CHECKS:
            continue
        c = CHECKS[pid]
        checks.append({
            'property_id': pid,
            'quick_cmd': './check %s --tier quick' % pid,
            'thorough_cmd': './check %s --tier thorough' % pid,
            'evidence_file': 'evidence/%s.json' % pid,
            'replay_cmd_template': './check %s --replay {path}' % pid,
            'engine': 'coq-model',
            'level_claimed': {'category': 'proof', 'text': c['text'], 'design_ref': 'DESIGN.md section ' + c['ref']},
            'level_note': c['note'],
            'technique': c['technique'],
        })
    m = {
        'version': 1,
        'setup_cmd': './setup.sh',
        'hooks': {'guard': 'LIMNORIA_VERIF', 'enable': 'no source hooks: the harness monkey-patches clocks/sockets from its own process (LIMNORIA_VERIF=1 is exported but unused by /repo)',
                  'baseline_off_cmd': 'cd /repo && /venv/bin/python -m pytest -ra -q -p no:cacheprovider --timeout=900 --continue-on-collection-errors',
                  'source_commits': [], 'add_only': True},
        'engines': [{'name': 'coq-model', 'path': 'coq/', 'serves_properties': sorted(CHECKS),
                     'kind_free_text': 'Coq 8.16.1 models + theorems (coq/Cnn/{Model,Lemmas,Props}.v), tables regenerated from /repo (harness/gen_tables.py), '
                                       'extracted OCaml model binary coq/modelrun, Python differential harness (harness/cNN.py)'}],
        'checks': checks,
        'notes': 'Every check: regenerate tables from /repo working tree, full .vo build, recompile Cnn/Props.v (Print Assumptions parsed), '
                 'run the extracted model beside the implementation, evaluate the property directly on the implementation. known_findings.json lists recorded defects.',
        'not_applicable': [{'property_id': p, 'reason': NOT_YET} for p in ALL if p not in CHECKS],
    }
    with open(os.path.join(ROOT, 'MANIFEST.json'), 'w') as f:
        json.dump(m, f, indent=1)
        f.write('\n')


if __name__ == '__main__':
    main()
