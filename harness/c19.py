"""C19 — outgoing messages are never lost or duplicated; priority and throttling hold."""
import boot
from lib import wire
from lib.shrink import shrink_seq

TABLES = ['T19']
RULE = ('histories = constructor + random interleavings of queueMsg/sendMsg/takeMsg/die/reset/376/PONG with a patched clock '
        '(monotone structured stream + hostile stream: stalled/backward clock, early die, reset storms, lower-case commands), '
        'over generated settings (throttleTime, rateLimit.join, queuing.duplicates, ping, ping.interval, network password) and a '
        'two-callback outFilter chain that passes, rewrites or drops (returning None, optionally advancing the clock) per message.  '
        'Every history runs on a real irclib.Irc with a stub driver and on the extracted model; the per-call events and the '
        'complete send state after every call are diffed.  The ledger, refusal, priority, FIFO, throttle, JOIN-rate, no-stall, '
        'drain and eventual-delivery (nothing accepted is still pending after a long enough steady-polling tail; dedicated stream with '
        'rateLimit.join > 0 and several JOINs) clauses are evaluated directly on the implementation.  non-trivial = distinct history with at least one takeMsg')
TRUSTED = ['the clock (irclib.time.time), the composite outFilter chain (any function msg -> pass | rewrite | drop+delay) and the '
           'configuration enter the model as inputs; IrcMsg.__eq__ is modelled as equality of (command, content key)',
           'of _truncateMsg only the UTF-8 encodability test is modelled (an unencodable message leaves takeMsg through the firewall); truncation itself, label tagging and echo emulation are not modelled (they do not touch the send state); '
           'they run in the differential test, where an exception in them would show up as a lost message']
ASSUMPTIONS = ['settings may be changed on the live bot between calls (history op 7): each call is judged against the values in force when it is made (the code reads the registry at call time; t19 pins that)',
               'driver.reconnect() is an observable event of the model (the stub driver does nothing); a real driver resets the Irc on reconnect, which clears both queues, so the oracle counts a reconnect asked for by takeMsg while accepted messages are waiting as a loss (theorem C19_reconnect_only_idle: it is only ever asked for with nothing pending)',
               'a message whose line has no UTF-8 form (lone surrogate) cannot be sent at all: that takeMsg discards it (UnicodeEncodeError from _truncateMsg behind the firewall, since the fix of C06.F19) is not counted as a loss; the oracle accepts this only when the message, as the filters left it, really cannot be encoded, and demands that nothing unencodable is ever handed to the driver',
               'world.testing/log.testing off; supybot.protocols.irc.umodes empty; IrcMsg objects need not be fresh: histories queue the same object twice and objects already sent on another network (the model has no object identity: the repaired code treats them like fresh ones)',
               'die() before the end of MOTD (afterConnect false) closes the driver at once by design; every other kill of the driver (by takeMsg, by die() after 376/422, by reset) is checked: nothing accepted may then be waiting in the fastqueue or the queue',
               'a history ends when driver.die() has been called']
LEVEL_TEXT = ('Coq theorems over an executable Gallina model of IrcMsgQueue and Irc.queueMsg/sendMsg/takeMsg/die/reset (clock, filter chain '
              'and settings as inputs), for all histories: multiset ledger accepted = delivered + dropped-by-filter + flushed-by-reset + pending '
              'with unique ghost stamps (no loss, no duplication), explicit refusal by queueMsg, class priority, FIFO within a class (JOINs exempt), '
              'throttle and JOIN-rate spacing, filter drop = continue on the rest; the driver is only killed with both queues empty, for every state and call (full statement since the fix of C19.F18; die() before the end of MOTD closes at once by design), '
              'silent refusal by sendMsg (finding F18b).  C19_refines packages queue discipline, fates and spacing as a trace refinement of an abstract sender (express queue + three FIFO queues + throttle + JOIN rate limit, Spec.v); C19_delivery_under_polling gives eventual delivery under steady polling with an explicit bound in polls (Psi); a refusal by queueMsg has a reason (C19_refusal_has_reason).  Model tied to the source by regenerated '
              '_high/_low/JOIN tables and a differential run of events and full send state against a real Irc on every check.')
LEVEL_NOTE = ('Messages without a wire form (menc false in the model) are the only ones takeMsg itself discards (theorem C19_only_unencodable_discarded); C19_no_loss_encodable gives the plain ledger under the hypothesis that every accepted message is encodable after the filters.  Trusted: Coq kernel, gen_tables.py, extraction + OCaml driver, the Python harness (event reconstruction from queue snapshots, '
              'filter logs and driver log); Python code is modelled not verified; truncation/labels/echo emulation are outside the model (an exception raised there would lose the message in flight through the firewall: only the UTF-8 case is modelled; t19 pins that takeMsg contains no assert).  '
              'NOT modelled / not explored: non-integer clock readings and throttle values (histories use whole seconds); the Python recursion limit of takeMsg on long runs of filter-dropped messages (model fuel = number of pending messages; probed up to 2000 consecutive drops without losing a passing message); driver.reconnect() resetting the Irc inside takeMsg (an event only; C19_reconnect_only_idle shows nothing is pending then); the requireStarttls branch of _setNonResettingVariables (kills the driver at construction/reset; off by default); umodes sent by do376; a second live network (one Irc per history, a helper Irc only pre-sends shared objects); what _reallyDie does to world.ircs and the shared callback list after the driver is closed (a history ends there); IrcMsg.__eq__ beyond (command, arguments, encodability): prefix, server tags and the cached hash are not varied.')
TECHNIQUE = 'Coq proof (inductive invariants over op histories, fuel induction for the takeMsg recursion) + regenerated tables + extracted-model differential correspondence'
EXPLANATION = 'C19: send-path model of src/irclib.py; theorems in coq/C19/Props.v'

_env = {}


def env():
    if _env:
        return _env
    boot.boot()
    import supybot.irclib as irclib, supybot.ircmsgs as ircmsgs, supybot.conf as conf, supybot.world as world
    import time as realtime

    class FakeTime(object):
        def __init__(self):
            self.T = 0

        def time(self):
            return self.T

        def __getattr__(self, n):
            return getattr(realtime, n)

    class Drv(object):
        def __init__(self):
            self.log = []

        def reconnect(self, *a, **k):
            self.log.append('reconnect')

        def die(self):
            self.log.append('die')

    class Filt(irclib.IrcCallback):
        """outFilter scripted per message: actions 0 pass, 1 A rewrites, 2 A drops, 3 B drops, 4 A rewrites then B drops"""
        def __init__(self, which, sess):
            self.which, self.sess = which, sess

        def name(self):
            return 'Filt' + self.which

        def outFilter(self, irc, msg):
            sess = self.sess
            if self.which == 'A':
                sess.seen.append((msg, sess.ft.T))
                info = sess.info.get(id(msg))
                sess.cur = info
                act = info[3] if info else 0
                if act == 2:
                    sess.dropped.append(msg)
                    sess.ft.T += info[4]
                    return None
                if act in (1, 4):
                    new = ircmsgs.IrcMsg(command=msg.command, args=(str(info[2] + 1000),))
                    sess.keep.append(new)
                    sess.out = new
                    return new
                sess.out = msg
                return msg
            info = sess.cur
            if info and info[3] in (3, 4):
                sess.dropped.append(sess.seen[-1][0])
                sess.ft.T += info[4]
                return None
            return msg

    _env.update(irclib=irclib, ircmsgs=ircmsgs, conf=conf, world=world, FakeTime=FakeTime, Drv=Drv, Filt=Filt)
    return _env


class Sess(object):
    pass


def set_conf(conf, cfg):
    p = conf.supybot.protocols.irc
    p.throttleTime.setValue(cfg[0])
    p.queuing.rateLimit.join.setValue(cfg[1])
    p.queuing.duplicates.setValue(bool(cfg[2]))
    p.ping.setValue(bool(cfg[3]))
    p.ping.interval.setValue(cfg[4])
    conf.supybot.networks.test.password.setValue('pw' if cfg[5] else '')


def run_impl(case):
    """run one history on the implementation.  returns (obs, facts): obs = per op [events, snapshot] in the model's wire
    shape (until the driver is killed); facts = per op dict for the direct oracle (object identities, return values)"""
    E = env()
    irclib, ircmsgs, conf = E['irclib'], E['ircmsgs'], E['conf']
    cfg, ops = case['cfg'], case['ops']
    cur = list(cfg)          # the configuration in force (op 7 changes it on the live bot)
    set_conf(conf, cur)
    sess = Sess()
    sess.ft = E['FakeTime']()
    sess.info, sess.keep, sess.seen, sess.dropped, sess.cur, sess.out = {}, [], [], [], None, None
    sess.by_mid, sess.other = {}, None
    saved_time = irclib.time
    irclib.time = sess.ft
    irc = None
    obs, facts = [], []

    def ent(m):
        info = sess.info.get(id(m))
        return [info[0] if info else 0, m.command]

    def lists():
        q = irc.queue
        return [list(irc.fastqueue), list(q.highpriority), list(q.normal), list(q.lowpriority)]

    def snap():
        l = lists()
        return [[ent(m) for m in x] for x in l] + [int(irc.lastTake), int(irc.queue.lastJoin), int(irc.lastping),
                                                    int(bool(irc.zombie)), int(bool(irc.afterConnect)), int(bool(irc.outstandingPing)),
                                                    int('die' in irc.driver.log)]

    def mk(m):
        """the IrcMsg object of a history message.  A message list with the mid of an earlier op is THE SAME OBJECT queued again;
        7th field 1: the object has first been queued and sent on another network (what Relay._sendToOthers does with three networks)"""
        if m[0] in sess.by_mid:
            return sess.by_mid[m[0]]
        bad = len(m) > 5 and m[5]
        obj = ircmsgs.IrcMsg(command=m[1], args=(str(m[2]) + ('\udc80' if bad else ''),))
        sess.info[id(obj)] = m
        sess.keep.append(obj)
        sess.by_mid[m[0]] = obj
        if len(m) > 6 and m[6]:
            if sess.other is None:
                sess.other = irclib.Irc('test', callbacks=[])
                sess.other.driver = E['Drv']()
            sess.other.queueMsg(obj)
            for _ in range(12):
                sess.other.lastTake = -10 ** 9
                sess.other.queue.lastJoin = -10 ** 9
                if sess.other.takeMsg() is obj:
                    break
        return obj

    try:
        for i, o in enumerate(ops):
            code = o[0]
            evs, fact = [], {'op': code}
            if i == 0:
                if code != 4:
                    raise ValueError('history must start with the constructor (op 4)')
                sess.ft.T = o[1]
                irc = irclib.Irc('test', callbacks=[E['Filt']('B', sess), E['Filt']('A', sess)])
                drv = E['Drv']()
                irc.driver = drv
                sess.keep.extend(lists()[0])
                evs = [[5, []]] + [[0, ent(m)] for m in irc.fastqueue]
                fact.update(flushed=[], accepted=list(irc.fastqueue), before=[[], [], [], []])
            else:
                before = lists()
                bflat = [m for l in before for m in l]
                bids = set(id(m) for m in bflat)
                nlog = len(drv.log)
                del sess.seen[:], sess.dropped[:]
                fact['before'] = before
                fact['zombie_before'] = bool(irc.zombie)
                ret = None
                if code == 0:
                    obj = mk(o[1])
                    ret = irc.queueMsg(obj)
                    fact.update(msg=obj, ret=ret)
                elif code == 1:
                    obj = mk(o[1])
                    ret = irc.sendMsg(obj)
                    fact.update(msg=obj, ret=ret)
                elif code == 2:
                    sess.ft.T = o[1]
                    fact['lastTake'] = irc.lastTake
                    fact['lastJoin'] = irc.queue.lastJoin
                    ret = irc.takeMsg()
                    fact.update(ret=ret)
                elif code == 3:
                    irc.die()
                elif code == 4:
                    sess.ft.T = o[1]
                    irc.reset()
                elif code == 5:
                    irc.feedMsg(ircmsgs.IrcMsg(prefix='srv', command='376', args=('test', 'End of MOTD')))
                elif code == 7:
                    # `config supybot.protocols.irc.<setting> v` on the running bot
                    cur[o[1]] = (int(bool(o[2])) if o[1] in (2, 3) else o[2])
                    set_conf(conf, cur)
                else:
                    irc.feedMsg(ircmsgs.IrcMsg(prefix='srv', command='PONG', args=('srv', 'x')))
                after = lists()
                aflat = [m for l in after for m in l]
                sess.keep.extend(aflat)
                new = [m for m in aflat if id(m) not in bids]
                fbids = set(id(m) for m in before[0])
                if code in (0, 1):
                    present = sum(1 for m in aflat if m is obj) > sum(1 for m in bflat if m is obj)
                    fact['present'] = present
                    if present:
                        evs.append([0, ent(obj)])
                    else:
                        evs.append([1, 1 if ret is False else 0, o[1][0]])
                    new = [m for m in new if m is not obj]
                took = []
                if code == 2:
                    dropped = set(id(m) for m in sess.dropped)
                    for m, t in sess.seen:
                        evs.append([2, 0 if id(m) in fbids else 1, ent(m), int(t)])
                        took.append((m, 0 if id(m) in fbids else 1, t))
                        if id(m) in dropped:
                            evs.append([3, ent(m)])
                    if ret is not None:
                        orig = sess.seen[-1][0] if sess.seen else ret
                        try:
                            key = int(ret.args[0])
                        except (ValueError, IndexError):
                            key = -1
                        evs.append([4, ent(orig), ret.command, key, int(sess.seen[-1][1]) if sess.seen else int(sess.ft.T)])
                        fact['delivered'] = orig
                    elif sess.seen and id(sess.seen[-1][0]) not in dropped:
                        # consumed, not dropped by a filter, nothing returned: takeMsg discarded it itself
                        evs.append([8, ent(sess.seen[-1][0])])
                        fact['unsendable'] = (sess.seen[-1][0], sess.out)
                    fact['dropped'] = list(sess.dropped)
                    fact['took'] = took
                if code == 4:
                    evs.append([5, [ent(m) for m in bflat]])
                    fact['flushed'] = bflat
                for m in new:
                    evs.append([0, ent(m)])
                fact['accepted'] = ([obj] if code in (0, 1) and fact['present'] else []) + new
                dl = drv.log[nlog:]
                if 'reconnect' in dl:
                    evs.append([6])
                if 'die' in dl:
                    evs.append([7])
                fact['reconnects'] = dl.count('reconnect')
                fact['died'] = 'die' in dl
            fact['after'] = lists()
            fact['now'] = sess.ft.T
            fact['cfg'] = list(cur)
            fact['zombie'], fact['afterConnect'] = bool(irc.zombie), bool(irc.afterConnect)
            fact['after_lastTake'], fact['after_lastJoin'] = irc.lastTake, irc.queue.lastJoin
            obs.append([evs, snap()])
            facts.append(fact)
            if 'die' in drv.log:
                break
    finally:
        irclib.time = saved_time
        for x in (irc, sess.other):
            if x is not None and x in E['world'].ircs:
                E['world'].ircs.remove(x)
    # clock delay a dropping filter adds when it drops this message (for the length a polling tail needs)
    case['_infos'] = dict((k, (v[4] if v[3] >= 2 and v[4] > 0 else 0)) for k, v in sess.info.items())
    case['_keep'] = sess.keep
    return obs, facts


# ---------------------------------------------------------------- direct oracle
def rank_of(irclib, cmd):
    return 0 if cmd in irclib._high else (2 if cmd in irclib._low else 1)


def oracle(case, facts):
    """the property text evaluated on what the implementation did.  returns list of (check, detail)"""
    E = env()
    irclib = E['irclib']
    cfg = case['cfg']
    throttle, jlimit = cfg[0], cfg[1]
    out = []
    seq = {}          # id(obj) -> acceptance order
    accepted, delivered, dropped, flushed, unsendable = [], [], [], [], []
    last_qtake = None
    last_join = None
    die_asked_connected = False
    tail_start = None
    times = {}
    for f in facts:
        for m in f.get('accepted', []):
            times[id(m)] = times.get(id(m), 0) + 1
    multi = set(k for k, v in times.items() if v > 1)
    for i, f in enumerate(facts):
        code = f['op']
        cfg = f['cfg']                              # the settings in force when this call was made
        throttle, jlimit = cfg[0], cfg[1]
        for m in f.get('accepted', []):
            seq[id(m)] = len(seq)
            accepted.append(m)
        flat_after = [m for l in f['after'] for m in l]
        if code == 0:
            if f['ret'] is not True and f['ret'] is not False:
                out.append(('refusal', 'op %d: queueMsg returned %r (neither True nor False)' % (i, f['ret'])))
            if bool(f['ret']) != f['present']:
                out.append(('refusal', 'op %d: queueMsg returned %r but message %s the queue' % (i, f['ret'], 'is in' if f['present'] else 'is not in')))
            # a refusal needs a reason: the Irc is dying, or queuing.duplicates is on and the same message (command, prefix,
            # arguments, tags) is already waiting in the queue; a message that is stored must not have been refusable
            if not f['present'] or f['ret'] is False:
                same = lambda a, b: (a.command, a.prefix, a.args, a.server_tags) == (b.command, b.prefix, b.args, b.server_tags)
                dup = cfg[2] and any(same(f['msg'], p) for l in f['before'][1:] for p in l)
                if not f['zombie_before'] and not dup:
                    out.append(('refusal', 'op %d: queueMsg refused %s %r although the Irc is not dying and %s'
                                % (i, f['msg'].command, f['msg'].args, 'no equal message is queued' if cfg[2] else 'queuing.duplicates is off')))
        if code == 1 and not f['present'] and f['ret'] is not False:
            out.append(('send_explicit', 'op %d: sendMsg on a zombie discarded the message and returned %r (no explicit false result)' % (i, f['ret'])))
        if code == 3 and f['afterConnect']:
            die_asked_connected = True
        if code == 4 and i > 0:
            flushed.extend(f['flushed'])
            last_qtake = last_join = None
        if code == 2:
            for m in f['dropped']:
                dropped.append(m)
            if f.get('delivered') is not None:
                delivered.append(f['delivered'])
                try:
                    str(f['ret']).encode('utf-8')
                except UnicodeError:
                    out.append(('wire', 'op %d: takeMsg handed the driver a message that cannot be encoded: %r' % (i, f['ret'])))
            if f.get('unsendable') is not None:
                # takeMsg consumed a message and returned nothing although no filter dropped it: only acceptable
                # for a message that has no wire form (its line cannot be encoded); anything else is a loss
                orig, final = f['unsendable']
                try:
                    str(final).encode('utf-8')
                    out.append(('ledger', 'op %d: takeMsg took %s from its queue and returned nothing, although no filter dropped it '
                                'and it can be encoded: lost' % (i, orig.command)))
                except UnicodeError:
                    unsendable.append(orig)
            after_ids = dict((id(m), m) for m in flat_after)
            afterq = [m for l in f['after'][1:] for m in l]
            for m, src, t in f['took']:
                if id(m) not in seq:
                    out.append(('ledger', 'op %d: takeMsg consumed a message that was never accepted: %r' % (i, m)))
                    continue
                if src == 1:
                    consumed = set(id(x) for x, _, _ in f['took'])
                    if any(id(x) not in consumed for x in f['before'][0]):
                        out.append(('priority', 'op %d: queue message taken while the fastqueue still held a message' % i))
                    r = rank_of(irclib, m.command)
                    for p in afterq:
                        if id(p) in seq and id(p) not in multi and id(m) not in multi and seq[id(p)] < seq[id(m)] and rank_of(irclib, p.command) < r:
                            out.append(('priority', 'op %d: %s taken while more urgent %s queued earlier is still pending' % (i, m.command, p.command)))
                            break
                    same = [p for p in afterq if rank_of(irclib, p.command) == r]
                    if throttle >= 0 and last_qtake is not None and not (t - last_qtake >= throttle):
                        out.append(('throttle', 'op %d: queue messages released at %s and %s, throttleTime %s' % (i, last_qtake, t, throttle)))
                    last_qtake = t
                    if m.command == 'JOIN':
                        if last_join is not None and not (t - last_join >= jlimit):
                            out.append(('join_rate', 'op %d: JOINs released at %s and %s, rateLimit.join %s' % (i, last_join, t, jlimit)))
                        last_join = t
                else:
                    same = list(f['after'][0])
                for p in same:
                    if p.command != 'JOIN' and id(p) in seq and id(p) not in multi and id(m) not in multi and seq[id(p)] < seq[id(m)]:
                        out.append(('fifo', 'op %d: %s (accepted #%d) overtook %s (accepted #%d) of the same class'
                                    % (i, m.command, seq[id(m)], p.command, seq[id(p)])))
                        break
            # no stall: an eligible message is returned
            if f['ret'] is None and not f['died'] and f.get('unsendable') is None:
                if f['after'][0]:
                    out.append(('stall', 'op %d: takeMsg returned None with messages in the fastqueue' % i))
                elif not f['took'] and not f['before'][0] and any(f['before'][1:]):
                    thr = (f['now'] - f['lastTake'] <= throttle)
                    b = f['before']
                    head = (b[1] or b[2] or b[3])[0]
                    jl = (not b[1] and not b[2] and head.command == 'JOIN' and not (f['lastJoin'] + jlimit <= f['now']))
                    if not thr and not jl:
                        out.append(('stall', 'op %d: takeMsg returned None although %s was eligible' % (i, head.command)))
        # drain before close: whenever the driver is killed -- by takeMsg, by die() itself, by anything -- on a connection
        # that is past the end of MOTD, nothing accepted may still be waiting in the fastqueue or in the queue
        # (by design die() before the end of MOTD closes at once; reset() has flushed before it kills)
        if f.get('died') and flat_after and not (code == 3 and not f['afterConnect']):
            out.append(('drain', 'op %d: %s killed the driver with %d accepted message(s) never handed to it: %s (fastqueue %d, queue %d)'
                        % (i, {2: 'takeMsg()', 3: 'die() after the end of MOTD', 4: 'reset()'}.get(code, 'op %d' % code), len(flat_after),
                           ' '.join(m.command for m in flat_after), len(f['after'][0]), len(flat_after) - len(f['after'][0]))))
        # a reconnect asked for by takeMsg (keep-alive PING unanswered) makes the driver reset the Irc (SocketDriver.reconnect ->
        # irc.reset()), which flushes both queues: issued while accepted messages are waiting, it loses them
        if code == 2 and f.get('reconnects') and flat_after:
            out.append(('reconnect_loss', 'op %d: takeMsg() asked the driver to reconnect (which resets the Irc and clears its queues) while %d '
                        'accepted message(s) were waiting to be sent: %s' % (i, len(flat_after), ' '.join(m.command for m in flat_after))))
        # eventual delivery: a steady-polling tail (takeMsg once per virtual second, nothing new queued, bot alive)
        # that is long enough must leave nothing pending of what had been accepted before it
        tail = case.get('tail')
        if tail is not None and i == tail - 1:
            tail_start = {'pending': list(flat_after), 'now': f['now'], 'lastTake': f['after_lastTake'], 'lastJoin': f['after_lastJoin'],
                          'zombie': f['zombie'], 'died': f.get('died', False)}
        if tail is not None and i == len(facts) - 1 and i >= tail and tail_start is not None:
            ts = tail_start
            polls = case['ops'][tail:len(facts)]
            steady = all(o[0] == 2 for o in polls) and all(polls[k][1] - (polls[k - 1][1] if k else ts['now']) == 1 for k in range(len(polls)))
            killed = ts['died'] or any(x.get('died') for x in facts)
            alive = not ts['zombie'] and not killed
            infos = case.get('_infos', {})
            need = ((len(ts['pending']) + 2) * (max(throttle, 0) + max(jlimit, 0) + 2)
                    + sum(infos.get(id(m), 0) for m in ts['pending'])
                    + max(0, ts['lastTake'] - ts['now']) + max(0, ts['lastJoin'] - ts['now']))
            if steady and ts['zombie'] and die_asked_connected and not killed and len(polls) >= need + 1:
                out.append(('starved', 'op %d: die() was asked; after %d steady polls (1/s, nothing new queued) the driver has still not been '
                            'closed and %d message(s) are pending' % (i, len(polls), len(flat_after))))
            if steady and alive and len(polls) >= need:
                left = [m for m in flat_after if any(m is x for x in ts['pending'])]
                if left:
                    out.append(('starved', 'op %d: after %d steady polls (1/s, nothing new queued, throttleTime %s, rateLimit.join %s) %d message(s) '
                                'accepted before the polling are still pending: %s'
                                % (i, len(polls), throttle, jlimit, len(left), ' '.join(m.command for m in left))))
        # ledger, every step: accepted = delivered + dropped + flushed + pending, each exactly once
        lhs = sorted(id(m) for m in accepted)
        rhs = sorted([id(m) for m in delivered] + [id(m) for m in dropped] + [id(m) for m in flushed] + [id(m) for m in unsendable]
                     + [id(m) for m in flat_after])
        if lhs != rhs:
            out.append(('ledger', 'op %d: accepted %d messages; delivered %d + dropped %d + flushed %d + pending %d do not add up to them'
                        % (i, len(accepted), len(delivered), len(dropped), len(flushed), len(flat_after))))
            break
    return out


CLASSES = {
    'send_refused_silently': lambda inp: inp.get('check') == 'send_explicit',
}


# ---------------------------------------------------------------- generators
CMDS_COMMON = ['PRIVMSG', 'PRIVMSG', 'JOIN', 'JOIN', 'MODE', 'TOPIC', 'NOTICE', 'PART', 'PING', 'KICK', 'WHO', 'PONG', 'NICK']
CMDS_ODD = ['join', 'Join', 'privmsg', 'QUIT', 'AWAY', 'CAPAB', 'REMOVE', 'PASS', 'TAGMSG', 'CAP', 'USER', '001']


def gen_msg(rng, mid, hostile, tnow):
    cmd = rng.choice(CMDS_COMMON if rng.random() < 0.85 else CMDS_ODD)
    key = rng.randrange(4) if rng.random() < 0.8 else rng.choice([tnow, tnow + 1, 7, 0])
    r = rng.random()
    act = 0 if r < (0.6 if hostile else 0.8) else rng.choice([1, 2, 3, 4, 2, 3])
    dt = rng.choice([0, 0, 1, 1, 2, 5])
    bad = int(rng.random() < (0.12 if hostile else 0.05))      # a lone surrogate in the argument: no UTF-8 form
    return [mid, cmd, key, act, dt, bad]


def share_objects(rng, ops):
    """IrcMsg objects are not always fresh: now and then a queued object has already been sent on another network (7th field), or the very
    same object is queued again later (a second queueMsg op carrying the same message list, hence the same mid)"""
    qs = [k for k, o in enumerate(ops) if o[0] == 0]
    for k in qs:
        if rng.random() < 0.06:
            m = ops[k][1]
            while len(m) < 7:
                m.append(0)
            m[6] = 1
    if qs and rng.random() < 0.25:
        k = rng.choice(qs)
        at = rng.randint(k + 1, len(ops))
        ops.insert(at, [0, list(ops[k][1])])


def gen_case(rng, hostile):
    cfg = [rng.choice([0, 0, 1, 1, 2, 5] + ([-1, -3] if hostile else [])),
           rng.choice([0, 0, 0, 2, 4, 10] + ([-2] if hostile else [])),
           int(rng.random() < 0.4), int(rng.random() < 0.8), rng.choice([3, 10, 120]), int(rng.random() < 0.15)]
    T = rng.choice([1, 1, 5, 100])
    ops = [[4, T]]
    n = rng.randint(4, 70)
    connected = False
    style = rng.random()
    for i in range(1, n + 1):
        r = rng.random()
        if not hostile and not connected and i < 8:
            if r < 0.6:
                T += rng.choice([0, 1, 1, 2])
                ops.append([2, T])
            elif r < 0.85:
                ops.append([5]); connected = True
            else:
                ops.append([0, gen_msg(rng, i, hostile, T)])
            continue
        if r < (0.5 if style < 0.5 else 0.3):
            ops.append([0, gen_msg(rng, i, hostile, T)])
        elif r < (0.56 if style < 0.5 else 0.38):
            ops.append([1, gen_msg(rng, i, hostile, T)])
        elif r < 0.90:
            if hostile:
                T += rng.choice([0, 0, 0, 1, 2, -1, -3, 9, 200])
            else:
                T += rng.choice([0, 1, 1, 1, 2, 2, 3, 6, 11, 130])
            ops.append([2, T])
        elif r < 0.93:
            ops.append([3])
            # after die: mostly drain
            for _ in range(rng.randint(0, 12)):
                T += rng.choice([0, 1, 1, 2, 3, 6])
                ops.append([2, T])
                if rng.random() < 0.15:
                    ops.append([rng.choice([0, 1]), gen_msg(rng, 1000 + len(ops), hostile, T)])
        elif r < (0.96 if hostile else 0.945):
            T += rng.choice([0, 1, 5])
            ops.append([4, T]); connected = False
        elif r < 0.98:
            ops.append([5]); connected = True
        else:
            ops.append([6])
    # message ids = op index (unique)
    for i, o in enumerate(ops):
        if o[0] in (0, 1):
            o[1][0] = i
    share_objects(rng, ops)
    return {'cfg': cfg, 'ops': ops}


def add_tail(case, T):
    """append a steady-polling tail: takeMsg once per virtual second, long enough for everything pending to be released"""
    cfg, ops = case['cfg'], case['ops']
    msgs = [o[1] for o in ops if o[0] in (0, 1)]
    npend = len(msgs) + 4 * (1 + sum(1 for o in ops[1:] if o[0] == 4)) + 2
    tmax = max([o[1] for o in ops if o[0] in (2, 4)] + [T])
    sdt = sum(m[4] for m in msgs if m[3] >= 2 and m[4] > 0)
    # lastTake/lastJoin may be ahead of the clock by the drop delays or by a backward clock: start after the highest reading
    n = (npend + 2) * (max(cfg[0], 0) + max(cfg[1], 0) + 2) + 2 * sdt + 2
    case['tail'] = len(ops)
    t = tmax + sdt
    for _ in range(n):
        t += 1
        ops.append([2, t])
    return case


def gen_join_tail(rng):
    """rateLimit.join > 0, several JOINs queued among other traffic, polled faster than the limit, then a steady tail"""
    cfg = [rng.choice([0, 0, 1, 2]), rng.choice([2, 3, 5, 10]), int(rng.random() < 0.3), int(rng.random() < 0.7), rng.choice([3, 10, 120]), 0]
    T = rng.choice([1, 5, 50])
    ops = [[4, T]]
    if rng.random() < 0.7:
        for _ in range(rng.randint(0, 4)):
            T += 1
            ops.append([2, T])
        ops.append([5])
    for i in range(rng.randint(3, 12)):
        r = rng.random()
        if r < 0.5:
            m = gen_msg(rng, 0, False, T)
            m[1] = 'JOIN'
            m[2] = len(ops)
            ops.append([0, m])
        elif r < 0.7:
            ops.append([0, gen_msg(rng, 0, False, T)])
        elif r < 0.75:
            ops.append([1, gen_msg(rng, 0, False, T)])
        else:
            T += rng.choice([0, 1, 1, 2])
            ops.append([2, T])
    for i, o in enumerate(ops):
        if o[0] in (0, 1):
            o[1][0] = i
    return add_tail({'cfg': cfg, 'ops': ops}, T)


def gen_tail_case(rng, hostile):
    """a short general history (no die) followed by a steady-polling tail"""
    c = gen_case(rng, hostile)
    ops = []
    for o in c['ops']:
        if o[0] == 3:
            break
        ops.append(o)
        if len(ops) >= 28:
            break
    if rng.random() < 0.3:
        ops.append([5])
        ops.append([3])
    c['ops'] = ops
    T = max(o[1] for o in ops if o[0] in (2, 4))
    return add_tail(c, T)


def gen_setcfg_case(rng):
    """settings changed on the live bot between calls (throttleTime most often; rateLimit.join, queuing.duplicates, ping, ping.interval):
    every call must obey the value in force when it is made"""
    cfg = [rng.choice([0, 0, 0, 1, 2]), rng.choice([0, 0, 3]), int(rng.random() < 0.3), int(rng.random() < 0.7), rng.choice([3, 10, 120]), 0]
    T = rng.choice([1, 20])
    ops = [[4, T]]
    for _ in range(rng.randint(0, 4)):
        T += 1
        ops.append([2, T])
    if rng.random() < 0.8:
        ops.append([5])
    n = rng.randint(10, 50)
    for i in range(n):
        r = rng.random()
        if r < 0.14:
            k = rng.choice([0, 0, 0, 0, 1, 1, 2, 3, 4])
            v = {0: rng.choice([0, 1, 2, 5, 10, 10]), 1: rng.choice([0, 3, 10]), 2: rng.randrange(2), 3: rng.randrange(2), 4: rng.choice([3, 10, 120])}[k]
            ops.append([7, k, v])
        elif r < 0.50:
            for _ in range(rng.randint(1, 3)):
                ops.append([0, gen_msg(rng, 0, False, T)])
        elif r < 0.55:
            ops.append([1, gen_msg(rng, 0, False, T)])
        elif r < 0.96:
            for _ in range(rng.randint(1, 5)):
                T += rng.choice([0, 1, 1, 1, 2, 3])
                ops.append([2, T])
        elif r < 0.98:
            ops.append([6])
        else:
            T += 1
            ops.append([4, T])
    for i, o in enumerate(ops):
        if o[0] in (0, 1):
            o[1][0] = i
    return {'cfg': cfg, 'ops': ops}


def gen_keepalive_case(rng):
    """connected bot, keep-alive PING on with a short interval, throttleTime > 0 (mostly), several messages queued, the clock
    running past ping.interval with no PONG (sometimes one), sometimes a die(): throttled calls must stop at the throttle"""
    interval = rng.choice([3, 5, 10])
    cfg = [rng.choice([1, 2, 2, 5, 0]), rng.choice([0, 0, 3]), int(rng.random() < 0.2), 1, interval, 0]
    T = rng.choice([1, 50])
    ops = [[4, T]]
    for _ in range(4):
        T += 1
        ops.append([2, T])
    ops.append([5])
    n = rng.randint(8, 40)
    for i in range(n):
        r = rng.random()
        if r < 0.45:
            T += rng.choice([0, 1, 1, 2, interval, interval + 1])
            ops.append([2, T])
            if rng.random() < 0.5:
                ops.append([2, T + rng.choice([0, 0, 1])])     # the driver's second takeMsg of the round
                T = ops[-1][1]
        elif r < 0.85:
            for _ in range(rng.randint(1, 3)):
                ops.append([0, gen_msg(rng, 0, False, T)])
        elif r < 0.90:
            ops.append([6])
        elif r < 0.94:
            ops.append([1, gen_msg(rng, 0, False, T)])
        elif r < 0.97:
            ops.append([3])
        else:
            T += interval + 1
            ops.append([2, T])
    for i, o in enumerate(ops):
        if o[0] in (0, 1):
            o[1][0] = i
    return {'cfg': cfg, 'ops': ops}


def gen_die_case(rng):
    """die() on a connected bot with (fastqueue, queue) = (non-empty, empty) / (non-empty, non-empty) / (empty, non-empty) / (empty, empty),
    then polls"""
    cfg = [rng.choice([0, 0, 1, 2]), rng.choice([0, 0, 0, 3]), int(rng.random() < 0.2), int(rng.random() < 0.8), rng.choice([3, 120]), int(rng.random() < 0.1)]
    T = rng.choice([1, 10])
    ops = [[4, T]]
    shape = rng.randrange(4)
    drain_first = shape >= 2 or rng.random() < 0.5
    if drain_first:
        for _ in range(4 + cfg[5]):
            T += 1
            ops.append([2, T])
    ops.append([5])
    if rng.random() < 0.3:
        T += 1
        ops.append([2, T])
    nf = rng.randint(1, 3) if shape in (0, 1) else 0
    nq = rng.randint(1, 4) if shape in (1, 2) else 0
    todo = [1] * nf + [0] * nq
    rng.shuffle(todo)
    for code in todo:
        m = gen_msg(rng, 0, False, T)
        if code == 1:
            m[1] = rng.choice(['PONG', 'MODE', 'PRIVMSG', 'NICK'])
        ops.append([code, m])
    ops.append([3])
    for _ in range(rng.randint(0, 3 * (nf + nq) + 6)):
        T += rng.choice([1, 1, 2, 3])
        ops.append([2, T])
    for i, o in enumerate(ops):
        if o[0] in (0, 1):
            o[1][0] = i
    return {'cfg': cfg, 'ops': ops}


def M(mid, cmd, key=0, act=0, dt=0, bad=0, other=0):
    return [mid, cmd, key, act, dt, bad, other]


CORPUS = [
    # old witness of C19.F18 (fixed): throttleTime > 0, three queued, die(): the second takeMsg is throttled and used to kill the driver
    {'cfg': [2, 0, 0, 1, 120, 0], 'ops': [[4, 1], [2, 2], [2, 2], [2, 2], [5], [0, M(5, 'PRIVMSG', 0)], [0, M(6, 'PRIVMSG', 1)],
                                          [0, M(7, 'PRIVMSG', 2)], [3], [2, 10], [2, 11]]},
    # same with throttleTime 0 and a stalled clock
    {'cfg': [0, 0, 0, 1, 120, 0], 'ops': [[4, 1], [2, 2], [2, 2], [2, 2], [5], [0, M(5, 'MODE', 0)], [0, M(6, 'MODE', 1)], [3], [2, 10], [2, 10]]},
    # rate-limited JOIN pending at die
    {'cfg': [0, 10, 0, 1, 120, 0], 'ops': [[4, 1], [2, 2], [2, 3], [2, 4], [5], [0, M(5, 'JOIN', 0)], [0, M(6, 'JOIN', 1)], [3], [2, 20], [2, 21]]},
    # filter drop then throttled zombie
    {'cfg': [0, 0, 0, 1, 120, 0], 'ops': [[4, 1], [2, 2], [2, 3], [2, 4], [5], [0, M(5, 'PRIVMSG', 0, 2, 0)], [0, M(6, 'PRIVMSG', 1)], [3], [2, 20]]},
    # sendMsg on a zombie
    {'cfg': [0, 0, 0, 1, 120, 0], 'ops': [[4, 1], [5], [3], [1, M(3, 'PONG', 0)], [2, 2]]},
    # ping / outstanding ping / reconnect / pong
    {'cfg': [0, 0, 0, 1, 3, 0], 'ops': [[4, 1], [2, 2], [2, 2], [2, 2], [5], [2, 3], [2, 5], [2, 6], [2, 9], [6], [2, 10], [2, 11], [2, 20], [3], [2, 30]]},
    # duplicates refused; ping content collision
    {'cfg': [0, 0, 1, 1, 3, 0], 'ops': [[4, 1], [2, 2], [2, 2], [2, 2], [5], [2, 5], [0, M(6, 'PING', 5)], [0, M(7, 'MODE', 1)], [0, M(8, 'MODE', 1)],
                                        [1, M(9, 'MODE', 1)], [2, 6], [2, 7], [2, 8], [2, 9]]},
    # JOIN rotation and overtaking
    {'cfg': [0, 5, 0, 0, 120, 1], 'ops': [[4, 1], [0, M(1, 'JOIN', 0)], [0, M(2, 'PRIVMSG', 1)], [0, M(3, 'JOIN', 2)], [0, M(4, 'WHO', 3)], [2, 6], [2, 7], [2, 8],
                                          [2, 9], [2, 10], [2, 11], [2, 12], [2, 13], [2, 14], [2, 15], [2, 16], [2, 17]]},
    # drops across fast and queue, rewrite
    {'cfg': [1, 0, 0, 1, 120, 0], 'ops': [[4, 1], [1, M(1, 'PONG', 0, 3, 1)], [0, M(2, 'KICK', 1, 4, 2)], [0, M(3, 'TOPIC', 1, 1, 0)], [0, M(4, 'PRIVMSG', 2, 2, 5)],
                                          [2, 5], [2, 6], [2, 7], [2, 8], [2, 9], [2, 20], [2, 30]]},
    # rateLimit.join 5, three JOINs and a PRIVMSG, polled once a second: every JOIN must eventually be released
    add_tail({'cfg': [0, 5, 0, 0, 120, 0], 'ops': [[4, 1], [2, 2], [2, 3], [2, 4], [5], [0, M(5, 'JOIN', 0)], [0, M(6, 'PRIVMSG', 0)],
                                                  [0, M(7, 'JOIN', 1)], [0, M(8, 'JOIN', 2)]]}, 4),
    add_tail({'cfg': [2, 3, 0, 1, 10, 0], 'ops': [[4, 1], [0, M(1, 'JOIN', 0)], [0, M(2, 'JOIN', 1)], [0, M(3, 'JOIN', 2, 2, 3)], [0, M(4, 'WHO', 1)],
                                                 [1, M(5, 'PONG', 1, 3, 2)]]}, 1),
    # messages without a wire form (lone surrogate): taken, discarded by takeMsg (UnicodeEncodeError behind the firewall), never delivered;
    # rewritten by a filter they are delivered; duplicates of different encodability are different messages; last one of a zombie
    {'cfg': [1, 0, 1, 1, 120, 0], 'ops': [[4, 1], [2, 2], [2, 2], [2, 2], [5], [0, M(5, 'PRIVMSG', 0, 0, 0, 1)], [0, M(6, 'PRIVMSG', 0)], [0, M(7, 'PRIVMSG', 0, 0, 0, 1)],
                                          [1, M(8, 'PONG', 1, 0, 0, 1)], [0, M(9, 'MODE', 1, 1, 0, 1)], [0, M(10, 'JOIN', 2, 0, 0, 1)], [0, M(11, 'NOTICE', 3, 3, 1, 1)],
                                          [2, 5], [2, 7], [2, 9], [2, 11], [2, 13], [2, 15], [2, 17], [3], [2, 19], [2, 21]]},
    {'cfg': [0, 0, 0, 1, 120, 0], 'ops': [[4, 1], [2, 2], [2, 3], [2, 4], [5], [0, M(5, 'PRIVMSG', 0, 0, 0, 1)], [3], [2, 6], [2, 7]]},
    # old witnesses of C19.F47 (fixed): a PRIVMSG object already sent on another network (Relay with three networks); the same NOTICE
    # object queued twice; both used to fail the echo-emulation asserts inside takeMsg and were lost after being taken from the queue
    {'cfg': [0, 0, 0, 0, 120, 0], 'ops': [[4, 1], [2, 2], [2, 3], [2, 4], [5], [0, M(5, 'PRIVMSG', 0, 0, 0, 0, 1)], [2, 5], [2, 6]]},
    {'cfg': [0, 0, 0, 0, 120, 0], 'ops': [[4, 1], [2, 2], [2, 3], [2, 4], [5], [0, M(5, 'NOTICE', 0)], [0, M(6, 'MODE', 1)], [0, M(5, 'NOTICE', 0)],
                                          [2, 5], [2, 6], [2, 7], [2, 8]]},
    # throttleTime raised on the live bot (booted with 0): from then on releases must be 10 s apart; then lowered again; rateLimit.join and
    # queuing.duplicates changed live as well
    {'cfg': [0, 0, 0, 0, 120, 0], 'ops': [[4, 1], [2, 2], [2, 3], [2, 4], [5], [0, M(5, 'PRIVMSG', 0)], [0, M(6, 'PRIVMSG', 1)], [0, M(7, 'PRIVMSG', 2)],
                                          [0, M(8, 'PRIVMSG', 3)], [2, 5], [7, 0, 10], [2, 6], [2, 7], [2, 16], [2, 17], [7, 0, 1], [2, 18], [2, 19]]},
    {'cfg': [0, 0, 0, 0, 120, 0], 'ops': [[4, 1], [2, 2], [2, 3], [2, 4], [5], [0, M(5, 'JOIN', 0)], [0, M(6, 'JOIN', 1)], [0, M(7, 'JOIN', 1)], [2, 5], [7, 1, 10],
                                          [2, 6], [2, 7], [7, 2, 1], [0, M(13, 'JOIN', 1)], [0, M(14, 'JOIN', 2)], [2, 16], [2, 17], [7, 1, 0], [2, 18], [2, 19]]},
    # keep-alive PING unanswered for more than ping.interval while two messages wait behind the throttle (and the same on a quitting bot):
    # the throttled second call of the round must stop at the throttle, not reach the keep-alive branch (reconnect = reset = queues wiped)
    {'cfg': [2, 0, 0, 1, 5, 0], 'ops': [[4, 1], [2, 2], [2, 3], [2, 4], [5], [2, 10], [2, 11], [2, 12], [0, M(9, 'PRIVMSG', 0)], [0, M(10, 'PRIVMSG', 1)],
                                        [2, 20], [2, 20], [2, 21], [2, 23], [2, 24], [2, 30]]},
    {'cfg': [2, 0, 0, 1, 5, 0], 'ops': [[4, 1], [2, 2], [2, 3], [2, 4], [5], [2, 10], [2, 11], [2, 12], [0, M(9, 'PRIVMSG', 0)], [0, M(10, 'PRIVMSG', 1)],
                                        [3], [2, 20], [2, 20], [2, 23], [2, 24]]},
    # no outstanding PING yet: a throttled call must not queue the keep-alive PING behind waiting messages either
    {'cfg': [2, 0, 0, 1, 5, 0], 'ops': [[4, 1], [2, 2], [2, 3], [2, 4], [5], [0, M(6, 'PRIVMSG', 0)], [0, M(7, 'PRIVMSG', 1)], [2, 20], [2, 20], [2, 23], [2, 26], [2, 40]]},
    # die() after 376 with: only the fastqueue non-empty (a PONG just sendMsg-ed) / both / only the queue; everything must still be sent
    {'cfg': [1, 0, 0, 1, 120, 0], 'ops': [[4, 1], [2, 2], [2, 3], [2, 4], [5], [1, M(5, 'PONG', 0)], [3], [2, 6], [2, 7]]},
    {'cfg': [1, 0, 0, 1, 120, 0], 'ops': [[4, 1], [2, 2], [2, 3], [2, 4], [5], [1, M(5, 'PONG', 0)], [0, M(6, 'PRIVMSG', 0)], [3], [2, 6], [2, 7], [2, 9], [2, 10]]},
    {'cfg': [1, 0, 0, 1, 120, 0], 'ops': [[4, 1], [2, 2], [2, 3], [2, 4], [5], [0, M(5, 'PRIVMSG', 0)], [3], [2, 6], [2, 7]]},
    {'cfg': [1, 0, 0, 1, 120, 0], 'ops': [[4, 1], [5], [3], [2, 2], [2, 3], [2, 4], [2, 5]]},
    # die before connect; reset while zombie
    {'cfg': [1, 0, 0, 1, 120, 0], 'ops': [[4, 1], [0, M(1, 'PRIVMSG', 0)], [3]]},
    {'cfg': [1, 0, 0, 1, 120, 0], 'ops': [[4, 1], [5], [0, M(2, 'PRIVMSG', 0)], [3], [4, 3]]},
]


def wire_case(case):
    return [0, [case['cfg'], case['ops']]]


def dec_entry(e):
    return [e[0], wire.s(e[1])]


def dec_obs(out):
    res = []
    for evs, st in out:
        devs = []
        for ev in evs:
            k = ev[0]
            if k in (0, 3, 8):
                devs.append([k, dec_entry(ev[1])])
            elif k == 1:
                devs.append([1, ev[1], ev[2]])
            elif k == 2:
                devs.append([2, ev[1], dec_entry(ev[2]), ev[3]])
            elif k == 4:
                devs.append([4, dec_entry(ev[1]), wire.s(ev[2]), ev[3], ev[4]])
            elif k == 5:
                devs.append([5, [dec_entry(e) for e in ev[1]]])
            else:
                devs.append([k])
        dst = [[dec_entry(e) for e in st[j]] for j in range(4)] + list(st[4:])
        res.append([devs, dst])
    return res


def check_case(ctx, case, mout, kind, sink):
    has_take = any(o[0] == 2 for o in case['ops'])
    ctx.case(kind, case, nontrivial=has_take)
    obs, facts = run_impl(case)
    if mout is not None:
        mo = dec_obs(mout)[:len(obs)]
        if mo != obs:
            j = next((k for k in range(min(len(mo), len(obs))) if mo[k] != obs[k]), min(len(mo), len(obs)))
            ctx.disagree(case, {'op': j, 'model': mo[j] if j < len(mo) else None},
                         {'op': j, 'impl': obs[j] if j < len(obs) else None}, 'events/state after op %d' % j)
    seen = set()
    for check, detail in oracle(case, facts):
        if check in seen:
            continue
        seen.add(check)
        inp = dict((k, v) for k, v in case.items() if not k.startswith('_'))
        inp['check'] = check
        sink.append((inp, detail))
    case.pop('_infos', None)
    case.pop('_keep', None)


def run(ctx):
    env()
    rng = ctx.rng
    cases = [(c, 'corpus') for c in CORPUS]
    for _ in range(ctx.n(1500)):
        cases.append((gen_case(rng, False), 'structured'))
    for _ in range(ctx.n(700)):
        cases.append((gen_case(rng, True), 'hostile'))
    for _ in range(ctx.n(200)):
        cases.append((gen_die_case(rng), 'die-after-motd'))
    for _ in range(ctx.n(250)):
        cases.append((gen_keepalive_case(rng), 'keepalive-throttled'))
    for _ in range(ctx.n(300)):
        cases.append((gen_setcfg_case(rng), 'settings-changed-live'))
    for _ in range(ctx.n(200)):
        cases.append((gen_join_tail(rng), 'join-rate-polling-tail'))
    for _ in range(ctx.n(150)):
        cases.append((gen_tail_case(rng, False), 'structured-polling-tail'))
    for _ in range(ctx.n(60)):
        cases.append((gen_tail_case(rng, True), 'hostile-polling-tail'))
    outs = ctx.model([wire_case(c) for c, _ in cases])
    sink = []
    for (c, kind), mo in zip(cases, outs):
        check_case(ctx, c, mo, kind, sink)
    # failures outside the known classes are reported first and never crowded out by the (frequent) known ones
    def known(inp):
        try:
            return any(pred(inp) for pred in CLASSES.values())
        except Exception:
            return False
    flags = [(known(inp), inp, detail) for inp, detail in sink]
    for k, inp, detail in flags:
        if not k:
            ctx.fail(inp, detail)
    kept = 0
    for k, inp, detail in flags:
        if k and kept < 600:
            ctx.fail(inp, detail)
            kept += 1
    if sum(1 for k, _, _ in flags if k) > kept:
        ctx.notes.append('%d failures of known classes observed, %d recorded' % (sum(1 for k, _, _ in flags if k), kept))


def replay(ctx, inp):
    case = {'cfg': inp['cfg'], 'ops': inp['ops']}
    if inp.get('tail') is not None:
        case['tail'] = inp['tail']
    obs, facts = run_impl(case)
    want = inp.get('check')
    for check, detail in oracle(case, facts):
        if want is None or check == want:
            return detail
    return None


def shrink(ctx, inp):
    ops = inp['ops']
    tail = inp.get('tail')
    head, rest = (ops[1:tail], ops[tail:]) if tail is not None else (ops[1:], [])

    def build(mid):
        out = dict(inp)
        out['ops'] = [ops[0]] + list(mid) + rest
        if tail is not None:
            out['tail'] = 1 + len(mid)
        return out

    small = shrink_seq(head, lambda mid: replay(ctx, build(mid)) is not None, budget=300)
    return build(small)
