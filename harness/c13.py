"""C13 — command tokenising is total; quoting protects any argument."""
import codecs, itertools, re, sys
import boot
from lib import wire
from lib.shrink import shrink_seq

TABLES = ['T13']
RULE = ('input strings: corpus + exhaustive strings over the hostile alphabet {a " \\ space [ ] | x 8 e-acute} (length<=4 quick, <=5 thorough) under '
        'several (brackets, pipe, quotes, nested) configurations + seeded hostile strings (surrogates, astral, NUL/CR/LF, all bracket styles, escapes) + '
        'escape-sequence fuzz inside quotes; argument lists and bare-word trees rendered with minimal quoting, with utils.str.dqrepr and with brackets.  '
        'Every callbacks.tokenize call is made twice, the first result being edited in place (every leaf replaced, every list appended to) before the second call, which must give the same value in fresh objects.  Every string is run through callbacks.tokenize and Tokenizer.tokenize (exception class kept) and through the extracted model and diffed; the '
        'unicode_escape decoder model, the UTF-8 decoder/encoder model and the dqrepr model are additionally diffed against CPython directly.  Oracles on '
        'the implementation: only SyntaxError escapes callbacks.tokenize; minimal-quote and dqrepr round trip; bracket rendering gives exactly the nesting.  '
        'non-trivial = distinct non-empty input')
TRUSTED = ['CPython codecs unicode_escape / utf8 / iso-8859-1 are modelled (C13/Model.v ued, C13/Utf8.v) and differentially tested, not verified',
           '\\N{name} lookups enter the model as a Section variable `named` (any function); the harness fills it from the real codec per case',
           'the lexer is modelled as a character machine producing the token stream get_token would return (pushback emitted as the next token); '
           'the parser consumes that stream lazily, so exception order is preserved']
ASSUMPTIONS = ['default warning filters (under -W error the DeprecationWarning of an invalid escape such as "\\q" would escape tokenize)',
               'bracket nesting below the CPython recursion limit (about 900 levels; an IRC line has at most 512 bytes); the model has no recursion limit',
               'supybot.commands.quotes restricted to the characters ValidQuotes accepts, brackets to ValidBrackets.validStrings (regenerated table)',
               'world.testing/log.testing off']
LEVEL_TEXT = ('Coq theorems over an executable Gallina model of shlex.read_token (character machine), callbacks.Tokenizer/_handleToken/_insideBrackets/tokenize, '
              'CPython unicode_escape decode/encode, strict UTF-8 and Latin-1: totality (only SyntaxError escapes, for every string incl. lone surrogates, every '
              'configuration, every name table); UTF-8 round trip; minimal-quote round trip for every list of scalar-value strings, at top level and inside n levels of '
              'nested-command brackets; utils.str.dqrepr -> tokenize is the identity on every list of strings over all code points, at top level and inside n levels of brackets (full statement, after the repair of C13.F15); '
              'the text of every tree of bare words (any depth) tokenises to exactly that tree, unbalanced brackets give SyntaxError, and with nesting off brackets are literal; the configuration used for a message is the one set for its channel/network (model of getSpecific/conf.get), so an empty brackets setting for a channel makes brackets literal there; in any session of calls and in-place edits of earlier results every call observes tokenize_at of its own configuration and text.  Tied to the source by regenerated tables '
              '(separators, whitespace, bracket/quote sets, except clause, codec chain and the nonAscii guard of _handleToken, that tokenize() returns the fresh result of the Tokenizer and refers to no module-level state, the argument order of the brackets/pipeSyntax/quotes lookups in tokenize() against the signatures of conf.get and Value.getSpecific) and a differential run against the real tokenizer and codecs on every check.')
LEVEL_NOTE = ('Trusted: Coq kernel, gen_tables.py, extraction + OCaml driver, the Python harness, CPython codecs (modelled, differentially tested). '
              'Python code is modelled, not verified.  The model pictures shlex faithfully only for configurations that can exist (cfg_valid; theorem C13_model_domain, '
              'validators exercised live): a quote set containing the letter a would collide with the name of the word state of shlex.  Observation point is the '
              'return/exception of callbacks.tokenize: what the callers do with it is NOT modelled -- Owner.doPrivmsg, Utilities.apply/let, Conditional and Alias report a '
              'SyntaxError to the user (probed live, both settings of reply.error.detailed); MessageParser tokenises outside its try block and Scheduler inside the scheduled '
              'function, so there a syntax error is only logged (Scheduler also keeps the dead event in its table); Autocomplete joins the tokens as if flat (TypeError on '
              'a completion request containing brackets, SyntaxError on an open quote: logged by the firewall, no completion sent).  Not modelled: the CPython recursion limit '
              '(RecursionError beyond about 900 nested brackets; a 512-byte line allows 250, but MessageParser can lengthen a command by repeating $1), the warning filter '
              '(under -W error the DeprecationWarning of an invalid escape such as "\\q" escapes tokenize), Alias/Aka tokenising their stored command with the GLOBAL configuration '
              '(no channel/network is passed), MoobotFactoids.OptionList (a second user of supybot.shlex with quotes and whitespace empty: probed exhaustively to length 6, no failure).  '
              'Explored, not proved: escape spellings other than minimal quoting and dqrepr (\\xHH, octal, \\uHHHH of ASCII text); quoted arguments inside nested commands mixed '
              'with bare command words; renderings with other spacing than one space.')
TECHNIQUE = 'Coq proof (induction over strings/token lists, invariants of the lexer machine) + regenerated tables + extracted-model differential correspondence'
EXPLANATION = 'C13: tokenizer model of src/shlex.py + src/callbacks.py Tokenizer + codecs; theorems in coq/C13/Props.v'

ALPHA = ['a', '"', '\\', ' ', '[', ']', '|', 'x', '8', '\u00e9']
_state = {}


def _mods():
    if not _state:
        boot.boot()
        import supybot.callbacks as callbacks
        import supybot.conf as conf
        import supybot.utils as utils
        import os
        root = os.path.realpath(boot.REPO)
        for mod in (callbacks, conf, utils):
            # an editable install of the repository is importable without boot: make sure the tree under test is the one loaded
            if not os.path.realpath(mod.__file__).startswith(root + os.sep):
                raise RuntimeError('%s loaded from %s, not from %s' % (mod.__name__, mod.__file__, root))
        _state.update(callbacks=callbacks, conf=conf, dqrepr=utils.str.dqrepr)
    return _state


def valid_brackets():
    return list(_mods()['conf'].ValidBrackets.validStrings)


# ---------------------------------------------------------------- implementation runners
def canon_tree(x):
    if isinstance(x, str):
        return ['L', x]
    if isinstance(x, list):
        return ['N', [canon_tree(y) for y in x]]
    return ['?', repr(type(x))]


def all_str(x):
    return isinstance(x, str) or (isinstance(x, list) and all(all_str(y) for y in x))


def exn_name(e):
    if isinstance(e, SyntaxError):
        return 'SyntaxError'
    if isinstance(e, UnicodeError):
        return 'UnicodeError'
    if isinstance(e, ValueError):
        return 'ValueError'
    if isinstance(e, IndexError):
        return 'IndexError'
    return 'OtherError:' + type(e).__name__


def set_cfg(cfg):
    m = _mods()
    if _state.get('cfg') == cfg:
        return
    c = m['conf'].supybot.commands
    c.nested.setValue(bool(cfg['nested']))
    c.nested.brackets.setValue(cfg['brackets'])
    c.nested.pipeSyntax.setValue(bool(cfg['pipe']))
    c.quotes.setValue(cfg['quotes'])
    _state['cfg'] = dict(cfg)


POISON = '\x01poisoned\x01'


def _poison(x):
    """what Alias/Aka/Scheduler/Conditional do to the tree they get (substitute into it in place), taken to the extreme:
    every leaf replaced, something appended to every list -- all in place"""
    for i, y in enumerate(x):
        if isinstance(y, list):
            _poison(y)
        else:
            x[i] = POISON
    x.append(POISON)


def _list_ids(x, acc):
    acc.add(id(x))
    for y in x:
        if isinstance(y, list):
            _list_ids(y, acc)
    return acc


def call_twice(f):
    """the result of f() -- ('ok', tree) | ('raise', name) | ('bad', repr) -- after checking that tokenising is a
    function of (configuration, text) only: the call is repeated after the first result was edited in place, and must
    give the same value again, in objects that are not shared with the first result.
    ('repeat', detail) when that fails."""
    def once():
        try:
            r = f()
        except BaseException as e:  # noqa: the property is about *any* other failure
            if isinstance(e, (KeyboardInterrupt, SystemExit)):
                raise
            return ('raise', exn_name(e)), None
        if not (isinstance(r, list) and all_str(r)):
            return ('bad', repr(r)[:200]), None
        return ('ok', [canon_tree(x) for x in r]), r
    first, obj1 = once()
    if obj1 is not None:
        ids1 = _list_ids(obj1, set())
        _poison(obj1)
    second, obj2 = once()
    if second != first:
        return ('repeat', 'tokenised again after the caller edited the first result in place: first %r, then %r' % (first, second))
    if obj2 is not None and (_list_ids(obj2, set()) & ids1):
        return ('repeat', 'the second call returned list objects of the first result (shared, caller-visible state)')
    if obj2 is not None:
        _poison(obj2)       # leave nothing usable behind for a third caller either
    return first


def impl_wrapper(cfg, s):
    """callbacks.tokenize under the configuration (called twice, see call_twice)"""
    set_cfg(cfg)
    tok = _mods()['callbacks'].tokenize
    return call_twice(lambda: tok(s))


def impl_tokenizer(cfg, s):
    """Tokenizer(brackets, pipe, quotes).tokenize: exception class kept"""
    try:
        r = _mods()['callbacks'].Tokenizer(brackets=cfg['brackets'], pipe=bool(cfg['pipe']), quotes=cfg['quotes']).tokenize(s)
    except Exception as e:
        return ('raise', exn_name(e))
    return ('ok', [canon_tree(x) for x in r])


def name_table(s):
    """the `named` oracle for this input: every \\N{...} candidate resolved by the real codec"""
    try:
        b = s.encode('utf8', 'surrogatepass')
    except Exception:
        return []
    return name_table_b(b)


def name_table_b(b):
    out, seen = [], set()
    for nm in re.findall(rb'N\{([^}]+)\}', b):
        if nm in seen:
            continue
        seen.add(nm)
        try:
            ch = codecs.getdecoder('unicode_escape')(b'\\N{' + nm + b'}')[0]
        except Exception:
            continue
        if len(ch) == 1:
            out.append([list(nm), ord(ch)])
    return out


def dec_tree(v):
    return ['L', wire.s(v[1])] if v[0] == 0 else ['N', [dec_tree(x) for x in v[1]]]


def dec_trees(v):
    return [dec_tree(x) for x in v]


def wire_case(op, cfg, s):
    return [op, [cfg['nested'], cfg['brackets'], cfg['pipe'], cfg['quotes'], name_table(s), s]]


def eff(cfg):
    """the Tokenizer arguments callbacks.tokenize derives from the configuration"""
    if cfg['nested']:
        return {'nested': 1, 'brackets': cfg['brackets'], 'pipe': cfg['pipe'], 'quotes': cfg['quotes']}
    return {'nested': 1, 'brackets': '', 'pipe': 0, 'quotes': cfg['quotes']}


# ---------------------------------------------------------------- oracles
def scalar_ok(a):
    return all(not (0xD800 <= ord(c) <= 0xDFFF) for c in a)


def irc_ok(a):
    return scalar_ok(a) and not any(c in a for c in '\0\r\n')


def mquote(a):
    return '"' + a.replace('\\', '\\\\').replace('"', '\\"') + '"'


def latin1_utf8(a):
    """the class of the repaired finding C13.F15 (kept to cross-check the model predicate dq_dom): non-ASCII, every code point < 256, and those code points are a valid UTF-8 byte string"""
    if not a or all(ord(c) < 128 for c in a) or any(ord(c) > 255 for c in a):
        return False
    try:
        bytes(map(ord, a)).decode('utf8')
        return True
    except UnicodeDecodeError:
        return False


def check_text(ctx, inp, mo0, mo1, kind):
    """one input string under one configuration: correspondence (wrapper and Tokenizer) + totality oracle"""
    cfg, s = inp['cfg'], inp['s']
    ctx.case(kind, inp, nontrivial=bool(s))
    iw = impl_wrapper(cfg, s)
    if mo0 is not None:
        mw = wire.r(mo0, dec_trees)
        if mw != iw:
            ctx.disagree(inp, mw, iw, 'callbacks.tokenize')
    if mo1 is not None:
        it = impl_tokenizer(eff(cfg), s)
        mt = wire.r(mo1, dec_trees)
        if mt != it:
            ctx.disagree(inp, mt, it, 'Tokenizer.tokenize')
    if iw[0] == 'bad':
        ctx.fail(inp, 'tokenize returned something that is not a tree of str: %s' % iw[1])
    elif iw[0] == 'repeat':
        ctx.fail(inp, 'tokenize is not a function of (configuration, text): %s' % iw[1])
    elif iw[0] == 'raise' and iw[1] != 'SyntaxError':
        ctx.fail(inp, 'tokenize raised %s instead of SyntaxError' % iw[1])


def check_args(ctx, inp):
    """argument list: minimal-quote and dqrepr round trips on the implementation"""
    cfg, args = inp['cfg'], inp['args']
    if '"' not in cfg['quotes']:
        return
    if inp['style'] == 'minimal':
        if not all(irc_ok(a) for a in args):
            return
        text = ' '.join(mquote(a) for a in args)
    else:
        text = ' '.join(_mods()['dqrepr'](a) for a in args)
    got = impl_wrapper(cfg, text)
    want = ('ok', [['L', a] for a in args])
    if got != want:
        ctx.fail(inp, '%s-quoted arguments %r written as %r tokenise to %r' % (inp['style'], args, text, got))


SPECIAL_ARGS = ['[', ']', '<', '>', '{', '}', '(', ')', '|', '"', '\\', "'", '`', ' ', '', '[]', ']]', '|x', '] [']
SPELLINGS = ['minimal', 'dqrepr', 'hex', 'octal', 'u4', 'mixed']


def spell(a, style, dqrepr=None):
    """one argument written between double quotes with backslash escaping, in the given spelling"""
    if style == 'minimal':
        return mquote(a)
    if style == 'dqrepr':
        return dqrepr(a)
    if style == 'hex':          # every character as \xHH (ASCII only; others raw)
        return '"' + ''.join('\\x%02x' % ord(c) if ord(c) < 128 else c for c in a) + '"'
    if style == 'octal':
        return '"' + ''.join('\\%03o' % ord(c) if ord(c) < 128 else c for c in a) + '"'
    if style == 'u4':
        return '"' + ''.join('\\u%04x' % ord(c) if ord(c) < 128 else c for c in a) + '"'
    if style == 'mixed':        # escape only what needs it, brackets/pipe as \xHH
        return '"' + ''.join('\\x%02x' % ord(c) if c in '[]<>{}()|' else ('\\' + c if c in '\\"' else c) for c in a) + '"'
    raise ValueError(style)


def spell_ok(a, style):
    """inputs for which the spelling is inside the property's quantifier"""
    if style == 'dqrepr':
        return True
    return irc_ok(a)


def nested_text(inp):
    """args rendered as quoted tokens inside `depth` levels of the configured brackets, between bare words"""
    cfg, args, style, depth = inp['cfg'], inp['args'], inp['style'], inp['depth']
    e = eff(cfg)
    l, r = e['brackets'][0], e['brackets'][1]
    dq = _mods()['dqrepr']
    body = ' '.join(spell(a, style, dq) for a in args)
    want = [['L', a] for a in args]
    lay = inp.get('layout', 'cmd')
    for d in range(depth):
        if lay == 'tight':        # [ARGS]
            body, want = l + body + r, [['N', want]]
        elif lay == 'cmd':        # [echo ARGS]
            body, want = l + 'echo ' + body + r, [['N', [['L', 'echo']] + want]]
        else:                     # [echo ARGS x] with spaces around the brackets
            body, want = l + ' echo ' + body + ' x ' + r, [['N', [['L', 'echo']] + want + [['L', 'x']]]]
    if inp.get('outer', True):
        body, want = 'outer ' + body + ' tail', [['L', 'outer']] + want + [['L', 'tail']]
    return body, want


def check_nested(ctx, inp):
    """the quote round trip wherever the quoted arguments are placed: inside nested commands of the configured bracket style"""
    cfg = inp['cfg']
    if '"' not in cfg['quotes'] or not eff(cfg)['brackets']:
        return None
    if not all(spell_ok(a, inp['style']) for a in inp['args']):
        return None
    text, want = nested_text(inp)
    got = impl_wrapper(cfg, text)
    if got != ('ok', want):
        ctx.fail(inp, '%s-quoted arguments %r placed in a nested command, written %r, tokenise to %r (expected %r)'
                 % (inp['style'], inp['args'], text, got, want))
    return text


def render(t, l, r):
    return t[1] if t[0] == 'L' else l + ' '.join(render(x, l, r) for x in t[1]) + r


def check_tree(ctx, inp):
    """bare-word tree rendered with the configured brackets gives exactly that nesting; with nesting off brackets are literal"""
    cfg, tr = inp['cfg'], inp['tree']
    e = eff(cfg)
    if e['brackets']:
        l, r = e['brackets'][0], e['brackets'][1]
        text = ' '.join(render(x, l + ' ' if inp.get('spaced') else l, ' ' + r if inp.get('spaced') else r) for x in tr)
        want = ('ok', tr)
        if inp.get('unbalanced') == 'unclosed':      # an opening bracket that is never closed: an error, not a tree
            text, want = text + ' ' + l + ' ' + text, ('raise', 'SyntaxError')
        elif inp.get('unbalanced') == 'spurious':    # a closing bracket that closes nothing, then anything
            text, want = text + ' ' + r + ' x "', ('raise', 'SyntaxError')
    else:
        text = ' '.join(render(x, '[', ']') for x in tr)
        want = ('ok', [['L', w] for w in text.split(' ') if w])
    got = impl_wrapper(cfg, text)
    if got != want:
        ctx.fail(inp, 'tree %r rendered %r tokenises to %r' % (tr, text, got))
    return text



# ---------------------------------------------------------------- per-channel / per-network configuration lookup
NET_OK, NET_GHOST, CHAN_OK, CHAN_BAD = 'vn0', 'ghostnet', '#v', 'notachannel'
LEVELS = ('chan', 'net', 'netchan')
LOOK_TEXT = 'e [a] <b> {c} (d) "q q" \'r r\' `s s` | f'


class _StubDriver(object):
    def reconnect(self, *a, **k):
        pass

    def die(self):
        pass


def _live():
    """a connected network NET_OK (world.getIrc finds it); NET_GHOST is never connected"""
    m = _mods()
    if 'live' not in _state:
        import supybot.irclib as irclib
        import supybot.world as world
        if world.getIrc(NET_OK) is None:
            m['conf'].registerNetwork(NET_OK)
            irc = irclib.Irc(NET_OK)
            irc.driver = _StubDriver()
        _state['live'] = True
    c = m['conf'].supybot.commands
    return {'brackets': c.nested.brackets, 'pipe': c.nested.pipeSyntax, 'quotes': c.quotes}


def _clear_specific(var):
    for name in (CHAN_OK, ':' + NET_OK):
        try:
            var.unregister(name)
        except Exception:
            pass


def impl_lookup(inp):
    """callbacks.tokenize(s, channel, network) with values set at the global / channel / network / network+channel level"""
    vars_ = _live()
    m = _mods()
    _state['cfg'] = None
    m['conf'].supybot.commands.nested.setValue(bool(inp['nested']))
    conv = {'brackets': lambda v: v, 'pipe': bool, 'quotes': lambda v: v}
    try:
        for k, var in vars_.items():
            _clear_specific(var)
            base, chan, net, netchan = inp['values'][k]
            var.setValue(conv[k](base))
            if chan is not None:
                var.get(CHAN_OK).setValue(conv[k](chan))
            if net is not None:
                var.get(':' + NET_OK).setValue(conv[k](net))
            if netchan is not None:
                var.get(':' + NET_OK).get(CHAN_OK).setValue(conv[k](netchan))
        return call_twice(lambda: m['callbacks'].tokenize(inp['s'], channel=inp['loc']['channel'], network=inp['loc']['network']))
    finally:
        for var in vars_.values():
            _clear_specific(var)
        _state['cfg'] = None


def lookup_flags(inp):
    n, c = inp['loc']['network'], inp['loc']['channel']
    _live()     # boots first: importing supybot before boot.boot() would load the pip-installed tree, not VERIF_REPO
    import supybot.ircutils as ircutils
    import supybot.world as world
    return [int(bool(n)), int(bool(n) and world.getIrc(n) is not None), int(bool(c)), int(bool(c) and bool(ircutils.isChannel(c)))]


def lookup_wire(inp):
    def store(k):
        base, chan, net, netchan = inp['values'][k]
        return [base, wire.opt(chan), wire.opt(net), wire.opt(netchan)]
    return [9, [inp['nested'], store('brackets'), store('pipe'), store('quotes'), lookup_flags(inp), name_table(inp['s']), inp['s']]]


def should_apply(inp):
    """the configuration that unambiguously SHOULD apply at this location, or None when values set at different
    applicable levels conflict (then only the correspondence with the model, which mirrors the code's precedence, is checked)"""
    fl = lookup_flags(inp)
    net, chan = bool(fl[1]), bool(fl[3])
    out = {'nested': inp['nested']}
    for k in ('brackets', 'pipe', 'quotes'):
        base, cv, nv, ncv = inp['values'][k]
        applicable = []
        if chan and cv is not None:
            applicable.append(cv)
        if net and nv is not None:
            applicable.append(nv)
        if net and chan and ncv is not None:
            applicable.append(ncv)
        if len(set(map(str, applicable))) > 1:
            return None
        out[k] = applicable[0] if applicable else base
    return out


def check_lookup(ctx, inp, mo):
    """configuration looked up for (channel, network): correspondence with the model + the tokenizer must behave as with the value that should apply"""
    got = impl_lookup(inp)
    if mo is not None:
        mw = wire.r(mo, dec_trees)
        if mw != got:
            ctx.disagree(inp, mw, got, 'callbacks.tokenize(s, channel, network)')
    if got[0] in ('bad', 'repeat') or (got[0] == 'raise' and got[1] != 'SyntaxError'):
        ctx.fail(inp, 'tokenize(s, channel, network) gave %r' % (got,))
    exp = should_apply(inp)
    if exp is not None:
        want = impl_wrapper({'nested': exp['nested'], 'brackets': exp['brackets'], 'pipe': int(bool(exp['pipe'])), 'quotes': exp['quotes']}, inp['s'])
        if got != want:
            ctx.fail(inp, 'in channel %r on network %r the settings brackets=%r pipe=%r quotes=%r apply (set for that channel/network), '
                          'but %r tokenises to %r instead of %r' % (inp['loc']['channel'], inp['loc']['network'], exp['brackets'], exp['pipe'],
                                                                   exp['quotes'], inp['s'], got, want))


def gen_lookups(ctx, rng):
    out = []
    locs = [{'network': n, 'channel': c} for n in (None, NET_OK, NET_GHOST) for c in (None, CHAN_OK, CHAN_BAD)]
    defaults = {'brackets': ['[]', None, None, None], 'pipe': [0, None, None, None], 'quotes': ['"', None, None, None]}
    # the seeded-change shape first: nesting disabled / another pair in one channel
    for v in ('', '<>', '{}'):
        for text in ('echo [echo hi]', 'echo <echo hi> {x}'):
            vals = dict(defaults, brackets=['[]', v, None, None])
            out.append({'op': 'lookup', 'nested': 1, 'values': vals, 'loc': {'network': NET_OK, 'channel': CHAN_OK}, 's': text})
    alts = {'brackets': ['', '<>', '{}', '()', '[]'], 'pipe': [1, 0], 'quotes': ["'", '`', '', '"\'', '"']}
    import itertools as it
    for k in ('brackets', 'pipe', 'quotes'):
        for mask in it.product((0, 1), repeat=3):
            for loc in locs:
                for variant in (0, 1):
                    base = defaults[k][0] if variant == 0 else alts[k][-1 - variant % len(alts[k])]
                    vals = dict((kk, list(vv)) for kk, vv in defaults.items())
                    vals[k] = [base] + [(alts[k][(i + variant) % len(alts[k])] if mask[i] else None) for i in range(3)]
                    out.append({'op': 'lookup', 'nested': 1, 'values': vals, 'loc': dict(loc), 's': LOOK_TEXT})
    for _ in range(ctx.n(300)):
        vals = {}
        for k in ('brackets', 'pipe', 'quotes'):
            vals[k] = [rng.choice(alts[k])] + [rng.choice(alts[k]) if rng.random() < 0.4 else None for _ in range(3)]
        out.append({'op': 'lookup', 'nested': 0 if rng.random() < 0.1 else 1, 'values': vals, 'loc': dict(rng.choice(locs)),
                    's': rng.choice([LOOK_TEXT, 'a [b <c {d (e)}>] "f" | g', rand_text(rng)])})
    return out


# ---------------------------------------------------------------- which configurations can exist
PROPERTY_BRACKETS = ('', '[]', '<>', '{}', '()')      # the property's quantifier: "for all bracket styles ([] <> {} ())"
PROPERTY_QUOTE_CHARS = '"\'`'                          # "... quote sets": conf.ValidQuotes' documented characters


def gen_domain(ctx, rng):
    vals = ['', '[]', '<>', '{}', '()', '"', "'", '`', '"\'', '`"\'', '""', 'a', '"a', ' ', '" ', '\\', '[', ']', '[]]', '][', '[)', '||',
            '  ', 'ab', '\u00ab\u00bb', '[]\n', ' []', '|', '\n', '\u00e9', '"[', '\x00', '"\x00', 'A', '"\t', '(]', '<>>', '\uff3b\uff3d', '\u201c']
    alpha = ['"', "'", '`', 'a', ' ', '\\', '[', ']', '<', '>', '{', '}', '(', ')', '|', '\n', '\u00e9']
    for _ in range(ctx.n(150)):
        vals.append(''.join(rng.choice(alpha) for _ in range(rng.randint(1, 3))))
    return [{'op': 'domain', 'value': v} for v in vals]


def _accepts(var, v, how):
    """does the registry accept v for var -- through setValue (Python API), set (config command, registry file) or on a channel-specific child"""
    old = var()
    try:
        if how == 'setValue':
            var.setValue(v)
        elif how == 'set':
            var.set(v)
        else:
            _live()
            try:
                child = var.get(CHAN_OK)
                child.set(v)
                return True, child()
            finally:
                _clear_specific(var)
        return True, var()
    except Exception:
        return False, None
    finally:
        var.setValue(old)
        _state['cfg'] = None


def check_domain(ctx, inp, mo):
    """every value conf accepts for brackets / quotes lies inside the configuration space the property quantifies over
    (and the theorems are stated for: cfg_valid); the model predicates agree with the real validators"""
    c = _mods()['conf'].supybot.commands
    v = inp['value']
    for how in ('setValue', 'set', 'child'):
        okb, stored = _accepts(c.nested.brackets, v, how)
        okq, storedq = _accepts(c.quotes, v, how)
        if okb and (stored not in PROPERTY_BRACKETS):
            ctx.fail(inp, 'supybot.commands.nested.brackets accepts %r (stored %r) via %s: not one of the bracket styles' % (v, stored, how))
        if okq and any(ch not in PROPERTY_QUOTE_CHARS for ch in storedq):
            ctx.fail(inp, 'supybot.commands.quotes accepts %r (stored %r) via %s: a quote set with other characters' % (v, storedq, how))
        if mo is not None and how == 'setValue' and [int(okb), int(okq)] != [int(bool(mo[0])), int(bool(mo[1]))]:
            ctx.disagree(inp, [int(bool(mo[0])), int(bool(mo[1]))], [int(okb), int(okq)], 'conf validators (brackets, quotes) vs brackets_valid/quotes_valid')

# ---------------------------------------------------------------- generators
QUOTES = ['"', '"', '"\'', '', '`"\'', "'"]


def cfgs_all():
    out = []
    for b in valid_brackets():
        for p in (0, 1):
            for q in ['"', '"\'', '']:
                out.append({'nested': 1, 'brackets': b, 'pipe': p, 'quotes': q})
    out.append({'nested': 0, 'brackets': '[]', 'pipe': 1, 'quotes': '"'})
    out.append({'nested': 0, 'brackets': '', 'pipe': 0, 'quotes': '`'})
    return out


def rand_cfg(rng):
    return {'nested': 0 if rng.random() < 0.1 else 1, 'brackets': rng.choice(valid_brackets()),
            'pipe': rng.choice([0, 1]), 'quotes': rng.choice(QUOTES)}


WORDS = ['a', 'foo', 'x', '8', 'N', 'u', 'U', '0', '7', '1f', 'e9', 'c3a9', '\u00e9', '\u597d', '\U0001f600', '\u00c2\u0080', '\u00c3\u00a9',
         '\u00e2\u0082\u00ac', '\u00c3', '\u0080', '\u00ff', '\ud800', '\udc80', '\x7f', '\x00', '\r', '\n', '\t', ' ', '  ', '"', "'", '`', '\\', '\\\\',
         '\\"', '[', ']', '<', '>', '{', '}', '(', ')', '|', '\\x', '\\u', '\\U', '\\N{', '}', '\\N{DIGIT ONE}', '\\N{bad}', '\\x41', '\\xe9',
         '\\xc3\\xa9', '\\u597d', '\\U0001f600', '\\U00110000', '\\ud800', '\\101', '\\777', '\\18', '\\q', '\\\n', '\\a\\b\\f\\v', '#', '$', 'it\'s']


def rand_text(rng):
    n = rng.choice([1, 2, 3, 4, 6, 9, 14])
    return ''.join(rng.choice(WORDS) for _ in range(n))


def rand_arg(rng):
    k = rng.random()
    if k < 0.25:
        return ''.join(rng.choice(['a', 'b', ' ', '"', '\\', '[', ']', '|', "'", 'x41', 'n', '\t', '~', '\x7f', '\x01']) for _ in range(rng.randint(0, 6)))
    if k < 0.5:     # Latin-1 range, biased to byte patterns that are valid UTF-8
        return ''.join(rng.choice(['\u00c2\u0080', '\u00c3\u00a9', '\u00e2\u0082\u00ac', '\u00f0\u009f\u0098\u0080', '\u00e9', '\u00c3', '\u0080', 'a', ' ',
                                   '\u00ff', '\u00c0\u0080', '\u00ed\u00a0\u0080', '\u00df\u00bf']) for _ in range(rng.randint(1, 4)))
    if k < 0.75:
        return ''.join(rng.choice(['\u597d', '\u00e9', '\U0001f600', 'a', '\\', '"', ' ', '\u0100', '\uffff', '\U0010ffff', '\u07ff', '\u0800']) for _ in range(rng.randint(1, 5)))
    if k < 0.85:
        return ''.join(rng.choice(['\ud800', '\udfff', 'a', '\u00e9', '\x00', '\r', '\n']) for _ in range(rng.randint(1, 3)))
    return ''.join(chr(rng.choice([rng.randrange(0, 0x80), rng.randrange(0x80, 0x100), rng.randrange(0x100, 0x800), rng.randrange(0x800, 0xD800),
                                   rng.randrange(0xE000, 0x10000), rng.randrange(0x10000, 0x110000)])) for _ in range(rng.randint(1, 5)))


def rand_tree(rng, depth, cfg):
    bad = set(' \t\r\n\0|' + ''.join(valid_brackets()) + '"\'`')
    def word():
        while True:
            w = ''.join(rng.choice(['a', 'b', 'foo', '\u00e9', '\u597d', '\\', '8', '-', '.', '#', ':', 'x']) for _ in range(rng.randint(1, 3)))
            if not (set(w) & bad):
                return w
    def node(d):
        if d == 0 or rng.random() < 0.55:
            return ['L', word()]
        return ['N', [node(d - 1) for _ in range(rng.randint(0 if d < depth else 1, 3))]]
    return [node(depth) for _ in range(rng.randint(1, 4))]


CORPUS = ['echo hello "$1" [echo $1]', 'echo $* | echo @1', 'outer ["echo" "a" "]" "b"] tail', 'outer [echo "["] tail', '[echo "\\x5d"]', '["\\x5b"]', '<echo ">" "<">', '{"}"}', '(")" "(")',
          '[echo "|"]', '[a "]" [b "["]]', '["]"', '["\\135"]', '["\\u005d"]', '[echo "a]b"]', '["\\"" "]"]', '', ' ', 'a', 'a b', '"a b" c', '"a\\"b"', '"\\\\"', '"a', '"a\\', '"a\\"', 'a"b', 'a"b c"', '[a]', '[a', 'a]', '[[a] b] c', '[]', 'a[b]c', 'a|b',
          'a | b', '| a', 'a |', 'a | b | c', 'a | b | c | d', '[a | b]', '"\u597d"', '"\u00c2\u0080"', '"\\xc2\\x80"', '"\\x80"', '"\\xe9"', '"\ud800"', '\ud800',
          '"\\N{DIGIT ONE}"', '"\\N{nope}"', '"\\N"', '"\\x4"', '"\\U00110000"', '"\\777"', '"\\18"', '"\\q"', 'a\x00b', '\x00', '"\x00"', 'a\rb\nc', '""', '"" ""',
          "'a b'", "a'b c'd", '"a\'b"', '`a b`', '"a"b', '"a""b"', 'a\\ b', '\\', '"\\\n"', '<a>', '{a}', '(a)', '[<a>]', '"\\u00e9\\u597d\\U0001f600"',
          '"\\x"', '"\\u12"', '"\\1"', '"\\12"', '"\\123"', '"\\1234"', '"\\0"', '"\\8"', '"\\N{LATIN SMALL LETTER E WITH ACUTE}x"', '"[" "]" "|"', '"a|b" | c']

ARG_CORPUS = [['\u00c2\u0080'], ['\u00c3\u00a9'], ['a', 'b c'], ['"', '\\', '\\"', ' '], ['[a]', 'x|y', ']'], ['\u597d'], ['\u00e9'], [''], ['', ''],
              ['\x80'], ['\u00e2\u0082\u00ac'], ['it\'s'], ['\\x41'], ['\\N{DIGIT ONE}'], ['a\tb'], ['\x7f\x01'], ['\U0001f600 \u00ff'], ['\udc80'], ['\\\\', '""']]


def run(ctx):
    rng = ctx.rng
    doms = gen_domain(ctx, rng)
    do = ctx.model([[10, [d['value'], d['value']]] for d in doms])
    for d, mo in zip(doms, do):
        ctx.case('config-domain', d, nontrivial=bool(d['value']))
        check_domain(ctx, d, mo)
    lookups = gen_lookups(ctx, rng)
    lo = ctx.model([lookup_wire(inp) for inp in lookups])
    for inp, mo in zip(lookups, lo):
        ctx.case('lookup', inp)
        check_lookup(ctx, inp, mo)
    default = {'nested': 1, 'brackets': '[]', 'pipe': 0, 'quotes': '"'}
    piped = {'nested': 1, 'brackets': '[]', 'pipe': 1, 'quotes': '"'}
    texts = []      # (cfg, s, kind)
    allc = cfgs_all()
    for s in CORPUS:
        for c in allc:
            texts.append((c, s, 'corpus'))
    maxlen = 4 if ctx.scale == 1 else 5
    ex_cfgs = [default, piped] if ctx.scale == 1 else [default, piped, {'nested': 1, 'brackets': '', 'pipe': 1, 'quotes': '"\''}]
    for n in range(1, maxlen + 1):
        for t in itertools.product(ALPHA, repeat=n):
            s = ''.join(t)
            for c in ex_cfgs:
                texts.append((c, s, 'exhaustive-len%d' % n))
    ctx.exhaustive = True
    ctx.notes.append('strings over %r exhaustive up to length %d under %d configurations' % (''.join(ALPHA), maxlen, len(ex_cfgs)))
    for _ in range(ctx.n(6000)):
        texts.append((rand_cfg(rng), rand_text(rng), 'hostile'))
    # escape fuzz inside double quotes
    esc = []
    for a in range(256):
        esc.append('\\' + chr(a))
    for h in '0123456789abcdefABCDEFgG ':
        for h2 in '09afAFg"':
            esc.append('\\x' + h + h2)
    for body in ['\\u', '\\u1', '\\u12', '\\u123', '\\u1234', '\\ud7ff', '\\udfff', '\\uffff', '\\U', '\\U0010ffff', '\\U00110000', '\\Uffffffff',
                 '\\U0001f60', '\\U0001F600x', '\\0', '\\00', '\\000', '\\0000', '\\377', '\\400', '\\777', '\\78', '\\7\\7', '\\1\\', '\\12"', '\\N{}',
                 '\\N{', '\\N{a', '\\N{DIGIT ONE', '\\N{DIGIT ONE}}', '\\N{digit one}', '\\N{\u00e9}', '\\N {DIGIT ONE}', '\\N{DIGIT ONE}\\N{DIGIT TWO}']:
        esc.append(body)
    for _ in range(ctx.n(1500)):
        esc.append(''.join(rng.choice(['\\', 'x', 'u', 'U', 'N', '{', '}', '0', '7', '8', 'a', 'f', 'F', 'n', '\u00e9', '\u00c3\u00a9', '\n', "'", '1', ' ']) for _ in range(rng.randint(1, 9))))
    for b in esc:
        texts.append((default, '"' + b + '"', 'escape-fuzz'))
    # argument lists, both quoting styles
    arglists = [(default, a) for a in ARG_CORPUS] + [(piped, a) for a in ARG_CORPUS]
    for _ in range(ctx.n(2500)):
        c = rand_cfg(rng)
        if rng.random() < 0.8:
            c['quotes'] = rng.choice(['"', '"\'', '`"\''])
        arglists.append((c, [rand_arg(rng) for _ in range(rng.randint(1, 4))]))
    argcases = []
    for c, args in arglists:
        for style in ('minimal', 'dqrepr'):
            inp = {'op': 'args', 'cfg': c, 'args': args, 'style': style}
            argcases.append(inp)
            if '"' in c['quotes']:
                texts.append((c, ' '.join(mquote(a) for a in args) if style == 'minimal' else ' '.join(_mods()['dqrepr'](a) for a in args), 'rendered-' + style))
    # quoted argument lists placed inside nested commands (every bracket style, every spelling)
    nestcases = []
    styles_b = [b for b in valid_brackets() if b]
    for b in styles_b:
        for p in (0, 1):
            c = {'nested': 1, 'brackets': b, 'pipe': p, 'quotes': '"'}
            for a in SPECIAL_ARGS:
                for st in SPELLINGS:
                    for args in ([a], ['a', a, 'b']):
                        for depth, lay in ((1, 'cmd'), (1, 'tight'), (2, 'spaced')):
                            nestcases.append({'op': 'nested', 'cfg': c, 'args': args, 'style': st, 'depth': depth, 'layout': lay,
                                              'outer': lay != 'tight'})
    for _ in range(ctx.n(2500)):
        c = rand_cfg(rng)
        c['nested'] = 1
        c['brackets'] = rng.choice(styles_b)
        if rng.random() < 0.85:
            c['quotes'] = rng.choice(['"', '"\'', '`"\''])
        args = [rng.choice(SPECIAL_ARGS) if rng.random() < 0.5 else rand_arg(rng) for _ in range(rng.randint(0, 4))]
        nestcases.append({'op': 'nested', 'cfg': c, 'args': args, 'style': rng.choice(SPELLINGS), 'depth': rng.choice([1, 1, 2, 3]),
                          'layout': rng.choice(['cmd', 'tight', 'spaced']), 'outer': rng.random() < 0.7})
    for inp in nestcases:
        texts.append((inp['cfg'], nested_text(inp)[0], 'rendered-nested'))
    # bare-word trees
    treecases = []
    for _ in range(ctx.n(1500)):
        c = rand_cfg(rng)
        inp = {'op': 'tree', 'cfg': c, 'tree': rand_tree(rng, rng.choice([1, 2, 3, 5]), c), 'spaced': rng.random() < 0.3}
        if rng.random() < 0.25:
            inp['unbalanced'] = rng.choice(['unclosed', 'spurious'])
        treecases.append(inp)
    deep = {'op': 'tree', 'cfg': default, 'tree': [['L', 'a']], 'spaced': False}
    for _ in range(200):
        deep['tree'] = [['N', deep['tree'] + [['L', 'b']]]]
    treecases.append(deep)

    # --- run texts: model batched
    o0 = ctx.model([wire_case(0, c, s) for c, s, _ in texts])
    o1 = ctx.model([wire_case(1, eff(c), s) for c, s, _ in texts])
    order = sorted(range(len(texts)), key=lambda i: wire.enc([texts[i][0][k] for k in ('nested', 'brackets', 'pipe', 'quotes')]))
    for i in order:
        c, s, kind = texts[i]
        check_text(ctx, {'op': 'text', 'cfg': c, 's': s}, o0[i], o1[i], kind)
    for inp in argcases:
        ctx.case('args-' + inp['style'], inp, nontrivial=bool(inp['args']))
        check_args(ctx, inp)
    for inp in nestcases:
        ctx.case('nested-' + inp['style'], inp, nontrivial=bool(inp['args']))
        check_nested(ctx, inp)
    for inp in treecases:
        ctx.case('tree', inp)
        check_tree(ctx, inp)
    tt = [(inp['cfg'], ' '.join(render(x, (eff(inp['cfg'])['brackets'] or '[]')[0], (eff(inp['cfg'])['brackets'] or '[]')[1]) for x in inp['tree'])) for inp in treecases]
    ot = ctx.model([wire_case(0, c, s) for c, s in tt])
    for (c, s), mo in zip(tt, ot):
        if mo is not None:
            iw, mw = impl_wrapper(c, s), wire.r(mo, dec_trees)
            if iw != mw:
                ctx.disagree({'op': 'text', 'cfg': c, 's': s}, mw, iw, 'callbacks.tokenize (rendered tree)')

    # --- primitives against CPython directly
    # dqrepr + dq_dom + minimal_quote
    allargs = sorted({a for _, args in arglists for a in args})
    od = ctx.model([[2, a] for a in allargs])
    om = ctx.model([[7, a] for a in allargs])
    odom = ctx.model([[6, a] for a in allargs])
    for a, d, m, dm in zip(allargs, od, om, odom):
        inp = {'op': 'dqrepr', 'arg': a}
        ctx.case('dqrepr-model', inp, nontrivial=bool(a))
        if d is None:
            continue
        if wire.s(d) != _mods()['dqrepr'](a):
            ctx.disagree(inp, wire.s(d), _mods()['dqrepr'](a), 'utils.str.dqrepr')
        if wire.s(m) != mquote(a):
            ctx.disagree(inp, wire.s(m), mquote(a), 'minimal_quote (harness rendering)')
        if bool(dm) != (not latin1_utf8(a)):
            ctx.disagree(inp, bool(dm), not latin1_utf8(a), 'dq_dom vs class predicate latin1_utf8')
    # unicode_escape_decode on raw bytes
    raws = [b.encode('utf8', 'surrogatepass') for b in esc]
    for _ in range(ctx.n(1500)):
        raws.append(bytes(rng.choice([92, 92, 120, 117, 85, 78, 123, 125, 48, 55, 56, 97, 102, 70, 10, 34, 39, 0xc3, 0xa9, 0x80, 0xff, 110]) for _ in range(rng.randint(0, 10))))
    ou = ctx.model([[3, [name_table_b(b), b]] for b in raws])
    for b, mo in zip(raws, ou):
        inp = {'op': 'ued', 'bytes': list(b)}
        ctx.case('unicode_escape-model', inp, nontrivial=bool(b))
        try:
            ir = ('ok', codecs.getdecoder('unicode_escape')(b)[0])
        except UnicodeError:
            ir = ('raise', 'UnicodeError')
        if mo is not None and wire.r(mo, wire.s) != ir:
            ctx.disagree(inp, wire.r(mo, wire.s), ir, 'codecs unicode_escape decode')
    # utf8 decode/encode
    bs = [bytes(t) for n in (1, 2, 3) for t in itertools.product([0x00, 0x7f, 0x80, 0xbf, 0xc0, 0xc1, 0xc2, 0xdf, 0xe0, 0xe1, 0xec, 0xed, 0xee, 0xef, 0xf0, 0xf1,
                                                                     0xf4, 0xf5, 0xff, 0x8f, 0x90, 0x9f, 0xa0], repeat=n)]
    for _ in range(ctx.n(3000)):
        bs.append(bytes(rng.choice([0x41, 0x80, 0xbf, 0xc2, 0xe0, 0xa0, 0x9f, 0xed, 0xf0, 0x90, 0x8f, 0xf4, 0xf3, 0xef, 0xe2, 0x82, 0xac, rng.randrange(256)]) for _ in range(rng.randint(1, 6))))
    ob = ctx.model([[4, b] for b in bs])
    for b, mo in zip(bs, ob):
        inp = {'op': 'utf8', 'bytes': list(b)}
        ctx.case('utf8-decode-model', inp)
        try:
            ir = ('ok', b.decode('utf8'))
        except UnicodeDecodeError:
            ir = ('raise', 'UnicodeError')
        if mo is not None and wire.r(mo, wire.s) != ir:
            ctx.disagree(inp, wire.r(mo, wire.s), ir, 'bytes.decode(utf8)')
    cps = [[c] for c in [0, 0x7f, 0x80, 0x7ff, 0x800, 0xd7ff, 0xd800, 0xdfff, 0xe000, 0xffff, 0x10000, 0x10ffff]] + [list(map(ord, a)) for a in allargs[:2000]]
    oe = ctx.model([[5, c] for c in cps])
    for c, mo in zip(cps, oe):
        inp = {'op': 'utf8enc', 'cps': c}
        ctx.case('utf8-encode-model', inp)
        try:
            ir = ('ok', list(''.join(map(chr, c)).encode('utf8')))
        except UnicodeEncodeError:
            ir = ('raise', 'UnicodeError')
        if mo is not None and wire.r(mo, list) != ir:
            ctx.disagree(inp, wire.r(mo, list), ir, 'str.encode(utf8)')


def replay(ctx, inp):
    sub = type(ctx)(ctx.pid, ctx.tier, ctx.seed, {'model_ok': False})
    op = inp.get('op')
    if op == 'text':
        check_text(sub, inp, None, None, 'replay')
    elif op == 'args':
        check_args(sub, inp)
    elif op == 'tree':
        check_tree(sub, inp)
    elif op == 'nested':
        check_nested(sub, inp)
    elif op == 'lookup':
        check_lookup(sub, inp, None)
    elif op == 'domain':
        check_domain(sub, inp, None)
    return sub.failures[0]['detail'] if sub.failures else None


CLASSES = {}     # C13.F15 (dqrepr of Latin-1 text that is valid UTF-8) is repaired: nothing is attributed to it any more


def shrink(ctx, inp):
    op = inp.get('op')
    if op == 'lookup':
        small = shrink_seq(inp['s'], lambda t: replay(ctx, dict(inp, s=t)) is not None)
        return dict(inp, s=small)
    if op == 'text':
        small = shrink_seq(inp['s'], lambda s: replay(ctx, dict(inp, s=s)) is not None)
        return dict(inp, s=small)
    if op in ('args', 'nested'):
        args = shrink_seq(inp['args'], lambda a: bool(a) and replay(ctx, dict(inp, args=list(a))) is not None)
        args = list(args)
        for i in range(len(args)):
            args[i] = shrink_seq(args[i], lambda a: replay(ctx, dict(inp, args=args[:i] + [a] + args[i + 1:])) is not None)
        return dict(inp, args=args)
    return inp
